(* Leaf encoding with the datatype layer plugged in: DT/TM/DTM/NM/SI go through the implementation-
   shaped factory model of Model/Datatypes.v (C13), everything else through Model/Leaf.v.
   Model/Leaf.v stays the function the round-trip theorems (C01/C02) speak about; the two agree
   wherever the datatype is not one of the five (lemma below). *)
From Coq Require Import List Bool ZArith NArith Init.Byte.
From HL7 Require Import Lib.Str Model.Ec Model.Escape Model.Result Model.Tree Model.Leaf Gen.Params.
From HL7 Require Model.Datatypes.
Import ListNotations.
Open Scope bs_scope.

Definition dlevel (l : level) : Datatypes.level :=
  match l with STRICT => Datatypes.STRICT | TOLERANT => Datatypes.TOLERANT end.

Definition is_five (k : dtkind) : bool :=
  match k with KDT | KTM | KDTM | KNM | KSI => true | _ => false end.

(* TN.__init__: re.match(r'(\d\d\s)?(\(\d+\))?(\d+-?\d+)(X\d+)?(B\d+)?(C.+)?', value) - a prefix match with
   backtracking over the two optional leading groups *)
Definition tn_core (s : str) : bool :=      (* \d+-?\d+ matches a prefix *)
  match s with
  | d :: r => is_digit d &&
              match r with
              | d2 :: r2 => is_digit d2 || (beqb d2 "-" && match r2 with d3 :: _ => is_digit d3 | [] => false end)
              | [] => false
              end
  | [] => false
  end.
Fixpoint skip_digits (s : str) : str := match s with c :: r => if is_digit c then skip_digits r else s | [] => [] end.
Definition tn_try (s : str) : bool :=       (* (\(\d+\))? then the core *)
  tn_core s ||
  match s with
  | p :: (d :: _) as r => beqb p "(" && is_digit d &&
                          match skip_digits r with q :: r' => beqb q ")" && tn_core r' | [] => false end
  | _ => false
  end.
Definition tn_ok (s : str) : bool :=
  tn_try s ||
  match s with
  | a :: b :: c :: r => is_digit a && is_digit b && is_space c && tn_try r
  | _ => false
  end.

Definition leaf_enc_full (v : str) (lvl : level) (e : ec) (dt : option str) (s : str) : result str :=
  match dt with
  | None => Err (HL7 EOtherHL7)
  | Some d =>
      match dt_row v d with
      | Some (k, _) =>
          if is_five k then
            match Datatypes.factory v (dlevel lvl) d e s with
            | Ok (_, t) => Ok t
            | Err x => Err x
            end
          else match k with
               | KTN _ =>
                   (* ValueError from the TN constructor: STRICT raises, TOLERANT falls back to ST *)
                   if tn_ok s then leaf_enc v lvl e dt s
                   else if is_strict lvl then Err PyValueError
                   else Ok (escape (st_family v) e s)
               | _ => leaf_enc v lvl e dt s
               end
      | None => leaf_enc v lvl e dt s
      end
  end.

Lemma leaf_enc_full_other v lvl e d s k mx :
  dt_row v d = Some (k, mx) -> is_five k = false -> (forall f, k <> KTN f) ->
  leaf_enc_full v lvl e (Some d) s = leaf_enc v lvl e (Some d) s.
Proof. intros H K T. unfold leaf_enc_full. rewrite H, K. destruct k; auto. now destruct (T family). Qed.
