(* C19 - a small-step model of threads as lists of atomic actions over a store of named maps.
   DEFINITIONS ONLY (facts are in Proofs/SchedFacts.v, theorems in Properties/C19.v).

   What is modelled: the dict operations hl7apy performs on process-wide objects (SUPPORTED_LIBRARIES,
   the BASE_DATATYPES dict of each version module, sys.modules through importlib) and on objects
   that are private to one call (the per-call copy `factories`, a Group's own `child_classes`, a
   datatype object's own `highlights`).  A thread is a straight-line list of actions; one action is
   atomic; a schedule is a list of thread ids, each occurrence runs ONE action of that thread.

   Names: `Glob lib m` is the module-level name m of module lib (always denotes the shared dict
   (lib, m)); `Loc x` is a local variable of the running call, resolved through the thread's own
   environment.  `Alias m x` binds x to the SAME dict as m (Python `x = m`), `Copy m x` binds x to
   a FRESH dict private to the thread holding the current contents of m (Python `x = m.copy()`).
   Values are plain strings (class / function names); maps never contain references, so a private
   dict cannot escape its thread.

   ImportLib l is importlib.import_module: the first import executes the module, which creates its
   module-level maps from the source "on disk" (`image`), later imports find it in the table of
   loaded libraries and change nothing.  One ImportLib is one atomic action (= the import lock). *)
From Coq Require Import List Bool Arith Init.Byte.
From HL7 Require Import Lib.Str.
Import ListNotations.
Open Scope bs_scope.

(* ---------- maps ---------- *)
Definition dict := list (str * str).
Definition mget (k : str) (m : dict) : option str := slookup k m.
Fixpoint mset (k v : str) (m : dict) : dict :=
  match m with
  | [] => [(k, v)]
  | (k', v') :: r => if streqb k k' then (k, v) :: r else (k', v') :: mset k v r
  end.

(* ---------- syntax ---------- *)
Inductive ref := RShared (l m : str) | RLocal (i : nat).
Inductive name := Glob (l m : str) | Loc (x : str).

Inductive action :=
| Lookup (m : name) (k : str)          (* m[k]            -> OVal (Some v) | OVal None (KeyError)   *)
| Contains (m : name) (k : str)        (* k in m          -> OHas b                                   *)
| Copy (m : name) (x : str)            (* x = m.copy()    fresh dict, private to the thread            *)
| Alias (m : name) (x : str)           (* x = m           x names the SAME dict                        *)
| New (x : str) (init : dict)           (* x = {...}       fresh dict, private to the thread            *)
| Write (m : name) (k v : str)         (* m[k] = v                                                    *)
| ImportLib (l : str).                 (* importlib.import_module(l) -> OLib l found                  *)

Inductive obs :=
| OVal (v : option str)
| OHas (b : bool)
| OUnbound                             (* the name denotes no dict (NameError / AttributeError)        *)
| OLib (l : str) (found : bool).

(* ---------- state ---------- *)
(* the source of every library: module name -> the module-level maps its execution creates *)
Definition image := str -> option (list (str * dict)).

Record store := mkStore {
  sh : str -> str -> option dict;       (* shared maps, by (module, name) *)
  libs : list str                      (* loaded libraries (sys.modules) *)
}.
Definition loaded (S : store) (l : str) : bool := smem l (libs S).

Definition env := list (str * ref).    (* local names of one thread, newest binding first *)

Record tstate := mkT {
  prog : list action;                  (* what is left to run *)
  tenv : env;
  lheap : nat -> option dict;           (* the thread's private maps *)
  next : nat;                          (* next private dict number *)
  trace : list obs                     (* what the thread has observed so far = its results *)
}.

Definition threads := list tstate.
Definition results := list (list obs).
Definition thread_id := nat.

Definition init_thread (p : list action) : tstate := mkT p [] (fun _ => None) 0 [].
Definition init_threads (ps : list (list action)) : threads := List.map init_thread ps.

(* ---------- one action ---------- *)
Definition resolve (e : env) (n : name) : option ref :=
  match n with Glob l m => Some (RShared l m) | Loc x => slookup x e end.

Definition deref (S : store) (lh : nat -> option dict) (r : ref) : option dict :=
  match r with RShared l m => sh S l m | RLocal i => lh i end.

Definition read (S : store) (ts : tstate) (n : name) : option dict :=
  match resolve (tenv ts) n with None => None | Some r => deref S (lheap ts) r end.

Definition sh_set (h : str -> str -> option dict) (l m : str) (v : option dict) : str -> str -> option dict :=
  fun l' m' => if streqb l' l && streqb m' m then v else h l' m'.
Definition sh_load (h : str -> str -> option dict) (l : str) (im : list (str * dict)) : str -> str -> option dict :=
  fun l' m' => if streqb l' l then slookup m' im else h l' m'.
Definition lh_set (h : nat -> option dict) (i : nat) (v : option dict) : nat -> option dict :=
  fun j => if Nat.eqb j i then v else h j.

(* the environment and allocation counter after an action: independent of every dict's contents *)
Definition env_after (e : env) (nx : nat) (a : action) : env * nat :=
  match a with
  | Copy _ x | New x _ => ((x, RLocal nx) :: e, S nx)
  | Alias n x => match resolve e n with Some r => ((x, r) :: e, nx) | None => (e, nx) end
  | _ => (e, nx)
  end.

Definition obs_of (img : image) (S : store) (ts : tstate) (a : action) : list obs :=
  match a with
  | Lookup n k => [match read S ts n with None => OUnbound | Some m => OVal (mget k m) end]
  | Contains n k => [match read S ts n with None => OUnbound
                                          | Some m => OHas (match mget k m with Some _ => true | None => false end) end]
  | ImportLib l => [OLib l (match img l with Some _ => true | None => false end)]
  | _ => []
  end.

Definition lheap_after (S : store) (ts : tstate) (a : action) : nat -> option dict :=
  match a with
  | Copy n _ => lh_set (lheap ts) (next ts) (read S ts n)
  | New _ init => lh_set (lheap ts) (next ts) (Some init)
  | Write n k v => match resolve (tenv ts) n with
                   | Some (RLocal i) => lh_set (lheap ts) i (option_map (mset k v) (lheap ts i))
                   | _ => lheap ts
                   end
  | _ => lheap ts
  end.

Definition store_after (img : image) (S : store) (e : env) (a : action) : store :=
  match a with
  | Write n k v => match resolve e n with
                   | Some (RShared l m) => mkStore (sh_set (sh S) l m (option_map (mset k v) (sh S l m))) (libs S)
                   | _ => S
                   end
  | ImportLib l => match img l with
                   | Some im => if loaded S l then S else mkStore (sh_load (sh S) l im) (l :: libs S)
                   | None => S
                   end
  | _ => S
  end.

Definition step (img : image) (S : store) (ts : tstate) : store * tstate :=
  match prog ts with
  | [] => (S, ts)
  | a :: rest =>
      (store_after img S (tenv ts) a,
       mkT rest (fst (env_after (tenv ts) (next ts) a)) (lheap_after S ts a)
           (snd (env_after (tenv ts) (next ts) a)) (trace ts ++ obs_of img S ts a))
  end.

(* ---------- schedules ---------- *)
Fixpoint set_nth {A} (i : nat) (x : A) (l : list A) : list A :=
  match l, i with
  | [], _ => []
  | _ :: r, 0 => x :: r
  | y :: r, S j => y :: set_nth j x r
  end.

Definition config := (store * threads)%type.

Definition sched_step (img : image) (c : config) (t : thread_id) : config :=
  match nth_error (snd c) t with
  | None => c
  | Some ts => (fst (step img (fst c) ts), set_nth t (snd (step img (fst c) ts)) (snd c))
  end.

Definition run (img : image) (c : config) (sched : list thread_id) : config :=
  fold_left (sched_step img) sched c.

Definition run_schedule (img : image) (S : store) (sched : list thread_id) (T : threads) : store * results :=
  (fst (run img (S, T) sched), List.map trace (snd (run img (S, T) sched))).

Definition result_of (t : thread_id) (r : store * results) : list obs := nth t (snd r) [].

(* the solo run belonging to a schedule: the same number of steps of thread t and of nobody else *)
Definition solo (t : thread_id) (sched : list thread_id) : list thread_id := filter (Nat.eqb t) sched.
(* the solo run to completion *)
Definition solo_complete (t : thread_id) (ps : list (list action)) : list thread_id :=
  repeat t (length (nth t ps [])).
Definition count (t : thread_id) (sched : list thread_id) : nat := length (solo t sched).
Definition complete (ps : list (list action)) (sched : list thread_id) : bool :=
  forallb (fun t => length (nth t ps []) <=? count t sched) (seq 0 (length ps)).

(* ---------- static footprint ---------- *)
(* which shared maps an action touches, (is_write, (module, name)); a function of the environment only *)
Definition access := (bool * (str * str))%type.

Definition touch (e : env) (a : action) : list access :=
  match a with
  | Lookup n _ | Contains n _ | Copy n _ =>
      match resolve e n with Some (RShared l m) => [(false, (l, m))] | _ => [] end
  | Write n _ _ =>
      match resolve e n with Some (RShared l m) => [(true, (l, m))] | _ => [] end
  | _ => []
  end.

Fixpoint fp (e : env) (nx : nat) (p : list action) : list access :=
  match p with
  | [] => []
  | a :: r => touch e a ++ fp (fst (env_after e nx a)) (snd (env_after e nx a)) r
  end.

Definition tfp (ts : tstate) : list access := fp (tenv ts) (next ts) (prog ts).

Definition same (x y : str * str) : bool := streqb (fst x) (fst y) && streqb (snd x) (snd y).
Definition pmem (x : str * str) (l : list (str * str)) : bool := existsb (same x) l.
Definition writes_of (f : list access) : list (str * str) := List.map snd (filter fst f).
Definition reach_of (f : list access) : list (str * str) := List.map snd f.

(* no dict written by the first footprint is reachable from the second *)
Definition disjoint_wr (fw fr : list access) : bool :=
  forallb (fun w => negb (pmem w (reach_of fr))) (writes_of fw).

Definition indexed {A} (l : list A) : list (nat * A) := combine (seq 0 (length l)) l.

(* PREMISE 1: no action of any thread writes a shared dict that another thread can reach *)
Definition no_shared_writes_fp (F : list (list access)) : bool :=
  forallb (fun u => forallb (fun t => Nat.eqb (fst u) (fst t) || disjoint_wr (snd u) (snd t)) (indexed F))
          (indexed F).
Definition no_shared_writes (T : threads) : bool := no_shared_writes_fp (List.map tfp T).

(* PREMISE 2: a thread touches a dict of library l only when l was loaded at the start or the thread
   itself has imported l before (and the import found the library) *)
Definition ld_after (img : image) (ld : str -> bool) (a : action) : str -> bool :=
  match a with
  | ImportLib l => match img l with Some _ => fun x => streqb x l || ld x | None => ld end
  | _ => ld
  end.

Fixpoint scoped (img : image) (ld : str -> bool) (e : env) (nx : nat) (p : list action) : bool :=
  match p with
  | [] => true
  | a :: r => forallb (fun t : access => ld (fst (snd t))) (touch e a) &&
              scoped img (ld_after img ld a) (fst (env_after e nx a)) (snd (env_after e nx a)) r
  end.

Definition imports_before_use (img : image) (S : store) (T : threads) : bool :=
  forallb (fun ts => scoped img (loaded S) (tenv ts) (next ts) (prog ts)) T.

(* ---------- resolved action lists (what an instrumented dict can observe) ---------- *)
Inductive raction :=
| RLookup (r : ref) (k : str)
| RContains (r : ref) (k : str)
| RCopy (r : ref) (i : nat)
| RNew (i : nat)
| RWrite (r : ref) (k v : str)
| RImport (l : str)
| RUnbound.

Definition rresolve (e : env) (nx : nat) (a : action) : list raction :=
  match a with
  | Lookup n k => [match resolve e n with Some r => RLookup r k | None => RUnbound end]
  | Contains n k => [match resolve e n with Some r => RContains r k | None => RUnbound end]
  | Copy n _ => [match resolve e n with Some r => RCopy r nx | None => RUnbound end]
  | Alias _ _ => []
  | New _ _ => [RNew nx]
  | Write n k v => [match resolve e n with Some r => RWrite r k v | None => RUnbound end]
  | ImportLib l => [RImport l]
  end.

Fixpoint resolved (e : env) (nx : nat) (p : list action) : list raction :=
  match p with
  | [] => []
  | a :: r => rresolve e nx a ++ resolved (fst (env_after e nx a)) (snd (env_after e nx a)) r
  end.

Definition ref_eqb (a b : ref) : bool :=
  match a, b with
  | RShared l m, RShared l' m' => streqb l l' && streqb m m'
  | RLocal i, RLocal j => Nat.eqb i j
  | _, _ => false
  end.
Definition raction_eqb (a b : raction) : bool :=
  match a, b with
  | RLookup r k, RLookup r' k' => ref_eqb r r' && streqb k k'
  | RContains r k, RContains r' k' => ref_eqb r r' && streqb k k'
  | RCopy r i, RCopy r' i' => ref_eqb r r' && Nat.eqb i i'
  | RNew i, RNew i' => Nat.eqb i i'
  | RWrite r k v, RWrite r' k' v' => ref_eqb r r' && streqb k k' && streqb v v'
  | RImport l, RImport l' => streqb l l'
  | RUnbound, RUnbound => true
  | _, _ => false
  end.
Fixpoint ractions_eqb (a b : list raction) : bool :=
  match a, b with
  | [], [] => true
  | x :: r, y :: s => raction_eqb x y && ractions_eqb r s
  | _, _ => false
  end.
(* the shared maps an observed action list writes *)
Definition rshared_writes (l : list raction) : list (str * str) :=
  flat_map (fun a => match a with RWrite (RShared l m) _ _ => [(l, m)] | _ => [] end) l.

(* ---------- the action lists of hl7apy ---------- *)
Definition SUPPORTED : name := Glob "hl7apy" "SUPPORTED_LIBRARIES".

(* hl7apy.load_library(v): check_version (v in SUPPORTED_LIBRARIES), SUPPORTED_LIBRARIES[v],
   importlib.import_module.  `lib` = None when the version is not supported (the call raises
   UnsupportedVersion after the membership test) *)
Definition load_library_prog (v : str) (lib : option str) : list action :=
  Contains SUPPORTED v :: match lib with None => [] | Some l => [Lookup SUPPORTED v; ImportLib l] end.

(* the five entries datatype_factory overrides in its own dict *)
Definition overrides : list (str * str) :=
  [("DT" : str, "date_factory" : str); ("TM" : str, "timestamp_factory" : str);
   ("DTM" : str, "datetime_factory" : str); ("NM" : str, "numeric_factory" : str);
   ("SI" : str, "sequence_id_factory" : str)].

(* hl7apy.factories.datatype_factory(d, value, v, level) after the defaults have been read.
     copy      true = the code as it is (factories = base_datatypes.copy()),
               false = the pre-1.3.5 shape (factories IS base_datatypes)
     keys      the keys of BASE_DATATYPES of the version (Gen.Params.base_datatype_table)
     fallback  the factory raised ValueError and the level is TOLERANT: factories['ST'] is used *)
Definition factory_body (copy : bool) (l : str) (keys : list str) (d : str) (fallback : bool) : list action :=
  [Alias (Glob l "BASE_DATATYPES") "base_datatypes";
   (if copy then Copy (Loc "base_datatypes") "factories" else Alias (Loc "base_datatypes") "factories")] ++
  flat_map (fun kv : str * str =>
              Contains (Loc "factories") (fst kv) ::
              (if smem (fst kv) keys then [Write (Loc "factories") (fst kv) (snd kv)] else [])) overrides ++
  [Lookup (Loc "factories") d] ++
  (if smem d keys
   then (if smem d (List.map fst overrides) then [Lookup (Loc "base_datatypes") d] else []) ++
        (if fallback then [Lookup (Loc "factories") "ST"] else [])
   else []).

Definition datatype_factory_prog (copy : bool) (v : str) (lib : option str) (keys : list str) (d : str)
           (fallback : bool) : list action :=
  load_library_prog v lib ++
  match lib with None => [] | Some l => factory_body copy l keys d fallback end.

(* any other code path that needs the class of a base datatype:
   load_library(v).get_base_datatypes()[d]  /  lib.is_base_datatype(d) *)
Definition base_datatype_reader_prog (v l d : str) : list action :=
  load_library_prog v (Some l) ++ [Contains (Glob l "BASE_DATATYPES") d; Lookup (Glob l "BASE_DATATYPES") d].

(* hl7apy.core.Group.__init__: self.child_classes = {"SEG": Segment, "GRP": Group}, a dict of the
   instance, then the lookups made through it (find_reference(name, self.child_classes.values())) *)
Definition group_init_prog : list action :=
  [New "self.child_classes" [("SEG" : str, "Segment" : str); ("GRP" : str, "Group" : str)];
   Lookup (Loc "self.child_classes") "SEG"; Lookup (Loc "self.child_classes") "GRP"].
(* the shape a class attribute mutated in __init__ would have *)
Definition group_init_classattr_prog (seg grp : str) : list action :=
  [Write (Glob "hl7apy.core" "Group.child_classes") "SEG" seg;
   Write (Glob "hl7apy.core" "Group.child_classes") "GRP" grp;
   Lookup (Glob "hl7apy.core" "Group.child_classes") "SEG";
   Lookup (Glob "hl7apy.core" "Group.child_classes") "GRP"].

(* TextualDataType.__init__ + _escape_value: the object's OWN attribute dict; highlights are read,
   sorted and stored back into the same object (self.highlights = sorted(self.highlights)) *)
Definition escape_value_prog (highlights sorted_highlights : str) : list action :=
  [New "self" [("highlights" : str, highlights)];
   Lookup (Loc "self") "highlights";
   Write (Loc "self") "highlights" sorted_highlights;
   Lookup (Loc "self") "highlights"].

(* ---------- the library image of hl7apy (parameterised by the generated table of versions) ---------- *)
Definition lib_of_version (v : str) : str :=
  ("hl7apy.v" : str) ++ List.map (fun b => if beqb b "."%byte then "_"%byte else b) v.

(* the calls of the corpus, each with the action list of the code as it is *)
Inductive call :=
| CFactory (v : str) (lib : option str) (keys : list str) (d : str) (fallback : bool)
| CLoad (v : str) (lib : option str)
| CReader (v l d : str)
| CGroupInit
| CEscape (highlights sorted_highlights : str).

Definition prog_of (c : call) : list action :=
  match c with
  | CFactory v lib keys d fb => datatype_factory_prog true v lib keys d fb
  | CLoad v lib => load_library_prog v lib
  | CReader v l d => base_datatype_reader_prog v l d
  | CGroupInit => group_init_prog
  | CEscape h h' => escape_value_prog h h'
  end.

(* the libraries a call imports *)
Definition libs_of (c : call) : list str :=
  match c with
  | CFactory _ (Some l) _ _ _ | CLoad _ (Some l) | CReader _ l _ => [l]
  | _ => []
  end.

(* hl7apy on disk: the package itself (SUPPORTED_LIBRARIES) and one module per version whose
   execution creates BASE_DATATYPES; `bdt` = (version, keys of its BASE_DATATYPES) *)
Definition hl7_image (versions : list str) (bdt : list (str * list str)) : image :=
  fun l =>
    if streqb l "hl7apy"
    then Some [("SUPPORTED_LIBRARIES" : str, List.map (fun v => (v, lib_of_version v)) versions)]
    else match find (fun vr : str * list str => streqb l (lib_of_version (fst vr))) bdt with
         | Some vr => Some [("BASE_DATATYPES" : str, List.map (fun k => (k, k)) (snd vr))]
         | None => None
         end.

(* the process right after `import hl7apy`: only the package is loaded *)
Definition hl7_store (img : image) : store :=
  match img "hl7apy" with
  | Some im => mkStore (sh_load (fun _ _ => None) "hl7apy" im) ["hl7apy" : str]
  | None => mkStore (fun _ _ => None) []
  end.

(* ---------- comparing observations (used by the generated case files) ---------- *)
Definition ostr_eqb (a b : option str) : bool :=
  match a, b with Some x, Some y => streqb x y | None, None => true | _, _ => false end.
Definition obs_eqb (a b : obs) : bool :=
  match a, b with
  | OVal x, OVal y => ostr_eqb x y
  | OHas x, OHas y => Bool.eqb x y
  | OUnbound, OUnbound => true
  | OLib l f, OLib l' f' => streqb l l' && Bool.eqb f f'
  | _, _ => false
  end.
Fixpoint trace_eqb (a b : list obs) : bool :=
  match a, b with
  | [], [] => true
  | x :: r, y :: s => obs_eqb x y && trace_eqb r s
  | _, _ => false
  end.
(* the solo run of one program to completion from a given store: its observations *)
Definition solo_trace (img : image) (S : store) (p : list action) : list obs :=
  result_of 0 (run_schedule img S (repeat 0 (length p)) (init_threads [p])).

(* the footprint of an OBSERVED (resolved) action list, so that premise 1 can be evaluated on what
   the instrumented dicts saw *)
Definition raccess (a : raction) : list access :=
  match a with
  | RLookup (RShared l m) _ | RContains (RShared l m) _ | RCopy (RShared l m) _ => [(false, (l, m))]
  | RWrite (RShared l m) _ _ => [(true, (l, m))]
  | _ => []
  end.
Definition rfootprint (l : list raction) : list access := flat_map raccess l.
