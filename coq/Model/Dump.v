(* Canonical textual dump of an element tree; harness/segcorr.py prints the implementation's tree
   in exactly the same format, so that the correspondence compares whole trees, not just encodings. *)
From Coq Require Import List Bool ZArith NArith Init.Byte.
From HL7 Require Import Lib.Str Model.Result Model.Ref Model.Tree.
Import ListNotations.
Open Scope bs_scope.

Definition dopt (o : option str) : str := match o with Some s => "'" ++ s ++ "'" | None => "-" end.

Definition dump_sub (s : sub) : str := "s(" ++ dopt (sc_name s) ++ "," ++ dopt (sc_dt s) ++ ",{" ++ sc_enc s ++ "})".
Definition dump_sub_raw (s : sub) : str := "s(" ++ dopt (sc_name s) ++ "," ++ dopt (sc_dt s) ++ ",{" ++ sc_value s ++ "})".
Definition dump_comp (raw : bool) (c : comp) : str :=
  "C(" ++ dopt (c_name c) ++ "," ++ dopt (c_dt c) ++ ")[" ++
  concat (map (if raw then dump_sub_raw else dump_sub) (c_children c)) ++ "]".
Definition dump_field (f : field) : str :=
  let raw := opt_eqb (f_name f) (Some (unbs "MSH_1")) || opt_eqb (f_name f) (Some (unbs "MSH_2")) in
  "F(" ++ dopt (f_name f) ++ "," ++ dopt (f_dt f) ++ ")[" ++ concat (map (dump_comp raw) (f_children f)) ++ "]".
Definition dump_seg (s : seg) : str :=
  "S(" ++ s_name s ++ "," ++ (if s_inf s then "inf" else "fin") ++ "," ++ N_to_str (s_last_allowed s) ++ ","
  ++ N_to_str (s_last s) ++ ")[" ++ concat (map dump_field (s_children s)) ++ "]".
