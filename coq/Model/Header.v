(* hl7apy.parser._split_msh, get_message_type, get_message_info (parser.py:646-727) *)
From Coq Require Import List Bool NArith Init.Byte.
From HL7 Require Import Lib.Str Model.Ec Model.Result.
Import ListNotations.
Open Scope bs_scope.
Open Scope res_scope.

(* re.match(r"^MSH(?P<field_sep>\S)", content): the field separator, when content is a header *)
Definition msh_field_sep (content : str) : option byte :=
  match content with
  | m :: s :: h :: f :: _ =>
      if beqb m "M" && beqb s "S" && beqb h "H" && negb (is_space f) then Some f else None
  | _ => None
  end.

(* content.split("\r", 1)[0] *)
Fixpoint first_line (s : str) : str :=
  match s with
  | [] => []
  | c :: r => if beqb c CR then [] else c :: first_line r
  end.

Definition nth_str (l : list str) (n : nat) : result str :=
  match nth_error l n with Some x => Ok x | None => Err (Crash IndexError) end.

(* the version test fields[11] >= '2.7' is Python's string comparison *)
Definition ge_27 (v : str) : bool := str_geb v "2.7".

Definition split_msh (content : str) : result (list str * ec) :=
  match msh_field_sep content with
  | None => Err (HL7 EParserError)
  | Some fs =>
      let fields := bsplit fs (first_line content) in
      do seps <- nth_str fields 1;
      if negb (nodupb beqb seps) then Err (HL7 EInvalidEncodingChars) else
      if existsb is_space seps then Err (HL7 EInvalidEncodingChars) else
      match seps with
      | [c; r; e; s] => Ok (fields, mk_ec fs c r e s None)
      | [c; r; e; s; t] =>
          match nth_error fields 11 with
          | Some v => if ge_27 v then Ok (fields, mk_ec fs c r e s (Some t))
                      else Err (HL7 EInvalidEncodingChars)
          | None => Err (HL7 EInvalidEncodingChars)
          end
      | _ => Err (HL7 EInvalidEncodingChars)
      end
  end.

(* get_message_type: MSH-9 stripped, or None *)
Definition get_message_type (content : str) : result (option str) :=
  do '(fields, _) <- split_msh content;
  Ok (match nth_error fields 8 with Some f => Some (strip f) | None => None end).

(* get_message_info: (encoding chars, message structure, version) *)
Definition message_structure_of (e : ec) (msh9 : str) : option str :=
  let mt := bsplit (csep e) msh9 in
  match nth_error mt 2 with
  | Some s => Some s
  | None => match nth_error mt 0, nth_error mt 1 with
            | Some a, Some b => Some (a ++ "_" ++ b)
            | _, _ => None
            end
  end.

Definition get_message_info (content : str) : result (ec * option str * option str) :=
  do '(fields, e) <- split_msh content;
  let structure := match nth_error fields 8 with
                   | Some f => message_structure_of e (strip f)
                   | None => None
                   end in
  let version := match nth_error fields 11 with
                 | Some f => nth_error (bsplit (csep e) (strip f)) 0
                 | None => None
                 end in
  Ok (e, structure, version).
