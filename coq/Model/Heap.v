(* The mutable element tree of hl7apy/core.py: elements with identity on a function heap.

   Scope: Segment -> Field -> Component -> SubComponent, both validation levels, one HL7 version
   per history (the tables `t`), one set of encoding characters (`e`).  Group / Message parents are
   NOT modelled here.

   Every operation is a computation in the monad  M A = store -> store * result A  in which the
   effects performed before a raise PERSIST (a Python exception does not roll anything back).  The
   operations are written by following ElementList.{append, insert, set, remove, remove_by_name,
   child_at_index, replace_child, create_element, _can_add_child}, Element._set_parent,
   _set_traversal_parent, set_parent_to_traversal and the class-specific add / _is_valid_child /
   find_child_reference of core.py line by line, including the re-entrancy
        child.parent = element -> parent.add(child) -> append -> _can_add_child
   (flattened into append / add_inner / append_attached below: the recursion has depth two).
   String values are parsed with Model/Parser.v into immutable trees and then allocated.

   Definitions only. *)
From Coq Require Import List Bool Arith ZArith NArith Init.Byte.
From HL7 Require Import Lib.Str Model.Ec Model.Result Model.Ref Model.Tree Model.Parser Model.Encode.
Import ListNotations.
Open Scope bs_scope.

(* ------------------------------------------------------------------------------------------ *)
(* nodes, heaps, stores *)

Inductive cls := CSeg | CField | CComp | CSub.
Definition cls_eqb (a b : cls) : bool :=
  match a, b with CSeg, CSeg | CField, CField | CComp, CComp | CSub, CSub => true | _, _ => false end.
Definition child_cls (c : cls) : option cls :=
  match c with CSeg => Some CField | CField => Some CComp | CComp => Some CSub | CSub => None end.

(* ElementList.indexes / traversal_indexes: insertion-ordered dict  name -> list of children *)
Definition imap := list (option str * list nat).

Record node := mk_node {
  n_cls : cls;
  n_name : option str;
  n_lvl : level;
  n_ver : str;
  n_parent : option nat;            (* _parent *)
  n_tparent : option nat;           (* _traversal_parent *)
  n_list : list nat;                (* children.list *)
  n_idx : imap;                     (* children.indexes *)
  n_tidx : imap;                    (* children.traversal_indexes *)
  n_st : option structure;          (* structure_by_name, ..., reference (None: unnamed element) *)
  n_dt : option str;                (* datatype (Field, Component, SubComponent) *)
  n_value : str;                    (* SubComponent: the text given to the datatype factory ('' = no value) *)
  n_enc : str;                      (* SubComponent: to_er7 of the stored datatype object *)
  n_inf : bool;                     (* Segment.allow_infinite_children *)
  n_last_allowed : N;               (* Segment._last_allowed_child_index *)
  n_last : N                        (* Segment._last_child_index *)
}.

Definition heap := nat -> node.
Definition upd (h : heap) (i : nat) (n : node) : heap := fun j => if Nat.eqb j i then n else h j.

Record store := mk_store { s_heap : heap; s_next : nat }.
Definition getn (s : store) (i : nat) : node := s_heap s i.
Definition setn (s : store) (i : nat) (n : node) : store := mk_store (upd (s_heap s) i n) (s_next s).

Definition empty_node : node :=
  mk_node CSub None TOLERANT [] None None [] [] [] None None [] [] false 0%N 0%N.
Definition empty_store : store := mk_store (fun _ => empty_node) 0.

(* field updates *)
Definition with_parent (n : node) (p : option nat) : node :=
  mk_node (n_cls n) (n_name n) (n_lvl n) (n_ver n) p (n_tparent n) (n_list n) (n_idx n) (n_tidx n)
          (n_st n) (n_dt n) (n_value n) (n_enc n) (n_inf n) (n_last_allowed n) (n_last n).
Definition with_tparent (n : node) (p : option nat) : node :=
  mk_node (n_cls n) (n_name n) (n_lvl n) (n_ver n) (n_parent n) p (n_list n) (n_idx n) (n_tidx n)
          (n_st n) (n_dt n) (n_value n) (n_enc n) (n_inf n) (n_last_allowed n) (n_last n).
Definition with_children (n : node) (l : list nat) (i ti : imap) : node :=
  mk_node (n_cls n) (n_name n) (n_lvl n) (n_ver n) (n_parent n) (n_tparent n) l i ti
          (n_st n) (n_dt n) (n_value n) (n_enc n) (n_inf n) (n_last_allowed n) (n_last n).
Definition with_last (n : node) (x : N) : node :=
  mk_node (n_cls n) (n_name n) (n_lvl n) (n_ver n) (n_parent n) (n_tparent n) (n_list n) (n_idx n) (n_tidx n)
          (n_st n) (n_dt n) (n_value n) (n_enc n) (n_inf n) (n_last_allowed n) x.
Definition with_dt (n : node) (d : option str) : node :=
  mk_node (n_cls n) (n_name n) (n_lvl n) (n_ver n) (n_parent n) (n_tparent n) (n_list n) (n_idx n) (n_tidx n)
          (n_st n) d (n_value n) (n_enc n) (n_inf n) (n_last_allowed n) (n_last n).
Definition with_st (n : node) (st : option structure) : node :=
  mk_node (n_cls n) (n_name n) (n_lvl n) (n_ver n) (n_parent n) (n_tparent n) (n_list n) (n_idx n) (n_tidx n)
          st (n_dt n) (n_value n) (n_enc n) (n_inf n) (n_last_allowed n) (n_last n).
Definition with_value (n : node) (v enc : str) : node :=
  mk_node (n_cls n) (n_name n) (n_lvl n) (n_ver n) (n_parent n) (n_tparent n) (n_list n) (n_idx n) (n_tidx n)
          (n_st n) (n_dt n) v enc (n_inf n) (n_last_allowed n) (n_last n).
Definition with_name (n : node) (nm : option str) : node :=
  mk_node (n_cls n) nm (n_lvl n) (n_ver n) (n_parent n) (n_tparent n) (n_list n) (n_idx n) (n_tidx n)
          (n_st n) (n_dt n) (n_value n) (n_enc n) (n_inf n) (n_last_allowed n) (n_last n).

(* ------------------------------------------------------------------------------------------ *)
(* dict / list helpers *)

Fixpoint iget (k : option str) (m : imap) : list nat :=
  match m with
  | [] => []
  | (k', v) :: r => if opt_eqb k k' then v else iget k r
  end.
Fixpoint ihas (k : option str) (m : imap) : bool :=
  match m with
  | [] => false
  | (k', _) :: r => opt_eqb k k' || ihas k r
  end.
(* m[k] = v : replaces the binding in place or adds a new key at the end *)
Fixpoint iset (k : option str) (v : list nat) (m : imap) : imap :=
  match m with
  | [] => [(k, v)]
  | (k', v') :: r => if opt_eqb k k' then (k', v) :: r else (k', v') :: iset k v r
  end.
Fixpoint idel (k : option str) (m : imap) : imap :=
  match m with
  | [] => []
  | (k', v') :: r => if opt_eqb k k' then r else (k', v') :: idel k r
  end.

Definition memb (c : nat) (l : list nat) : bool := existsb (Nat.eqb c) l.
(* list.remove(c): first occurrence *)
Fixpoint remove1 (c : nat) (l : list nat) : list nat :=
  match l with
  | [] => []
  | x :: r => if Nat.eqb c x then r else x :: remove1 c r
  end.
(* list.index(c) *)
Fixpoint index_of (c : nat) (l : list nat) : option nat :=
  match l with
  | [] => None
  | x :: r => if Nat.eqb c x then Some 0 else option_map S (index_of c r)
  end.
(* list.insert(i, c): appends when i >= len *)
Fixpoint insert_at (i : nat) (c : nat) (l : list nat) : list nat :=
  match i, l with
  | 0, _ => c :: l
  | S i', x :: r => x :: insert_at i' c r
  | S _, [] => [c]
  end.
(* l[i] with Python's negative indexes *)
Definition py_nth {A} (l : list A) (i : Z) : option A :=
  if (0 <=? i)%Z then nth_error l (Z.to_nat i)
  else if (0 <=? Z.of_nat (length l) + i)%Z then nth_error l (Z.to_nat (Z.of_nat (length l) + i))
  else None.
Definition oid_eqb (a : option nat) (b : nat) : bool := match a with Some x => Nat.eqb x b | None => false end.

(* ------------------------------------------------------------------------------------------ *)
(* the monad *)

Definition M (A : Type) := store -> store * result A.
Definition ret {A} (a : A) : M A := fun s => (s, Ok a).
Definition raise {A} (x : exn) : M A := fun s => (s, Err x).
Definition mbind {A B} (m : M A) (f : A -> M B) : M B :=
  fun s => match m s with
           | (s', Ok a) => f a s'
           | (s', Err x) => (s', Err x)
           end.
Definition lift {A} (r : result A) : M A := fun s => (s, r).
Definition node_of (i : nat) : M node := fun s => (s, Ok (getn s i)).
Definition modify (f : store -> store) : M unit := fun s => (f s, Ok tt).
Definition alloc (n : node) : M nat :=
  fun s => (mk_store (upd (s_heap s) (s_next s) n) (S (s_next s)), Ok (s_next s)).
(* try: m  except <exceptions selected by p>: handler     (effects of m persist) *)
Definition mcatch {A} (m : M A) (p : exn -> bool) (handler : M A) : M A :=
  fun s => match m s with
           | (s', Err x) => if p x then handler s' else (s', Err x)
           | r => r
           end.

Declare Scope heap_scope.
Delimit Scope heap_scope with heap.
Notation "'let!' x ':=' m 'in' k" := (mbind m (fun x => k))
  (at level 200, x name, m at level 100, k at level 200) : heap_scope.
Notation "'let!' ' p ':=' m 'in' k" := (mbind m (fun x => match x with p => k end))
  (at level 200, p pattern, m at level 100, k at level 200) : heap_scope.
Notation "m ;; k" := (mbind m (fun _ => k)) (at level 100, k at level 200, right associativity) : heap_scope.
Open Scope heap_scope.

Definition is_exn (a : hl7_exn) (x : exn) : bool :=
  match x with HL7 b => Nat.eqb (hl7_exn_code a) (hl7_exn_code b) | _ => false end.

(* ------------------------------------------------------------------------------------------ *)
(* raw primitives: each is ONE store update (no check, no raise) *)

(* child._parent = p ; child._traversal_parent = None   (Element._set_parent with p not None, and
   the direct assignment in ElementList.insert) *)
Definition point_to (c p : nat) : M unit :=
  modify (fun s => setn s c (with_tparent (with_parent (getn s c) (Some p)) None)).
Definition set_parent_raw (c : nat) (p : option nat) : M unit :=
  modify (fun s => setn s c (with_parent (getn s c) p)).
Definition set_tparent_raw (c : nat) (p : option nat) : M unit :=
  modify (fun s => setn s c (with_tparent (getn s c) p)).

(* ElementList._remove_from_traversal_index *)
Definition tidx_removed (k : option str) (c : nat) (m : imap) : imap :=
  if ihas k m && memb c (iget k m) then
    match remove1 c (iget k m) with
    | [] => idel k m
    | l => iset k l m
    end
  else m.
(* ElementList._remove_from_index *)
Definition idx_removed (k : option str) (c : nat) (m : imap) : imap :=
  if ihas k m then iset k (remove1 c (iget k m)) m else m.

(* the three statements of ElementList.append for a child whose parent is the element:
   _remove_from_traversal_index(child); list.append(child); indexes[name].append(child) *)
Definition do_append (p c : nat) : M unit :=
  modify (fun s => let P := getn s p in let k := n_name (getn s c) in
                   setn s p (with_children P (n_list P ++ [c]) (iset k (iget k (n_idx P) ++ [c]) (n_idx P))
                                           (tidx_removed k c (n_tidx P)))).
(* traversal_indexes[name].append(child) *)
Definition do_tappend (p c : nat) : M unit :=
  modify (fun s => let P := getn s p in let k := n_name (getn s c) in
                   setn s p (with_children P (n_list P) (n_idx P) (iset k (iget k (n_tidx P) ++ [c]) (n_tidx P)))).
(* the two statements of ElementList.insert after the acceptance check *)
Definition do_insert (p : nat) (index : nat) (c : nat) (by_name_index : nat) : M unit :=
  modify (fun s => let P := getn s p in let k := n_name (getn s c) in
                   setn s p (with_children P (insert_at index c (n_list P))
                                           (iset k (insert_at by_name_index c (iget k (n_idx P))) (n_idx P))
                                           (n_tidx P))).
Definition do_rm_tidx (p c : nat) : M unit :=
  modify (fun s => let P := getn s p in let k := n_name (getn s c) in
                   setn s p (with_children P (n_list P) (n_idx P) (tidx_removed k c (n_tidx P)))).
Definition do_rm_idx (p c : nat) : M unit :=
  modify (fun s => let P := getn s p in let k := n_name (getn s c) in
                   setn s p (with_children P (n_list P) (idx_removed k c (n_idx P)) (n_tidx P))).
Definition do_rm_list (p c : nat) : M unit :=
  modify (fun s => let P := getn s p in setn s p (with_children P (remove1 c (n_list P)) (n_idx P) (n_tidx P))).
(* element.children = ElementList(element) *)
Definition do_reset_children (p : nat) : M unit :=
  modify (fun s => setn s p (with_children (getn s p) [] [] [])).
Definition set_last (p : nat) (x : N) : M unit := modify (fun s => setn s p (with_last (getn s p) x)).
Definition set_dt (p : nat) (d : option str) : M unit := modify (fun s => setn s p (with_dt (getn s p) d)).
Definition set_st (p : nat) (st : option structure) : M unit := modify (fun s => setn s p (with_st (getn s p) st)).
Definition set_val (p : nat) (v enc : str) : M unit := modify (fun s => setn s p (with_value (getn s p) v enc)).
Definition set_name (p : nat) (nm : option str) : M unit := modify (fun s => setn s p (with_name (getn s p) nm)).

(* ------------------------------------------------------------------------------------------ *)
(* the right-hand side of an assignment *)
Inductive value :=
  | VText (s : str)                      (* a string: parsed by the child parser *)
  | VElem (c : nat)                      (* an Element instance *)
  | VProxy (owner : nat) (name : str)    (* getattr(owner, name): copies list[0] by value *)
  | VDt (dt : str) (text : str).         (* a BaseDataType instance  dt(text) *)

(* histories: operations over HANDLES (positions in the table of elements the client holds) *)

Inductive hvalue :=
  | HText (s : str)
  | HElem (h : nat)
  | HProxy (h : nat) (name : str)
  | HDt (dt : str) (text : str).

Inductive op :=
  | ONewSeg (lvl : level) (name : str)
  | ONewField (lvl : level) (name dt : option str)
  | ONewComp (lvl : level) (name dt : option str)
  | ONewSub (lvl : level) (name dt : option str) (text : str)
  | OAdd (x c : nat)                                     (* x.add(c) *)
  | OSetAttr (x : nat) (names : list str) (v : hvalue)   (* x.n1...nk = v *)
  | OSetIndex (x : nat) (names : list str) (i : Z) (v : hvalue)     (* x.n1...nk[i] = v, i may be negative *)
  | OSetListIndex (x i : nat) (v : hvalue)               (* x.children[i] = v *)
  | ODelAttr (x : nat) (names : list str)                (* del x.n1...nk *)
  | ODelIndex (x : nat) (names : list str) (i : Z)       (* del x.n1...nk[i] *)
  | ODelListIndex (x i : nat)                            (* del x.children[i] *)
  | ORemove (x c : nat)                                  (* x.children.remove(c) *)
  | OAddHelper (x : nat) (name : str)                    (* h = x.add_field(name) / add_component / add_subcomponent *)
  | OGrab (x : nat) (names : list str) (i : Z)           (* h = x.n1...nk[i] *)
  | OGrabList (x i : nat)                                (* h = x.children[i] *)
  | ORead (x : nat) (names : list str)                   (* evaluate x.n1...nk; repr = names of the proxy's list *)
  | OReadValue (x : nat) (names : list str)              (* x.n1...nk.value *)
  | OLen (x : nat) (names : list str)                    (* len(x.n1...nk) and iteration *)
  | OLenList (x : nat)                                   (* len(x.children), iteration, containment *)
  | OToEr7 (x : nat)
  | OSetValueChain (x : nat) (names : list str) (text : str)   (* x.n1...nk.value = text *)
  | OSetValue (x : nat) (text : str)                     (* x.value = text *)
  | OSetValueDt (x : nat) (dt text : str)                (* x.value = dt(text) *)
  | OSetDatatype (x : nat) (dt : option str)             (* x.datatype = dt *)
  | OSetParent (c : nat) (p : option nat)                (* c.parent = p *)
  | ORemoveByName (x : nat) (name : str) (i : Z)         (* x.children.remove_by_name(name, i), i may be negative *)
  | OSetValueNone (x : nat) (names : list str).          (* x.n1...nk.value = None *)

Record rstate := mk_rstate { r_store : store; r_handles : list nat }.

(* ------------------------------------------------------------------------------------------ *)
Section Ops.
Variable t : tables.
Variable e : ec.
(* to_er7 of datatype_factory(dt, text, version, level) under `e` (Model/Leaf.v) *)
Variable leaf_enc : level -> option str -> str -> result str.
(* exotic = true is hl7apy.  Two code paths are never taken with the standard tables but cannot be
   excluded for arbitrary structures: (1) a Component / SubComponent called VARIES_n is attached by
   Element.__init__ while its name is still None and named afterwards (with the standard tables the
   attachment is always refused); (2) ElementList.set looks
   the replaced child up under a name that _find_name maps to yet another name.  With
   exotic = false the model raises OutOfFuel at those two points instead; this variant is used
   only to STATE that an operation does not take them (both settings then give the same result;
   the correspondence run checks this on every history). *)
Variable exotic : bool.

Notation base := (base t).
Definition strict (n : node) : bool := is_strict (n_lvl n).
Definition lvl_eqb (a b : level) : bool := Bool.eqb (is_strict a) (is_strict b).

(* is_unknown *)
Definition unknown (c : node) : bool :=
  match n_cls c with CSeg => opt_is_none (n_name c) | _ => opt_eqb (n_name c) (n_dt c) end.

Definition HLe {A} (x : hl7_exn) : result A := Err (HL7 x).

(* ---------- find_child_reference (Segment / Field / SupportComplexDataType) ---------- *)

Definition in_structure (P : node) (name : str) : option sentry :=
  if has_map (n_st P) then
    match n_st P with
    | Some s => match by_name s name with Some x => Some x | None => by_long s name end
    | None => None
    end
  else None.

Definition leaf_ref (dt : str) : sref := SLeaf (mk_info (Some dt) None None (-1)).

Definition fcr_complex (P : node) (name : str) : result (str * sref) :=
  let name := upper name in
  match in_structure P name with
  | Some x => Ok (se_name x, se_ref x)
  | None =>
      match slookup name (t_components t) with
      | None => HLe EChildNotFound
      | Some r => if has_map (n_st P) then HLe EChildNotValid else Ok (name, r)
      end
  end.

Definition fcr (P : node) (name : str) : result (str * sref) :=
  match n_cls P with
  | CSeg =>
      let name := upper name in
      match in_structure P name with
      | Some x => Ok (se_name x, se_ref x)
      | None =>
          if n_inf P && valid_child_name (Some name) (n_name P) then
            Ok (name, leaf_ref (if valid_z_field_name name then "ST" else "varies"))
          else if known_field t name then HLe EChildNotValid else HLe EChildNotFound
      end
  | CField =>
      if base (n_dt P) then
        (if opt_eqb (Some name) (n_dt P) then Ok (name, leaf_ref name) else HLe EChildNotFound)
      else if is_varies (n_dt P) && valid_child_name (Some name) (n_dt P) then Ok (name, leaf_ref "varies")
      else fcr_complex P name
  | CComp => fcr_complex P name
  | CSub => Err (Crash AttributeError)     (* child_classes = {"CMP": None} *)
  end.

(* ---------- _is_valid_child ---------- *)

Definition valid_name_check (P C : node) : result bool :=
  match n_name C with
  | Some cn =>
      if base (Some cn) then Ok true else
      match fcr P cn with
      | Ok _ => Ok true
      | Err (HL7 EChildNotFound) => Ok false
      | Err x => Err x
      end
  | None => Ok true
  end.

Definition is_valid_child (P C : node) : result bool :=
  match n_cls P with
  | CSeg =>
      if opt_is_none (n_name C) && strict P then Ok false
      else if negb (cls_eqb (n_cls C) CField) then Ok false
      else match n_name C with
           | None => Ok true
           | Some cn =>
               match fcr P cn with
               | Err x => Err x
               | Ok _ => Ok (bstarts (upper (str_of_opt (n_name P))) (upper cn))
               end
           end
  | CSub => Err (Crash AttributeError)
  | pc =>
      if negb (match child_cls pc with Some k => cls_eqb (n_cls C) k | None => false end) then Ok false else
      let b := base (n_dt P) in
      if negb b then
        if (opt_is_none (n_dt P) || is_varies (n_dt P)) && valid_child_name (n_name C) (Some (unbs "varies")) then Ok true
        else if opt_is_none (n_dt P) && valid_child_name (n_name P) (Some (unbs "varies")) && unknown C then Ok true
        else if unknown C && strict P then Ok false
        else if negb (unknown C) && nonempty_name (n_dt P) && negb (valid_child_name (n_name C) (n_dt P)) then Ok false
        else valid_name_check P C
      else if nonempty_name (n_dt C) && negb (opt_eqb (n_dt C) (n_dt P)) then Ok false
      else valid_name_check P C
  end.

(* the class-specific part of add() that runs before Element.add *)
Definition class_checks (P C : node) : result unit :=
  match n_cls P with
  | CSub => HLe EOperationNotAllowed
  | CSeg => Ok tt
  | CField =>
      if nonempty_name (n_name P) && base (n_dt P) && Nat.leb 1 (length (n_list P))
      then HLe EMaxChildLimitReached else Ok tt
  | CComp =>
      if nonempty_name (n_name P) && base (n_dt P) && Nat.leb 1 (length (n_list P))
      then HLe EMaxChildLimitReached
      else match n_cls C with
           | CSeg => if nonempty_name (n_name C) then HLe EChildNotValid else Ok tt   (* obj.datatype -> ChildNotFound *)
           | _ => if nonempty_name (n_name C) && negb (opt_eqb (n_name C) (n_dt C))
                     && negb (valid_child_name (n_name C) (n_dt P))
                  then HLe EChildNotValid else Ok tt
           end
  end.

(* the acceptance checks of _can_add_child for a child that already points at the element *)
Definition acceptance_checks (P C : node) : result unit :=
  let mx := match n_name C, n_st P with
            | Some kn, Some s => match repetitions_of s kn with Some (_, m) => m | None => (-1)%Z end
            | _, _ => (-1)%Z
            end in
  if strict P && (Z.of_nat (length (iget (n_name C) (n_idx P))) + 1 >? mx)%Z && (mx >? -1)%Z
  then HLe EMaxChildLimitReached
  else if negb (lvl_eqb (n_lvl P) (n_lvl C)) then HLe EOperationNotAllowed
  else if negb (streqb (n_ver P) (n_ver C)) then HLe EOperationNotAllowed
  else Ok tt.

(* ---------- ElementList.append / Element.add ---------- *)

(* append() for a child with child.parent == element or child.traversal_parent == element *)
Definition append_attached (p c : nat) : M unit :=
  let! P := node_of p in
  let! C := node_of c in
  lift (acceptance_checks P C) ;;
  if oid_eqb (n_parent C) p then do_append p c
  else if oid_eqb (n_tparent C) p then do_tappend p c
  else ret tt.

(* Segment.add: the counter of an open-ended segment *)
Definition seg_counter (p c : nat) : M unit :=
  let! P := node_of p in
  let! C := node_of c in
  match n_cls P, n_name C with
  | CSeg, Some cn =>
      if nonempty_name (n_name C) && n_inf P && oid_eqb (n_parent C) p then
        let idx := drop 4 cn in
        if py_int_ok idx then
          (if N.ltb (n_last P) (py_int_val idx) then set_last p (py_int_val idx) else ret tt)
        else raise PyValueError
      else ret tt
  | _, _ => ret tt
  end.

(* parent.add(child) for a child that already points at the parent (the inner, re-entrant call) *)
Definition add_inner (p c : nat) : M unit :=
  let! P := node_of p in
  let! C := node_of c in
  lift (class_checks P C) ;;
  let! v := lift (is_valid_child P C) in
  if negb v then raise (HL7 EChildNotValid) else
  append_attached p c ;;
  seg_counter p c.

Definition pointing (C : node) (p : nat) : bool := oid_eqb (n_parent C) p || oid_eqb (n_tparent C) p.

(* ElementList.append *)
Definition append (p c : nat) : M unit :=
  let! P := node_of p in
  let! C := node_of c in
  let! v := lift (is_valid_child P C) in
  if negb v then raise (HL7 EChildNotValid) else
  if negb (pointing C p) then
    (* child.parent = element : Element._set_parent, which calls element.add(child) again *)
    point_to c p ;; add_inner p c
  else append_attached p c.

(* element.add(child) *)
Definition add (p c : nat) : M unit :=
  let! P := node_of p in
  let! C := node_of c in
  lift (class_checks P C) ;;
  append p c ;;
  seg_counter p c.

(* child.parent = x *)
Definition set_parent (c : nat) (x : option nat) : M unit :=
  match x with
  | None => set_parent_raw c None
  | Some p => point_to c p ;; add p c
  end.

(* Element.set_parent_to_traversal *)
Fixpoint to_traversal (fuel : nat) (x : nat) : M unit :=
  match fuel with
  | O => raise OutOfFuel
  | S f =>
      let! X := node_of x in
      match n_tparent X, n_parent X with
      | Some q, None => point_to x q ;; add q x ;; to_traversal f q
      | _, _ => set_tparent_raw x None
      end
  end.
Definition FUEL := 6.

(* ---------- ElementList.remove / insert / replace_child / child_at_index ---------- *)

Definition remove_child (p c : nat) : M unit :=
  let! C := node_of c in
  if oid_eqb (n_tparent C) p then do_rm_tidx p c
  else
    do_rm_idx p c ;;
    let! P := node_of p in
    if memb c (n_list P) then do_rm_list p c else raise PyValueError.

Definition insert (p : nat) (index : nat) (c : nat) (by_name_index : nat) : M unit :=
  let! C0 := node_of c in
  (if negb (pointing C0 p) then point_to c p else ret tt) ;;
  let! P := node_of p in
  let! C := node_of c in
  let! v := lift (is_valid_child P C) in
  if negb v then raise (HL7 EChildNotValid) else
  lift (acceptance_checks P C) ;;
  do_insert p index c by_name_index.

Definition finder (P : node) (k : option str) (i : Z) : option nat :=
  match py_nth (iget k (n_idx P)) i with
  | Some c => Some c
  | None => py_nth (iget k (n_tidx P)) i
  end.

(* child_at_index(name, index): name as given by the caller; `guarded` marks the call from set() *)
Definition child_at_index (guarded : bool) (p : nat) (name : str) (i : Z) : M (option nat) :=
  let! P := node_of p in
  let! '(cname, _) := lift (fcr P (upper name)) in
  if streqb cname name then ret (finder P (Some name) i)
  else if guarded then raise OutOfFuel
  else ret (finder P (Some cname) i).

Definition replace_child (p old new : nat) : M unit :=
  let! O := node_of old in
  if oid_eqb (n_tparent O) p then remove_child p old ;; append p new
  else
    let! P := node_of p in
    match index_of old (n_list P) with
    | None => raise PyValueError
    | Some li =>
        if negb (ihas (n_name O) (n_idx P)) then raise (Crash KeyError) else
        match index_of old (iget (n_name O) (n_idx P)) with
        | None => raise PyValueError
        | Some bi => remove_child p old ;; insert p li new bi
        end
    end.

(* ---------- allocation of parser-built (immutable) trees ---------- *)

Definition fresh (c : cls) (name : option str) (lvl : level) (st : option structure) (dt : option str) : node :=
  mk_node c name lvl (t_version t) None None [] [] [] st dt [] [] false 0%N 0%N.

Definition alloc_sub (lvl : level) (parent : option nat) (x : sub) : M nat :=
  alloc (with_parent (with_value (fresh CSub (sc_name x) lvl None (sc_dt x)) (sc_value x) (sc_enc x)) parent).

(* allocate the children of a freshly allocated node one after the other; each is listed (in order,
   and by name) as soon as it exists, exactly as the parser's  parent.add(child)  does *)
Fixpoint alloc_kids {A} (f : option nat -> A -> M nat) (parent : nat) (l : list A) : M unit :=
  match l with
  | [] => ret tt
  | x :: r => let! i := f (Some parent) x in do_append parent i ;; alloc_kids f parent r
  end.

Definition alloc_comp (lvl : level) (parent : option nat) (x : comp) : M nat :=
  let! i := alloc (with_parent (fresh CComp (c_name x) lvl (c_st x) (c_dt x)) parent) in
  alloc_kids (alloc_sub lvl) i (c_children x) ;; ret i.

Definition alloc_field (lvl : level) (parent : option nat) (x : field) : M nat :=
  let! i := alloc (with_parent (fresh CField (f_name x) lvl (f_st x) (f_dt x)) parent) in
  alloc_kids (alloc_comp lvl) i (f_children x) ;; ret i.

Definition alloc_seg (lvl : level) (x : seg) : M nat :=
  let! i := alloc (mk_node CSeg (Some (s_name x)) lvl (t_version t) None None [] [] [] (Some (s_st x)) None [] []
                           (s_inf x) (s_last_allowed x) (s_last x)) in
  alloc_kids (alloc_field lvl) i (s_children x) ;; ret i.

(* reference[2] of a child reference *)
Definition ref_dt (r : sref) : result (option str) :=
  match ref_info r with Some i => Ok (i_dt i) | None => Err (Crash IndexError) end.

(* element.parse_child(text, child_name=..., reference=...) followed by allocation *)
Definition parse_child (p : nat) (cname : str) (cref : sref) (text : str) : M nat :=
  let! P := node_of p in
  let lvl := n_lvl P in
  match n_cls P with
  | CSeg =>
      let! x := lift (parse_field t lvl e (leaf_enc lvl) text (Some cname) (Some cref) (n_inf P)) in
      alloc_field lvl None x
  | CField =>
      let! dt := lift (ref_dt cref) in
      let! x := lift (parse_component t lvl e (leaf_enc lvl) text (Some cname) dt (Some cref)) in
      alloc_comp lvl None x
  | CComp =>
      let! dt := lift (ref_dt cref) in
      let! x := lift (mk_subcomponent t lvl (leaf_enc lvl) (Some cname) dt text None) in
      alloc_sub lvl None x
  | CSub => raise (Crash AttributeError)
  end.

(* ---------- ElementList.create_element ---------- *)

(* the constructor of the child class, called with (name, reference=ref) and nothing else *)
Definition ctor_node (P : node) (cname : str) (cref : sref) : result node :=
  let lvl := n_lvl P in
  match n_cls P with
  | CSeg => match mk_field t lvl (Some cname) None (Some cref) with
            | Ok x => Ok (fresh CField (f_name x) lvl (f_st x) (f_dt x))
            | Err x => Err x
            end
  | CField => match mk_component t lvl (Some cname) None (Some cref) with
              | Ok x => Ok (fresh CComp (c_name x) lvl (c_st x) (c_dt x))
              | Err x => Err x
              end
  | CComp => match mk_subcomponent t lvl (leaf_enc lvl) (Some cname) None [] (Some cref) with
             | Ok x => Ok (fresh CSub (sc_name x) lvl None (sc_dt x))
             | Err x => Err x
             end
  | CSub => Err (Crash AttributeError)
  end.

(* Element.__init__ attaches the new element (self.parent = parent / self.traversal_parent = ...)
   BEFORE CanBeVaries.__init__ gives a VARIES_n element its name: at that moment the name is None *)
Definition create_element (p : nat) (name : str) (traversal : bool) (reference : option (str * sref)) : M nat :=
  let! P := node_of p in
  let! '(cname, cref) := match reference with Some r => ret r | None => lift (fcr P name) end in
  let! nd := lift (ctor_node P cname cref) in
  let early_name := if valid_child_name (Some cname) (Some (unbs "VARIES")) && negb (cls_eqb (n_cls P) CSeg)
                    then None else n_name nd in
  let renamed := negb (opt_eqb early_name (n_name nd)) in
  let! c := alloc (with_name nd early_name) in
  (if traversal then set_tparent_raw c (Some p) ;; add p c
   else point_to c p ;; add p c) ;;
  (* CanBeVaries.__init__: self.name = name.upper(), only on the VARIES_n path *)
  (if renamed then (if exotic then set_name c (n_name nd) else raise OutOfFuel) else ret tt) ;;
  ret c.

(* ---------- encoding (to_er7) over the heap ---------- *)

Definition idx_slot (m : imap) (k : str) : slot nat :=
  match iget (Some k) m with [] => None | l => Some l end.

Definition st_ordered_of (st : option structure) : list str :=
  match st with Some s => match st_ordered s with Some o => o | None => [] end | None => [] end.

Definition enc_sub_h (s : store) (i : nat) : str := n_enc (getn s i).

(* Element._get_children(trailing=False) *)
Definition generic_slots_h (s : store) (X : node) : list (slot nat) :=
  remove_trailing slot_empty
    (map (idx_slot (n_idx X)) (st_ordered_of (n_st X))
     ++ map (fun c => Some [c]) (filter (fun c => name_none_or_st (n_name (getn s c))) (n_list X))).

Definition enc_comp_h (s : store) (i : nat) : str :=
  let X := getn s i in
  if base (n_dt X) || opt_is_none (n_dt X)
  then enc_slots (enc_sub_h s) (ssep e) [Some (n_list X)]
  else enc_slots (enc_sub_h s) (ssep e) (generic_slots_h s X).

Definition varies_slots_h (s : store) (X : node) : list (slot nat) :=
  let last := fold_left (fun m kv => match snd kv with
                                     | [] => m
                                     | _ => N.max m (varies_index (fst kv))
                                     end) (n_idx X) 0%N in
  remove_trailing slot_empty (map (fun i => idx_slot (n_idx X) (name_idx "VARIES" i)) (seq 1 (N.to_nat last)))
  ++ map (fun c => Some [c]) (filter (fun c => unknown (getn s c)) (n_list X)).

Definition enc_field_h (s : store) (i : nat) : str :=
  let X := getn s i in
  if is_varies (n_dt X) then enc_slots (enc_comp_h s) (csep e) (varies_slots_h s X)
  else if base (n_dt X) || opt_is_none (n_dt X)
  then enc_slots (enc_comp_h s) (csep e) [Some (n_list X)]
  else enc_slots (enc_comp_h s) (csep e) (generic_slots_h s X).

Definition seg_slots_h (s : store) (X : node) (trailing : bool) : list (slot nat) :=
  let nm := str_of_opt (n_name X) in
  let extra := if n_inf X
               then map (fun i => idx_slot (n_idx X) (name_idx nm i))
                        (seq (S (N.to_nat (n_last_allowed X))) (N.to_nat (n_last X) - N.to_nat (n_last_allowed X)))
               else [] in
  let all := map (idx_slot (n_idx X)) (st_ordered_of (n_st X)) ++ extra
             ++ map (fun c => Some [c]) (filter (fun c => name_none_or_st (n_name (getn s c))) (n_list X)) in
  if trailing then all else remove_trailing slot_empty all.

Definition enc_seg_h (s : store) (i : nat) (trailing : bool) : str :=
  let X := getn s i in
  let parts := map (fun sl => match sl with
                              | Some reps => bjoin (rsep e) (map (enc_field_h s) reps)
                              | None => []
                              end) (seg_slots_h s X trailing) in
  bjoin (fsep e) (str_of_opt (n_name X) :: parts).

Definition to_er7 (s : store) (i : nat) (trailing : bool) : str :=
  match n_cls (getn s i) with
  | CSeg => enc_seg_h s i trailing
  | CField => enc_field_h s i
  | CComp => enc_comp_h s i
  | CSub => enc_sub_h s i
  end.

(* ---------- ElementList.set ---------- *)


Definition is_cnf (x : exn) : bool := is_exn EChildNotFound x.

(* Element.__getattr__(name) -> children.get(name): the element_name of the ElementProxy *)
Definition proxy_name_plain (P : node) (name : str) : result str :=
  if ihas (Some name) (n_idx P) || ihas (Some name) (n_tidx P) then Ok (upper name)
  else match fcr P (upper name) with Ok (n, _) => Ok (upper n) | Err x => Err x end.

(* Field._get_traversal_children + the naming part of Field._do_traversal: the component (and
   subcomponent) names addressed by a positional path such as PID_5_1 or PID_5_1_2 *)
Definition split_us (s : str) : list str := bsplit "_" s.
Definition positional (P : node) (name : str) : result (str * option nat) :=
  match split_us (upper name) with
  | a :: b :: c :: rest =>
      let sub := match rest with [] => Some None | [d] => if py_int_ok d then Some (Some (N.to_nat (py_int_val d))) else None | _ => None end in
      match sub with
      | None => HLe EChildNotFound
      | Some sub =>
          if negb (py_int_ok c) then HLe EChildNotFound else
          if negb (opt_eqb (Some (a ++ "_" ++ b)) (n_name P)) then HLe EChildNotFound else
          let ci := N.to_nat (py_int_val c) in
          if base (n_dt P) then
            (if opt_is_some sub || negb (Nat.eqb ci 1) then HLe EChildNotFound else Ok (str_of_opt (n_dt P), None))
          else Ok (name_idx (str_of_opt (n_dt P)) ci, sub)
      end
  | _ => HLe EChildNotFound
  end.

(* ---------- lazy traversal: ElementProxy ---------- *)

(* ElementProxy.__getattr__/__setattr__: list[0], else traversal_list[0], else create under traversal_parent *)
Definition proxy_element (p : nat) (pname : str) : M nat :=
  let! P := node_of p in
  match iget (Some pname) (n_idx P) with
  | c :: _ => ret c
  | [] => match iget (Some pname) (n_tidx P) with
          | c :: _ => ret c
          | [] => create_element p pname true None
          end
  end.

(* getattr(element, name) for a child name -> (owner of the ElementList, element_name of the proxy).
   A positional path with a subcomponent part resolves the component proxy first (creating it
   lazily) and then asks the component. *)
Definition get_proxy (x : nat) (name : str) : M (nat * str) :=
  let! X := node_of x in
  match n_cls X with
  | CField =>
      mcatch (let! pn := lift (proxy_name_plain X name) in ret (x, pn)) is_cnf
        (let! '(cn, sub) := lift (positional X name) in
         let! X := node_of x in
         let! pn := lift (proxy_name_plain X cn) in
         match sub with
         | None => ret (x, pn)
         | Some k =>
             (* component = getattr(self, component_name); component_ref = structure_by_name[component_name]['ref'] *)
             let! cdt := lift (match n_st X with
                               | Some st => if has_map (n_st X) then
                                              match by_name st cn with
                                              | Some y => ref_dt (se_ref y)
                                              | None => HLe EChildNotFound     (* KeyError -> ChildNotFound (fix 0d2eed5) *)
                                              end
                                            else HLe EChildNotFound
                               | None => HLe EChildNotFound
                               end) in
             let! c := proxy_element x pn in
             let! C := node_of c in
             mcatch (let! pn2 := lift (proxy_name_plain C (name_idx (str_of_opt cdt) k)) in ret (c, pn2))
                    is_cnf (raise (HL7 EChildNotFound))
         end)
  | _ => let! pn := lift (proxy_name_plain X name) in ret (x, pn)
  end.

(* the right-hand side  getattr(owner, name)  is evaluated (to a proxy) before anything else *)
Definition resolve_value (v : value) : M value :=
  match v with
  | VProxy o nm => let! '(o', pn) := get_proxy o nm in ret (VProxy o' pn)
  | _ => ret v
  end.

(* SubComponent._set_value with a BaseDataType instance / element.value = BaseDataType (Field, Component) *)
Definition dt_value_node (lvl : level) (dt text : str) : result node :=
  match leaf_enc lvl (Some dt) text with
  | Ok enc => Ok (with_value (fresh CSub (Some dt) lvl None (Some dt)) text enc)
  | Err x => Err x
  end.

Fixpoint set_value_dt (fuel : nat) (x : nat) (dt text : str) : M unit :=
  match fuel with
  | O => raise OutOfFuel
  | S f =>
      let! X := node_of x in
      match n_cls X with
      | CSub =>
          let! enc := lift (leaf_enc (n_lvl X) (Some dt) text) in
          set_val x text enc ;; to_traversal FUEL x
      | CSeg => raise (Crash AttributeError)
      | _ =>
          if negb (base (n_dt X)) then raise (HL7 EChildNotValid) else
          (* cls(datatype=value.classname, version=, validation_level=) ; child.value = value *)
          let! c := (match n_cls X with
                     | CField =>
                         let! nd := lift (match mk_component t (n_lvl X) None (Some dt) None with
                                          | Ok y => Ok (fresh CComp (c_name y) (n_lvl X) (c_st y) (c_dt y))
                                          | Err y => Err y end) in
                         alloc nd
                     | _ =>
                         let! nd := lift (match mk_subcomponent t (n_lvl X) (leaf_enc (n_lvl X)) None (Some dt) [] None with
                                          | Ok y => Ok (fresh CSub (sc_name y) (n_lvl X) None (sc_dt y))
                                          | Err y => Err y end) in
                         alloc nd
                     end) in
          set_value_dt f c dt text ;;
          let! X := node_of x in
          match n_list X with
          | [] => add x c
          | old :: _ => replace_child x old c
          end
      end
  end.

(* children.set(name, value, index) *)
Definition set_child (p : nat) (name : str) (v : value) (index : Z) : M unit :=
  (* isinstance(value, ElementProxy): value = value[0].to_er7() *)
  let! v := (match v with
             | VProxy o pn =>
                 let! O := node_of o in
                 match iget (Some pn) (n_idx O) with
                 | [] => raise (Crash IndexError)
                 | c :: _ => fun s => (s, Ok (VText (to_er7 s c false)))
                 end
             | _ => ret v
             end) in
  let name := upper name in
  let! P := node_of p in
  let! '(cname, cref) := lift (fcr P name) in
  let! child := (match v with
                 | VText txt => parse_child p cname cref txt
                 | VElem c => ret c
                 | VDt dt txt =>
                     (* create_element(name, False, reference, attach=False): built detached (fix b690ba1);
                        child.value = value; it is attached below like any other child *)
                     let! nd := lift (ctor_node P cname cref) in
                     let! c := alloc nd in
                     set_value_dt 3 c dt txt ;; ret c
                 | VProxy _ _ => raise OutOfFuel
                 end) in
  let! C := node_of child in
  if negb (opt_eqb (n_name C) (Some cname)) then raise (HL7 EChildNotValid) else
  let! old := child_at_index (negb exotic) p cname index in
  (match old with
   | None => append p child
   | Some o => replace_child p o child
   end) ;;
  to_traversal FUEL p.


(* ---------- element.value = text ---------- *)

Fixpoint add_all (p : nat) (kids : list nat) : M unit :=
  match kids with
  | [] => ret tt
  | c :: r => add p c ;; add_all p r
  end.
Fixpoint alloc_all {A} (f : A -> M nat) (l : list A) : M (list nat) :=
  match l with
  | [] => ret []
  | x :: r => let! i := f x in let! is := alloc_all f r in ret (i :: is)
  end.

(* the structure swap of SupportComplexDataType._set_datatype: done BEFORE the check that may refuse
   the change (new_ref = list(self.reference); new_ref[1] = struct; new_ref[2] = datatype) *)
Definition restructure (X : node) (x : nat) (dt : option str) : M unit :=
  (if negb (base dt) && negb (is_varies dt) && opt_is_some dt && negb (opt_eqb dt (n_dt X)) && opt_is_some (n_dt X)
   then
     match dt with
     | Some d =>
         (* load_reference(datatype, 'Datatypes_Structs') comes first: a datatype without a structure in this version
            (CE in 2.7) is ChildNotFound whatever the element looks like *)
         if negb (has_struct t d) then raise (HL7 EChildNotFound) else
         match n_st X with
         | Some st =>
         let! st' := lift (match st_reference st with
                           | SLeaf i => parse_structure t (SLeaf (mk_info dt (i_long i) (i_table i) (i_maxlen i)))
                           | SSeqDt i | SSeqIn false _ (Some i) =>
                               parse_structure t (SSeqDt (mk_info dt (i_long i) (i_table i) (i_maxlen i)))
                           | SSeqIn true _ (Some i) =>
                               match slookup d (t_structs t) with
                               | Some rows => parse_structure t (SSeqIn true rows (Some (mk_info dt (i_long i) (i_table i) (i_maxlen i))))
                               | None => HLe EChildNotFound
                               end
                           | _ => Err (Crash IndexError)
                           end) in
         set_st x (Some st')
         | None => raise (Crash AttributeError)
         end
     | None => raise (Crash AttributeError)
     end
   else ret tt).

(* SupportComplexDataType._set_datatype *)
Fixpoint set_datatype (fuel : nat) (x : nat) (dt : option str) : M unit :=
  match fuel with
  | O => raise OutOfFuel
  | S f =>
      let! X := node_of x in
      match n_cls X with
      | CSeg => raise (Crash AttributeError)
      | CSub =>
          if nonempty_name dt && negb (base dt) then raise (HL7 EOperationNotAllowed) else
          if strict X && opt_is_some (n_dt X) && negb (opt_eqb dt (n_dt X)) then raise (HL7 EOperationNotAllowed) else
          if negb (match n_value X with [] => true | _ => false end) then raise (HL7 EOperationNotAllowed) else
          (match n_parent X with
           | Some q =>
               let! Q := node_of q in
               if base (n_dt Q) && negb (opt_eqb (n_dt Q) dt) then set_datatype f q dt else ret tt
           | None => ret tt
           end) ;;
          set_dt x dt
      | _ =>
          if strict X && nonempty_name (n_dt X) && negb (opt_eqb dt (n_dt X)) then raise (HL7 EOperationNotAllowed) else
          restructure X x dt ;;
          let! X := node_of x in
          match n_list X with
          | [] => set_dt x dt
          | c0 :: _ =>
              if base (n_dt X) then
                set_dt x dt ;;
                (if base dt then set_datatype f c0 dt else ret tt)
              else raise (HL7 EOperationNotAllowed)
          end
      end
  end.

Definition set_value (x : nat) (text : str) : M unit :=
  let! X := node_of x in
  let lvl := n_lvl X in
  match n_cls X with
  | CSub =>
      match text with
      | [] => set_val x [] [] ;; to_traversal FUEL x
      | _ => let! enc := lift (leaf_enc lvl (n_dt X) text) in
             set_val x text enc ;; to_traversal FUEL x
      end
  | CField =>
      let! kids := lift (parse_components t lvl e (leaf_enc lvl) text (n_dt X) (n_st X)) in
      (if negb (is_strict lvl) && base (n_dt X) && Nat.ltb 1 (length kids) then set_datatype 3 x None else ret tt) ;;
      let! ids := alloc_all (alloc_comp lvl None) kids in
      do_reset_children x ;;
      add_all x ids
  | CComp =>
      let! kids := lift (parse_subcomponents t lvl e (leaf_enc lvl) text (n_dt X) (n_st X)) in
      (if negb (is_strict lvl) && base (n_dt X) && Nat.ltb 1 (length kids) then set_datatype 3 x None else ret tt) ;;
      let! ids := alloc_all (alloc_sub lvl None) kids in
      do_reset_children x ;;
      add_all x ids
  | CSeg => raise OutOfFuel      (* Segment.value = text is outside the modelled surface *)
  end.

(* ---------- the public operations ---------- *)

(* setattr(x, name, v) where name is a child name (x.<name> = v) *)
Definition set_attr (x : nat) (name : str) (v : value) : M unit :=
  let! X := node_of x in
  match n_cls X with
  | CField =>
      mcatch (set_child x name v 0) is_cnf
        (let! X := node_of x in
         let! '(cn, sub) := lift (positional X name) in
         match sub with
         | None => set_child x cn v 0
         | Some k =>
             let! '(c, pn) := get_proxy x name in
             (* get_proxy resolved component and subcomponent name; the assignment goes to the component *)
             mcatch (set_child c pn v 0) is_cnf (raise (HL7 EChildNotFound))
         end)
  | _ => set_child x name v 0
  end.

(* one link of a traversal: the proxy (owner, name) followed by the attribute `name'` *)
Definition step_proxy (pr : nat * str) (name' : str) : M (nat * str) :=
  let! el := proxy_element (fst pr) (snd pr) in
  get_proxy el name'.

Fixpoint walk (pr : nat * str) (names : list str) : M (nat * str) :=
  match names with
  | [] => ret pr
  | n :: r => let! pr' := step_proxy pr n in walk pr' r
  end.

(* x.n1.n2...nk  (k >= 1): the proxy it evaluates to *)
Definition read_chain (x : nat) (names : list str) : M (nat * str) :=
  match names with
  | [] => raise OutOfFuel
  | n :: r => let! pr := get_proxy x n in walk pr r
  end.

(* x.n1...nk.value : str(value) of the element the last proxy resolves to *)
Definition read_value (x : nat) (names : list str) : M str :=
  let! pr := read_chain x names in
  let! el := proxy_element (fst pr) (snd pr) in
  fun s => (s, Ok (to_er7 s el false)).

(* x.n1...nk = v   (k >= 1) *)
Definition write_chain (x : nat) (names : list str) (v : value) : M unit :=
  match rev names with
  | [] => raise OutOfFuel
  | [n] => set_attr x n v
  | last :: front_rev =>
      let! pr := read_chain x (rev front_rev) in
      let! el := proxy_element (fst pr) (snd pr) in
      set_attr el last v
  end.

(* x.n1...nk.value = text   (k >= 1) : ElementProxy.__setattr__('value', ...) promotes first *)
Definition write_value (x : nat) (names : list str) (text : str) : M unit :=
  let! pr := read_chain x names in
  let! el := proxy_element (fst pr) (snd pr) in
  to_traversal FUEL el ;;
  set_value el text.

(* x.n1...nk.value = None : the proxy promotes the element it resolves to (as for any .value
   assignment); SubComponent._set_value(None) just clears the value; the other classes hand None to
   their child parser (text[:3] / text.split) *)
Definition write_value_none (x : nat) (names : list str) : M unit :=
  let! pr := read_chain x names in
  let! el := proxy_element (fst pr) (snd pr) in
  to_traversal FUEL el ;;
  let! E := node_of el in
  match n_cls E with
  | CSub => set_val el [] []
  | CSeg => raise (Crash TypeError)
  | _ => raise (Crash AttributeError)
  end.

(* x.<name>[i] = v *)
Definition set_index (x : nat) (name : str) (i : Z) (v : value) : M unit :=
  let! '(o, pn) := get_proxy x name in
  set_child o pn v i.

(* x.children[i] = v *)
Definition set_list_index (x : nat) (i : nat) (v : value) : M unit :=
  let! X := node_of x in
  match nth_error (n_list X) i with
  | None => raise (Crash IndexError)
  | Some c =>
      let! C := node_of c in
      if negb (ihas (n_name C) (n_idx X)) then raise (Crash KeyError) else
      match index_of c (iget (n_name C) (n_idx X)) with
      | None => raise PyValueError
      | Some bi =>
          match n_name C with
          | None => raise (Crash AttributeError)       (* None.upper() *)
          | Some nm => set_child x nm v (Z.of_nat bi)
          end
      end
  end.

(* del x.<name> : children.remove_by_name(name) *)
Definition del_child (x : nat) (name : str) : M unit :=
  let! c := child_at_index false x name 0 in
  match c with
  | None => raise (Crash AttributeError)        (* None.traversal_parent *)
  | Some c => remove_child x c
  end.
(* x.children.remove_by_name(name, index) *)
Definition remove_by_name (x : nat) (name : str) (i : Z) : M unit :=
  let! c := child_at_index false x name i in
  match c with
  | None => raise (Crash AttributeError)
  | Some c => remove_child x c
  end.
Definition del_attr (x : nat) (name : str) : M unit :=
  let! X := node_of x in
  match n_cls X with
  | CField =>
      mcatch (del_child x name) is_cnf
        (let! X := node_of x in
         let! '(cn, sub) := lift (positional X name) in
         match sub with
         | None => del_child x cn
         | Some k =>
             let! '(c, pn) := get_proxy x name in
             mcatch (del_child c pn) is_cnf (raise (HL7 EChildNotFound))
         end)
  | _ => del_child x name
  end.

(* del x.<name>[i] *)
Definition del_index (x : nat) (name : str) (i : Z) : M unit :=
  let! '(o, pn) := get_proxy x name in
  let! O := node_of o in
  match py_nth (iget (Some pn) (n_idx O)) i with
  | None => raise (Crash IndexError)
  | Some c => remove_child o c
  end.

(* del x.children[i] *)
Definition del_list_index (x : nat) (i : nat) : M unit :=
  let! X := node_of x in
  match nth_error (n_list X) i with
  | None => raise (Crash IndexError)
  | Some c =>
      do_rm_idx x c ;;
      modify (fun s => let X := getn s x in
                       setn s x (with_children X (firstn i (n_list X) ++ skipn (S i) (n_list X)) (n_idx X) (n_tidx X)))
  end.

(* x.add_field(name) / add_component / add_subcomponent *)
Definition add_helper (x : nat) (name : str) : M nat :=
  let! X := node_of x in
  match n_cls X with
  | CSub => raise (Crash AttributeError)
  | CComp => if unknown X && base (n_dt X) then raise (HL7 EChildNotValid) else create_element x name false None
  | _ => create_element x name false None
  end.

(* constructors called without parent *)
Definition new_segment (lvl : level) (name : str) : M nat :=
  let! x := lift (mk_segment t name None) in alloc_seg lvl x.
Definition new_field (lvl : level) (name : option str) (dt : option str) : M nat :=
  let! x := lift (mk_field t lvl name dt None) in alloc_field lvl None x.
Definition new_component (lvl : level) (name : option str) (dt : option str) : M nat :=
  let! x := lift (mk_component t lvl name dt None) in alloc_comp lvl None x.
Definition new_subcomponent (lvl : level) (name : option str) (dt : option str) (text : str) : M nat :=
  let! x := lift (mk_subcomponent t lvl (leaf_enc lvl) name dt text None) in alloc_sub lvl None x.



(* ------------------------------------------------------------------------------------------ *)
(* histories *)


Definition handle (r : rstate) (h : nat) : result nat :=
  match nth_error (r_handles r) h with Some i => Ok i | None => Err OutOfFuel end.

Definition hval (r : rstate) (v : hvalue) : result value :=
  match v with
  | HText s => Ok (VText s)
  | HElem h => match handle r h with Ok i => Ok (VElem i) | Err x => Err x end
  | HProxy h n => match handle r h with Ok i => Ok (VProxy i n) | Err x => Err x end
  | HDt d s => Ok (VDt d s)
  end.

Definition names_of (s : store) (l : list nat) : str :=
  bjoin "," (map (fun c => str_of_opt (n_name (getn s c))) l).

Definition split_last (names : list str) : option (list str * str) :=
  match rev names with [] => None | l :: f => Some (rev f, l) end.

(* the computation of one operation: returns an optional new handle and a printable result *)
Definition op_m (r : rstate) (o : op) : M (option nat * str) :=
  let H := fun h => lift (handle r h) in
  let V := fun v => let! v0 := lift (hval r v) in resolve_value v0 in
  let none := fun (m : M unit) => (m ;; ret (None, [])) in
  match o with
  | ONewSeg lvl name => let! i := new_segment lvl name in ret (Some i, [])
  | ONewField lvl name dt => let! i := new_field lvl name dt in ret (Some i, [])
  | ONewComp lvl name dt => let! i := new_component lvl name dt in ret (Some i, [])
  | ONewSub lvl name dt text => let! i := new_subcomponent lvl name dt text in ret (Some i, [])
  | OAdd x c => let! x := H x in let! c := H c in none (add x c)
  | OSetAttr x names v =>
      let! x := H x in let! v := V v in none (write_chain x names v)
  | OSetIndex x names i v =>
      let! x := H x in let! v := V v in
      let! '(o, pn) := read_chain x names in
      none (set_child o pn v i)
  | OSetListIndex x i v => let! x := H x in let! v := V v in none (set_list_index x i v)
  | ODelAttr x names =>
      let! x := H x in
      match split_last names with
      | None => raise OutOfFuel
      | Some ([], l) => none (del_attr x l)
      | Some (f, l) =>
          let! '(o, pn) := read_chain x f in
          let! O := node_of o in
          match iget (Some pn) (n_idx O) with
          | [] => raise (Crash IndexError)
          | c :: _ => none (del_attr c l)
          end
      end
  | ODelIndex x names i =>
      let! x := H x in
      let! '(o, pn) := read_chain x names in
      let! O := node_of o in
      match py_nth (iget (Some pn) (n_idx O)) i with
      | None => raise (Crash IndexError)
      | Some c => none (remove_child o c)
      end
  | ODelListIndex x i => let! x := H x in none (del_list_index x i)
  | ORemove x c => let! x := H x in let! c := H c in none (remove_child x c)
  | OAddHelper x name => let! x := H x in let! i := add_helper x name in ret (Some i, [])
  | OGrab x names i =>
      let! x := H x in
      let! '(o, pn) := read_chain x names in
      let! O := node_of o in
      match py_nth (iget (Some pn) (n_idx O)) i with
      | None => raise (Crash IndexError)
      | Some c => ret (Some c, [])
      end
  | OGrabList x i =>
      let! x := H x in
      let! X := node_of x in
      match nth_error (n_list X) i with
      | None => raise (Crash IndexError)
      | Some c => ret (Some c, [])
      end
  | ORead x names =>
      let! x := H x in
      let! '(o, pn) := read_chain x names in
      fun s => (s, Ok (None, names_of s (iget (Some pn) (n_idx (getn s o)))))
  | OReadValue x names =>
      let! x := H x in
      let! v := read_value x names in ret (None, v)
  | OLen x names =>
      let! x := H x in
      let! '(o, pn) := read_chain x names in
      fun s => let l := iget (Some pn) (n_idx (getn s o)) in
               (s, Ok (None, nat_to_str (length l) ++ ":" ++ names_of s l))
  | OLenList x =>
      let! x := H x in
      fun s => let l := n_list (getn s x) in
               (s, Ok (None, nat_to_str (length l) ++ ":" ++ names_of s l))
  | OToEr7 x =>
      let! x := H x in
      fun s => (s, Ok (None, to_er7 s x false ++ "\" ++ to_er7 s x true))
  | OSetValueChain x names text =>
      let! x := H x in none (write_value x names text)
  | OSetValue x text => let! x := H x in none (set_value x text)
  | OSetValueDt x dt text => let! x := H x in none (set_value_dt 3 x dt text)
  | OSetDatatype x dt => let! x := H x in none (set_datatype 3 x dt)
  | OSetParent c p =>
      let! c := H c in
      match p with
      | None => none (set_parent c None)
      | Some p => let! p := H p in none (set_parent c (Some p))
      end
  | ORemoveByName x name i => let! x := H x in none (remove_by_name x name i)
  | OSetValueNone x names => let! x := H x in none (write_value_none x names)
  end.

(* one step of a history: new state, outcome code, printable result *)
Definition step (r : rstate) (o : op) : rstate * nat * str :=
  match op_m r o (r_store r) with
  | (s', Ok (Some i, res)) => (mk_rstate s' (r_handles r ++ [i]), 0, res)
  | (s', Ok (None, res)) => (mk_rstate s' (r_handles r), 0, res)
  | (s', Err x) => (mk_rstate s' (r_handles r), exn_code x, [])
  end.

(* ---------- canonical dump of everything reachable from the handles ---------- *)

Definition okey_leb (a b : option str) : bool :=
  match a, b with
  | None, _ => true
  | Some _, None => false
  | Some x, Some y => str_leb x y
  end.
Fixpoint ins_sorted (x : option str * list nat) (l : imap) : imap :=
  match l with
  | [] => [x]
  | y :: r => if okey_leb (fst x) (fst y) then x :: l else y :: ins_sorted x r
  end.
Definition sort_imap (m : imap) : imap := fold_right ins_sorted [] m.

Definition opt_list (o : option nat) : list nat := match o with Some x => [x] | None => [] end.
Definition neighbours (X : node) : list nat :=
  opt_list (n_parent X) ++ opt_list (n_tparent X) ++ n_list X
  ++ flat_map snd (sort_imap (n_idx X)) ++ flat_map snd (sort_imap (n_tidx X)).

Definition add_unseen (order : list nat) (l : list nat) : list nat :=
  fold_left (fun acc c => if memb c acc then acc else acc ++ [c]) l order.

(* breadth-first numbering: `order` lists node ids by number *)
Fixpoint bfs (fuel : nat) (s : store) (order : list nat) (i : nat) : list nat :=
  match fuel with
  | O => order
  | S f => match nth_error order i with
           | None => order
           | Some x => bfs f s (add_unseen order (neighbours (getn s x))) (S i)
           end
  end.

Definition num_of (order : list nat) (c : nat) : str :=
  match index_of c order with Some k => nat_to_str k | None => "?" end.
Definition nums (order : list nat) (l : list nat) : str := bjoin "," (map (num_of order) l).
Definition dopt (o : option str) : str := match o with Some s => "'" ++ s ++ "'" | None => "-" end.
Definition dref (order : list nat) (o : option nat) : str := match o with Some c => num_of order c | None => "-" end.
Definition dump_imap (order : list nat) (m : imap) : str :=
  concat (map (fun kv => dopt (fst kv) ++ "=" ++ nums order (snd kv) ++ ";") (sort_imap m)).

Definition NL : str := [x0a].

Definition dump_node (s : store) (order : list nat) (c : nat) : str :=
  let X := getn s c in
  num_of order c ++ ":" ++
  (match n_cls X with CSeg => "S" | CField => "F" | CComp => "C" | CSub => "s" end) ++
  "(" ++ dopt (n_name X) ++ "," ++ dopt (n_dt X) ++ "," ++ (if is_strict (n_lvl X) then "1" else "2") ++ ")P" ++
  dref order (n_parent X) ++ "T" ++ dref order (n_tparent X) ++
  "L[" ++ nums order (n_list X) ++ "]I{" ++ dump_imap order (n_idx X) ++ "}X{" ++ dump_imap order (n_tidx X) ++ "}" ++
  (match n_cls X with
   | CSub => "V{" ++ n_enc X ++ "}"
   | CSeg => "N(" ++ (if n_inf X then "inf" else "fin") ++ "," ++ N_to_str (n_last_allowed X) ++ "," ++ N_to_str (n_last X) ++ ")"
   | _ => []
   end) ++ NL.

Definition dedup (l : list nat) : list nat := add_unseen [] l.

Definition dump (r : rstate) : str :=
  let s := r_store r in
  let order := bfs 2000 s (dedup (r_handles r)) 0 in
  concat (map (dump_node s order) order) ++
  concat (map (fun h => "E" ++ num_of order h ++ "{" ++ to_er7 s h false ++
                        (match n_cls (getn s h) with CSeg => "\" ++ to_er7 s h true | _ => [] end) ++ "}" ++ NL)
              (r_handles r)).

(* a hash of the observation of one step (outcome code, result, dump): the byte string read as a
   base-256 number modulo 2^61-1 (Python: int.from_bytes(s, 'big') % (2**61-1)); reduction by
   folding, 7 bytes at a time *)
Definition M61 : N := 2305843009213693951.
Definition fold61 (x : N) : N := (N.land x M61 + N.shiftr x 61)%N.
Fixpoint hash_go (x : str) (h c : N) (k : nat) : N :=
  match x with
  | [] => N.modulo (fold61 (fold61 (N.shiftl h (N.of_nat (8 * k)) + c))) M61
  | b :: r => if Nat.eqb k 7 then hash_go r (fold61 (fold61 (N.shiftl h 56 + c))) (code b) 1
              else hash_go r h (c * 256 + code b)%N (S k)
  end.
Definition hash_str (x : str) : N := hash_go x 0%N 0%N 0.

Definition observe (r : rstate) (code : nat) (res : str) : str :=
  nat_to_str code ++ "|" ++ res ++ NL ++ dump r.

(* run a history against the expected observation hashes: Some k = first step that differs *)
Fixpoint run_check (r : rstate) (ops : list op) (expected : list N) (k : nat) : option nat :=
  match ops, expected with
  | o :: ops', h :: exp' =>
      match step r o with
      | (r', code, res) =>
          if N.eqb (hash_str (observe r' code res)) h then run_check r' ops' exp' (S k) else Some k
      end
  | [], [] => None
  | _, _ => Some k
  end.

(* the observations themselves (for diagnostics) *)
Fixpoint run_observe (r : rstate) (ops : list op) : list str :=
  match ops with
  | [] => []
  | o :: ops' => match step r o with (r', code, res) => observe r' code res :: run_observe r' ops' end
  end.

Definition init_rstate : rstate := mk_rstate empty_store [].

End Ops.
