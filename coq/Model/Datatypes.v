(* Base datatype leaves DT / TM / DTM / NM / SI as hl7apy computes them (factories.py, utils.py,
   base_datatypes.py, CPython's _strptime / decimal / int on ASCII text) and, separately, the
   SPECIFICATION recognisers written from the HL7 grammar.  Definitions only.
   Model domain: ASCII strings (list byte); NM exponents of at most 18 digits. *)
From Coq Require Import List Bool Arith NArith ZArith Init.Byte Strings.Byte.
From HL7 Require Import Lib.Str Model.Ec Model.Result Model.Escape Gen.Params.
Import ListNotations.
Open Scope bs_scope.

(* ------------------------------------------------------------------ *)
(* characters                                                           *)
Definition c_dot : byte := x2e.    (* . *)
Definition c_plus : byte := x2b.   (* + *)
Definition c_minus : byte := x2d.  (* - *)
Definition c_space : byte := x20.
Definition c_us : byte := x5f.     (* _ *)
Definition c_nl : byte := x0a.
Definition c_0 : byte := x30.
Definition c_1 : byte := x31.
Definition c_2 : byte := x32.
Definition c_3 : byte := x33.
Definition c_4 : byte := x34.
Definition c_5 : byte := x35.
Definition c_6 : byte := x36.
Definition c_9 : byte := x39.
Definition is_c (c b : byte) : bool := beqb b c.
Definition rng (lo hi b : byte) : bool := between (code lo) (code hi) b.   (* [lo-hi] *)
Definition nilb (s : str) : bool := match s with [] => true | _ => false end.
Definition all_dig (s : str) : bool := forallb is_digit s.                 (* true on "" *)

(* ------------------------------------------------------------------ *)
(* the regex fragment _strptime builds: a sequence of groups, each an ordered list of
   alternatives, each alternative a fixed sequence of character classes; re.match semantics
   (backtracking, first successful path in priority order, no anchoring at the end) *)
Definition alt := list (byte -> bool).
Definition group := list alt.

Fixpoint alt_match (a : alt) (s : str) : bool :=
  match a, s with
  | [], _ => true
  | p :: a', c :: s' => p c && alt_match a' s'
  | _ :: _, [] => false
  end.

(* texts the group can match at the start of s, in priority order *)
Definition cands (g : group) (s : str) : list str :=
  flat_map (fun a => if alt_match a s then [take (length a) s] else []) g.

Fixpoint first_some {A B} (f : A -> option B) (l : list A) : option B :=
  match l with
  | [] => None
  | x :: r => match f x with Some y => Some y | None => first_some f r end
  end.

Fixpoint rmatch (gs : list group) (s : str) : option (list str * str) :=
  match gs with
  | [] => Some ([], s)
  | g :: gs' =>
      first_some (fun t => match rmatch gs' (drop (length t) s) with
                           | Some (ts, rest) => Some (t :: ts, rest)
                           | None => None
                           end) (cands g s)
  end.

Definition dg := is_digit.     (* \d and [0-9] on ASCII text *)
(* (?P<Y>\d\d\d\d) *)
Definition re_Y : group := [[dg; dg; dg; dg]].
(* (?P<m>1[0-2]|0[1-9]|[1-9]) *)
Definition re_m : group := [[is_c c_1; rng c_0 c_2]; [is_c c_0; rng c_1 c_9]; [rng c_1 c_9]].
(* (?P<d>3[0-1]|[1-2]\d|0[1-9]|[1-9]| [1-9]) *)
Definition re_d : group :=
  [[is_c c_3; rng c_0 c_1]; [rng c_1 c_2; dg]; [is_c c_0; rng c_1 c_9]; [rng c_1 c_9];
   [is_c c_space; rng c_1 c_9]].
(* (?P<H>2[0-3]|[0-1]\d|\d) *)
Definition re_H : group := [[is_c c_2; rng c_0 c_3]; [rng c_0 c_1; dg]; [dg]].
(* (?P<M>[0-5]\d|\d) *)
Definition re_M : group := [[rng c_0 c_5; dg]; [dg]].
(* (?P<S>6[0-1]|[0-5]\d|\d) *)
Definition re_S : group := [[is_c c_6; rng c_0 c_1]; [rng c_0 c_5; dg]; [dg]].
(* \. *)
Definition re_dot : group := [[is_c c_dot]].
(* (?P<f>[0-9]{1,6}): greedy with backtracking = longest first *)
Definition re_f : group :=
  [[dg; dg; dg; dg; dg; dg]; [dg; dg; dg; dg; dg]; [dg; dg; dg; dg]; [dg; dg; dg]; [dg; dg]; [dg]].

Inductive dtag := TY | Tm | Td | TH | TMi | TS | Tdot | Tf.
Definition group_of (t : dtag) : group :=
  match t with
  | TY => re_Y | Tm => re_m | Td => re_d | TH => re_H | TMi => re_M | TS => re_S
  | Tdot => re_dot | Tf => re_f
  end.
Definition tag_str (t : dtag) : str :=
  match t with
  | TY => "%Y" | Tm => "%m" | Td => "%d" | TH => "%H" | TMi => "%M" | TS => "%S"
  | Tdot => "." | Tf => "%f"
  end.
Definition fmt_str (f : list dtag) : str := flat_map tag_str f.
Definition is_Tf (t : dtag) : bool := match t with Tf => true | _ => false end.
Definition has_f (f : list dtag) : bool := existsb is_Tf f.

(* ------------------------------------------------------------------ *)
(* datetime values                                                      *)
Record dtv := mk_dtv { yr : N; mo : N; dy : N; hh : N; mi : N; ss : N; us : N }.
Definition dtv0 : dtv := mk_dtv 1900 1 1 0 0 0 0.

(* int(text) for the texts the groups above can match: digits, possibly after one blank *)
Definition txt_int (t : str) : N := digits_val (lstrip_by (is_c c_space) t).
(* %f: s += "0" * (6 - len(s)); int(s) *)
Definition frac_us (t : str) : N := digits_val (t ++ repeat c_0 (6 - length t)).

Definition set_field (v : dtv) (t : dtag) (x : str) : dtv :=
  match t with
  | TY => mk_dtv (txt_int x) (mo v) (dy v) (hh v) (mi v) (ss v) (us v)
  | Tm => mk_dtv (yr v) (txt_int x) (dy v) (hh v) (mi v) (ss v) (us v)
  | Td => mk_dtv (yr v) (mo v) (txt_int x) (hh v) (mi v) (ss v) (us v)
  | TH => mk_dtv (yr v) (mo v) (dy v) (txt_int x) (mi v) (ss v) (us v)
  | TMi => mk_dtv (yr v) (mo v) (dy v) (hh v) (txt_int x) (ss v) (us v)
  | TS => mk_dtv (yr v) (mo v) (dy v) (hh v) (mi v) (txt_int x) (us v)
  | Tdot => v
  | Tf => mk_dtv (yr v) (mo v) (dy v) (hh v) (mi v) (ss v) (frac_us x)
  end.
Fixpoint set_fields (v : dtv) (f : list dtag) (ts : list str) : dtv :=
  match f, ts with
  | t :: f', x :: ts' => set_fields (set_field v t x) f' ts'
  | _, _ => v
  end.

Definition is_leap (y : N) : bool :=
  (N.eqb (y mod 4) 0 && (negb (N.eqb (y mod 100) 0) || N.eqb (y mod 400) 0))%N.
Definition days_in_month (y m : N) : N :=
  if N.eqb m 2 then (if is_leap y then 29 else 28)%N
  else if N.eqb m 4 || N.eqb m 6 || N.eqb m 9 || N.eqb m 11 then 30%N else 31%N.

(* what the datetime constructor accepts *)
Definition dtv_valid (v : dtv) : bool :=
  (N.leb 1 (yr v) && N.leb (yr v) 9999 && N.leb 1 (mo v) && N.leb (mo v) 12 &&
   N.leb 1 (dy v) && N.leb (dy v) (days_in_month (yr v) (mo v)) &&
   N.leb (hh v) 23 && N.leb (mi v) 59 && N.leb (ss v) 59 && N.leb (us v) 999999)%N.

(* datetime.strptime(s, fmt): regex match, "unconverted data remains", field conversion,
   datetime(...) range checks; every failure is a ValueError *)
Definition strptime (s : str) (f : list dtag) : result dtv :=
  match rmatch (map group_of f) s with
  | None => Err PyValueError
  | Some (ts, rest) =>
      if nilb rest then
        let v := set_fields dtv0 f ts in
        if dtv_valid v then Ok v else Err PyValueError
      else Err PyValueError
  end.

(* '%02d'-style printing *)
Fixpoint padn (k : nat) (n : N) : str :=
  match k with
  | O => []
  | S k' => padn k' (n / 10) ++ [digit_of (n mod 10)]
  end.
Definition strf_piece (v : dtv) (t : dtag) : str :=
  match t with
  | TY => padn 4 (yr v)              (* to_er7 formats the year itself: '{0:04d}'.format(value.year) *)
  | Tm => padn 2 (mo v) | Td => padn 2 (dy v) | TH => padn 2 (hh v)
  | TMi => padn 2 (mi v) | TS => padn 2 (ss v)
  | Tdot => [c_dot]
  | Tf => padn 6 (us v)
  end.
(* DateTimeDataType.to_er7: strftime on the format whose %Y was replaced by the four-digit year
   (years are 1..9999, so the year text is always exactly four digits on every platform) *)
Definition strftime (v : dtv) (f : list dtag) : str := flat_map (strf_piece v) f.

(* ------------------------------------------------------------------ *)
(* utils.py                                                             *)

(* ((\+(1[0-4]|0[0-9])|(-(1[0-2]|0[0-9])))([0-5][0-9])) *)
Definition off_match (o : str) : bool :=
  match o with
  | [sg; h1; h2; m1; m2] =>
      ((is_c c_plus sg && ((is_c c_1 h1 && rng c_0 c_4 h2) || (is_c c_0 h1 && rng c_0 c_9 h2))) ||
       (is_c c_minus sg && ((is_c c_1 h1 && rng c_0 c_2 h2) || (is_c c_0 h1 && rng c_0 c_9 h2)))) &&
      (rng c_0 c_5 m1 && rng c_0 c_9 m2)
  | _ => false
  end.
Definition last5 (s : str) : str := drop (length s - 5) s.
Definition off_at_end (s : str) : option str :=
  if (5 <=? length s) && off_match (last5 s) then Some (last5 s) else None.
Definition ends_nl (s : str) : bool :=
  match rev s with c :: _ => beqb c c_nl | [] => false end.
(* re.search(r'\d*(...)$', value): `$` also matches just before a final newline *)
Definition offset_found (s : str) : option str :=
  match off_at_end s with
  | Some o => Some o
  | None => if ends_nl s then off_at_end (removelast s) else None
  end.

(* value.replace(o, '') for non-empty o: left to right, non overlapping; k = characters of the
   current occurrence still to be skipped *)
Fixpoint remove_all (o : str) (k : nat) (s : str) : str :=
  match s with
  | [] => []
  | c :: r =>
      match k with
      | S k' => remove_all o k' r
      | O => if bstarts o s then remove_all o (length o - 1) r else c :: remove_all o 0 r
      end
  end.

Definition split_offset (s : str) : str * str :=
  match offset_found s with
  | Some o => (remove_all o 0 s, o)
  | None => (s, [])
  end.

Definition date_format (s : str) : result (list dtag) :=
  if length s =? 4 then Ok [TY]
  else if length s =? 6 then Ok [TY; Tm]
  else if length s =? 8 then Ok [TY; Tm; Td]
  else Err PyValueError.

Definition timestamp_format (s : str) : result (list dtag * nat) :=
  if length s =? 2 then Ok ([TH], 4)
  else if length s =? 4 then Ok ([TH; TMi], 4)
  else if length s =? 6 then Ok ([TH; TMi; TS], 4)
  else if (8 <=? length s) && (length s <=? 11) &&
          match nth_error s 6 with Some c => beqb c c_dot | None => false end
       then Ok ([TH; TMi; TS; Tdot; Tf], length s - 7)
  else Err PyValueError.

Definition get_date_info (s : str) : result (dtv * list dtag) :=
  (do f <- date_format s; do v <- strptime s f; Ok (v, f))%res.

Definition get_timestamp_info (s : str) : result (dtv * list dtag * str * nat) :=
  let (body, off) := split_offset s in
  (do fp <- timestamp_format body; do v <- strptime body (fst fp); Ok (v, fst fp, off, snd fp))%res.

Definition get_datetime_info (s : str) : result (dtv * list dtag * str * nat) :=
  let (body, off) := split_offset s in
  (do df <- date_format (take 8 body);
   do tp <- match timestamp_format (drop 8 body) with
            | Ok tp => Ok tp
            | Err PyValueError => if nilb (drop 8 body) then Ok ([], 4) else Err PyValueError
            | Err e => Err e
            end;
   let f := df ++ fst tp in
   do v <- strptime body f; Ok (v, f, off, snd tp))%res.

Definition check_of {A} (r : result A) : result bool :=
  match r with Ok _ => Ok true | Err PyValueError => Ok false | Err e => Err e end.
Definition check_date (s : str) := check_of (get_date_info s).
Definition check_timestamp (s : str) := check_of (get_timestamp_info s).
Definition check_datetime (s : str) := check_of (get_datetime_info s).

(* ------------------------------------------------------------------ *)
(* base_datatypes.py: DT / TM / DTM                                     *)

Definition dt_ctor (allowed : list str) (f : list dtag) : result unit :=
  if smem (fmt_str f) allowed then Ok tt else Err (HL7 EInvalidDateFormat).

(* TM.__init__ after the format test *)
Definition tm_ctor (allowed : list str) (f : list dtag) (off : str) (prec : nat) : result unit :=
  (do _ <- dt_ctor allowed f;
   if negb ((1 <=? prec) && (prec <=? 4)) then Err (HL7 EInvalidMicrosecondsPrecision)
   else if nilb off then Ok tt
   else if negb (length off =? 5) then Err (HL7 EInvalidDateOffset)
   else
     match strptime (drop 1 off) [TH; TMi] with
     | Ok d =>
         match off with
         | sg :: _ =>
             if (is_c c_plus sg && N.ltb 14 (hh d)) || (is_c c_minus sg && N.ltb 12 (hh d))
             then Err (HL7 EInvalidDateOffset)
             else if negb (is_c c_plus sg || is_c c_minus sg) then Err (HL7 EInvalidDateOffset)
             else Ok tt
         | [] => Ok tt
         end
     | Err _ => Err (HL7 EInvalidDateOffset)
     end)%res.

(* TM.to_er7 *)
Definition encode_tm (v : dtv) (f : list dtag) (off : str) (prec : nat) : str :=
  let sv := strftime v f in
  let sv' := if has_f f then (let k := 6 - prec in if k =? 0 then [] else take (length sv - k) sv)
             else sv in
  sv' ++ off.

Definition impl_DT (s : str) : result str :=
  (do vf <- get_date_info s; do _ <- dt_ctor dt_formats (snd vf); Ok (strftime (fst vf) (snd vf)))%res.

Definition impl_TM (s : str) : result str :=
  (do i <- get_timestamp_info s;
   match i with (v, f, off, prec) => do _ <- tm_ctor tm_formats f off prec; Ok (encode_tm v f off prec) end)%res.

Definition impl_DTM (s : str) : result str :=
  (do i <- get_datetime_info s;
   match i with (v, f, off, prec) => do _ <- tm_ctor dtm_formats f off prec; Ok (encode_tm v f off prec) end)%res.

(* ------------------------------------------------------------------ *)
(* decimal.Decimal(text) / str(Decimal) / int(text) / str(int) on ASCII text.
   Integers are kept as canonical decimal numerals (str(int(digits)) = digits without leading
   zeros), so no number is ever converted back to text by arithmetic. *)

Definition lstrip0 (s : str) : str := lstrip_by (is_c c_0) s.
Definition canon_digits (s : str) : str := match lstrip0 s with [] => [c_0] | t => t end.

Fixpoint split_on (p : byte -> bool) (s : str) : str * option str :=
  match s with
  | [] => ([], None)
  | c :: r => if p c then ([], Some r)
              else match split_on p r with (a, b) => (c :: a, b) end
  end.

Inductive dec := DFin (neg : bool) (coeff : str) (exp : Z) | DSpecial (text : str).

Definition is_e (b : byte) : bool := beqb b "e"%byte || beqb b "E"%byte.
Definition take_sign (s : str) : bool * str :=
  match s with
  | c :: r => if is_c c_minus c then (true, r) else if is_c c_plus c then (false, r) else (false, s)
  | [] => (false, s)
  end.
Definition exponent_of (e : option str) : option Z :=
  match e with
  | None => Some 0%Z
  | Some t =>
      let (neg, d) := take_sign t in
      if negb (nilb d) && all_dig d
      then Some (if neg then (- Z.of_N (digits_val d))%Z else Z.of_N (digits_val d))
      else None
  end.

Definition decimal_parse (text : str) : option dec :=
  let s := filter (fun b => negb (is_c c_us b)) (strip text) in
  let (neg, t) := take_sign s in
  let low := lower t in
  let sg : str := if neg then [c_minus] else [] in
  if streqb low "inf" || streqb low "infinity" then Some (DSpecial (sg ++ "Infinity"))
  else if bstarts "nan" low && all_dig (drop 3 low) then Some (DSpecial (sg ++ "NaN" ++ lstrip0 (drop 3 low)))
  else if bstarts "snan" low && all_dig (drop 4 low) then Some (DSpecial (sg ++ "sNaN" ++ lstrip0 (drop 4 low)))
  else
    match split_on is_e t with
    | (mant, eo) =>
        match exponent_of eo with
        | None => None
        | Some e =>
            match split_on (is_c c_dot) mant with
            | (ip, fo) =>
                let fp := match fo with Some x => x | None => [] end in
                if all_dig ip && all_dig fp && negb (nilb ip && nilb fp)
                then Some (DFin neg (canon_digits (ip ++ fp)) (e - Z.of_nat (length fp))%Z)
                else None
            end
        end
    end.

Definition zeros (n : nat) : str := repeat c_0 n.
Definition Z_signed_str (z : Z) : str :=
  (if Z.ltb z 0 then [c_minus] else [c_plus]) ++ N_to_str (Z.abs_N z).

(* Decimal.__str__ (to-scientific-string) *)
Definition decimal_str (d : dec) : str :=
  match d with
  | DSpecial t => t
  | DFin neg coeff exp =>
      let n := Z.of_nat (length coeff) in
      let leftdigits := (exp + n)%Z in
      let dotplace := if Z.leb exp 0 && Z.ltb (-6) leftdigits then leftdigits else 1%Z in
      let ip : str := if Z.leb dotplace 0 then [c_0]
                      else if Z.leb n dotplace then coeff ++ zeros (Z.to_nat (dotplace - n))
                      else take (Z.to_nat dotplace) coeff in
      let fp : str := if Z.leb dotplace 0 then c_dot :: zeros (Z.to_nat (- dotplace)) ++ coeff
                      else if Z.leb n dotplace then []
                      else c_dot :: drop (Z.to_nat dotplace) coeff in
      let e : str := if Z.eqb leftdigits dotplace then []
                     else "E" ++ Z_signed_str (leftdigits - dotplace) in
      (if neg then [c_minus] else []) ++ ip ++ fp ++ e
  end.

Definition too_long (ml : option Z) (out : str) : bool :=
  match ml with Some m => Z.ltb m (Z.of_nat (length out)) | None => false end.

(* numeric_factory + NM.__init__ + BaseDataType.__init__ + to_er7 *)
Definition none_text : str := "None".     (* '{0}'.format(None): NM() / SI() are length-checked too *)
Definition impl_NM (strict : bool) (ml : option Z) (s : str) : result str :=
  if nilb s then (if strict && too_long ml none_text then Err (HL7 EMaxLengthReached) else Ok [])
  else match decimal_parse s with
       | None => Err PyValueError
       | Some d => let out := decimal_str d in
                   if strict && too_long ml out then Err (HL7 EMaxLengthReached) else Ok out
       end.

(* C isspace: what int() strips from ASCII text *)
Definition is_space_int (b : byte) : bool := between 9 13 b || is_c c_space b.
Fixpoint int_body_ok (prev_us : bool) (s : str) : bool :=
  match s with
  | [] => negb prev_us
  | c :: r => if is_digit c then int_body_ok false r
              else if is_c c_us c then negb prev_us && int_body_ok true r
              else false
  end.
Definition int_lex (s : str) : bool :=
  match s with c :: _ => is_digit c && int_body_ok false s | [] => false end.

(* str(int(text)) *)
Definition int_parse (text : str) : option str :=
  let s := strip_by is_space_int text in
  let (neg, body) := take_sign s in
  if int_lex body then
    let c := canon_digits (filter is_digit body) in
    Some ((if neg && negb (streqb c [c_0]) then [c_minus] else []) ++ c)
  else None.

Definition impl_SI (strict : bool) (ml : option Z) (s : str) : result str :=
  if nilb s then (if strict && too_long ml none_text then Err (HL7 EMaxLengthReached) else Ok [])
  else match int_parse s with
       | None => Err PyValueError
       | Some out => if strict && too_long ml out then Err (HL7 EMaxLengthReached) else Ok out
       end.

(* ------------------------------------------------------------------ *)
(* factories.datatype_factory for the five datatypes                    *)
Inductive level := STRICT | TOLERANT.
Definition is_strict (l : level) : bool := match l with STRICT => true | TOLERANT => false end.

Fixpoint row_lookup (name : str) (rows : list (str * dtkind * option Z)) : option (dtkind * option Z) :=
  match rows with
  | [] => None
  | (n, k, ml) :: r => if streqb name n then Some (k, ml) else row_lookup name r
  end.

Definition impl_kind (k : dtkind) (strict : bool) (ml : option Z) (s : str) : result str :=
  match k with
  | KDT => impl_DT s | KTM => impl_TM s | KDTM => impl_DTM s
  | KNM => impl_NM strict ml s | KSI => impl_SI strict ml s
  | _ => Err OutOfFuel          (* not one of the five datatypes: outside this model *)
  end.

(* the ST fall-back of the same version, encoded with the delimiter set e *)
Definition st_fallback (rows : list (str * dtkind * option Z)) (e : ec) (s : str) : result str :=
  match row_lookup "ST" rows with
  | Some (KTextual f, _) =>
      match nth_error esc_families f with
      | Some p => Ok (escape p e s)
      | None => Err (Crash KeyError)
      end
  | _ => Err (Crash KeyError)
  end.

(* result: (fell back to ST?, to_er7 text) *)
Definition factory (v : str) (l : level) (name : str) (e : ec) (s : str) : result (bool * str) :=
  match slookup v base_datatype_table with
  | None => Err (HL7 EUnsupportedVersion)
  | Some rows =>
      match row_lookup name rows with
      | None => Err (HL7 EOtherHL7)                         (* InvalidDataType *)
      | Some (k, ml) =>
          match impl_kind k (is_strict l) ml s with
          | Ok t => Ok (false, t)
          | Err PyValueError =>
              if is_strict l then Err PyValueError
              else match st_fallback rows e s with Ok t => Ok (true, t) | Err x => Err x end
          | Err x => Err x
          end
      end
  end.

(* ------------------------------------------------------------------ *)
(* SPECIFICATION recognisers, written from the HL7 grammar              *)

Definition num2 (a b : byte) : N := (digit_val a * 10 + digit_val b)%N.
Definition dig2 (a b : byte) : bool := is_digit a && is_digit b.
Definition in_range2 (lo hi : N) (a b : byte) : bool :=
  dig2 a b && N.leb lo (num2 a b) && N.leb (num2 a b) hi.
Definition num4 (a b c d : byte) : N := (num2 a b * 100 + num2 c d)%N.

(* YYYY[MM[DD]], a real calendar date, year >= 1 *)
Definition spec_date (s : str) : bool :=
  match s with
  | y1 :: y2 :: y3 :: y4 :: r =>
      dig2 y1 y2 && dig2 y3 y4 && N.leb 1 (num4 y1 y2 y3 y4) &&
      match r with
      | [] => true
      | m1 :: m2 :: r2 =>
          in_range2 1 12 m1 m2 &&
          match r2 with
          | [] => true
          | [d1; d2] => in_range2 1 (days_in_month (num4 y1 y2 y3 y4) (num2 m1 m2)) d1 d2
          | _ => false
          end
      | _ => false
      end
  | _ => false
  end.
Definition spec_DT := spec_date.

(* HH[MM[SS[.S{1,4}]]] *)
Definition spec_time (s : str) : bool :=
  match s with
  | h1 :: h2 :: r =>
      in_range2 0 23 h1 h2 &&
      match r with
      | [] => true
      | m1 :: m2 :: r2 =>
          in_range2 0 59 m1 m2 &&
          match r2 with
          | [] => true
          | s1 :: s2 :: r3 =>
              in_range2 0 59 s1 s2 &&
              match r3 with
              | [] => true
              | p :: f => is_c c_dot p && negb (nilb f) && (length f <=? 4) && all_dig f
              end
          | _ => false
          end
      | _ => false
      end
  | _ => false
  end.

Definition Nmem (n : N) (l : list N) : bool := existsb (N.eqb n) l.
(* +/-ZZZZ on the offset grid of Gen/Params.v *)
Definition spec_offset (o : str) : bool :=
  match o with
  | [sg; h1; h2; m1; m2] =>
      dig2 h1 h2 && dig2 m1 m2 &&
      ((is_c c_plus sg && Nmem (num2 h1 h2) offset_plus_hours && Nmem (num2 m1 m2) offset_plus_minutes) ||
       (is_c c_minus sg && Nmem (num2 h1 h2) offset_minus_hours && Nmem (num2 m1 m2) offset_minus_minutes))
  | _ => false
  end.

(* body [+/-ZZZZ] *)
Definition with_offset (body_ok : str -> bool) (s : str) : bool :=
  body_ok s ||
  ((5 <=? length s) && body_ok (take (length s - 5) s) && spec_offset (drop (length s - 5) s)).

Definition spec_TM : str -> bool := with_offset spec_time.

(* YYYY[MM[DD[HH[MM[SS[.S{1,4}]]]]]] *)
Definition spec_datetime (s : str) : bool :=
  if length s <=? 8 then spec_date s else spec_date (take 8 s) && spec_time (drop 8 s).
Definition spec_DTM : str -> bool := with_offset spec_datetime.

(* [+-]?(digits[.digits*] | .digits) *)
Definition spec_NM (s : str) : bool :=
  let t := match s with c :: r => if is_c c_plus c || is_c c_minus c then r else s | [] => s end in
  match split_on (is_c c_dot) t with
  | (ip, None) => negb (nilb ip) && all_dig ip
  | (ip, Some fp) => all_dig ip && all_dig fp && negb (nilb ip && nilb fp)
  end.

(* digits *)
Definition spec_SI (s : str) : bool := negb (nilb s) && all_dig s.

(* plain canonical forms (numerics re-encode to the same TEXT only when written like this) *)
Definition no_lead0 (s : str) : bool :=
  match s with [] => false | [c] => is_digit c | c :: _ => negb (is_c c_0 c) end.
Definition plain_SI (s : str) : bool := spec_SI s && no_lead0 s.
(* optional minus, integer part without leading zeros, optional point followed by digits *)
Definition plain_NM (s : str) : bool :=
  let t := match s with c :: r => if is_c c_minus c then r else s | [] => s end in
  match split_on (is_c c_dot) t with
  | (ip, None) => negb (nilb ip) && all_dig ip && no_lead0 ip
  | (ip, Some fp) => negb (nilb ip) && all_dig ip && no_lead0 ip && negb (nilb fp) && all_dig fp
  end.

(* a plain decimal 0.000000d... (or zero with seven or more decimals): adjusted exponent below -6 *)
Definition nm_small (s : str) : bool :=
  let t := match s with c :: r => if is_c c_minus c then r else s | [] => s end in
  match split_on (is_c c_dot) t with
  | (ip, Some fp) =>
      streqb ip [c_0] &&
      (if nilb (lstrip0 fp) then 7 <=? length fp else 6 <=? length fp - length (lstrip0 fp))
  | _ => false
  end.

(* ------------------------------------------------------------------ *)
(* views used by the theorems                                           *)
Definition accepts {A} (r : result A) : bool := is_ok r.

(* ------------------------------------------------------------------ *)
(* explicitly characterised defect families (finding F10)              *)

(* YYYYMM followed by a blank and a day digit 1-9 *)
Definition dt_space_day (s : str) : bool :=
  match s with
  | [y1; y2; y3; y4; m1; m2; sp; d] =>
      dig2 y1 y2 && dig2 y3 y4 && N.leb 1 (num4 y1 y2 y3 y4) && in_range2 1 12 m1 m2 &&
      (is_c c_space sp && rng c_1 c_9 d)
  | _ => false
  end.
(* the same text with the blank replaced by 0: what such a value re-encodes to *)
Definition fix_space_day (s : str) : str :=
  match s with
  | y1 :: y2 :: y3 :: y4 :: m1 :: m2 :: sp :: r => y1 :: y2 :: y3 :: y4 :: m1 :: m2 :: c_0 :: r
  | _ => s
  end.

(* a date-time whose date part has the blank-padded day *)
Definition dtm_space_day (b : str) : bool :=
  dt_space_day (take 8 b) && (nilb (drop 8 b) || spec_time (drop 8 b)).
(* the date-time bodies the implementation takes *)
Definition dtm_body_impl (b : str) : bool := spec_datetime b || dtm_space_day b.
Definition fix_space_day_dtm (b : str) : str := fix_space_day (take 8 b) ++ drop 8 b.

(* the value ends with an offset whose text also occurs earlier: str.replace removes every copy *)
Definition offset_repeated (s : str) : bool :=
  match off_at_end s with
  | Some o => negb (streqb (remove_all o 0 s) (take (length s - 5) s))
  | None => false
  end.
(* what is left once every copy of the final offset is removed, followed by one copy *)
Definition dedup_offset (s : str) : str :=
  match off_at_end s with
  | Some o => remove_all o 0 s ++ o
  | None => s
  end.

(* ... and what is left after removing every copy is a well-formed body: the exact family of
   values accepted beyond `with_offset body_ok` *)
Definition offset_defect (body_ok : str -> bool) (s : str) : bool :=
  match off_at_end s with
  | Some o => negb (streqb (remove_all o 0 s) (take (length s - 5) s)) && body_ok (remove_all o 0 s)
  | None => false
  end.

(* text Python's int() accepts although it is not a plain digit string *)
Definition si_decorated (s : str) : bool :=
  negb (spec_SI s) &&
  match int_parse s with Some _ => true | None => false end.
(* text decimal.Decimal accepts although it is not a plain HL7 number *)
Definition nm_decorated (s : str) : bool :=
  negb (spec_NM s) &&
  match decimal_parse s with Some _ => true | None => false end.
