(* parser.parse_message (parser.py:38-100) for TOLERANT and STRICT, the Message constructor as far as
   parse_message depends on it (core.py:1922-1957, Element.__init__ 623-653, Group.__init__
   1801-1808), `m.children = children` (Element.__setattr__ 858-867, ElementList.append /
   _can_add_child 256-275, 482-499, Group._is_valid_child 1892, Group/Message.find_child_reference
   1843-1856, 1959-1972) and Group/Message.to_er7 (Element.to_er7 718-747, Group._get_children
   1897-1904, ElementList.get_children / get_ordered_children 214-230, Message._get_encoding_chars
   2015-2028).  Definitions only.

   Not modelled: message profiles (the `message_profile` / `reference` arguments), report_file,
   force_validation, the time stamp the constructor writes into its own MSH (that MSH is replaced
   by the parsed children).  The process defaults are passed in explicitly: `dflt` is
   get_default_version(); the validation level is always given explicitly. *)
From Coq Require Import List Bool ZArith NArith Init.Byte.
From HL7 Require Import Lib.Str Model.Ec Model.Result Model.Header Model.Ref Model.Tree Model.Parser
                        Model.Encode Model.Leaf Model.MsgTree Model.Groups.
Import ListNotations.
Open Scope bs_scope.
Open Scope res_scope.

(* ---------- construction ---------- *)

(* hl7apy.check_encoding_chars on the dict _split_msh builds: the five required characters and
   TRUNCATION pairwise distinct (they are single characters here) *)
Definition check_ec (e : ec) : result unit :=
  if nodupb beqb (ec_all e) then Ok tt else Err (HL7 EInvalidEncodingChars).

Section Msg.
Variable lib : str -> option tables.       (* load_library: None = UnsupportedVersion *)
Variable dflt : str.                       (* get_default_version() *)
Variable lvl : level.

(* Message(name=structure, version=version, validation_level=lvl, encoding_chars=e): the name, the
   structure and the exceptions; everything else the constructor builds is overwritten later *)
Definition new_message (t : tables) (e : ec) (name : option str) : result message :=
  do m <-
    (match name with
     | Some n0 =>
         let n := upper n0 in
         match slookup n (t_messages t) with
         | Some r => do st <- parse_structure t r; Ok (mk_message (Some n) (Some st) [])
         | None =>
             if valid_z_message_name name
             then do st <- parse_structure t empty_seq; Ok (mk_message (Some n) (Some st) [])
             else Err (HL7 EInvalidName)
         end
     | None => Ok (mk_message None None [])
     end);
  if opt_is_none (m_name m) && is_strict lvl then Err (HL7 EOperationNotAllowed) else
  (* self.msh = Segment('MSH', reference=structure_by_name['MSH']['ref'] or None) *)
  let msh_ref := match m_st m with Some st => ref_in (Some st) "MSH" | None => None end in
  do _ <- mk_segment t "MSH" msh_ref;
  (* self.encoding_chars = encoding_chars *)
  do _ <- check_ec e;
  Ok m.

(* `m.children = children`: Message.add(c) for every child in turn *)
Definition node_str_name (n : node) : option str := node_name n.

Fixpoint add_all (t : tables) (m : message) (kids : list node) : result message :=
  match kids with
  | [] => Ok m
  | k :: rest =>
      do _ <- (match node_str_name k with
               | None => if is_strict lvl then Err (HL7 EChildNotValid) else Ok tt
               | Some n => child_acceptance t lvl true (m_name m) (m_st m)
                                       (flat_map (fun c => match node_str_name c with Some x => [x] | None => [] end)
                                                 (m_children m)) n
               end);
      add_all t (mk_message (m_name m) (m_st m) (m_children m ++ [k])) rest
  end.

(* parse_message(text, validation_level=lvl, find_groups=fg); returns the tables of the message's
   version together with the message *)
Definition parse_message (fg : bool) (text : str) : result (tables * message) :=
  let text := lstrip text in
  do '(e, structure, version) <- get_message_info text;
  let v := match version with Some v => v | None => dflt end in
  do t <- (match lib v with Some t => Ok t | None => Err (HL7 EUnsupportedVersion) end);
  do m <- (match new_message t e structure with
           | Err (HL7 EInvalidName) => new_message t e None
           | r => r
           end);
  let leaf := leaf_enc v lvl e in
  let flat := parse_segments_flat t lvl e leaf text in
  do kids <-
    (match m_st m with
     | Some st =>
         if fg then
           match parse_segments_grouped t lvl e leaf (st_reference st) text with
           | Err (Crash AttributeError) => flat        (* except AttributeError: flat parse *)
           | r => r
           end
         else flat
     | None => flat                                     (* m.reference raises AttributeError *)
     end);
  do m' <- add_all t m kids;
  Ok (t, m').
End Msg.

(* ---------- to_er7 ---------- *)

(* Message._get_encoding_chars: rebuilt from the raw texts of MSH-1 and MSH-2 of the first MSH child.
   Err OutOfFuel = the message has no such child at top level (the Python attribute access would
   create one by traversal: not modelled). *)
Definition first_sub_value (f : field) : option str :=
  match f_children f with
  | c :: _ => match c_children c with s :: _ => Some (sc_value s) | [] => None end
  | [] => None
  end.
Definition field_value (s : seg) (name : str) : option str :=
  match filter (fun f => opt_eqb (f_name f) (Some name)) (s_children s) with
  | f :: _ => first_sub_value f
  | [] => None
  end.
Fixpoint first_msh (l : list node) : option seg :=
  match l with
  | [] => None
  | NSeg s :: r => if streqb (s_name s) "MSH" then Some s else first_msh r
  | _ :: r => first_msh r
  end.

Definition message_ec (version : str) (m : message) : result ec :=
  match first_msh (m_children m) with
  | None => Err OutOfFuel
  | Some s =>
      match field_value s "MSH_1", field_value s "MSH_2" with
      | Some [f], Some msh2 =>
          match msh2 with
          | c :: r :: e :: sb :: rest =>
              if ge_27 version && Nat.eqb (length msh2) 5
              then match rest with [tr] => Ok (mk_ec f c r e sb (Some tr)) | _ => Err (Crash IndexError) end
              else Ok (mk_ec f c r e sb None)
          | _ => Err (Crash IndexError)
          end
      | _, _ => Err OutOfFuel
      end
  end.

Section Enc.
Variable t : tables.
Variable lvl : level.
Variable e : ec.

(* the children a Group/Message encodes, in order: TOLERANT = all, insertion order;
   STRICT = for every key of ordered_children the children of that name *)
Definition select (st : option structure) (xs : list (option str * result str)) : list (result str) :=
  if is_strict lvl then
    let ordered := match st with
                   | Some s => match st_ordered s with Some o => o | None => [] end
                   | None => []
                   end in
    flat_map (fun k => map snd (filter (fun x => opt_eqb (fst x) (Some k)) xs)) ordered
  else map snd xs.

Fixpoint sequence (l : list (result str)) : result (list str) :=
  match l with
  | [] => Ok []
  | Ok x :: r => do xs <- sequence r; Ok (x :: xs)
  | Err er :: _ => Err er
  end.

Definition join_selected (st : option structure) (xs : list (option str * result str)) : result str :=
  do parts <- sequence (select st xs); Ok (bjoin CR parts).

Fixpoint enc_node (n : node) : result str :=
  match n with
  | NSeg s => enc_segment t e s false
  | NGrp _ st cs =>
      join_selected st
        ((fix go (l : list node) : list (option str * result str) :=
            match l with [] => [] | x :: r => (node_name x, enc_node x) :: go r end) cs)
  end.

Definition enc_children (st : option structure) (cs : list node) : result str :=
  join_selected st (map (fun x => (node_name x, enc_node x)) cs).
End Enc.

(* m.to_er7() *)
Definition enc_message (t : tables) (lvl : level) (m : message) : result str :=
  do e <- message_ec (t_version t) m;
  enc_children t lvl e (m_st m) (m_children m).

(* ---------- canonical dump of a message tree (harness/c08.py prints the same) ---------- *)
Fixpoint dump_node (n : node) : str :=
  match n with
  | NSeg s => s_name s
  | NGrp nm _ cs => "(" ++ match nm with Some g => g | None => "-" end ++
                    (fix go (l : list node) : str :=
                       match l with [] => [] | y :: r => " " ++ dump_node y ++ go r end) cs ++ ")"
  end.
Definition dump_message (m : message) : str :=
  match m_name m with Some n => n | None => "-" end ++ ":" ++ bjoin " " (map dump_node (m_children m)).
