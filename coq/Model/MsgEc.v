(* Encoding characters of a Message (hl7apy/__init__.py:53-70, 97-109, 184-227; core.py:802-823,
   1448-1478, 1707-1744, 1922-1957, 1991-2061).  Definitions only.

   The Python dict is modelled by the six keys the code ever reads; every other key (GROUP,
   SEGMENT, anything else) is ignored by check_encoding_chars and by Message.  Values are strings
   (check_encoding_chars does not look at their length), so a value that is not a single character
   flows through the model as it flows through the code.  Not modelled: an argument that is not
   a mapping (check_encoding_chars raises InvalidEncodingChars at once). *)
From Coq Require Import List Bool Arith NArith Init.Byte.
From HL7 Require Import Lib.Str Model.Ec Model.Result Model.Header.
Import ListNotations.
Open Scope bs_scope.
Open Scope res_scope.

Record ecdict := mk_ecdict {
  dFIELD : option str; dCOMPONENT : option str; dSUBCOMPONENT : option str;
  dREPETITION : option str; dESCAPE : option str; dTRUNCATION : option str }.

Definition dget (d : ecdict) (s : sel) : option str :=
  match s with
  | FIELD => dFIELD d | COMPONENT => dCOMPONENT d | SUBCOMPONENT => dSUBCOMPONENT d
  | REPETITION => dREPETITION d | ESCAPE => dESCAPE d | TRUNCATION => dTRUNCATION d
  end.

(* d[k] *)
Definition dkey (d : ecdict) (s : sel) : result str :=
  match dget d s with Some x => Ok x | None => Err (Crash KeyError) end.

Definition ostr_eqb (a b : option str) : bool :=
  match a, b with Some x, Some y => streqb x y | None, None => true | _, _ => false end.
Definition ecdict_eqb (a b : ecdict) : bool :=
  ostr_eqb (dFIELD a) (dFIELD b) && ostr_eqb (dCOMPONENT a) (dCOMPONENT b) &&
  ostr_eqb (dSUBCOMPONENT a) (dSUBCOMPONENT b) && ostr_eqb (dREPETITION a) (dREPETITION b) &&
  ostr_eqb (dESCAPE a) (dESCAPE b) && ostr_eqb (dTRUNCATION a) (dTRUNCATION b).

(* the dict whose values are the single characters of an `ec` record, and back *)
Definition ecd_of_ec (e : ec) : ecdict :=
  mk_ecdict (Some [fsep e]) (Some [csep e]) (Some [ssep e]) (Some [rsep e]) (Some [esc e])
            (match tsep e with Some t => Some [t] | None => None end).

(* ---- hl7apy.check_encoding_chars ---- *)
Definition required_sels : list sel := [FIELD; COMPONENT; SUBCOMPONENT; REPETITION; ESCAPE].
Definition checked_sels : list sel := required_sels ++ [TRUNCATION].
Definition present (d : ecdict) (s : sel) : bool := match dget d s with Some _ => true | None => false end.
(* [v for k, v in encoding_chars.items() if k in required or k == 'TRUNCATION'] (order is irrelevant
   to the duplicate test) *)
Definition checked_values (d : ecdict) : list str :=
  flat_map (fun s => match dget d s with Some x => [x] | None => [] end) checked_sels.

Definition check_encoding_chars (d : ecdict) : result unit :=
  if negb (forallb (present d) required_sels) then Err (HL7 EInvalidEncodingChars)   (* missing *)
  else if negb (nodupb streqb (checked_values d)) then Err (HL7 EInvalidEncodingChars) (* duplicate *)
  else Ok tt.

(* hl7apy.set_default_encoding_chars: check, then store; get_default_encoding_chars(version) *)
Definition set_default_encoding_chars (d : ecdict) : result ecdict :=
  do _ <- check_encoding_chars d; Ok d.
Definition get_default_encoding_chars (dflt dflt27 : ecdict) (version : option str) : ecdict :=
  match version with
  | Some v => if ge_27 v then dflt27 else dflt    (* `version and ...`: '' >= '2.7' is False anyway *)
  | None => dflt
  end.

(* ---- Message._set_encoding_chars: the texts stored in MSH-1 and MSH-2 ---- *)
Definition set_encoding_chars (version : str) (d : ecdict) : result (str * str) :=
  do _ <- check_encoding_chars d;
  do f <- dkey d FIELD;
  if ge_27 version && present d TRUNCATION then
    do c <- dkey d COMPONENT; do r <- dkey d REPETITION; do e <- dkey d ESCAPE;
    do s <- dkey d SUBCOMPONENT; do t <- dkey d TRUNCATION;
    Ok (f, c ++ r ++ e ++ s ++ t)
  else
    do c <- dkey d COMPONENT; do r <- dkey d REPETITION; do e <- dkey d ESCAPE;
    do s <- dkey d SUBCOMPONENT;
    Ok (f, c ++ r ++ e ++ s).

(* ---- Message._get_encoding_chars: the dict rebuilt from MSH-1/MSH-2 by index ---- *)
Definition sindex (s : str) (n : nat) : result str :=
  match nth_error s n with Some b => Ok [b] | None => Err (Crash IndexError) end.

Definition get_encoding_chars (version msh1 msh2 : str) : result ecdict :=
  do c <- sindex msh2 0; do r <- sindex msh2 1; do e <- sindex msh2 2; do s <- sindex msh2 3;
  if ge_27 version && Nat.eqb (length msh2) 5 then
    do t <- sindex msh2 4;
    Ok (mk_ecdict (Some msh1) (Some c) (Some s) (Some r) (Some e) (Some t))
  else Ok (mk_ecdict (Some msh1) (Some c) (Some s) (Some r) (Some e) None).

(* ---- a message, as far as its header is concerned ----
   m_rest are the encoded texts of MSH-3, MSH-4, ... as Segment.to_er7 joins them *)
Record msg := mk_msg { m_version : str; m_msh1 : str; m_msh2 : str; m_rest : list str }.

Definition msg_encoding_chars (m : msg) : result ecdict :=
  get_encoding_chars (m_version m) (m_msh1 m) (m_msh2 m).
Definition msg_set_encoding_chars (m : msg) (d : ecdict) : result msg :=
  do '(f1, f2) <- set_encoding_chars (m_version m) d;
  Ok (mk_msg (m_version m) f1 f2 (m_rest m)).

(* Message(name, version=v, encoding_chars=d): MSH-7 = now(), MSH-12 = version *)
Definition new_message (version : str) (d : ecdict) (timestamp : str) : result msg :=
  do '(f1, f2) <- set_encoding_chars version d;
  Ok (mk_msg version f1 f2 [[]; []; []; []; timestamp; []; []; []; []; version]).

(* MSH.to_er7 as called by Message.to_er7 (which hands down self.encoding_chars):
   s = ['MSH', MSH-1, MSH-2, MSH-3, ...]; s.pop(1); encoding_chars['FIELD'].join(s)
   (Field.to_er7 returns the stored text of MSH-1 and MSH-2 unchanged) *)
Definition msh_to_er7 (m : msg) : result str :=
  do d <- msg_encoding_chars m;
  do sep <- dkey d FIELD;
  Ok (bjoins sep (("MSH" : str) :: m_msh2 m :: m_rest m)).

(* Message.to_er7: the segments joined by encoding_chars['GROUP'] = CR; `others` are the
   encoded segments after MSH *)
Definition message_to_er7 (m : msg) (others : list str) : result str :=
  do h <- msh_to_er7 m; Ok (bjoin CR (h :: others)).

(* Message.to_mllp: SB + er7 + CR + EB + CR *)
Definition SB : byte := x0b.
Definition EB : byte := x1c.
Definition message_to_mllp (m : msg) (others : list str) : result str :=
  do t <- message_to_er7 m others; Ok (SB :: t ++ [CR; EB; CR]).

(* ---- Element.encoding_chars: the parent chain ----
   A Message reads its own MSH; any other element returns its parent's value, and without a
   parent the process default for its version. *)
Inductive elem :=
  | EMessage (m : msg)
  | EOrphan (version : str)
  | EChild (version : str) (parent : elem).

Fixpoint elem_encoding_chars (dflt dflt27 : ecdict) (e : elem) : result ecdict :=
  match e with
  | EMessage m => msg_encoding_chars m
  | EOrphan v => Ok (get_default_encoding_chars dflt dflt27 (Some v))
  | EChild _ p => elem_encoding_chars dflt dflt27 p
  end.

Fixpoint root_of (e : elem) : elem :=
  match e with EChild _ p => root_of p | _ => e end.

(* the element tree below a message, and every descendant with its parent chain *)
Inductive tree := T (version : str) (kids : list tree).
Fixpoint descendants (parent : elem) (t : tree) : list elem :=
  match t with
  | T v kids => let me := EChild v parent in
                me :: flat_map (descendants me) kids
  end.
Definition message_descendants (m : msg) (kids : list tree) : list elem :=
  flat_map (descendants (EMessage m)) kids.
