(* C17, message level: the public entry points whose arguments are (partly) DERIVED FROM THE MESSAGE
   TEXT, with the process-wide defaults as an explicit configuration (Model/Config.v `cfg`).
   Definitions only; additive (nothing in Model/Message.v or Model/Config.v changes).

   parser.parse_message(text, validation_level=None, find_groups=True) (parser.py:38-100):
     - the validation level is `_get_validation_level(validation_level)`: the default of the
       configuration exactly when the argument is None;
     - version and delimiters come from get_message_info(text): MSH-12, MSH-1/MSH-2.  When the header
       has no MSH-12, Message(version=None) reads get_default_version() (core.py:634) - this is the
       `dflt` argument of Model/Message.parse_message;
     - the default delimiter sets are never read (Message is given encoding_chars explicitly).
   factories.datatype_factory(datatype, value, version=None, validation_level=None)
   (factories.py:41-104): both None arguments are resolved from the configuration. *)
From Coq Require Import List Bool ZArith NArith Init.Byte.
From HL7 Require Import Lib.Str Model.Ec Model.Result Model.Header Model.Ref Model.Tree Model.Parser
     Model.Encode Model.Leaf Model.LeafFull Model.MsgTree Model.Groups Model.Message Model.MsgEc
     Model.Validate Model.Config Gen.Params Gen.Tables.
From HL7 Require Model.Datatypes.
Import ListNotations.
Open Scope bs_scope.
Open Scope res_scope.

(* ---------- what the header of a text states (get_message_info on the left-stripped text) ---------- *)
Definition header_info (text : str) : result (ec * option str * option str) :=
  get_message_info (lstrip text).
(* MSH-12 (first component), when the text has a header that carries one *)
Definition header_version (text : str) : option str :=
  match header_info text with Ok (_, _, v) => v | Err _ => None end.
(* the delimiters spelled out by MSH-1/MSH-2 *)
Definition header_ec (text : str) : option ec :=
  match header_info text with Ok (e, _, _) => Some e | Err _ => None end.
Definition supported (v : str) : bool := smem v supported_versions.
(* decidable form of "the header states a supported version" *)
Definition header_states_supported_version (text : str) : bool :=
  match header_version text with Some v => supported v | None => false end.

(* ---------- parse_message ---------- *)
Definition api_parse_message (c : cfg) (text : str) (lvl : option level) (find_groups : bool)
  : result (tables * message) :=
  parse_message tables_of (d_version c) (get_level c lvl) find_groups text.

(* m = parse_message(...); m.to_er7(): Message.to_er7 without argument uses self.encoding_chars, which
   a Message rebuilds from its own MSH-1/MSH-2 (core.py:2015): no default is read *)
Definition api_parse_message_to_er7 (c : cfg) (text : str) (lvl : option level) (find_groups : bool)
  : result str :=
  do '(t, m) <- api_parse_message c text lvl find_groups;
  enc_message t (get_level c lvl) m.

(* m = parse_message(...); m.validate(return_errors=True): the log of the validator; el.to_er7() inside the
   validator encodes with the message's own delimiters *)
Definition api_parse_message_validate (c : cfg) (text : str) (lvl : option level) (find_groups : bool)
  : result (list vmsg) :=
  do '(t, m) <- api_parse_message c text lvl find_groups;
  do e <- message_ec (t_version t) m;
  validate_message_log t (get_level c lvl) e m.

(* the header of the parsed message in the vocabulary of Model/MsgEc.v (C07): version, the stored texts
   of MSH-1 and MSH-2 *)
Definition msg_header_of (version : str) (m : message) : option msg :=
  match first_msh (m_children m) with
  | Some s =>
      match field_value s "MSH_1", field_value s "MSH_2" with
      | Some f1, Some f2 => Some (mk_msg version f1 f2 [])
      | _, _ => None
      end
  | None => None
  end.

(* ---------- datatype_factory ---------- *)
Definition api_datatype_factory (c : cfg) (datatype : str) (e : ec) (value : str)
           (version : option str) (lvl : option level) : result (bool * str) :=
  let v := match version with Some v => v | None => d_version c end in
  Datatypes.factory v (dlevel (get_level c lvl)) datatype e value.

(* ---------- observation compared with hl7apy by harness/c17.py ----------
   outcome code (0 = a Message was returned), the version of the tables used, the message name, the
   shape of the tree, and the ER7 text to_er7() gives (empty when it raises; its code is the 2nd number) *)
Definition obs_parse_message (c : cfg) (text : str) (lvl : option level) (find_groups : bool)
  : nat * nat * str * str * str :=
  match api_parse_message c text lvl find_groups with
  | Ok (t, m) =>
      let l := get_level c lvl in
      match enc_message t l m with
      | Ok x => (0, 0, t_version t, dump_message m, x)
      | Err x => (0, exn_code x, t_version t, dump_message m, [])
      end
  | Err x => (exn_code x, 0, [], [], [])
  end.
