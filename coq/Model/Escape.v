(* TextualDataType._escape_value without highlights (base_datatypes.py:140, v2_7/base_datatypes.py:29):
   sequential str.replace of each delimiter by esc+letter+esc, then
   re.sub('(?<!E[L])E(?![L]E)', E+'E'+E) as a left-to-right context scanner over the ORIGINAL
   string (look-behind and look-ahead never see replaced text). *)
From Coq Require Import List Bool NArith Init.Byte.
From HL7 Require Import Lib.Str Model.Ec.
Import ListNotations.

Definition translations (p : esc_params) (e : ec) : list (sel * byte) :=
  match tsep e with Some _ => trans_with_trunc p | None => trans_without_trunc p end.

Definition apply_translation (e : ec) (s : str) (t : sel * byte) : str :=
  match ec_get e (fst t) with
  | Some c => breplace1 c [esc e; snd t; esc e] s
  | None => s
  end.
Definition translate (p : esc_params) (e : ec) (s : str) : str :=
  fold_left (apply_translation e) (translations p e) s.

Section Scan.
Variable escc : byte.
Variable E : byte.
Variable lb la : byte -> bool.   (* look-behind / look-ahead letter classes *)

Definition is_esc (c : byte) := beqb c escc.
Definition ahead (rest : str) : bool :=
  match rest with l :: e :: _ => la l && is_esc e | _ => false end.
Definition behind (p2 p1 : option byte) : bool :=
  match p2, p1 with Some a, Some b => is_esc a && lb b | _, _ => false end.

Fixpoint scan (p2 p1 : option byte) (s : str) : str :=
  match s with
  | [] => []
  | c :: rest =>
      (if is_esc c && negb (behind p2 p1) && negb (ahead rest)
       then [escc; E; escc] else [c]) ++ scan p1 (Some c) rest
  end.
Definition resub (s : str) := scan None None s.
End Scan.
Arguments is_esc : simpl never.

Definition in_letters (l : str) (b : byte) : bool := bmem b l.

Definition escape (p : esc_params) (e : ec) (s : str) : str :=
  resub (esc e) (esc_letter p) (in_letters (letters_behind p)) (in_letters (letters_ahead p))
        (translate p e s).

(* ---- what the property speaks about ---- *)

(* valid delimiter sets: the required five pairwise distinct, truncation (when present) distinct
   from them, none a letter the escaping uses, none CR *)
Definition ec_valid (p : esc_params) (e : ec) : bool :=
  nodupb beqb (ec_all e) &&
  forallb (fun c => negb (is_alnum c) && negb (beqb c CR) && negb (is_space c)) (ec_all e).

(* tokens: esc letter esc; "every escape character belongs to an escape sequence" *)
Fixpoint esc_tokens_ok (escc : byte) (letter : byte -> bool) (s : str) : bool :=
  match s with
  | [] => true
  | c :: r =>
      if beqb c escc then
        match r with
        | l :: c2 :: r' => letter l && beqb c2 escc && esc_tokens_ok escc letter r'
        | _ => false
        end
      else esc_tokens_ok escc letter r
  end.
