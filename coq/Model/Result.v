(* Outcomes of model functions: Python's exceptions made explicit.  Partial Python operations
   (l[i], d[k], tuple unpacking, attribute access on None) produce Crash exactly where CPython
   would raise; C15 is the statement that Crash is unreachable from the public entry points. *)
From Coq Require Import List.

Inductive hl7_exn :=
  | EParserError | EInvalidEncodingChars | EInvalidName | EChildNotFound | EChildNotValid
  | EMaxChildLimitReached | EOperationNotAllowed | EMaxLengthReached | EInvalidDateFormat
  | EInvalidDateOffset | EInvalidMicrosecondsPrecision | EUnsupportedVersion
  | EUnknownValidationLevel | EMessageProfileNotFound | ELegacyMessageProfile
  | EInvalidHighlightRange | EValidationError | EUnsupportedMessageType | EInvalidHL7Message
  | EOtherHL7.
Inductive crash := IndexError | KeyError | TypeError | AttributeError.
Inductive exn := HL7 (c : hl7_exn) | PyValueError | Crash (k : crash) | OutOfFuel.

Inductive result (A : Type) := Ok (a : A) | Err (e : exn).
Arguments Ok {A}. Arguments Err {A}.

Definition bind {A B} (r : result A) (f : A -> result B) : result B :=
  match r with Ok a => f a | Err e => Err e end.
Declare Scope res_scope.
Delimit Scope res_scope with res.
Notation "'do' x <- r ; k" := (bind r (fun x => k)) (at level 200, x name, r at level 100, k at level 200) : res_scope.
Notation "'do' ' p <- r ; k" := (bind r (fun x => match x with p => k end))
  (at level 200, p pattern, r at level 100, k at level 200) : res_scope.

Definition is_ok {A} (r : result A) : bool := match r with Ok _ => true | Err _ => false end.
Definition is_crash {A} (r : result A) : bool := match r with Err (Crash _) => true | _ => false end.

Definition hl7_exn_code (c : hl7_exn) : nat :=
  match c with
  | EParserError => 1 | EInvalidEncodingChars => 2 | EInvalidName => 3 | EChildNotFound => 4
  | EChildNotValid => 5 | EMaxChildLimitReached => 6 | EOperationNotAllowed => 7
  | EMaxLengthReached => 8 | EInvalidDateFormat => 9 | EInvalidDateOffset => 10
  | EInvalidMicrosecondsPrecision => 11 | EUnsupportedVersion => 12 | EUnknownValidationLevel => 13
  | EMessageProfileNotFound => 14 | ELegacyMessageProfile => 15 | EInvalidHighlightRange => 16
  | EValidationError => 17 | EUnsupportedMessageType => 18 | EInvalidHL7Message => 19 | EOtherHL7 => 20
  end.
(* outcome codes used by the correspondence harness: 0 = ok, 1..20 hl7apy exception classes,
   30 ValueError, 40..43 crashes, 50 out of fuel *)
Definition exn_code (e : exn) : nat :=
  match e with
  | HL7 c => hl7_exn_code c
  | PyValueError => 30
  | Crash IndexError => 40 | Crash KeyError => 41 | Crash TypeError => 42 | Crash AttributeError => 43
  | OutOfFuel => 50
  end.
Definition outcome_code {A} (r : result A) : nat := match r with Ok _ => 0 | Err e => exn_code e end.
