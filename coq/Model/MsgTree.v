(* Message-level immutable trees: groups and messages over the segment trees of Model/Tree.v.
   Shared by the group-search model (Model/Groups.v), the message parser/encoder and the validator. *)
From Coq Require Import List Bool ZArith NArith Init.Byte.
From HL7 Require Import Lib.Str Model.Ec Model.Result Model.Ref Model.Tree.
Import ListNotations.

(* a child of a Group or Message *)
Inductive node :=
  | NSeg (s : seg)
  | NGrp (name : option str) (st : option structure) (children : list node).

Definition node_name (n : node) : option str :=
  match n with NSeg s => Some (s_name s) | NGrp nm _ _ => nm end.

Record message := mk_message {
  m_name : option str;               (* None = unknown message (no structure) *)
  m_st : option structure;           (* structure of the message reference, when the name is known *)
  m_children : list node
}.

(* flattening: the segments of a forest in document order *)
Fixpoint flatten_node (n : node) : list seg :=
  match n with
  | NSeg s => [s]
  | NGrp _ _ cs => (fix go (l : list node) : list seg :=
                      match l with [] => [] | x :: r => flatten_node x ++ go r end) cs
  end.
Definition flatten (l : list node) : list seg := flat_map flatten_node l.
