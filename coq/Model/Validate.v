(* validation.py: Validator.validate (_is_valid, _check_known_element, _check_z_element,
   _check_repetitions, _check_datatype, _check_length) over the immutable trees of Model/Tree.v
   (segment -> fields -> components -> subcomponents) and Model/MsgTree.v (message -> groups ->
   segments), with STRUCTURED errors, and the public wrapper (return_errors / raise-first / report).
   Definitions only.

   One traversal emits a log (list vmsg) in the order in which Python appends to its two lists;
   `errors_of` / `warnings_of` are the two lists.  An exception raised inside the validator
   (ChildNotFound from load_reference, or a crash) loses everything: Err.

   Not modelled: table-compliance WARNINGS ("Value .. not in table ..") - the HL7 value tables are
   not part of coq/Gen.  Length warnings are modelled.  Claimed domain: trees built by Model/Parser.v
   (or any tree whose elements carry the structure of the reference they were created with) and
   references of the shape the translator emits without SBad/SRowBad; the reference of a Segment /
   Group / Message is sequence-shaped and that of a SubComponent leaf-shaped. *)
From Coq Require Import List Bool ZArith NArith Init.Byte.
From HL7 Require Import Lib.Str Model.Ec Model.Result Model.Ref Model.Tree Model.Parser Model.Encode Model.MsgTree.
Import ListNotations.
Open Scope bs_scope.
Open Scope res_scope.

(* ---------- structured errors and warnings ---------- *)

(* `parent` is the NAME of the element the message prints before the dot / after "for"
   (None = Python's None); a name is None for an element whose name is None *)
Inductive verr :=
  | MissingRequired (parent : option str) (child : str)        (* Missing required child P.C *)
  | LimitExceeded (parent : option str) (child : str)          (* Child limit exceeded P.C *)
  | InvalidChildren (parent : option str) (names : list (option str))
                                                               (* Invalid children detected for <P>: [names]
                                                                  (Python prints a set: order unspecified; here
                                                                  first occurrences in child order) *)
  | UnknownElement (parent : option str) (name : option str)   (* Unknown element found: <P>.<E> *)
  | WrongDatatype (parent : option str) (name : option str) (dt : option str)
                                                               (* Datatype D is not correct for P.E *)
  | InvalidElement (name : option str).                        (* Invalid element found: <E> *)

Inductive vwarn :=
  | ExceededLength (parent : option str) (name : option str) (maxlen : Z).   (* Exceeded max length (M) of P.E *)

Inductive vmsg := VE (e : verr) | VW (w : vwarn).

Definition errors_of (l : list vmsg) : list verr :=
  flat_map (fun m => match m with VE e => [e] | VW _ => [] end) l.
Definition warnings_of (l : list vmsg) : list vwarn :=
  flat_map (fun m => match m with VW w => [w] | VE _ => [] end) l.

(* the statements of a block run in order; the first exception wins *)
Fixpoint seq_res {A} (l : list (result (list A))) : result (list A) :=
  match l with
  | [] => Ok []
  | r :: rest =>
      match r with
      | Err x => Err x
      | Ok a => match seq_res rest with Err x => Err x | Ok b => Ok (a ++ b) end
      end
  end.

Fixpoint dedup (l : list (option str)) : list (option str) :=
  match l with
  | [] => []
  | x :: r => x :: filter (fun y => negb (opt_eqb x y)) (dedup r)
  end.

Definition omem (x : option str) (l : list str) : bool :=
  match x with Some n => smem n l | None => false end.

(* ---------- _check_known_element, sequence/choice branch, for any kind of parent ---------- *)
Section Seq.
Variable A : Type.                                    (* the class of the children *)
Variable nm : A -> option str.                        (* child.name *)
Variable isz : A -> bool.                             (* child.is_z_element() *)
Variable resolve : str -> option str.                 (* el.children.get(child_name): None = the lookup raised
                                                         (swallowed by `except Exception: pass`), Some n = an
                                                         ElementProxy over indexes[n] *)
Variable vkid : option sref -> A -> result (list vmsg).    (* _is_valid(child, ref, errs, warns) *)
Variable pname : option str.                          (* el.name *)
Variable kids : list A.                               (* el.children, insertion order *)

Definition is_named (n : str) (k : A) : bool := opt_eqb (nm k) (Some n).
Definition named_kids (n : str) : list A := filter (is_named n) kids.

(* _check_repetitions *)
Definition check_repetitions (cnt : nat) (mn mx : Z) (cname : str) : list vmsg :=
  if negb (mx =? -1)%Z then
    if (Z.of_nat cnt <? mn)%Z then [VE (MissingRequired pname cname)]
    else if (Z.of_nat cnt >? mx)%Z then [VE (LimitExceeded pname cname)]
    else []
  else
    if (Z.of_nat cnt <? mn)%Z then [VE (MissingRequired pname cname)] else [].

(* "if not element_children <= valid_children": names of the non-Z children that no row declares *)
Definition row_names (rows : list (option vchild)) : list str :=
  flat_map (fun r => match r with Some vc => [vc_name vc] | None => [] end) rows.
Definition foreign_names (rows : list (option vchild)) : list (option str) :=
  dedup (filter (fun n => negb (omem n (row_names rows))) (map nm (filter (fun k => negb (isz k)) kids))).
Definition check_allowed (rows : list (option vchild)) : list vmsg :=
  match foreign_names rows with
  | [] => []
  | l => [VE (InvalidChildren pname l)]
  end.

(* one iteration of "for child_ref in valid_children_refs" *)
Definition check_row (row : option vchild) : result (list vmsg) :=
  match row with
  | None => Err (Crash TypeError)                     (* malformed row: outside the claimed domain *)
  | Some vc =>
      match resolve (vc_name vc) with
      | None => Ok []
      | Some n =>
          do below <- seq_res (map (fun k => if is_named n k then vkid (Some (vc_ref vc)) k else Ok []) kids);
          Ok (check_repetitions (length (named_kids n)) (vc_mn vc) (vc_mx vc) (vc_name vc) ++ below)
      end
  end.

Definition check_seq (rows : list (option vchild)) : result (list vmsg) :=
  do a <- seq_res (map check_row rows);
  do z <- seq_res (map (fun k => if isz k then vkid None k else Ok []) kids);
  Ok (check_allowed rows ++ a ++ z).
End Seq.

Arguments is_named {A}. Arguments named_kids {A}. Arguments foreign_names {A}.
Arguments check_allowed {A}. Arguments check_row {A}. Arguments check_seq {A}.

Section Validate.
Variable t : tables.
Variable lvl : level.          (* the elements' validation_level (only Group/Message child lookup reads it) *)
Variable e : ec.               (* the encoding characters el.to_er7() uses inside the validator: those of the
                                  root's Message, or the version's defaults for a parentless element *)

(* `ref` when given, else load_reference(el.name, el.classname, el.version); None = ChildNotFound *)
Definition ref_or_load (tbl : list (str * sref)) (name : option str) (ref : option sref) : option sref :=
  match ref with
  | Some r => Some r
  | None => match name with Some n => slookup n tbl | None => None end
  end.

(* _check_known_element, leaf branch.  `enc` = el.to_er7() *)
Definition check_leaf (pname name dt : option str) (enc : result str) (i : info) : result (list vmsg) :=
  (* _check_table_compliance: not modelled (see header) *)
  do w <- (if (-1 <? i_maxlen i)%Z
           then do s <- enc;
                Ok (if (i_maxlen i <? Z.of_nat (length s))%Z
                    then [VW (ExceededLength pname name (i_maxlen i))] else [])
           else Ok []);
  if is_varies dt then Ok w else
  let d := if opt_eqb dt (i_dt i) then [] else [VE (WrongDatatype pname name dt)] in
  match dt with
  | Some dn =>
      if base t dt then Ok (w ++ d) else
      (* _is_valid(el, load_reference(datatype, 'Datatypes_Structs')): the struct (a tuple of rows) is
         read as if it were a reference: ref[4] / hash(ref[4]) / ref[5] *)
      match slookup dn (t_structs t) with
      | None => Err (HL7 EChildNotFound)
      | Some rows => if Nat.leb (length rows) 4 then Err (Crash IndexError) else Err (Crash TypeError)
      end
  | None => Ok (w ++ d)
  end.

Definition has_named {A} (nm : A -> option str) (kids : list A) (n : str) : bool :=
  existsb (fun k => opt_eqb (nm k) (Some n)) kids.

Definition struct_hit (st : option structure) (n : str) : option sentry :=
  match st with
  | Some s => if has_map st then match by_name s n with Some x => Some x | None => by_long s n end else None
  | None => None
  end.

(* SupportComplexDataType.find_child_reference(name) -> element['name']; None = it raised *)
Definition find_complex (st : option structure) (n : str) : option str :=
  match struct_hit st n with
  | Some x => Some (se_name x)
  | None => if known_component t n && negb (has_map st) then Some n else None
  end.

(* ---------- SubComponent ---------- *)
Definition v_sub (pname : option str) (ref : option sref) (s : sub) : result (list vmsg) :=
  if sub_unknown s then Ok [VE (UnknownElement pname (sc_name s))] else
  match ref_or_load (t_components t) (sc_name s) ref with
  | None => Ok [VE (InvalidElement (sc_name s))]
  | Some r =>
      match view_of t r with
      | VSeq _ rows _ =>
          (* no children; child_classes = {None}: every lookup raises (outside the claimed domain) *)
          check_seq sc_name (fun _ => false) (fun _ => None) (fun _ (_ : sub) => Ok []) (sc_name s) [] rows
      | VLeaf i => check_leaf pname (sc_name s) (sc_dt s) (Ok (sc_enc s)) i
      | VBad => Err (Crash TypeError)
      end
  end.

(* ---------- Component ---------- *)
Definition resolve_comp (c : comp) (cname : str) : option str :=
  if has_named sc_name (c_children c) cname then Some (upper cname)
  else option_map upper (find_complex (c_st c) (upper cname)).

Definition comp_seq (c : comp) (rows : list (option vchild)) : result (list vmsg) :=
  check_seq sc_name (fun _ => false) (resolve_comp c) (v_sub (c_name c)) (c_name c) (c_children c) rows.

Definition v_comp (pname : option str) (ref : option sref) (c : comp) : result (list vmsg) :=
  if comp_unknown c then Ok [VE (UnknownElement pname (c_name c))] else
  match ref_or_load (t_components t) (c_name c) ref with
  | None => Ok [VE (InvalidElement (c_name c))]
  | Some r =>
      match view_of t r with
      | VSeq _ rows _ => comp_seq c rows
      | VLeaf i => check_leaf pname (c_name c) (c_dt c) (Ok (enc_comp t e c)) i
      | VBad => Err (Crash TypeError)
      end
  end.

(* ---------- Field ---------- *)
Definition field_unknown (f : field) : bool := opt_eqb (f_name f) (f_dt f).
Definition field_is_z (f : field) : bool :=
  match f_name f with Some n => valid_z_field_name n | None => false end.

(* Field.find_child_reference *)
Definition resolve_field (f : field) (cname : str) : option str :=
  if has_named c_name (f_children f) cname then Some (upper cname) else
  let n := upper cname in
  option_map upper
    (if base t (f_dt f) then (if opt_eqb (Some n) (f_dt f) then f_dt f else None)
     else if is_varies (f_dt f) && valid_child_name (Some n) (Some (unbs "varies")) then Some n
     else find_complex (f_st f) n).

Definition field_seq (f : field) (rows : list (option vchild)) : result (list vmsg) :=
  check_seq c_name (fun _ => false) (resolve_field f) (v_comp (f_name f)) (f_name f) (f_children f) rows.

(* _check_z_element for a Field *)
Definition check_z_field (f : field) : result (list vmsg) :=
  if base t (f_dt f) || is_varies (f_dt f) then Ok [] else
  do x <- match f_dt f with
          | Some d => match slookup d (t_structs t) with
                      | Some rows => field_seq f (map (row_view t) rows)
                      | None => Err (HL7 EChildNotFound)
                      end
          | None => Ok []
          end;
  do y <- seq_res (map (v_comp (f_name f) None) (f_children f));
  Ok (x ++ y).

Definition v_field (pname : option str) (ref : option sref) (f : field) : result (list vmsg) :=
  if field_unknown f then Ok [VE (UnknownElement pname (f_name f))] else
  if field_is_z f then check_z_field f else
  match ref_or_load (t_fields t) (f_name f) ref with
  | None => Ok [VE (InvalidElement (f_name f))]
  | Some r =>
      match view_of t r with
      | VSeq _ rows _ => field_seq f rows
      | VLeaf i => check_leaf pname (f_name f) (f_dt f) (enc_field t e f) i
      | VBad => Err (Crash TypeError)
      end
  end.

(* ---------- Segment ---------- *)
Definition seg_is_z (s : seg) : bool := valid_z_segment_name (s_name s).

(* Segment.find_child_reference *)
Definition resolve_seg (s : seg) (cname : str) : option str :=
  if has_named f_name (s_children s) cname then Some (upper cname) else
  let n := upper cname in
  match st_ordered (s_st s) with
  | None => None                          (* structure_by_name is None: AttributeError, swallowed *)
  | Some _ =>
      match (match by_name (s_st s) n with Some x => Some x | None => by_long (s_st s) n end) with
      | Some x => Some (upper (se_name x))
      | None => if s_inf s && valid_child_name (Some n) (Some (s_name s)) then Some (upper n) else None
      end
  end.

Definition seg_seq (s : seg) (rows : list (option vchild)) : result (list vmsg) :=
  check_seq f_name field_is_z (resolve_seg s) (v_field (Some (s_name s))) (Some (s_name s)) (s_children s) rows.

Definition v_seg (ref : option sref) (s : seg) : result (list vmsg) :=
  (* a Segment always has a name: never unknown *)
  if seg_is_z s then seq_res (map (v_field (Some (s_name s)) None) (s_children s)) else
  match ref_or_load (t_segments t) (Some (s_name s)) ref with
  | None => Ok [VE (InvalidElement (Some (s_name s)))]
  | Some r =>
      match view_of t r with
      | VSeq _ rows _ => seg_seq s rows
      | VLeaf _ => Err (Crash AttributeError)      (* el.datatype on a Segment; outside the claimed domain *)
      | VBad => Err (Crash TypeError)
      end
  end.

(* ---------- Group / Message ---------- *)
Definition node_is_z (n : node) : bool :=
  match n with NSeg s => seg_is_z s | NGrp _ _ _ => false end.

(* re.match(r'^z[a-z0-9]{2}_z[a-z0-9]{2}$', name, re.IGNORECASE), ASCII domain *)
Definition az09 (b : byte) : bool := is_alpha b || is_digit b.
Definition is_zZ (b : byte) : bool := beqb b "z" || beqb b "Z".
Definition valid_z_message_name (n : str) : bool :=
  match n with
  | [z1; a; b; u; z2; c; d] => is_zZ z1 && az09 a && az09 b && beqb u "_" && is_zZ z2 && az09 c && az09 d
  | [z1; a; b; u; z2; c; d; nl] =>
      is_zZ z1 && az09 a && az09 b && beqb u "_" && is_zZ z2 && az09 c && az09 d && beqb nl x0a
  | _ => false
  end.

Definition known_seg_or_group (n : str) : bool :=
  opt_is_some (slookup n (t_segments t)) || opt_is_some (slookup n (t_groups t)).

(* Group.find_child_reference / Message.find_child_reference (`zmsg` = the message is a Z-message) *)
Definition resolve_group (zmsg : bool) (st : option structure) (kids : list node) (cname : str) : option str :=
  if has_named node_name kids cname then Some (upper cname) else
  let n := upper cname in
  match struct_hit st n with
  | Some x => Some (upper (se_name x))
  | None =>
      if valid_z_segment_name n then Some (upper n)
      else if known_seg_or_group n then (if is_strict lvl && negb zmsg then None else Some (upper n))
      else None
  end.

Fixpoint v_node (pname : option str) (ref : option sref) (n : node) {struct n} : result (list vmsg) :=
  match n with
  | NSeg s => v_seg ref s
  | NGrp name st kids =>
      match name with
      | None => Ok [VE (UnknownElement pname None)]
      | Some _ =>
          match ref_or_load (t_groups t) name ref with
          | None => Ok [VE (InvalidElement name)]
          | Some r =>
              match view_of t r with
              | VSeq _ rows _ =>
                  check_seq node_name node_is_z (resolve_group false st kids) (v_node name) name kids rows
              | VLeaf _ => Err (HL7 EChildNotFound)   (* el.datatype on a Group; outside the claimed domain *)
              | VBad => Err (Crash TypeError)
              end
          end
      end
  end.

Definition v_message (m : message) : result (list vmsg) :=
  match m_name m with
  | None => Ok [VE (UnknownElement None None)]       (* "Unknown element found: None.<Message >" *)
  | Some mn =>
      if valid_z_message_name mn then seq_res (map (v_node (m_name m) None) (m_children m)) else
      match ref_or_load (t_messages t) (m_name m) (option_map st_reference (m_st m)) with
      | None => Ok [VE (InvalidElement (m_name m))]
      | Some r =>
          match view_of t r with
          | VSeq _ rows _ =>
              check_seq node_name node_is_z (resolve_group false (m_st m) (m_children m)) (v_node (m_name m))
                        (m_name m) (m_children m) rows
          | VLeaf _ => Err (HL7 EChildNotFound)
          | VBad => Err (Crash TypeError)
          end
      end
  end.

End Validate.

(* ---------- the domain of the conformance theorems (decidable; also evaluated on every tree of the
   correspondence run): the tree is LINKED to a well-formed reference ----------
   At every element the validator visits: the reference is well formed (rows well formed, a name
   declared twice only with unbounded cardinalities, declared leaf datatypes base / varies / None), the element's own structure
   resolves each declared child name to itself (true of every element that was created with the
   reference it is validated against), and el.to_er7() needed by the length check does not raise. *)

Fixpoint all_some {A} (l : list (option A)) : option (list A) :=
  match l with
  | [] => Some []
  | Some x :: r => match all_some r with Some r' => Some (x :: r') | None => None end
  | None :: _ => None
  end.

(* every declaration of the name n among the rows *)
Definition rows_of (n : str) (rows : list vchild) : list vchild :=
  filter (fun vc => streqb (vc_name vc) n) rows.
(* a name is declared once, or all its declarations are unbounded with at most one non-zero minimum
   (ROL (0,-1) twice in ADT_A01): exactly the cases in which counting the children per name against
   each declaration agrees with the declarations taken together *)
Definition decl_ok (rows : list vchild) (vc : vchild) : bool :=
  match rows_of (vc_name vc) rows with
  | [_] => true
  | ds => forallb (fun d => (vc_mx d =? -1)%Z && (0 <=? vc_mn d)%Z) ds
          && Nat.leb (length (filter (fun d => negb (vc_mn d =? 0)%Z) ds)) 1
  end.
Definition dups_ok (rows : list vchild) : bool := forallb (decl_ok rows) rows.

Definition rows_linked {A} (resolve : str -> option str) (nm : A -> option str) (isz : A -> bool)
           (lk : option sref -> A -> bool) (kids : list A) (rows : list (option vchild)) : bool :=
  match all_some rows with
  | None => false
  | Some rows' =>
      dups_ok rows'
      && forallb (fun vc => opt_eqb (resolve (vc_name vc)) (Some (vc_name vc))
                            && forallb (fun k => if is_named nm (vc_name vc) k then lk (Some (vc_ref vc)) k else true) kids)
                 rows'
      && forallb (fun k => if isz k then lk None k else true) kids
  end.

Section Linked.
Variable t : tables.
Variable lvl : level.
Variable e : ec.

Definition wf_leaf (i : info) : bool :=
  match i_dt i with None => true | Some d => base t (Some d) || is_varies (Some d) end.

Definition linked_sub (ref : option sref) (s : sub) : bool :=
  if sub_unknown s then true else
  match ref_or_load (t_components t) (sc_name s) ref with
  | None => true
  | Some r => match view_of t r with VLeaf i => wf_leaf i | _ => false end
  end.

Definition linked_comp (ref : option sref) (c : comp) : bool :=
  if comp_unknown c then true else
  match ref_or_load (t_components t) (c_name c) ref with
  | None => true
  | Some r =>
      match view_of t r with
      | VSeq _ rows _ => rows_linked (resolve_comp t c) sc_name (fun _ => false) linked_sub (c_children c) rows
      | VLeaf i => wf_leaf i
      | VBad => false
      end
  end.

Definition linked_field (ref : option sref) (f : field) : bool :=
  if field_unknown f then true else
  if field_is_z f then
    if base t (f_dt f) || is_varies (f_dt f) then true else
    (match f_dt f with
     | Some d => match slookup d (t_structs t) with
                 | Some rows => rows_linked (resolve_field t f) c_name (fun _ => false) linked_comp (f_children f)
                                            (map (row_view t) rows)
                 | None => true
                 end
     | None => true
     end) && forallb (linked_comp None) (f_children f)
  else
  match ref_or_load (t_fields t) (f_name f) ref with
  | None => true
  | Some r =>
      match view_of t r with
      | VSeq _ rows _ => rows_linked (resolve_field t f) c_name (fun _ => false) linked_comp (f_children f) rows
      | VLeaf i => wf_leaf i && (if (-1 <? i_maxlen i)%Z then is_ok (enc_field t e f) else true)
      | VBad => false
      end
  end.

Definition linked_seg (ref : option sref) (s : seg) : bool :=
  if seg_is_z s then forallb (linked_field None) (s_children s) else
  match ref_or_load (t_segments t) (Some (s_name s)) ref with
  | None => true
  | Some r =>
      match view_of t r with
      | VSeq _ rows _ => rows_linked (resolve_seg s) f_name field_is_z linked_field (s_children s) rows
      | _ => false
      end
  end.

Fixpoint linked_node (ref : option sref) (n : node) {struct n} : bool :=
  match n with
  | NSeg s => linked_seg ref s
  | NGrp name st kids =>
      match name with
      | None => true
      | Some _ =>
          match ref_or_load (t_groups t) name ref with
          | None => true
          | Some r =>
              match view_of t r with
              | VSeq _ rows _ => rows_linked (resolve_group t lvl false st kids) node_name node_is_z linked_node kids rows
              | _ => false
              end
          end
      end
  end.

Definition linked_message (m : message) : bool :=
  match m_name m with
  | None => true
  | Some mn =>
      if valid_z_message_name mn then forallb (linked_node None) (m_children m) else
      match ref_or_load (t_messages t) (m_name m) (option_map st_reference (m_st m)) with
      | None => true
      | Some r =>
          match view_of t r with
          | VSeq _ rows _ => rows_linked (resolve_group t lvl false (m_st m) (m_children m)) node_name node_is_z
                                         linked_node (m_children m) rows
          | _ => false
          end
      end
  end.
End Linked.

(* ---------- rebuilding a message tree from the shape parse_message produced ----------
   (the group search itself is Model/Groups.v's subject; here the nesting is an input and the
   elements are created as parser.parse_segments creates them: a Segment with the reference its
   name has in the enclosing structure - or with no reference when the structure does not list it -
   and a Group with the reference of its row) *)
Inductive shape := ShSeg (text : str) | ShGrp (name : str) (kids : list shape).

Section Build.
Variable t : tables.
Variable lvl : level.
Variable e : ec.
Variable lenc : option str -> str -> result str.

Fixpoint build_node (parent : option structure) (sh : shape) {struct sh} : result node :=
  match sh with
  | ShSeg text =>
      do s <- parse_segment t lvl e lenc text (ref_in parent (seg_name_of text));
      Ok (NSeg s)
  | ShGrp name kids =>
      do st <- structure_for t GRP (upper name) (ref_in parent name);
      do ks <- (fix go (l : list shape) : result (list node) :=
                  match l with
                  | [] => Ok []
                  | x :: r => do a <- build_node (Some st) x; do b <- go r; Ok (a :: b)
                  end) kids;
      Ok (NGrp (Some (upper name)) (Some st) ks)
  end.

Fixpoint build_nodes (parent : option structure) (l : list shape) : result (list node) :=
  match l with
  | [] => Ok []
  | x :: r => do a <- build_node parent x; do b <- build_nodes parent r; Ok (a :: b)
  end.

(* Message(name) (None = the unnamed Message parse_message falls back to) with the given children *)
Definition build_message (name : option str) (kids : list shape) : result message :=
  do st <- match name with
           | Some n => match slookup (upper n) (t_messages t) with
                       | Some r => do s <- parse_structure t r; Ok (Some s)
                       | None =>
                           (* Message.__init__ (core.py:1950): `except InvalidName:` a Z message name is
                              given the reference ('sequence', ()) - an empty structure: no child of the
                              message receives a reference from it *)
                           if valid_z_message_name n
                           then do s <- parse_structure t empty_seq; Ok (Some s)
                           else Err (HL7 EInvalidName)
                       end
           | None => Ok None
           end;
  do ks <- build_nodes st kids;
  Ok (mk_message (option_map upper name) st ks).
End Build.

(* ---------- entry points: Element.validate passes self.reference ---------- *)

Definition lift_errors (r : result (list vmsg)) : result (list verr) :=
  match r with Ok l => Ok (errors_of l) | Err x => Err x end.

(* Segment.validate(): the log, and the list of errors *)
Definition validate_seg_log (t : tables) (e : ec) (s : seg) : result (list vmsg) :=
  v_seg t e (Some (st_reference (s_st s))) s.
Definition validate_errors (t : tables) (e : ec) (s : seg) : result (list verr) :=
  lift_errors (validate_seg_log t e s).
(* Validator.validate(segment, reference=ref) *)
Definition validate_errors_with (t : tables) (e : ec) (ref : option sref) (s : seg) : result (list verr) :=
  lift_errors (v_seg t e ref s).

(* Message.validate() *)
Definition validate_message_log (t : tables) (lvl : level) (e : ec) (m : message) : result (list vmsg) :=
  v_message t lvl e m.
Definition validate_message_errors (t : tables) (lvl : level) (e : ec) (m : message) : result (list verr) :=
  lift_errors (validate_message_log t lvl e m).

(* ---------- the public wrapper: report file, return_errors, raise-first ---------- *)

Record vreport := mk_vreport { r_is_valid : bool; r_errors : list verr; r_warnings : list vwarn }.
Inductive rline := LError (x : verr) | LWarning (w : vwarn).        (* "Error: ..\n" / "Warning: ..\n" *)
Inductive voutcome :=
  | VReturned (r : vreport)        (* return_errors=True *)
  | VTrue                          (* return True *)
  | VRaised (x : verr)             (* raise errors[0] *)
  | VExn (x : exn).                (* an exception from inside the validator *)

Definition report_lines (l : list vmsg) : list rline :=
  map LError (errors_of l) ++ map LWarning (warnings_of l).

Definition no_errors (l : list verr) : bool := match l with [] => true | _ => false end.

(* (outcome, lines written to report_file - [] when no report_file was given) *)
Definition validate_wrapper (return_errors has_report : bool) (r : result (list vmsg)) : voutcome * list rline :=
  match r with
  | Err x => (VExn x, [])
  | Ok l =>
      let es := errors_of l in
      (if return_errors then VReturned (mk_vreport (no_errors es) es (warnings_of l))
       else match es with x :: _ => VRaised x | [] => VTrue end,
       if has_report then report_lines l else [])
  end.

(* ---------- a lookup-preserving rearrangement of the tables (speed of the correspondence runs) ----------
   The model reads the tables only through `slookup`.  `front P l` puts a copy of the entries whose key
   satisfies P before l; every lookup gives the same answer (Proofs/ValidateFacts.v: slookup_front), and
   the entries the cases of one file need are found at the head of the list. *)
Definition front {B} (P : str -> bool) (l : list (str * B)) : list (str * B) :=
  filter (fun p => P (fst p)) l ++ l.
Definition front_tables (segs dts : list str) (t : tables) : tables :=
  mk_tables (t_version t) (t_segments t)
            (front (fun k => smem (take 3 k) segs) (t_fields t))
            (front (fun k => match rsplit_us k with Some (p, _) => smem p dts | None => false end) (t_components t))
            (t_structs t) (t_messages t) (t_groups t) (t_base_datatypes t).

(* ---------- canonical text of an error (what the correspondence harness compares) ---------- *)

Definition okey (o : option str) : str := str_of_opt o.
Fixpoint insert_str (x : str) (l : list str) : list str :=
  match l with
  | [] => [x]
  | y :: r => if str_leb x y then x :: l else y :: insert_str x r
  end.
Definition sort_strs (l : list str) : list str := fold_right insert_str [] l.

Definition verr_key (x : verr) : str :=
  match x with
  | MissingRequired p c => "Missing|" ++ okey p ++ "|" ++ c
  | LimitExceeded p c => "Limit|" ++ okey p ++ "|" ++ c
  | InvalidChildren p ns => "InvalidChildren|" ++ okey p ++ "|" ++ bjoin "," (sort_strs (map okey ns))
  | UnknownElement p n => "Unknown|" ++ okey p ++ "|" ++ okey n
  | WrongDatatype p n d => "Datatype|" ++ okey p ++ "|" ++ okey n ++ "|" ++ okey d
  | InvalidElement n => "InvalidElement|" ++ okey n
  end.
Definition is_length_warning (w : vwarn) : bool := match w with ExceededLength _ _ _ => true end.

(* sorted multiset of error keys, and the number of length warnings *)
Definition log_keys (l : list vmsg) : list str := sort_strs (map verr_key (errors_of l)).
Definition log_length_warnings (l : list vmsg) : nat := length (filter is_length_warning (warnings_of l)).
