(* Message profiles at message level (C18): parser.parse_message with its `message_profile`
   argument (parser.py:38-100), the Message constructor with a `reference` (core.py:1922-1957), how
   the profile's reference reaches the groups and segments the parser creates
   (parse_segments(..., references=m.reference, find_groups): parser.py:145-205; with
   find_groups=False the `references` argument is NOT used) and Group/Message.find_child_reference
   (through Model/Groups.v child_acceptance).  Definitions only; additive: Model/Message.v is untouched
   and `parse_message_prof ... None` IS Model/Message.v's parse_message (Proofs/ProfileMsg.v).

   A message profile is a Python dict {structure name: reference}.  Its values are references of
   the standard shape (`PRef r`, r an inline sref as the tables translator writes it) or tuples of
   the legacy format, tagged 'mp' (`PLegacy`, abstract: only the tag is used).  Keys of a dict are distinct; `slookup` returns the first.

   Legacy entries: parse_message tests the entry it has looked up (`reference[0] == 'mp'`,
   parser.py:79, right after the lookup and before the Message is built) and `Message(name,
   reference=<profile>)` tests `reference[name.upper()][0]`: both raise LegacyMessageProfile.

   Not modelled: report_file / force_validation; what the constructor writes into its own MSH
   (MSH-1, MSH-2, MSH-7, MSH-12 assignments: that MSH is replaced by the parsed children) - a
   profile whose MSH rows refuse those assignments is outside the claimed domain. *)
From Coq Require Import List Bool ZArith NArith Init.Byte.
From HL7 Require Import Lib.Str Model.Ec Model.Result Model.Header Model.Ref Model.Tree Model.Parser
                        Model.Encode Model.Leaf Model.MsgTree Model.Groups Model.Message.
Import ListNotations.
Open Scope bs_scope.
Open Scope res_scope.

Inductive pent := PRef (r : sref) | PLegacy.
Definition profile := list (str * pent).

(* `self.msh = Segment('MSH', ...)` inside Message.__init__: ElementList.set -> find_child_reference
   (ChildNotValid under STRICT when the structure does not list MSH) -> append -> _can_add_child *)
Definition msh_acceptance (t : tables) (lvl : level) (n : str) (st : structure) : result unit :=
  child_acceptance t lvl true (Some n) (Some st) [] "MSH".

(* `message_profile[message_structure] if message_profile is not None else None`, KeyError ->
   MessageProfileNotFound, then the legacy test.  Only None means "no profile": an empty dict lacks
   every structure.  The key is the structure name as written in MSH-9 (not upper-cased);
   message_profile[None] is a KeyError as well. *)
Definition lookup_profile (prof : option profile) (structure : option str) : result (option (str * sref)) :=
  match prof with
  | None => Ok None
  | Some p =>
      match structure with
      | Some s => match slookup s p with
                  | Some (PRef r) => Ok (Some (s, r))
                  | Some PLegacy => Err (HL7 ELegacyMessageProfile)
                  | None => Err (HL7 EMessageProfileNotFound)
                  end
      | None => Err (HL7 EMessageProfileNotFound)
      end
  end.

Section MsgProf.
Variable lib : str -> option tables.       (* load_library: None = UnsupportedVersion *)
Variable dflt : str.                       (* get_default_version() *)
Variable lvl : level.
(* to_er7 of datatype_factory(datatype, text, version, level): Model/Leaf.v leaf_enc (what
   Model/Message.v fixes) or Model/LeafFull.v leaf_enc_full (with the C13 layer) *)
Variable leafv : str -> level -> ec -> option str -> str -> result str.

(* Message(name=n0, reference=r, version=.., validation_level=lvl, encoding_chars=e) where r is a
   TUPLE (what parse_message passes): `reference[name]` raises TypeError and is skipped; the
   reference is taken as it is (no InvalidName, hence no Z-message fallback). *)
Definition new_message_ref (t : tables) (e : ec) (n0 : str) (r : sref) : result message :=
  let n := upper n0 in
  do st <- parse_structure t r;
  let msh_ref := ref_in (Some st) "MSH" in
  do _ <- mk_segment t "MSH" msh_ref;
  do _ <- msh_acceptance t lvl n st;
  do _ <- check_ec e;
  Ok (mk_message (Some n) (Some st) []).

(* Message(name, reference=<profile dict or None>, ...) as a user calls it: the profile is indexed by the
   UPPER-CASED name (`reference[name.upper() if name is not None else name]`, core.py:1938) *)
Definition new_message_profiled (t : tables) (e : ec) (name : option str) (prof : option profile)
  : result message :=
  match prof with
  | None => new_message lvl t e name
  | Some p =>
      match name with
      | Some n =>
          match slookup (upper n) p with
          | None => Err (HL7 EMessageProfileNotFound)            (* KeyError *)
          | Some PLegacy => Err (HL7 ELegacyMessageProfile)      (* reference[0] == 'mp' *)
          | Some (PRef r) => new_message_ref t e n r
          end
      | None => Err (HL7 EMessageProfileNotFound)                (* reference[None]: KeyError *)
      end
  end.

(* parse_message(text, validation_level=lvl, find_groups=fg, message_profile=prof) *)
Definition parse_message_prof_gen (fg : bool) (prof : option profile) (text : str)
  : result (tables * message) :=
  let text := lstrip text in
  do '(e, structure, version) <- get_message_info text;
  do px <- lookup_profile prof structure;
  let v := match version with Some v => v | None => dflt end in
  do t <- (match lib v with Some t => Ok t | None => Err (HL7 EUnsupportedVersion) end);
  do m <- (match (match px with
                  | Some (s, r) => new_message_ref t e s r
                  | None => new_message lvl t e structure
                  end) with
           | Err (HL7 EInvalidName) => new_message lvl t e None
           | r => r
           end);
  let leaf := leafv v lvl e in
  let flat := parse_segments_flat t lvl e leaf text in
  do kids <-
    (match m_st m with
     | Some st =>
         if fg then
           match parse_segments_grouped t lvl e leaf (st_reference st) text with
           | Err (Crash AttributeError) => flat        (* except AttributeError: flat parse *)
           | r => r
           end
         else flat                                      (* `references` is ignored: standard tables *)
     | None => flat                                     (* m.reference raises AttributeError *)
     end);
  do m' <- add_all lvl t m kids;
  Ok (t, m').
End MsgProf.

(* with the leaf function of Model/Message.v *)
Definition parse_message_prof (lib : str -> option tables) (dflt : str) (lvl : level) (fg : bool)
           (prof : option profile) (text : str) : result (tables * message) :=
  parse_message_prof_gen lib dflt lvl leaf_enc fg prof text.

(* ---------- canonical dump of a message with its segments in full (harness/c18.py prints the
   same): what a profile changes - datatypes, open-endedness - is visible in the segment dumps ---------- *)
From HL7 Require Import Model.Dump.
Fixpoint dump_node_full (n : node) : str :=
  match n with
  | NSeg s => dump_seg s
  | NGrp nm _ cs => "(" ++ match nm with Some g => g | None => "-" end ++
                    (fix go (l : list node) : str :=
                       match l with [] => [] | y :: r => " " ++ dump_node_full y ++ go r end) cs ++ ")"
  end.
Definition dump_message_full (m : message) : str :=
  match m_name m with Some n => n | None => "-" end ++ ":" ++ bjoin " " (map dump_node_full (m_children m)).
