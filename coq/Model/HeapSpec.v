(* The abstract specification of C09: an element holds, per child name, an ordered list of
   repetitions.  Represented as ONE ordered list of (name, repetition) - the by-name lists are its
   sub-lists - together with the edits the property sentence names, and the abstraction function from
   the heap of Model/Heap.v.  Definitions only. *)
From Coq Require Import List Bool Arith Init.Byte.
From HL7 Require Import Lib.Str Model.Result Model.Ref Model.Tree Model.Heap.
Import ListNotations.

(* a repetition is named by the identity of the element that holds its value; its payload (the
   value) is the visible sub-tree below it *)
Definition absl := list (option str * nat).

(* the repetitions of one child name, in order *)
Definition reps (a : absl) (k : option str) : list nat :=
  map snd (filter (fun x => opt_eqb k (fst x)) a).

(* addition appends *)
Definition spec_append (a : absl) (k : option str) (c : nat) : absl := a ++ [(k, c)].

(* deletion removes exactly the addressed one *)
Fixpoint spec_remove (a : absl) (c : nat) : absl :=
  match a with
  | [] => []
  | x :: r => if Nat.eqb c (snd x) then r else x :: spec_remove r c
  end.

(* assignment replaces the addressed repetition in place ... *)
Definition spec_replace (a : absl) (old : nat) (k : option str) (new : nat) : absl :=
  map (fun x => if Nat.eqb (snd x) old then (k, new) else x) a.

(* ... or appends when it is absent: the i-th repetition of name k is addressed *)
Definition spec_assign (a : absl) (k : option str) (i : nat) (new : nat) : absl :=
  match nth_error (reps a k) i with
  | Some old => spec_replace a old k new
  | None => spec_append a k new
  end.
Definition spec_delete (a : absl) (k : option str) (i : nat) : absl :=
  match nth_error (reps a k) i with
  | Some old => spec_remove a old
  | None => a
  end.

(* the order of the OTHER children (what "never changes the order" means) *)
Definition others (a : absl) (c : nat) : absl := filter (fun x => negb (Nat.eqb (snd x) c)) a.

(* ---------- abstraction ---------- *)

Definition abs (s : store) (p : nat) : absl :=
  map (fun c => (n_name (getn s c), c)) (n_list (getn s p)).

(* the payload of a repetition: its visible sub-tree (three levels suffice: field, component,
   subcomponent), independent of identities *)
Inductive payload := Payload (name dt : option str) (text : str) (kids : list payload).
Definition payload_sub (s : store) (c : nat) : payload :=
  Payload (n_name (getn s c)) (n_dt (getn s c)) (n_enc (getn s c)) [].
Definition payload_comp (s : store) (c : nat) : payload :=
  Payload (n_name (getn s c)) (n_dt (getn s c)) [] (map (payload_sub s) (n_list (getn s c))).
Definition payload_field (s : store) (c : nat) : payload :=
  Payload (n_name (getn s c)) (n_dt (getn s c)) [] (map (payload_comp s) (n_list (getn s c))).
