(* Reference structures: the nested tuples hl7apy passes around as `reference` (standard tables and
   message profiles have the same shape), the by-name form in which the translator emits the
   per-version tables (Gen/Tables_v2_X.v), the expansion from one to the other, and
   ElementFinder._parse_structure (core.py:563). *)
From Coq Require Import List Bool ZArith NArith Init.Byte.
From HL7 Require Import Lib.Str Model.Result.
Import ListNotations.
Open Scope bs_scope.

Inductive kind := SEG | GRP | FIE | CMP.
Definition kind_eqb (a b : kind) : bool :=
  match a, b with SEG, SEG | GRP, GRP | FIE, FIE | CMP, CMP => true | _, _ => false end.

(* reference[2:] of a 6-tuple: datatype, long name, table, max length *)
Record info := mk_info { i_dt : option str; i_long : option str; i_table : option str; i_maxlen : Z }.

(* by-name form emitted by the translator *)
Inductive sref :=
  | SLeaf (i : info)
  | SSeqDt (i : info)                 (* children are structs[dt]: checked equal by the translator *)
  | SSeqIn (choice : bool) (cs : list srow) (i : option info)
  | SBad
with srow :=
  | SByName (k : kind) (name : str) (mn mx : Z)     (* embedded reference equals the table entry of that name *)
  | SIn (k : kind) (name : str) (r : sref) (mn mx : Z)
  | SRowBad.

Record tables := mk_tables {
  t_version : str;
  t_segments : list (str * sref);
  t_fields : list (str * sref);
  t_components : list (str * sref);          (* DATATYPES: XCN_2 -> reference *)
  t_structs : list (str * list srow);        (* DATATYPES_STRUCTS: XCN -> rows *)
  t_messages : list (str * sref);
  t_groups : list (str * sref);
  t_base_datatypes : list str
}.

Definition table_of (t : tables) (k : kind) : list (str * sref) :=
  match k with SEG => t_segments t | GRP => t_groups t | FIE => t_fields t | CMP => t_components t end.

(* A reference, as the model handles it, is an `sref` together with the tables: the nested tuple
   Python sees is obtained by resolving names, one level at a time (`view`).  Message profiles are
   srefs written inline (SSeqIn / SIn). *)
Record vchild := mk_vchild { vc_name : str; vc_ref : sref; vc_mn : Z; vc_mx : Z; vc_kind : kind }.
Inductive view :=
  | VLeaf (i : info)                                          (* ('leaf', _, dt, long, table, maxlen) *)
  | VSeq (choice : bool) (cs : list (option vchild)) (i : option info)  (* None = malformed row *)
  | VBad.

Definition row_view (t : tables) (x : srow) : option vchild :=
  match x with
  | SByName k name mn mx =>
      match slookup name (table_of t k) with
      | Some r => Some (mk_vchild name r mn mx k)
      | None => None
      end
  | SIn k name r mn mx => Some (mk_vchild name r mn mx k)
  | SRowBad => None
  end.

Definition view_of (t : tables) (r : sref) : view :=
  match r with
  | SLeaf i => VLeaf i
  | SSeqDt i =>
      match i_dt i with
      | Some d => match slookup d (t_structs t) with
                  | Some rows => VSeq false (map (row_view t) rows) (Some i)
                  | None => VBad
                  end
      | None => VBad
      end
  | SSeqIn c cs i => VSeq c (map (row_view t) cs) i
  | SBad => VBad
  end.

Definition ref_info (r : sref) : option info :=
  match r with SLeaf i | SSeqDt i => Some i | SSeqIn _ _ i => i | SBad => None end.

(* load_reference(name, cls, version): lib.get -> ChildNotFound when absent *)
Definition load_reference (t : tables) (k : kind) (name : str) : result sref :=
  match slookup name (table_of t k) with
  | Some r => Ok r
  | None => Err (HL7 EChildNotFound)
  end.
Definition has_struct (t : tables) (dt : str) : bool :=
  match slookup dt (t_structs t) with Some _ => true | None => false end.
Definition is_base_datatype (t : tables) (dt : option str) : bool :=
  match dt with Some d => smem d (t_base_datatypes t) | None => false end.

(* ---------- ElementFinder._parse_structure ---------- *)
Record sentry := mk_sentry { se_name : str; se_ref : sref; se_kind : kind }.
Record structure := mk_structure {
  st_reference : sref;
  st_ordered : option (list str);                 (* ordered_children, None for leaves *)
  st_by_name : list (str * sentry);               (* insertion-ordered dict *)
  st_by_long : list (option str * sentry);        (* later duplicates win: looked up from the END *)
  st_repetitions : list (str * (Z * Z));
  st_info : option info                           (* datatype/table/long_name when len(reference) > 5 *)
}.

Definition ref_long (r : sref) : option (option str) :=   (* child_ref[3]; None = IndexError (skipped) *)
  match ref_info r with Some i => Some (i_long i) | None => None end.

Definition count_name (n : str) (l : list str) : nat := length (filter (streqb n) l).

(* the loop over children; `seen` = raw child names so far (the `counters` defaultdict) *)
Fixpoint parse_children (cs : list (option vchild)) (seen : list str)
         (ord : list str) (byn : list (str * sentry)) (byl : list (option str * sentry))
         (reps : list (str * (Z * Z)))
  : result (list str * list (str * sentry) * list (option str * sentry) * list (str * (Z * Z))) :=
  match cs with
  | [] => Ok (rev ord, rev byn, rev byl, rev reps)
  | None :: _ => Err PyValueError            (* tuple unpacking of a malformed row *)
  | Some (mk_vchild name r mn mx k) :: rest =>
      let key := match slookup name byn with
                 | None => name
                 | Some _ => name ++ "_" ++ nat_to_str (count_name name seen)
                 end in
      let e := mk_sentry key r k in
      let byl' := match ref_long r with Some l => (l, e) :: byl | None => byl end in
      parse_children rest (name :: seen) (key :: ord) ((key, e) :: byn) byl' ((key, (mn, mx)) :: reps)
  end.

Definition parse_structure (t : tables) (r : sref) : result structure :=
  match view_of t r with
  | VLeaf i => Ok (mk_structure r None [] [] [] (Some i))
  | VSeq _ cs i =>
      match parse_children cs [] [] [] [] [] with
      | Ok (ord, byn, byl, reps) => Ok (mk_structure r (Some ord) byn byl reps i)
      | Err e => Err e
      end
  | VBad => Err (Crash TypeError)
  end.

(* dict lookups on the two maps *)
Definition by_name (s : structure) (n : str) : option sentry :=
  (* a key assigned twice keeps its LAST value: look from the end *)
  slookup n (rev (st_by_name s)).
Fixpoint olookup (k : option str) (l : list (option str * sentry)) : option sentry :=
  match l with
  | [] => None
  | (k', v) :: r =>
      if match k, k' with Some a, Some b => streqb a b | None, None => true | _, _ => false end
      then Some v else olookup k r
  end.
Definition by_long (s : structure) (n : str) : option sentry := olookup (Some n) (rev (st_by_long s)).
Definition repetitions_of (s : structure) (n : str) : option (Z * Z) := slookup n (rev (st_repetitions s)).
