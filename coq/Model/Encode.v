(* to_er7 of SubComponent / Component / Field / Segment (core.py:718, 974, 1448, 1497, 1707, 1764).
   Definitions only. *)
From Coq Require Import List Bool ZArith NArith Init.Byte.
From HL7 Require Import Lib.Str Model.Ec Model.Result Model.Ref Model.Tree Model.Parser.
Import ListNotations.
Open Scope bs_scope.

(* a slot of _get_children: None (dict.get miss) or the list of repetitions *)
Definition slot (A : Type) := option (list A).
Definition slot_empty {A} (s : slot A) : bool := match s with None => true | Some [] => true | Some _ => false end.

Definition named {A} (nm : A -> option str) (k : str) (l : list A) : slot A :=
  match filter (fun x => opt_eqb (nm x) (Some k)) l with [] => None | r => Some r end.

(* c.name in (None, 'ST') *)
Definition name_none_or_st (n : option str) : bool := opt_is_none n || opt_eqb n (Some (unbs "ST")).

(* Element._get_children(trailing=False) *)
Definition generic_slots {A} (nm : A -> option str) (st : option structure) (l : list A) : list (slot A) :=
  let ordered := match st with Some s => match st_ordered s with Some o => o | None => [] end | None => [] end in
  remove_trailing slot_empty
    (map (fun k => named nm k l) ordered ++ map (fun c => Some [c]) (filter (fun c => name_none_or_st (nm c)) l)).

(* Element.to_er7: join the encodings of the repetitions of every non-empty slot, '' for empty ones *)
Definition enc_slots {A} (enc : A -> str) (sep : byte) (slots : list (slot A)) : str :=
  bjoin sep (flat_map (fun s => match s with
                                | Some (x :: r) => map enc (x :: r)
                                | _ => [[]]
                                end) slots).

Section Enc.
Variable t : tables.
Variable e : ec.

Definition enc_sub (s : sub) : str := sc_enc s.

Definition enc_comp (c : comp) : str :=
  if base t (c_dt c) || opt_is_none (c_dt c)
  then enc_slots enc_sub (ssep e) [Some (c_children c)]
  else enc_slots enc_sub (ssep e) (generic_slots sc_name (c_st c) (c_children c)).

(* Field._get_children for datatype 'varies' *)
Definition varies_index (n : option str) : N :=
  match n with
  | Some s => if valid_child_name n (Some (unbs "VARIES")) then py_int_val (drop 7 s) else 0%N
  | None => 0%N
  end.
Definition varies_slots (l : list comp) : list (slot comp) :=
  let last := fold_left (fun m c => N.max m (varies_index (c_name c))) l 0%N in
  remove_trailing slot_empty
    (map (fun i => named c_name (name_idx "VARIES" i) l) (seq 1 (N.to_nat last)))
  ++ map (fun c => Some [c]) (filter comp_unknown l).

Definition enc_field (f : field) : result str :=
  if opt_eqb (f_name f) (Some (unbs "MSH_1")) || opt_eqb (f_name f) (Some (unbs "MSH_2")) then
    (* self.msh_1_1.children[0].value.value : the raw text of the first subcomponent *)
    match f_children f with
    | c :: _ => match c_children c with
                | s :: _ => Ok (sc_value s)
                | [] => Err (Crash IndexError)
                end
    | [] => Err (Crash IndexError)
    end
  else if is_varies (f_dt f) then Ok (enc_slots enc_comp (csep e) (varies_slots (f_children f)))
  else if base t (f_dt f) || opt_is_none (f_dt f)
  then Ok (enc_slots enc_comp (csep e) [Some (f_children f)])
  else Ok (enc_slots enc_comp (csep e) (generic_slots c_name (f_st f) (f_children f))).

(* Segment._get_children(trailing) + Segment.to_er7 *)
Definition seg_slots (s : seg) (trailing : bool) : list (slot field) :=
  let ordered := match st_ordered (s_st s) with Some o => o | None => [] end in
  let extra := if s_inf s
               then map (fun i => named f_name (name_idx (s_name s) i) (s_children s))
                        (seq (S (N.to_nat (s_last_allowed s))) (N.to_nat (s_last s) - N.to_nat (s_last_allowed s)))
               else [] in
  let all := map (fun k => named f_name k (s_children s)) ordered ++ extra
             ++ map (fun c => Some [c]) (filter (fun c => name_none_or_st (f_name c)) (s_children s)) in
  if trailing then all else remove_trailing slot_empty all.

Fixpoint enc_reps (l : list field) : result (list str) :=
  match l with
  | [] => Ok []
  | f :: r => match enc_field f, enc_reps r with
              | Ok x, Ok xs => Ok (x :: xs)
              | Err er, _ => Err er
              | _, Err er => Err er
              end
  end.

Fixpoint enc_seg_slots (l : list (slot field)) : result (list str) :=
  match l with
  | [] => Ok []
  | sl :: r =>
      match (match sl with
             | Some reps => match enc_reps reps with Ok xs => Ok (bjoin (rsep e) xs) | Err er => Err er end
             | None => Ok []
             end), enc_seg_slots r with
      | Ok x, Ok xs => Ok (x :: xs)
      | Err er, _ => Err er
      | _, Err er => Err er
      end
  end.

Definition enc_segment (s : seg) (trailing : bool) : result str :=
  match enc_seg_slots (seg_slots s trailing) with
  | Err er => Err er
  | Ok parts =>
      let parts := s_name s :: parts in
      let parts := if streqb (s_name s) "MSH" && Nat.ltb 1 (length parts)
                   then match parts with a :: _ :: r => a :: r | p => p end else parts in
      Ok (bjoin (fsep e) parts)
  end.

End Enc.
