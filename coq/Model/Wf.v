(* Boolean well-formedness of the generated tables: the premises under which the general position
   / round-trip / alias lemmas apply to a table row.  Decided by vm_compute over coq/Gen. *)
From Coq Require Import List Bool ZArith NArith Init.Byte.
From HL7 Require Import Lib.Str Model.Result Model.Ref Model.Tree Model.Parser.
Import ListNotations.
Open Scope bs_scope.

Section Wf.
Variable t : tables.

Definition row_name (r : srow) : option (kind * str * Z * Z) :=
  match r with SByName k n mn mx | SIn k n _ mn mx => Some (k, n, mn, mx) | SRowBad => None end.

(* rows are NAME_1 .. NAME_n in order, all of kind k, with sane cardinalities *)
Fixpoint rows_contiguous (prefix : str) (k : kind) (i : nat) (rows : list srow) : bool :=
  match rows with
  | [] => true
  | r :: rest =>
      match row_name r with
      | Some (k', name, mn, mx) =>
          kind_eqb k k' && streqb name (name_idx prefix i) &&
          (0 <=? mn)%Z && ((mx =? -1)%Z || (mn <=? mx)%Z) &&
          rows_contiguous prefix k (S i) rest
      | None => false
      end
  end.

(* the reference a row stands for *)
Definition row_ref (r : srow) : option sref :=
  match r with
  | SByName k name _ _ => slookup name (table_of t k)
  | SIn _ _ x _ _ => Some x
  | SRowBad => None
  end.

(* a leaf of a base datatype, or a varies leaf *)
Definition leaf_ok (i : info) (allow_varies : bool) : bool :=
  match i_dt i with
  | Some d => smem d (t_base_datatypes t) || (allow_varies && streqb d "varies")
  | None => allow_varies      (* untyped leaf (reserved positions of v2.5.1): behaves like varies *)
  end.

(* datatype struct whose components are all base leaves *)
Definition wf_sub_row (r : srow) : bool :=
  match row_ref r with Some (SLeaf i) => leaf_ok i false | _ => false end.
Definition wf_struct_flat (p : str * list srow) : bool :=
  rows_contiguous (fst p) CMP 1 (snd p) && forallb wf_sub_row (snd p).

(* datatype struct: components DT_1..DT_n, each a base leaf or a complex datatype whose own
   components are base leaves (HL7 nests at most two levels below a field) *)
Definition wf_comp_row (flat : list str) (r : srow) : bool :=
  match row_ref r with
  | Some (SLeaf i) => leaf_ok i true
  | Some (SSeqDt i) => match i_dt i with Some d => smem d flat | None => false end
  | _ => false
  end.
Definition wf_struct (flat : list str) (p : str * list srow) : bool :=
  rows_contiguous (fst p) CMP 1 (snd p) && forallb (wf_comp_row flat) (snd p).

Definition wf_field_ref (good : list str) (r : sref) : bool :=
  match r with
  | SLeaf i => leaf_ok i true
  | SSeqDt i => match i_dt i with Some d => smem d good | None => false end
  | _ => false
  end.
Definition wf_field_row (good : list str) (r : srow) : bool :=
  match row_ref r with Some f => wf_field_ref good f | None => false end.

Definition wf_seg (good : list str) (p : str * sref) : bool :=
  match snd p with
  | SSeqIn false rows None =>
      Nat.eqb (length (fst p)) 3 && rows_contiguous (fst p) FIE 1 rows && forallb (wf_field_row good) rows
  | _ => false
  end.

(* the datatypes whose structs are flat / well formed: computed once per table *)
Definition flat_structs : list str := map fst (filter wf_struct_flat (t_structs t)).
Definition good_structs : list str :=
  let flat := flat_structs in map fst (filter (wf_struct flat) (t_structs t)).

(* (bad segments, bad structs, bad standalone field entries) *)
Definition table_report : list str * list str * list str :=
  let flat := flat_structs in
  let good := map fst (filter (wf_struct flat) (t_structs t)) in
  (map fst (filter (fun p => negb (wf_seg good p)) (t_segments t)),
   map fst (filter (fun p => negb (wf_struct flat p)) (t_structs t)),
   map fst (filter (fun p => negb (wf_field_ref good (snd p))) (t_fields t))).

Definition only_wildcard (l : list str) : bool :=
  match l with [] => true | [x] => streqb x "ANYHL7SEGMENT" | _ => false end.
(* every segment, struct and field row is well formed; ANYHL7SEGMENT (a structure wildcard, not a
   segment) is the only entry allowed to fail *)
Definition report_ok : bool :=
  match table_report with
  | (bad_segs, bad_structs, bad_fields) =>
      only_wildcard bad_segs && match bad_structs, bad_fields with [], [] => true | _, _ => false end
  end.
End Wf.
