(* Encoded text of a leaf: to_er7(datatype_factory(datatype, text, version, level)) under the
   element's encoding characters (factories.py:36, base_datatypes.py).  Textual classes are exact
   (escape + STRICT max length).  For DT/TM/DTM/NM/SI this file uses the TOLERANT fallback
   behaviour "text kept and escaped as ST"; values of those types that the factory ACCEPTS and
   re-formats are handled by Model/Datatypes.v (C13) and are outside this file's claimed domain
   unless they are already in the factory's output form. *)
From Coq Require Import List Bool ZArith NArith Init.Byte.
From HL7 Require Import Lib.Str Model.Ec Model.Escape Model.Result Model.Tree Gen.Params.
Import ListNotations.
Open Scope bs_scope.

Definition dt_row (v d : str) : option (dtkind * option Z) :=
  match slookup v base_datatype_table with
  | Some rows =>
      match filter (fun r : str * dtkind * option Z => streqb (fst (fst r)) d) rows with
      | r :: _ => Some (snd (fst r), snd r)
      | [] => None
      end
  | None => None
  end.

Definition family (f : nat) : esc_params := nth f esc_families esc_family_0.

Definition st_family (v : str) : esc_params :=
  match dt_row v "ST" with Some (KTextual f, _) => family f | _ => esc_family_0 end.

Definition too_long (mx : option Z) (s : str) : bool :=
  match mx with Some m => (Z.of_nat (length s) >? m)%Z | None => false end.

Definition leaf_enc (v : str) (lvl : level) (e : ec) (dt : option str) (s : str) : result str :=
  match dt with
  | None => Err (HL7 EOtherHL7)                   (* InvalidDataType *)
  | Some d =>
      match dt_row v d with
      | None => Err (HL7 EOtherHL7)
      | Some (KTextual f, mx) | Some (KTN f, mx) =>
          if is_strict lvl && too_long mx s then Err (HL7 EMaxLengthReached)
          else Ok (escape (family f) e s)
      | Some (_, _) => Ok (escape (st_family v) e s)
      end
  end.
