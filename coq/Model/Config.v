(* Process-wide defaults (hl7apy/__init__.py:47-228) as an explicit configuration, and the public
   entry points of the parser with their optional arguments: every `None` is resolved from the
   configuration, every explicit argument is validated and forwarded (parser.py:751-769). *)
From Coq Require Import List Bool ZArith NArith Init.Byte.
From HL7 Require Import Lib.Str Model.Ec Model.Result Model.Ref Model.Tree Model.Parser Model.Encode
     Model.Leaf Model.Header Gen.Params Gen.Tables.
Import ListNotations.
Open Scope bs_scope.
Open Scope res_scope.

Record cfg := mk_cfg { d_version : str; d_level : level; d_ec : ec; d_ec27 : ec }.

(* set_default_* : functions cfg -> cfg that touch nothing else *)
Definition set_default_version (c : cfg) (v : str) : result cfg :=
  if smem v supported_versions then Ok (mk_cfg v (d_level c) (d_ec c) (d_ec27 c)) else Err (HL7 EUnsupportedVersion).
Definition set_default_validation_level (c : cfg) (l : level) : cfg := mk_cfg (d_version c) l (d_ec c) (d_ec27 c).
Definition ec_nodup (e : ec) : bool := nodupb beqb (ec_all e).
(* set_default_encoding_chars replaces the pre-2.7 default only (the 2.7 default is a separate global) *)
Definition set_default_encoding_chars (c : cfg) (e : ec) : result cfg :=
  if ec_nodup e then Ok (mk_cfg (d_version c) (d_level c) e (d_ec27 c)) else Err (HL7 EInvalidEncodingChars).

(* parser._get_version / _get_encoding_chars / _get_validation_level *)
Definition get_version (c : cfg) (o : option str) : result str :=
  match o with
  | None => Ok (d_version c)
  | Some v => if smem v supported_versions then Ok v else Err (HL7 EUnsupportedVersion)
  end.
Definition get_default_encoding_chars (c : cfg) (v : str) : ec := if ge_27 v then d_ec27 c else d_ec c.
Definition get_encoding_chars (c : cfg) (o : option ec) (v : str) : result ec :=
  match o with
  | None => Ok (get_default_encoding_chars c v)
  | Some e => if ec_nodup e then Ok e else Err (HL7 EInvalidEncodingChars)
  end.
Definition get_level (c : cfg) (o : option level) : level := match o with None => d_level c | Some l => l end.

Definition with_tables {A} (v : str) (k : tables -> result A) : result A :=
  match tables_of v with Some t => k t | None => Err (HL7 EUnsupportedVersion) end.

(* parse_segment / parse_field / parse_component with their keyword arguments *)
Definition api_parse_segment (c : cfg) (text : str) (version : option str) (ecs : option ec)
           (lvl : option level) (reference : option sref) : result seg :=
  do v <- get_version c version;
  do e <- get_encoding_chars c ecs v;
  let l := get_level c lvl in
  with_tables v (fun t => parse_segment t l e (leaf_enc v l e) text reference).

Definition api_parse_field (c : cfg) (text : str) (name : option str) (version : option str) (ecs : option ec)
           (lvl : option level) (reference : option sref) (force_varies : bool) : result field :=
  do v <- get_version c version;
  do e <- get_encoding_chars c ecs v;
  let l := get_level c lvl in
  with_tables v (fun t => parse_field t l e (leaf_enc v l e) text name reference force_varies).

Definition api_parse_component (c : cfg) (text : str) (name datatype : option str) (version : option str)
           (ecs : option ec) (lvl : option level) (reference : option sref) : result comp :=
  do v <- get_version c version;
  do e <- get_encoding_chars c ecs v;
  let l := get_level c lvl in
  with_tables v (fun t => parse_component t l e (leaf_enc v l e) text name datatype reference).

(* Element.to_er7(encoding_chars): explicit characters are used as given; without them an element
   that has no parent reads the CURRENT default for its version (documented behaviour) *)
Definition api_seg_to_er7 (c : cfg) (v : str) (s : seg) (ecs : option ec) (trailing : bool) : result str :=
  let e := match ecs with Some e => e | None => get_default_encoding_chars c v end in
  with_tables v (fun t => enc_segment t e s trailing).
