(* parser.py: parse_segment, parse_fields, parse_field, parse_components, parse_component,
   parse_subcomponents, and the child acceptance checks reachable from them
   (ElementList.append/_can_add_child, Field.add, Component.add, Segment.add,
   SupportComplexDataType._is_valid_child, Segment._is_valid_child).  Definitions only. *)
From Coq Require Import List Bool ZArith NArith Init.Byte.
From HL7 Require Import Lib.Str Model.Ec Model.Result Model.Ref Model.Tree.
Import ListNotations.
Open Scope bs_scope.
Open Scope res_scope.

Definition opt_is_none {A} (o : option A) : bool := match o with None => true | Some _ => false end.
Definition opt_is_some {A} (o : option A) : bool := negb (opt_is_none o).
Definition nonempty_name (o : option str) : bool := match o with Some (_ :: _) => true | _ => false end.

Section Parse.
Variable t : tables.
Variable lvl : level.
Variable e : ec.
Variable leaf_enc : option str -> str -> result str.

Notation base := (base t).

Definition indexed {A} (l : list A) : list (nat * A) := combine (seq 1 (length l)) l.
Definition name_idx (prefix : str) (i : nat) : str := prefix ++ "_" ++ nat_to_str i.

(* references[name]['ref'] with KeyError -> None; references = structure_by_name (None for leaves) *)
Definition ref_in (st : option structure) (name : str) : option sref :=
  match st with
  | Some s => match st_ordered s with
              | Some _ => option_map se_ref (by_name s name)
              | None => None
              end
  | None => None
  end.
Definition has_map (st : option structure) : bool :=
  match st with Some s => opt_is_some (st_ordered s) | None => false end.

Definition count_named {A} (nm : A -> option str) (n : option str) (l : list A) : nat :=
  length (filter (fun x => opt_eqb (nm x) n) l).

(* STRICT cardinality check of _can_add_child *)
Definition card_ok {A} (nm : A -> option str) (st : option structure) (k : option str) (have : list A) : bool :=
  if negb (is_strict lvl) then true else
  let mx := match k, st with
            | Some kn, Some s => match repetitions_of s kn with Some (_, m) => m | None => (-1)%Z end
            | _, _ => (-1)%Z
            end in
  negb ((Z.of_nat (count_named nm k have) + 1 >? mx)%Z && (mx >? -1)%Z).

(* the global lookup find_reference(name, (Component|SubComponent,), version) *)
Definition known_component (name : str) : bool := opt_is_some (slookup name (t_components t)).

(* SupportComplexDataType._is_valid_child; Err = the exception it lets through *)
Definition valid_child_complex (p_name p_dt : option str) (p_st : option structure)
           (k_name k_dt : option str) : result bool :=
  let unknown := opt_eqb k_name k_dt in
  let b := base p_dt in
  if negb b && (opt_is_none p_dt || is_varies p_dt) && valid_child_name k_name (Some (unbs "varies")) then Ok true
  else if negb b && opt_is_none p_dt && valid_child_name p_name (Some (unbs "varies")) && unknown then Ok true
  else if negb b && unknown && is_strict lvl then Ok false
  else if negb b && negb unknown && nonempty_name p_dt && negb (valid_child_name k_name p_dt) then Ok false
  else if b && nonempty_name k_dt && negb (opt_eqb k_dt p_dt) then Ok false
  else
    match k_name with
    | Some kn =>
        if base (Some kn) then Ok true else
        let in_struct := match p_st with
                         | Some s => has_map p_st && (opt_is_some (by_name s (upper kn)) || opt_is_some (by_long s (upper kn)))
                         | None => false
                         end in
        if in_struct then Ok true
        else if negb (known_component (upper kn)) then Ok false
        else if has_map p_st then Err (HL7 EChildNotValid)
        else Ok true
    | None => Ok true
    end.

(* component.children = subcomponents : Component.add per child *)
Fixpoint add_subs (c : comp) (kids : list sub) : result comp :=
  match kids with
  | [] => Ok c
  | k :: rest =>
      if nonempty_name (c_name c) && base (c_dt c) && Nat.leb 1 (length (c_children c))
      then Err (HL7 EMaxChildLimitReached)
      else if nonempty_name (sc_name k) && negb (opt_eqb (sc_name k) (sc_dt k))
              && negb (valid_child_name (sc_name k) (c_dt c))
      then Err (HL7 EChildNotValid)
      else
        do v <- valid_child_complex (c_name c) (c_dt c) (c_st c) (sc_name k) (sc_dt k);
        if negb v then Err (HL7 EChildNotValid)
        else if negb (card_ok sc_name (c_st c) (sc_name k) (c_children c)) then Err (HL7 EMaxChildLimitReached)
        else add_subs (mk_comp (c_name c) (c_dt c) (c_st c) (c_children c ++ [k])) rest
  end.

Fixpoint add_comps (f : field) (kids : list comp) : result field :=
  match kids with
  | [] => Ok f
  | k :: rest =>
      if nonempty_name (f_name f) && base (f_dt f) && Nat.leb 1 (length (f_children f))
      then Err (HL7 EMaxChildLimitReached)
      else
        do v <- valid_child_complex (f_name f) (f_dt f) (f_st f) (c_name k) (c_dt k);
        if negb v then Err (HL7 EChildNotValid)
        else if negb (card_ok c_name (f_st f) (c_name k) (f_children f)) then Err (HL7 EMaxChildLimitReached)
        else add_comps (mk_field_rec (f_name f) (f_dt f) (f_st f) (f_children f ++ [k])) rest
  end.

(* Segment._is_valid_child + Segment.find_child_reference, then cardinality, then Segment.add's counter *)
Definition known_field (name : str) : bool := opt_is_some (slookup name (t_fields t)).

Fixpoint add_fields (s : seg) (kids : list field) : result seg :=
  match kids with
  | [] => Ok s
  | k :: rest =>
      match f_name k with
      | None =>
          if is_strict lvl then Err (HL7 EChildNotValid)
          else add_fields (mk_seg (s_name s) (s_st s) (s_inf s) (s_last_allowed s) (s_last s) (s_children s ++ [k])) rest
      | Some kn =>
          let found := opt_is_some (by_name (s_st s) kn) || opt_is_some (by_long (s_st s) kn) in
          let open_ok := s_inf s && valid_child_name (Some kn) (Some (s_name s)) in
          if negb found && negb open_ok then
            (if known_field kn then Err (HL7 EChildNotValid) else Err (HL7 EChildNotFound))
          else if negb (bstarts (s_name s) kn) then Err (HL7 EChildNotValid)
          else if negb (card_ok f_name (Some (s_st s)) (Some kn) (s_children s)) then Err (HL7 EMaxChildLimitReached)
          else
            let idx := drop 4 kn in
            if s_inf s && nonempty_name (Some kn) then
              if py_int_ok idx then
                let i := py_int_val idx in
                add_fields (mk_seg (s_name s) (s_st s) (s_inf s) (s_last_allowed s)
                                   (if N.ltb (s_last s) i then i else s_last s) (s_children s ++ [k])) rest
              else Err PyValueError
            else add_fields (mk_seg (s_name s) (s_st s) (s_inf s) (s_last_allowed s) (s_last s) (s_children s ++ [k])) rest
      end
  end.

(* ---------- parse_subcomponents / parse_component ---------- *)

Definition materialise (text : str) (name : option str) : bool :=
  negb (is_blank text) || opt_is_none name.

Fixpoint parse_subcomponents_aux (cdt : option str) (st : option structure) (l : list (nat * str))
  : result (list sub) :=
  match l with
  | [] => Ok []
  | (i, s) :: rest =>
      let '(nm, dt) :=
         if base cdt || opt_is_none cdt
         then (None, match cdt with Some d => Some d | None => Some (unbs "ST") end)
         else (Some (name_idx (str_of_opt cdt) i), None) in
      (* reference = references[name]['ref'] if None not in (references, name); KeyError resets the name *)
      let '(nm, dt, ref) :=
         match nm with
         | Some n =>
             if has_map st then
               match ref_in st n with
               | Some r => (nm, dt, Some r)
               | None => (None, Some (unbs "ST"), None)
               end
             else (nm, dt, None)
         | None => (nm, dt, None)
         end in
      if materialise s nm then
        do x <- mk_subcomponent t lvl leaf_enc nm dt s ref;
        do xs <- parse_subcomponents_aux cdt st rest;
        Ok (x :: xs)
      else parse_subcomponents_aux cdt st rest
  end.
Definition parse_subcomponents (text : str) (cdt : option str) (st : option structure) : result (list sub) :=
  parse_subcomponents_aux cdt st (indexed (bsplit (ssep e) text)).

Definition parse_component (text : str) (name datatype : option str) (reference : option sref) : result comp :=
  do c <- (match mk_component t lvl name datatype reference with
           | Err (HL7 EInvalidName) =>
               if is_strict lvl then Err (HL7 EInvalidName)
               else mk_component t lvl datatype None reference     (* datatype in the name position *)
           | r => r
           end);
  do kids <- parse_subcomponents text (c_dt c) (c_st c);
  let c := if negb (is_strict lvl) && base (c_dt c) && Nat.ltb 1 (length kids)
           then mk_comp (c_name c) None (c_st c) (c_children c) else c in
  add_subs c kids.

(* ---------- parse_components / parse_field ---------- *)

Fixpoint parse_components_aux (fdt : option str) (st : option structure) (l : list (nat * str))
  : result (list comp) :=
  match l with
  | [] => Ok []
  | (i, s) :: rest =>
      let '(nm, cdt) :=
         if base fdt then (None, fdt)
         else if opt_is_none fdt || is_varies fdt then (Some (name_idx "VARIES" i), None)
         else (Some (name_idx (str_of_opt fdt) i), None) in
      let ref := match nm with Some n => if has_map st then ref_in st n else None | None => None end in
      if negb (is_blank s) || opt_is_none nm || (match nm with Some n => bstarts "VARIES_" n | None => false end) then
        do x <- parse_component s nm cdt ref;
        do xs <- parse_components_aux fdt st rest;
        Ok (x :: xs)
      else parse_components_aux fdt st rest
  end.
Definition parse_components (text : str) (fdt : option str) (st : option structure) : result (list comp) :=
  parse_components_aux fdt st (indexed (bsplit (csep e) text)).

Definition is_msh12 (name : option str) : bool :=
  opt_eqb (option_map upper name) (Some (unbs "MSH_1")) || opt_eqb (option_map upper name) (Some (unbs "MSH_2")).

Definition parse_field (text : str) (name : option str) (reference : option sref) (force_varies : bool)
  : result field :=
  do f <- (match mk_field t lvl name None reference with
           | Err (HL7 EInvalidName) =>
               if force_varies then mk_field t lvl name None (Some varies_leaf)
               else mk_field t lvl None None reference
           | r => r
           end);
  if is_msh12 name then
    do s <- mk_subcomponent t lvl leaf_enc None (Some (unbs "ST")) text None;
    do c0 <- mk_component t lvl None (Some (unbs "ST")) None;
    do c <- add_subs c0 [s];
    add_comps f [c]
  else
    do kids <- parse_components text (f_dt f) (f_st f);
    let f := if negb (is_strict lvl) && base (f_dt f) && Nat.ltb 1 (length kids)
             then mk_field_rec (f_name f) None (f_st f) (f_children f) else f in
    add_comps f kids.

(* ---------- parse_fields / parse_segment ---------- *)

Fixpoint parse_reps (reps : list str) (name : option str) (reference : option sref) (fv : bool)
  : result (list field) :=
  match reps with
  | [] => Ok []
  | r :: rest => do x <- parse_field r name reference fv;
                 do xs <- parse_reps rest name reference fv;
                 Ok (x :: xs)
  end.

Fixpoint parse_fields_aux (prefix : str) (st : option structure) (fv : bool) (l : list (nat * str))
  : result (list field) :=
  match l with
  | [] => Ok []
  | (i, f) :: rest =>
      let name := name_idx prefix i in
      let ref := if has_map st then ref_in st name else None in
      do here <-
         (if negb (is_blank f) then
            if streqb (upper name) "MSH_2" then parse_reps [f] (Some name) ref false
            else parse_reps (bsplit (rsep e) f) (Some name) ref fv
          else if streqb (upper name) "MSH_1" then parse_reps [[fsep e]] (Some name) ref false
          else Ok []);
      do xs <- parse_fields_aux prefix st fv rest;
      Ok (here ++ xs)
  end.
Definition parse_fields (text prefix : str) (st : option structure) (fv : bool) : result (list field) :=
  parse_fields_aux prefix st fv (indexed (bsplit (fsep e) (strip_cr text))).

Definition seg_name_of (text : str) : str := take 3 text.
Definition seg_rest_of (text : str) : str :=
  if streqb (upper (take 3 text)) "MSH" then drop 3 text else drop 4 text.

(* everything after the Segment object exists *)
Definition parse_segment_in (s : seg) (text : str) : result seg :=
  do kids <- parse_fields (seg_rest_of text) (seg_name_of text) (Some (s_st s)) (s_inf s);
  add_fields s kids.

Definition parse_segment (text : str) (reference : option sref) : result seg :=
  do s <- mk_segment t (seg_name_of text) reference;
  parse_segment_in s text.

End Parse.
