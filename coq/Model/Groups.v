(* parser.py: _get_segment_reference (735-753) and the find_groups=True loop of parse_segments
   (145-205), as they stand in the repository (a segment the search does not find at any level is
   kept where the search stood: the `for ... else` branch restores the saved state).
   Definitions only.

   The loop is written ONCE, generically in the type of the input items and of the parsed
   segments, in the result monad:
     - names level   : items are segment names, a "parsed segment" is the upper-cased name, no
                       acceptance checks                         (find_groups_names)
     - segment level : items are the CR-separated pieces of the message text, stripped, the blank
                       ones skipped (parser.py strips the piece BEFORE taking its name), segments are
                       parsed by Model/Parser.parse_segment with the reference found, groups are
                       accepted by Group._is_valid_child / ElementList._can_add_child
                                                                (parse_segments_grouped)
   State of the fold = (parents_refs stack, path of the current parent, forest).  The current
   parent is a POINTER in Python; here it is the path (child indices from the top level) of a
   group node of the forest, and `current_parent.add(x)` is `append_at path x forest`.  That the
   path always is the right-most spine is a theorem (Proofs/GroupsFacts.v), not a convention.

   Err OutOfFuel is returned (a) when the recursion of the search exceeds search_fuel nested groups
   (CPython: RecursionError) and (b) in the places where the model's own data would be inconsistent
   (path not pointing at a group): both are shown unreachable for the shipped tables. *)
From Coq Require Import List Bool ZArith NArith Init.Byte.
From HL7 Require Import Lib.Str Model.Ec Model.Result Model.Ref Model.Tree Model.Parser Model.MsgTree.
Import ListNotations.
Open Scope bs_scope.
Open Scope res_scope.

(* ---------- equality of references: Python's == on the nested tuples ---------- *)
Definition oeqb {A} (f : A -> A -> bool) (a b : option A) : bool :=
  match a, b with Some x, Some y => f x y | None, None => true | _, _ => false end.
Definition info_eqb (a b : info) : bool :=
  opt_eqb (i_dt a) (i_dt b) && opt_eqb (i_long a) (i_long b) && opt_eqb (i_table a) (i_table b)
  && Z.eqb (i_maxlen a) (i_maxlen b).

Fixpoint sref_eqb (a b : sref) {struct a} : bool :=
  match a, b with
  | SLeaf i, SLeaf j => info_eqb i j
  | SSeqDt i, SSeqDt j => info_eqb i j
  | SSeqIn c cs i, SSeqIn d ds j =>
      Bool.eqb c d && oeqb info_eqb i j &&
      (fix rows (l m : list srow) {struct l} : bool :=
         match l, m with
         | [], [] => true
         | x :: l', y :: m' => srow_eqb x y && rows l' m'
         | _, _ => false
         end) cs ds
  | SBad, SBad => true
  | _, _ => false
  end
with srow_eqb (a b : srow) {struct a} : bool :=
  match a, b with
  | SByName k n mn mx, SByName k' n' mn' mx' =>
      kind_eqb k k' && streqb n n' && Z.eqb mn mn' && Z.eqb mx mx'
  | SIn k n r mn mx, SIn k' n' r' mn' mx' =>
      kind_eqb k k' && streqb n n' && Z.eqb mn mn' && Z.eqb mx mx' && sref_eqb r r'
  | SRowBad, SRowBad => true
  | _, _ => false
  end.

(* an entry of parents_refs: (group name or None, reference) *)
Definition entry := (option str * sref)%type.
Definition entry_eqb (a b : entry) : bool := opt_eqb (fst a) (fst b) && sref_eqb (snd a) (snd b).
(* list.index(x): position of the first equal element *)
Fixpoint index_of (x : entry) (l : list entry) (i : nat) : option nat :=
  match l with
  | [] => None
  | y :: r => if entry_eqb y x then Some i else index_of x r (S i)
  end.

(* ---------- _get_segment_reference ---------- *)
Section Search.
Variable t : tables.

(* p_ref[1] : the rows of the reference on top of the stack *)
Definition rows_of (r : sref) : result (list srow) :=
  match r with
  | SSeqIn _ cs _ => Ok cs
  | SSeqDt i => match i_dt i with
                | Some d => match slookup d (t_structs t) with
                            | Some rows => Ok rows
                            | None => Err (Crash TypeError)
                            end
                | None => Err (Crash TypeError)
                end
  | SLeaf _ => Err (Crash TypeError)          (* p_ref[1] is None: `for c in None` *)
  | SBad => Err (Crash TypeError)
  end.

Definition row_ref (x : srow) : result sref :=
  match row_view t x with Some v => Ok (vc_ref v) | None => Err (Crash IndexError) end.

(* the first loop: stop at the first SEG row of that name (`break`: the groups seen so far are
   not visited), otherwise collect the GRP rows in order.  A GRP row is resolved against the tables
   when it is visited (Python holds the nested tuple; nothing observable happens in between). *)
Definition row_name_kind (x : srow) : option (kind * str) :=
  match x with SByName k n _ _ | SIn k n _ _ _ => Some (k, n) | SRowBad => None end.

Fixpoint scan_rows (name : str) (rows : list srow) (groups : list srow)
  : result (option sref * list srow) :=
  match rows with
  | [] => Ok (None, rev groups)
  | x :: rest =>
      match row_name_kind x with
      | None => Err (Crash IndexError)                           (* c[3] of a malformed row *)
      | Some (SEG, n) =>
          if streqb n name then
            do r <- row_ref x;
            match r with
            | SBad => Ok (None, [])       (* ref = c[1] is None (v2.1 ORU_R03 groups); break: reported as
                                             not found and the groups of this level are not visited *)
            | _ => Ok (Some r, [])
            end
          else scan_rows name rest groups
      | Some (GRP, _) => scan_rows name rest (x :: groups)
      | Some (_, _) => scan_rows name rest groups
      end
  end.

(* `for g in groups: append; recurse; if found break else pop` *)
Fixpoint try_groups (rec : sref -> result (option (sref * list (str * sref))))
         (gs : list srow) : result (option (sref * list (str * sref))) :=
  match gs with
  | [] => Ok None
  | x :: rest =>
      match row_name_kind x with
      | None => Err (Crash IndexError)
      | Some (_, g) =>
          do gr <- row_ref x;
          do y <- rec gr;
          match y with
          | Some (sr, ex) => Ok (Some (sr, (g, gr) :: ex))
          | None => try_groups rec rest
          end
      end
  end.

(* search fuel name r = Some (segment reference, entries appended to the stack) | None (stack
   unchanged: every append has been popped again) *)
Fixpoint search (fuel : nat) (name : str) (r : sref) : result (option (sref * list (str * sref))) :=
  match fuel with
  | O => Err OutOfFuel
  | S f =>
      do rows <- rows_of r;
      do '(hit, groups) <- scan_rows name rows [];
      match hit with
      | Some sr => Ok (Some (sr, []))
      | None => try_groups (search f name) groups
      end
  end.

Definition search_fuel : nat := 40.
End Search.

(* ---------- forests ---------- *)
Inductive gtree (A : Type) :=
  | GS (a : A) (r : option sref)                       (* a segment; r = the reference it was parsed with *)
  | GG (name : str) (r : sref) (st : structure) (cs : list (gtree A)).   (* Group(name, reference=r) *)
Arguments GS {A}. Arguments GG {A}.

Section Forest.
Variable A : Type.
Variable nm : A -> str.                                 (* child.name of a parsed segment *)

Definition gforest := list (gtree A).
Definition child_name (x : gtree A) : str := match x with GS a _ => nm a | GG n _ _ _ => n end.

Fixpoint gflatten_tree (x : gtree A) : list A :=
  match x with
  | GS a _ => [a]
  | GG _ _ _ cs => (fix go (l : list (gtree A)) : list A :=
                      match l with [] => [] | y :: r => gflatten_tree y ++ go r end) cs
  end.
Definition gflatten (f : gforest) : list A := flat_map gflatten_tree f.

(* the children list the path points at ([] = the top-level list `segments`) *)
Fixpoint children_at (p : list nat) (f : gforest) : option gforest :=
  match p with
  | [] => Some f
  | i :: p' => match nth_error f i with
               | Some (GG _ _ _ cs) => children_at p' cs
               | _ => None
               end
  end.
(* the group node the (non-empty) path points at *)
Fixpoint group_at (p : list nat) (f : gforest) : option (str * sref * structure * gforest) :=
  match p with
  | [] => None
  | [i] => match nth_error f i with Some (GG n r st cs) => Some (n, r, st, cs) | _ => None end
  | i :: p' => match nth_error f i with
               | Some (GG _ _ _ cs) => group_at p' cs
               | _ => None
               end
  end.

Fixpoint update_nth {B} (i : nat) (g : B -> B) (l : list B) : list B :=
  match l, i with
  | [], _ => []
  | x :: r, O => g x :: r
  | x :: r, S j => x :: update_nth j g r
  end.
(* x appended to the children of the node at p *)
Fixpoint append_at (p : list nat) (x : gtree A) (f : gforest) : gforest :=
  match p with
  | [] => f ++ [x]
  | i :: p' => update_nth i (fun n => match n with
                                      | GG a b c cs => GG a b c (append_at p' x cs)
                                      | s => s
                                      end) f
  end.
End Forest.
Arguments child_name {A}. Arguments gflatten_tree {A}. Arguments gflatten {A}.
Arguments children_at {A}. Arguments group_at {A}. Arguments append_at {A}.

(* ---------- the loop ---------- *)
Section Loop.
Variable t : tables.
Variable X : Type.                                     (* an input item *)
Variable A : Type.                                     (* a parsed segment *)
Variable raw : X -> str.                               (* segment_name = s[:3] *)
Variable mkseg : X -> option sref -> result A.         (* parse_segment(s.strip(), ..., reference) *)
Variable nm : A -> str.                                (* segment.name *)
(* parent.add(child) for a Group parent: (name, reference, structure) of the parent, names of the
   children it has, name of the new child *)
Variable acceptance : str * sref * structure -> list str -> str -> result unit.
Variable root : sref.                                  (* the `references` argument *)

Record gstate := mk_gstate { g_stack : list entry; g_path : list nat; g_forest : gforest A }.

(* current_parent: None at top level *)
Definition cur_group (s : gstate) : result (option (str * sref * structure * gforest A)) :=
  match g_path s with
  | [] => Ok None
  | p => match group_at p (g_forest s) with
         | Some g => Ok (Some g)
         | None => Err OutOfFuel
         end
  end.

(* segments.append(x)  /  current_parent.add(x) *)
Definition add_child (s : gstate) (x : gtree A) : result gstate :=
  do c <- cur_group s;
  do _ <- match c with
          | Some (n, r, st, cs) => acceptance (n, r, st) (map (child_name nm) cs) (child_name nm x)
          | None => Ok tt
          end;
  Ok (mk_gstate (g_stack s) (g_path s) (append_at (g_path s) x (g_forest s))).

(* group = Group(name, reference=r); add it under the current parent; current_parent = group *)
Definition open_group (s : gstate) (name : str) (r : sref) : result gstate :=
  do st <- parse_structure t r;
  do c <- cur_group s;
  let idx := match c with Some (_, _, _, cs) => length cs | None => length (g_forest s) end in
  do s' <- add_child s (GG (upper name) r st []);
  Ok (mk_gstate (g_stack s') (g_path s' ++ [idx]) (g_forest s')).

Fixpoint open_groups (s : gstate) (ps : list entry) : result gstate :=
  match ps with
  | [] => Ok s
  | (Some n, r) :: rest => do s' <- open_group s n r; open_groups s' rest
  | (None, _) :: _ => Err OutOfFuel      (* only the bottom entry is unnamed and it is never in stack[i+1:] *)
  end.

(* "another instance of the same group": a sibling of the current parent becomes the current parent *)
Definition reopen_group (s : gstate) : result gstate :=
  do c <- cur_group s;
  match c with
  | Some (n, r, _, _) => open_group (mk_gstate (g_stack s) (removelast (g_path s)) (g_forest s)) n r
  | None => Err OutOfFuel
  end.

Definition place (x : X) (sr : option sref) (s : gstate) : result gstate :=
  do a <- mkseg x sr; add_child s (GS a sr).

Definition last_entry (l : list entry) : result entry :=
  match rev l with e :: _ => Ok e | [] => Err (Crash IndexError) end.

(* the branch taken once the reference has been found; s already carries the extended stack *)
Definition after_found (x : X) (sr : sref) (s : gstate) : result gstate :=
  do c <- cur_group s;
  do top <- last_entry (g_stack s);
  do s2 <-
    (match c with
     | None =>
         if opt_is_some (fst top) then
           match index_of (None, root) (g_stack s) 0 with
           | Some i => open_groups s (skipn (S i) (g_stack s))
           | None => Err PyValueError
           end
         else Ok s
     | Some (n, r, st, cs) =>
         if negb (opt_eqb (fst top) (Some n)) then
           match index_of (Some n, r) (g_stack s) 0 with
           | Some i => open_groups s (skipn (S i) (g_stack s))
           | None => Err PyValueError
           end
         else if smem (raw x) (map (child_name nm) cs) then
           match repetitions_of st (raw x) with
           | Some (_, mx) => if (mx =? 1)%Z then reopen_group s else Ok s
           | None => Err (Crash KeyError)
           end
         else Ok s
     end);
  place x (Some sr) s2.

(* `for x in xrange(len(parents_refs))` with the length taken before the loop; Some = break *)
Fixpoint attempts (n : nat) (x : X) (s : gstate) : result (option gstate) :=
  match n with
  | O => Ok None
  | S n' =>
      do top <- last_entry (g_stack s);
      do found <- search t search_fuel (raw x) (snd top);
      match found with
      | None =>
          match g_path s with
          | [] => attempts n' x s
          | _ => attempts n' x (mk_gstate (removelast (g_stack s)) (removelast (g_path s)) (g_forest s))
          end
      | Some (sr, extra) =>
          let stack := g_stack s ++ map (fun p => (Some (fst p), snd p)) extra in
          do s' <- after_found x sr (mk_gstate stack (g_path s) (g_forest s));
          Ok (Some s')
      end
  end.

Definition step (s : gstate) (x : X) : result gstate :=
  do r <- attempts (length (g_stack s)) x s;
  match r with
  | Some s' => Ok s'
  | None => place x None s               (* parents_refs, current_parent = saved_state *)
  end.

Fixpoint run (xs : list X) (s : gstate) : result gstate :=
  match xs with
  | [] => Ok s
  | x :: r => do s' <- step s x; run r s'
  end.

Definition init_state : gstate := mk_gstate [(None, root)] [] [].
Definition find_groups (xs : list X) : result (gforest A) :=
  do s <- run xs init_state; Ok (g_forest s).
End Loop.
Arguments mk_gstate {A}. Arguments g_stack {A}. Arguments g_path {A}. Arguments g_forest {A}.

(* ---------- names level ---------- *)
Definition ntree := gtree str.
Definition no_acceptance (_ : str * sref * structure) (_ : list str) (_ : str) : result unit := Ok tt.
Definition find_groups_names (t : tables) (root : sref) (names : list str) : result (list ntree) :=
  find_groups t str str (fun n => n) (fun n _ => Ok (upper n)) (fun n => n) no_acceptance root names.

(* canonical text of a forest of names: segments by name, groups as (NAME child child ...) *)
Fixpoint dump_ntree (x : ntree) : str :=
  match x with
  | GS n _ => n
  | GG g _ _ cs => "(" ++ g ++ (fix go (l : list ntree) : str :=
                                 match l with [] => [] | y :: r => " " ++ dump_ntree y ++ go r end) cs ++ ")"
  end.
Definition dump_nforest (f : list ntree) : str := bjoin " " (map dump_ntree f).
(* a segment the search did not place *)
Fixpoint unplaced_tree {A} (x : gtree A) : list A :=
  match x with
  | GS a None => [a]
  | GS _ (Some _) => []
  | GG _ _ _ cs => (fix go (l : list (gtree A)) : list A :=
                      match l with [] => [] | y :: r => unplaced_tree y ++ go r end) cs
  end.
Definition unplaced {A} (f : list (gtree A)) : list A := flat_map unplaced_tree f.

(* ---------- segment level ---------- *)
Section Real.
Variable t : tables.
Variable lvl : level.
Variable e : ec.
Variable leaf_enc : option str -> str -> result str.

(* re.match(r'^z[a-z0-9]{2}_z[a-z0-9]{2}$', name, re.IGNORECASE)  ($ also matches before one final newline) *)
Definition az09 (b : byte) : bool := is_alpha b || is_digit b.
Definition is_z (b : byte) : bool := beqb b "z" || beqb b "Z".
Definition valid_z_message_name (name : option str) : bool :=
  match name with
  | Some (z1 :: a :: b :: u :: z2 :: c :: d :: r) =>
      is_z z1 && az09 a && az09 b && beqb u "_" && is_z z2 && az09 c && az09 d &&
      match r with [] => true | [nl] => beqb nl x0a | _ => false end
  | _ => false
  end.

(* Group.find_child_reference / Message.find_child_reference as reached from _is_valid_child:
   only the exception matters *)
Definition find_child_check (is_msg : bool) (pname : option str) (st : option structure) (child : str)
  : result unit :=
  let n := upper child in
  let found := match st with
               | Some s => has_map st && (opt_is_some (by_name s n) || opt_is_some (by_long s n))
               | None => false
               end in
  if found then Ok tt
  else if valid_z_segment_name n then Ok tt
  else if opt_is_some (slookup n (t_segments t)) || opt_is_some (slookup n (t_groups t)) then
    if is_strict lvl && negb (is_msg && valid_z_message_name pname) then Err (HL7 EChildNotValid)
    else Ok tt
  else Err (HL7 EChildNotFound).

(* ElementList._can_add_child, STRICT cardinality *)
Definition count_str (n : str) (l : list str) : nat := length (filter (streqb n) l).
Definition child_card_ok (st : option structure) (child : str) (have : list str) : bool :=
  if negb (is_strict lvl) then true else
  let mx := match st with
            | Some s => match repetitions_of s child with Some (_, m) => m | None => (-1)%Z end
            | None => (-1)%Z
            end in
  negb ((Z.of_nat (count_str child have) + 1 >? mx)%Z && (mx >? -1)%Z).

(* parent.add(child) for a Group (is_msg = false) or Message parent *)
Definition child_acceptance (is_msg : bool) (pname : option str) (st : option structure)
           (have : list str) (child : str) : result unit :=
  do _ <- find_child_check is_msg pname st child;
  if child_card_ok st child have then Ok tt else Err (HL7 EMaxChildLimitReached).

Definition group_acceptance (p : str * sref * structure) (have : list str) (child : str) : result unit :=
  match p with (n, _, st) => child_acceptance false (Some n) (Some st) have child end.

(* `for s in text.split('\r'): s = s.strip(); if len(s) > 0: ...` : the pieces of the text, each
   STRIPPED first, those that are empty after stripping skipped.  The segment name used by the group
   search is the first three characters of the stripped piece (take 3 below), so LF after CR, blank
   lines and blank-padded lines do not influence the result. *)
Definition pieces (text : str) : list str :=
  filter (fun s => match s with [] => false | _ => true end) (map strip (bsplit CR text)).

(* parse_segment(s.strip(), ...) : the second strip of the (already stripped) piece is a no-op *)
Definition seg_of_piece (s : str) (r : option sref) : result seg :=
  parse_segment t lvl e leaf_enc (strip s) r.

Definition parse_segments_grouped_trees (root : sref) (text : str) : result (list (gtree seg)) :=
  find_groups t str seg (take 3) seg_of_piece s_name group_acceptance root (pieces text).

Fixpoint node_of (x : gtree seg) : node :=
  match x with
  | GS s _ => NSeg s
  | GG n _ st cs => NGrp (Some n) (Some st) (map node_of cs)
  end.

(* parse_segments(text, ..., references=root, find_groups=True) *)
Definition parse_segments_grouped (root : sref) (text : str) : result (list node) :=
  do f <- parse_segments_grouped_trees root text; Ok (map node_of f).

(* parse_segments(text, ..., find_groups=False) *)
Fixpoint parse_flat (ps : list str) : result (list node) :=
  match ps with
  | [] => Ok []
  | s :: r => do x <- seg_of_piece s None; do xs <- parse_flat r; Ok (NSeg x :: xs)
  end.
Definition parse_segments_flat (text : str) : result (list node) := parse_flat (pieces text).
End Real.

(* ---------- instance families of a message structure (vocabulary of C08_prescribed) ----------
   The forest a structure PRESCRIBES for an instance generated from it:
     IReq   every child with min >= 1, once (a required group none of whose members is required
            is given its first member, so that it can appear in ER7 at all)
     IAll   every child once
     IRep2  every child once, every repeatable group (max = -1 or > 1) at nesting depth < 3 twice
   Groups that would have no segment at all are left out (they cannot be written in ER7). *)
Inductive imode := IReq | IAll | IRep2.
Inductive etree := ES (name : str) | EG (name : str) (cs : list etree).

Definition row_card (x : srow) : Z * Z :=
  match x with SByName _ _ mn mx | SIn _ _ _ mn mx => (mn, mx) | SRowBad => (0, 0)%Z end.

Section Instances.
Variable t : tables.

Definition copies (m : imode) (k : kind) (depth : nat) (c : Z * Z) : nat :=
  match m with
  | IReq => if (1 <=? fst c)%Z then 1 else 0
  | IAll => 1
  | IRep2 => match k with
             | GRP => if ((snd c =? -1)%Z || (1 <? snd c)%Z) && Nat.ltb depth 3 then 2 else 1
             | _ => 1
             end
  end.

Fixpoint instance_with (fm : sref -> list etree) (fuel : nat) (m : imode) (depth : nat) (r : sref)
  : list etree :=
  match fuel with
  | O => []
  | S f =>
      match rows_of t r with
      | Err _ => []
      | Ok rows =>
          flat_map (fun x =>
            match row_name_kind x with
            | Some (SEG, n) => repeat (ES n) (copies m SEG depth (row_card x))
            | Some (GRP, n) =>
                match row_ref t x with
                | Ok gr =>
                    let kids := instance_with fm f m (S depth) gr in
                    let kids := match kids, m with
                                | [], IReq => fm gr
                                | _, _ => kids
                                end in
                    match kids with
                    | [] => []
                    | _ => repeat (EG n kids) (copies m GRP depth (row_card x))
                    end
                | Err _ => []
                end
            | _ => []
            end) rows
      end
  end.

(* the first member of a group: a segment, or a leading group with its required members (with its
   own first member when it has none) *)
Fixpoint first_member (fuel : nat) (r : sref) : list etree :=
  match fuel with
  | O => []
  | S f =>
      match rows_of t r with
      | Ok (x :: _) =>
          match row_name_kind x with
          | Some (SEG, n) => [ES n]
          | Some (GRP, n) =>
              match row_ref t x with
              | Ok gr =>
                  let kids := match instance_with (first_member f) f IReq 1 gr with
                              | [] => first_member f gr
                              | k => k
                              end in
                  match kids with [] => [] | k => [EG n k] end
              | Err _ => []
              end
          | _ => []
          end
      | _ => []
      end
  end.

Definition instance (fuel : nat) (m : imode) (depth : nat) (r : sref) : list etree :=
  instance_with (first_member fuel) fuel m depth r.

(* every SEG name of the structure, groups included *)
Fixpoint seg_places (fuel : nat) (r : sref) : list str :=
  match fuel with
  | O => []
  | S f =>
      match rows_of t r with
      | Err _ => []
      | Ok rows =>
          flat_map (fun x =>
            match row_name_kind x with
            | Some (SEG, n) => [n]
            | Some (GRP, _) => match row_ref t x with Ok gr => seg_places f gr | Err _ => [] end
            | _ => []
            end) rows
      end
  end.
End Instances.

Fixpoint eflatten_tree (x : etree) : list str :=
  match x with
  | ES n => [n]
  | EG _ cs => (fix go (l : list etree) : list str :=
                  match l with [] => [] | y :: r => eflatten_tree y ++ go r end) cs
  end.
Definition eflatten (f : list etree) : list str := flat_map eflatten_tree f.
Fixpoint dump_etree (x : etree) : str :=
  match x with
  | ES n => n
  | EG g cs => "(" ++ g ++ (fix go (l : list etree) : str :=
                             match l with [] => [] | y :: r => " " ++ dump_etree y ++ go r end) cs ++ ")"
  end.
Definition dump_eforest (f : list etree) : str := bjoin " " (map dump_etree f).

Definition inst_fuel : nat := 12.
(* the segment names of the structure each occur at a single place, none is the wildcard *)
Definition unique_places (t : tables) (r : sref) : bool :=
  let ps := seg_places t inst_fuel r in
  nodupb streqb ps && negb (smem "ANYHL7SEGMENT" ps).

(* the search returns exactly the prescribed forest, every segment placed *)
Definition prescribed_ok (t : tables) (m : imode) (r : sref) : bool :=
  let exp := instance t inst_fuel m 0 r in
  match find_groups_names t r (eflatten exp) with
  | Ok f => streqb (dump_nforest f) (dump_eforest exp) &&
            match unplaced f with [] => true | _ => false end
  | Err _ => false
  end.
Definition imodes : list imode := [IReq; IAll; IRep2].
Definition failing_structures (t : tables) : list str :=
  map fst (filter (fun p => unique_places t (snd p) &&
                            negb (forallb (fun m => prescribed_ok t m (snd p)) imodes))
                  (t_messages t)).

(* cardinality conformance of a forest of names against the reference of its parent: no declared
   child occurs more often than its maximum (the upper half of what validate() checks) *)
Definition count_named_n (n : str) (f : list ntree) : nat :=
  length (filter (fun x => streqb (child_name (fun a : str => a) x) n) f).
Fixpoint within_max (t : tables) (fuel : nat) (r : sref) (f : list ntree) {struct fuel} : bool :=
  match fuel with
  | O => false
  | S fu =>
      match rows_of t r with
      | Err _ => false
      | Ok rows =>
          forallb (fun x => match row_name_kind x with
                            | Some (_, n) => let mx := snd (row_card x) in
                                             (mx =? -1)%Z || (Z.of_nat (count_named_n n f) <=? mx)%Z
                            | None => false
                            end) rows &&
          forallb (fun x => match x with
                            | GS _ _ => true
                            | GG _ gr _ cs => within_max t fu gr cs
                            end) f
      end
  end.
