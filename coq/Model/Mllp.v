(* hl7apy.core.Message.to_mllp (core.py:1991) and hl7apy.mllp.MLLPRequestHandler (mllp.py:55-139):
   what the server does with ONE connection.  Definitions only.  A transliteration of the validated
   pure-Python reading feasibility/reading_mllp.py.

   Domain of the model (stated once, used by every theorem and by the correspondence run):
   - bytes of the stream are ASCII (< 128): then `line.decode('utf-8')` is the identity and the
     text handed to the regex / to get_message_type / to the handlers is the byte string itself;
   - a line containing a byte >= 128 is treated as UNDECODABLE (connection closed, no handler).
     CPython does that only when the bytes are not valid UTF-8, so outside ASCII the model is
     claimed only for lines containing a byte that never occurs in UTF-8 (0xC0, 0xC1, 0xF5..0xFF)
     or a lone continuation byte (0x80..0xBF directly after an ASCII byte);
   - the client's bytes are followed by EOF or by silence; both end the read loop (EOF: `break`,
     silence: socket.timeout -> close) and neither can produce a handler call, so the model does
     not distinguish them;
   - handlers are abstract: `hb h exc payload` is the outcome of constructing handler `h` and
     calling its reply() (Ok text, or Err e when it raises); replies are ASCII text;
   - a message whose MSH-9 is literally "ERR" is routed to handlers["ERR"] like to any message
     handler, i.e. the error handler class is constructed with ONE argument; what that does is up
     to the class (`hb he None msg`; AbstractErrorHandler raises TypeError, which then reaches the
     same handler again through the fallback).  The correspondence run instantiates `hb` with
     well-behaved handlers and therefore leaves this message type out (it is probed and recorded). *)
From Coq Require Import List Bool NArith Init.Byte.
From HL7 Require Import Lib.Str Model.Result Model.Header Gen.Params.
Import ListNotations.
Open Scope bs_scope.

(* the three MLLP bytes: consts.MLLP_ENCODING_CHARS, regenerated from /repo on every run *)
Definition SB : byte := mllp_sb.
Definition EB : byte := mllp_eb.
Definition MCR : byte := mllp_cr.
Definition end_seq : str := [EB; MCR].

(* ---------- Message.to_mllp: "{0}{1}{2}{3}{2}".format(SB, to_er7(), CR, EB) ---------- *)
Definition to_mllp (er7 : str) : str := [SB] ++ er7 ++ [MCR] ++ [EB] ++ [MCR].

(* ---------- the reader (handle(), first half) ---------- *)

(* line[-2:] == end_seq, with the line kept reversed *)
Definition at_end (rline : str) : bool :=
  match rline with
  | c :: e :: _ => beqb e EB && beqb c MCR
  | _ => false
  end.

(* while line[-2:] != end_seq: char = rfile.read(1); if not char: break; line += char *)
Fixpoint read_loop (rline rest : str) : str :=
  match rest with
  | [] => rev rline
  | c :: r => if at_end rline then rev rline else read_loop (c :: rline) r
  end.

(* line = request.recv(3) returned the first k0 bytes (1 <= k0 <= 3, fewer when the stream is
   shorter); if line[:1] != sb: close.  None = rejected without reading further. *)
Definition read_line (k0 : nat) (stream : str) : option str :=
  let first := take k0 stream in
  if bstarts [SB] first then Some (read_loop (rev first) (drop k0 stream)) else None.

(* The same reader fed with the client's TCP writes (chunks), byte by byte: the first k0 bytes
   belong to the first recv (no end test), every later byte is appended unless the line already
   ends with EB CR (bytes after the end sequence are never looked at). *)
Record rstate := mk_rstate { first_left : nat; rline : str }.
Definition step (st : rstate) (c : byte) : rstate :=
  match first_left st with
  | S k => mk_rstate k (c :: rline st)
  | O => if at_end (rline st) then st else mk_rstate O (c :: rline st)
  end.
Definition feed_chunk (st : rstate) (chunk : str) : rstate := fold_left step chunk st.
Definition feed_chunks (st : rstate) (chunks : list str) : rstate := fold_left feed_chunk chunks st.
Definition read_chunks (k0 : nat) (chunks : list str) : option str :=
  let line := rev (rline (feed_chunks (mk_rstate k0 []) chunks)) in
  if bstarts [SB] line then Some line else None.

(* ---------- line.decode('utf-8') on the model's domain ---------- *)
Definition decodable (line : str) : bool := forallb is_ascii line.
(* bytes that occur in no UTF-8 encoding at all *)
Definition never_utf8 (b : byte) : bool :=
  N.eqb (code b) 192 || N.eqb (code b) 193 || N.leb 245 (code b).

(* ---------- the frame regex  \x0b(([^\r]+\r)*([^\r]+\r?))\x1c\r  used with re.match ---------- *)

Definition is_nil (x : str) : bool := match x with [] => true | _ => false end.

(* group 1 is a non-empty sequence of non-empty CR-free lines, CR-separated, final CR optional:
   parts = b.split('\r'); if parts[-1] == '': parts = parts[:-1]; parts and all(parts) *)
Definition drop_last_empty (parts : list str) : list str :=
  match rev parts with
  | [] :: r => rev r
  | _ => parts
  end.
Definition body_ok (b : str) : bool :=
  match b with
  | [] => false
  | _ => match drop_last_empty (bsplit MCR b) with
         | [] => false
         | parts => forallb (fun x => negb (is_nil x)) parts
         end
  end.

(* greedy with backtracking = the RIGHTMOST position p such that the text before p is a body and
   the text from p on starts with EB CR (for p in range(len(s)-1, 0, -1) in the reading); the
   recursion returns a hit further right in preference to the current position.  `rpre` is the
   text between SB and the current position, reversed. *)
Fixpoint extract_body (rpre rest : str) : option str :=
  match rest with
  | [] => None
  | c :: r =>
      match extract_body (c :: rpre) r with
      | Some b => Some b
      | None => if bstarts end_seq rest && body_ok (rev rpre) then Some (rev rpre) else None
      end
  end.
Definition extract (s : str) : option str :=
  match s with
  | c :: r => if beqb c SB then extract_body [] r else None
  | [] => None
  end.

(* ---------- routing (_route_message) ---------- *)
Section Route.
Variable H : Type.                                  (* handler ids *)
(* the handlers dictionary: message type -> handler; the key "ERR" is the error handler *)
Variable handlers : list (str * H).
(* constructing handler h (with the exception for the error handler) on a payload and calling
   reply(): the text returned, or the exception raised *)
Variable hb : H -> option exn -> str -> result str.

Inductive call :=
  | CallH (key : str) (h : H) (payload : str)       (* handlers[key] constructed with payload *)
  | CallErr (h : H) (e : exn) (payload : str).      (* handlers['ERR'] constructed with (e, payload) *)

Record outcome := mk_outcome {
  calls : list call;          (* handler invocations, in order *)
  reply : option str;         (* bytes written to the client, if any *)
  closed : bool }.            (* the server closed the connection *)

Definition no_handler : outcome := mk_outcome [] None true.

Definition err_key : str := "ERR".

Definition lookup_type (mt : option str) : option (str * H) :=
  match mt with
  | Some k => match slookup k handlers with Some h => Some (k, h) | None => None end
  | None => None                                    (* handlers[None] -> KeyError *)
  end.

(* the inner try block: which handler is constructed (if any) and what comes out of it *)
Definition route_first (msg : str) : list call * result str :=
  match get_message_type msg with
  | Err (HL7 EParserError) => ([], Err (HL7 EInvalidHL7Message))   (* except ParserError *)
  | Err e => ([], Err e)
  | Ok mt =>
      match lookup_type mt with
      | Some (k, h) => ([CallH k h msg], hb h None msg)
      | None => ([], Err (HL7 EUnsupportedMessageType))            (* except KeyError *)
      end
  end.

(* except Exception as e: the ERR handler, or re-raise (handle() then closes the connection) *)
Definition route_fallback (msg : str) (cs : list call) (e : exn) : outcome :=
  match slookup err_key handlers with
  | None => mk_outcome cs None true
  | Some he =>
      let cs' := cs ++ [CallErr he e msg] in
      match hb he (Some e) msg with
      | Ok r => mk_outcome cs' (Some r) true
      | Err _ => mk_outcome cs' None true
      end
  end.

Definition route (msg : str) : outcome :=
  match route_first msg with
  | (cs, Ok r) => mk_outcome cs (Some r) true
  | (cs, Err e) => route_fallback msg cs e
  end.

(* handle(), second half: decode, validate the frame, route, write, close *)
Definition serve_line (line : option str) : outcome :=
  match line with
  | None => no_handler
  | Some l =>
      if decodable l then
        match extract l with
        | Some msg => route msg
        | None => no_handler
        end
      else no_handler                               (* UnicodeDecodeError: connection closed *)
  end.

(* one connection: the client's writes `chunks`, first recv of size k0 *)
Definition serve (k0 : nat) (chunks : list str) : outcome := serve_line (read_chunks k0 chunks).
(* ... and as a function of the byte stream (the reading) *)
Definition serve_stream (k0 : nat) (stream : str) : outcome := serve_line (read_line k0 stream).

End Route.

Arguments CallH {H}. Arguments CallErr {H}.
Arguments mk_outcome {H}. Arguments calls {H}. Arguments reply {H}. Arguments closed {H}.
Arguments no_handler {H}. Arguments lookup_type {H}. Arguments route {H}.
Arguments route_first {H}. Arguments route_fallback {H}.
Arguments serve_line {H}. Arguments serve {H}. Arguments serve_stream {H}.

(* ---------- hypotheses of the theorems, as decidable predicates ---------- *)

(* EB directly followed by CR somewhere in s *)
Fixpoint has_end_seq (s : str) : bool :=
  match s with
  | e :: ((c :: _) as r) => (beqb e EB && beqb c MCR) || has_end_seq r
  | _ => false
  end.

(* p.split('\r') has no empty element: p is a non-empty sequence of non-empty lines separated by
   single CRs, without leading or trailing CR (what to_er7() of a message produces) *)
Definition payload_ok (p : str) : bool := forallb (fun x => negb (is_nil x)) (bsplit MCR p).
