(* Immutable element trees and the element constructors that the parser reaches
   (core.py: SubComponent/Component/Field/Segment __init__, CanBeVaries.__init__,
   SupportComplexDataType._set_datatype on a childless element).  Definitions only. *)
From Coq Require Import List Bool ZArith NArith Init.Byte.
From HL7 Require Import Lib.Str Model.Result Model.Ref.
Import ListNotations.
Open Scope bs_scope.
Open Scope res_scope.

Inductive level := STRICT | TOLERANT.
Definition is_strict (l : level) : bool := match l with STRICT => true | TOLERANT => false end.

(* ---------- name predicates (core.py:93-117) ---------- *)

(* s.rsplit('_', 1) when s contains '_' : (before the last '_', after it) *)
Fixpoint rsplit_us_aux (s : str) (acc : str) : option (str * str) :=
  (* scanning the REVERSED string: acc collects the suffix *)
  match s with
  | [] => None
  | c :: r => if beqb c "_" then Some (rev r, acc) else rsplit_us_aux r (c :: acc)
  end.
Definition rsplit_us (s : str) : option (str * str) := rsplit_us_aux (rev s) [].

(* int(x) succeeds, ASCII domain: optional blanks, optional sign, digits (no '_' can occur here) *)
Definition py_int_ok (x : str) : bool :=
  match strip x with
  | c :: r => if beqb c "+" || beqb c "-" then all_digits r else all_digits (c :: r)
  | [] => false
  end.
Definition py_int_val (x : str) : N :=   (* value for non-negative inputs accepted by py_int_ok *)
  match strip x with
  | c :: r => if beqb c "+" || beqb c "-" then digits_val r else digits_val (c :: r)
  | [] => 0%N
  end.

Definition str_of_opt (o : option str) : str := match o with Some s => s | None => "None" end.

(* int(x) >= 1 and str(int(x)) == x, ASCII domain: a non-empty string of digits without a leading zero
   (positions start at 1 and are written plainly: "0", "-1", "+1", "07", " 1" name no position) *)
Definition plain_index (x : str) : bool :=
  match x with
  | c :: _ => negb (beqb c "0") && forallb is_digit x
  | [] => false
  end.

(* _valid_child_name(child_name, expected_parent) *)
Definition valid_child_name (child : option str) (expected : option str) : bool :=
  match child with
  | None => false
  | Some c =>
      match rsplit_us c with
      | None => false
      | Some (parent, idx) => plain_index idx && streqb (upper parent) (upper (str_of_opt expected))
      end
  end.

Definition valid_z_segment_name (n : str) : bool :=
  match upper n with c :: _ => beqb c "Z" && Nat.eqb (length n) 3 | [] => false end.

(* re.match(r'^z[a-z1-9]{2}_\d+$', name, re.IGNORECASE), ASCII domain ($ accepts one final newline) *)
Definition az19 (b : byte) : bool := is_alpha b || between 49 57 b.
Fixpoint digits_then_end (s : str) : bool :=
  match s with
  | [] => true
  | [c] => is_digit c || beqb c x0a
  | c :: r => is_digit c && digits_then_end r
  end.
Definition valid_z_field_name (n : str) : bool :=
  match n with
  | z :: a :: b :: u :: d :: r =>
      (beqb z "z" || beqb z "Z") && az19 a && az19 b && beqb u "_" && is_digit d && digits_then_end r
  | _ => false
  end.

(* ---------- trees ---------- *)

Record sub := mk_sub {
  sc_name : option str; sc_dt : option str;
  sc_value : str;                 (* the text handed to the datatype factory ('' = no value) *)
  sc_enc : str                    (* to_er7 of the stored datatype object under the element's encoding chars *)
}.
Record comp := mk_comp { c_name : option str; c_dt : option str; c_st : option structure; c_children : list sub }.
Record field := mk_field_rec { f_name : option str; f_dt : option str; f_st : option structure;
                               f_children : list comp }.
Record seg := mk_seg { s_name : str; s_st : structure; s_inf : bool; s_last_allowed : N; s_last : N;
                       s_children : list field }.

Definition opt_eqb (a b : option str) : bool :=
  match a, b with Some x, Some y => streqb x y | None, None => true | _, _ => false end.
Definition sub_unknown (s : sub) : bool := opt_eqb (sc_name s) (sc_dt s).
Definition comp_unknown (c : comp) : bool := opt_eqb (c_name c) (c_dt c).

Definition varies_leaf : sref := SLeaf (mk_info (Some (unbs "varies")) None None (-1)).
Definition leaf_of (dt : str) : sref := SLeaf (mk_info (Some dt) None None (-1)).
Definition empty_seq : sref := SSeqIn false [] None.

Definition st_dt (s : option structure) : option str :=
  match s with Some st => match st_info st with Some i => i_dt i | None => None end | None => None end.

Definition rt_info := ref_info.

Section Ctor.
Variable t : tables.
Variable lvl : level.

Definition base (dt : option str) : bool := is_base_datatype t dt.
Definition is_varies (dt : option str) : bool := opt_eqb dt (Some (unbs "varies")).

(* ElementFinder.get_structure for a named element without a given reference *)
Definition structure_for (k : kind) (name : str) (reference : option sref) : result structure :=
  match reference with
  | Some r => parse_structure t r
  | None => match load_reference t k name with
            | Ok r => parse_structure t r
            | Err _ => Err (HL7 EInvalidName)
            end
  end.

(* SupportComplexDataType._set_datatype / SubComponent._set_datatype on an element that has no
   children yet (the constructor path).  Returns the new datatype and possibly a new structure. *)
Definition set_datatype_ctor (is_sub : bool) (old : option str) (old_st : option structure)
           (new : option str) : result (option str * option structure) :=
  if is_sub then
    if (match new with Some n => negb (base new) && negb (match n with [] => true | _ => false end) | None => false end)
    then Err (HL7 EOperationNotAllowed)
    else if is_strict lvl && (match old with Some _ => true | None => false end) && negb (opt_eqb new old)
    then Err (HL7 EOperationNotAllowed)
    else Ok (new, old_st)
  else
    if is_strict lvl && (match old with Some o => negb (match o with [] => true | _ => false end) | None => false end)
       && negb (opt_eqb new old)
    then Err (HL7 EOperationNotAllowed)
    else
      (* structure is rebuilt only when a complex datatype replaces a different existing one:
         new_ref = list(self.reference); new_ref[1] = struct; new_ref[2] = datatype -- the content
         type (new_ref[0]) is kept, so a leaf-shaped reference stays leaf-shaped *)
      if negb (base new) && negb (is_varies new) && (match new with Some _ => true | None => false end)
         && negb (opt_eqb new old) && (match old with Some _ => true | None => false end)
      then
        match new, old_st with
        | Some n, Some st =>
            if has_struct t n then
                match st_reference st with
                | SLeaf i =>
                    do st' <- parse_structure t (SLeaf (mk_info new (i_long i) (i_table i) (i_maxlen i)));
                    Ok (new, Some st')
                | SSeqDt i | SSeqIn false _ (Some i) =>
                    do st' <- parse_structure t (SSeqDt (mk_info new (i_long i) (i_table i) (i_maxlen i)));
                    Ok (new, Some st')
                | SSeqIn true _ (Some i) =>
                    match slookup n (t_structs t) with
                    | Some rows =>
                        do st' <- parse_structure t (SSeqIn true rows (Some (mk_info new (i_long i) (i_table i) (i_maxlen i))));
                        Ok (new, Some st')
                    | None => Err (HL7 EChildNotFound)
                    end
                | _ => Err (Crash IndexError)
                end
            else Err (HL7 EChildNotFound)
        | _, _ => Err (Crash AttributeError)
        end
      else Ok (new, old_st).

(* CanBeVaries.__init__ for SubComponent (is_sub) and Component.  Returns (name, datatype, structure). *)
Definition canbevaries (is_sub : bool) (name : option str) (datatype : option str) (reference : option sref)
  : result (option str * option str * option structure) :=
  let reference := if is_varies datatype && (match reference with None => true | _ => false end)
                   then Some varies_leaf else reference in
  let ref_dt_differs :=
      match reference with
      | None => true
      | Some r => match rt_info r with Some i => negb (opt_eqb (i_dt i) datatype) | None => true end
      end in
  do reference <-
     (if negb (is_strict lvl) && (match datatype with Some _ => true | None => false end)
         && negb (is_varies datatype) && negb (base datatype) && ref_dt_differs
      then
        match datatype with
        | Some d =>
            if negb (has_struct t d) then Err (HL7 EChildNotFound) else
                match name with
                | Some n =>
                    match load_reference t CMP n with
                    | Err _ => Err (HL7 EChildNotFound)
                    | Ok orig =>
                        match rt_info orig with
                        | Some i => Ok (Some (SSeqDt (mk_info datatype (i_long i) (i_table i) (i_maxlen i))))
                        | None => Err (Crash IndexError)
                        end
                    end
                | None => Ok (Some (SSeqDt (mk_info datatype None None (-1))))
                end
        | None => Ok reference
        end
      else Ok reference);
  let is_var_name := valid_child_name name (Some (unbs "VARIES")) in
  do '(nm, st) <-
     (if is_var_name then
        (* Element.__init__(None, ..., reference): CanBeVaries._find_structure runs when reference is given *)
        match reference with
        | Some r => do s <- parse_structure t r; Ok (option_map upper name, Some s)
        | None => Ok (option_map upper name, None)
        end
      else
        match name, reference with
        | None, None => Ok (None, None)
        | Some n, _ =>
            match structure_for CMP (upper n) reference with
            | Ok s => Ok (Some (upper n), Some s)
            | Err e => Err e      (* InvalidName (lookup failed) *)
            end
        | None, Some r => do s <- parse_structure t r; Ok (None, Some s)
        end);
  let dt0 := st_dt st in
  (* _find_structure assigns the reference's datatype through the property setter: a SubComponent
     refuses a complex one *)
  if is_sub && (match dt0 with Some (_ :: _) => negb (base dt0) | _ => false end)
  then Err (HL7 EOperationNotAllowed) else
  if (match nm with Some n => negb (bstarts "VARIES" n) && negb (match n with [] => true | _ => false end) | None => false end)
     && (match dt0 with None => true | Some _ => false end)
  then Err (HL7 EInvalidName)
  else
    match nm with
    | Some (_ :: _) =>
        if is_strict lvl && (match datatype, dt0 with Some _, Some _ => true | _, _ => false end)
           && negb (opt_eqb datatype dt0)
        then Err (HL7 EOperationNotAllowed)
        else match datatype with
             | Some _ => do '(dt, st') <- set_datatype_ctor is_sub dt0 st datatype; Ok (nm, dt, st')
             | None => Ok (nm, dt0, st)
             end
    | _ =>
        (* unnamed: self.datatype = datatype ; self.name = self.datatype *)
        do '(dt, st') <- set_datatype_ctor is_sub dt0 st datatype;
        Ok (dt, dt, st')
    end.


(* ---------- constructors ---------- *)

(* the encoded text of a leaf: to_er7 of datatype_factory(dt, text, version, level) under the
   element's encoding characters; supplied by Model/Leaf.v *)
Variable leaf_enc : option str -> str -> result str.

(* SubComponent(name, datatype, value, reference=...) *)
Definition mk_subcomponent (name datatype : option str) (value : str) (reference : option sref) : result sub :=
  if (match name with Some (_ :: _) => false | _ => true end) && (match datatype with None => true | _ => false end)
  then Err (HL7 EOperationNotAllowed) else
  do '(nm, dt, _) <- canbevaries true name datatype reference;
  let dt := if valid_child_name name (Some (unbs "VARIES")) && (match dt with None => true | _ => false end)
            then Some (unbs "ST") else dt in
  match value with
  | [] => Ok (mk_sub nm dt [] [])
  | _ => do e <- leaf_enc dt value; Ok (mk_sub nm dt value e)
  end.

(* Component(name, datatype, reference=...) *)
Definition mk_component (name datatype : option str) (reference : option sref) : result comp :=
  do '(nm, dt, st) <- canbevaries false name datatype reference;
  if opt_eqb nm dt && is_strict lvl && negb (base dt) && negb (is_varies dt)
  then Err (HL7 EOperationNotAllowed)
  else Ok (mk_comp nm dt st []).

(* Field(name, datatype, reference=...) *)
Definition mk_field (name datatype : option str) (reference : option sref) : result field :=
  if (match name with None => true | _ => false end) && is_strict lvl && negb (is_varies datatype)
  then Err (HL7 EOperationNotAllowed) else
  let reference := if is_varies datatype && (match reference with None => true | _ => false end)
                   then Some varies_leaf else reference in
  match name with
  | None =>
      (* Element._find_structure does nothing for an unnamed element; the reference is ignored *)
      do '(dt, _) <- set_datatype_ctor false None None datatype;
      Ok (mk_field_rec None dt None [])
  | Some n0 =>
      let n := upper n0 in
      do '(st, datatype) <-
         (match structure_for FIE n reference with
          | Ok st => Ok (st, datatype)
          | Err (HL7 EInvalidName) =>
              if valid_z_field_name n0 then
                let d := match datatype with Some (_ :: _) => datatype | _ => Some (unbs "ST") end in
                if base d then
                  do st <- parse_structure t (SLeaf (mk_info d None None (-1))); Ok (st, d)
                else
                  match d with
                  | Some dn =>
                      if has_struct t dn
                      then do st <- parse_structure t (SSeqDt (mk_info d None None (-1))); Ok (st, d)
                      else Err (HL7 EChildNotFound)
                  | None => Err (Crash TypeError)
                  end
              else Err (HL7 EInvalidName)
          | Err e => Err e
          end);
      let dt0 := st_dt (Some st) in
      if (match datatype with Some _ => true | None => false end) && is_strict lvl
         && negb (is_varies datatype) && negb (opt_eqb datatype dt0)
      then Err (HL7 EOperationNotAllowed)
      else match datatype with
           | Some _ => do '(dt, st') <- set_datatype_ctor false dt0 (Some st) datatype;
                       Ok (mk_field_rec (Some n) dt st' [])
           | None => Ok (mk_field_rec (Some n) dt0 (Some st) [])
           end
  end.

(* Segment(name, reference=...) *)
Definition last_opt {A} (l : list A) : option A := match rev l with x :: _ => Some x | [] => None end.

Definition mk_segment (name : str) (reference : option sref) : result seg :=
  let nm := upper name in
  if valid_z_segment_name name then
    do st <- parse_structure t (match reference with Some r => r | None => empty_seq end);
    Ok (mk_seg nm st true 0 0 [])
  else
    do st <- structure_for SEG nm reference;
    match st_ordered st with
    | Some ord =>
        match last_opt ord with
        | Some lastk =>
            match by_name st lastk with
            | Some e =>
                let idx := drop 4 (se_name e) in
                if py_int_ok idx then
                  let inf := match rt_info (se_ref e) with
                             | Some i => opt_eqb (i_dt i) (Some (unbs "varies"))
                             | None => false   (* ref[2] of a 2-tuple: IndexError; not reachable for field rows *)
                             end in
                  Ok (mk_seg nm st inf (py_int_val idx) (py_int_val idx) [])
                else Err PyValueError
            | None => Err (Crash KeyError)
            end
        | None => Ok (mk_seg nm st false 0 0 [])
        end
    | None => Ok (mk_seg nm st false 0 0 [])     (* leaf-shaped reference: ordered_children is None *)
    end.

End Ctor.
