(* Encoding characters, escape parameters and base-datatype kinds: the types the generated
   Params.v is written against. *)
From Coq Require Import List Bool NArith ZArith Init.Byte.
From HL7 Require Import Lib.Str.
Import ListNotations.

(* hl7apy's encoding_chars dict.  SEGMENT and GROUP are always CR (checked by an obligation on
   the generated defaults; _split_msh hard-codes them). *)
Record ec := mk_ec { fsep : byte; csep : byte; rsep : byte; esc : byte; ssep : byte; tsep : option byte }.

Inductive sel := FIELD | COMPONENT | SUBCOMPONENT | REPETITION | TRUNCATION | ESCAPE.

Definition ec_get (e : ec) (s : sel) : option byte :=
  match s with
  | FIELD => Some (fsep e) | COMPONENT => Some (csep e) | SUBCOMPONENT => Some (ssep e)
  | REPETITION => Some (rsep e) | ESCAPE => Some (esc e) | TRUNCATION => tsep e
  end.

Definition ec_eqb (a b : ec) : bool :=
  beqb (fsep a) (fsep b) && beqb (csep a) (csep b) && beqb (rsep a) (rsep b) &&
  beqb (esc a) (esc b) && beqb (ssep a) (ssep b) &&
  match tsep a, tsep b with Some x, Some y => beqb x y | None, None => true | _, _ => false end.

(* the five required characters, in check_encoding_chars' sense *)
Definition ec_required (e : ec) : list byte := [fsep e; csep e; ssep e; rsep e; esc e].
Definition ec_all (e : ec) : list byte :=
  ec_required e ++ match tsep e with Some t => [t] | None => [] end.
(* the characters escaping must remove: every delimiter except the escape character *)
Definition ec_delims (e : ec) : list byte :=
  [fsep e; csep e; ssep e; rsep e] ++ match tsep e with Some t => [t] | None => [] end.

(* Escape behaviour of one family of textual datatype classes (generated). *)
Record esc_params := mk_esc_params {
  trans_with_trunc : list (sel * byte);   (* _get_translations when TRUNCATION is in the dict *)
  trans_without_trunc : list (sel * byte);
  letters_behind : str;                   (* letter class of the regex look-behind *)
  letters_ahead : str;                    (* letter class of the regex look-ahead *)
  esc_letter : byte;                      (* the letter a lone escape character is wrapped with *)
  esc_shape_ok : bool
}.

Inductive dtkind :=
  | KTextual (family : nat) | KTN (family : nat)
  | KNM | KSI | KDT | KTM | KDTM | KOtherDt.
