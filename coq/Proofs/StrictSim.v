(* C05, parse level: whatever the parser accepts under STRICT it accepts under TOLERANT, with the
   IDENTICAL tree (the trees carry no validation level), for every text, table, delimiter set and
   reference.  Each `is_strict` / `negb is_strict` branch of Model/Tree.v and Model/Parser.v is
   shown to be either "STRICT only raises" or "the TOLERANT-only branch is not taken / gives the
   same value on inputs STRICT accepts":
   - CanBeVaries.__init__'s TOLERANT-only reconstruction of the reference needs a COMPLEX datatype
     argument; the parser only passes None or a base datatype (`dt_simple`).  Without that side
     condition the constructor-level statement is false (see canbevaries_subset_refuted in
     Properties/C05.v);
   - the TOLERANT-only datatype reset of a base-typed element with more than one child is not
     reached, because STRICT refuses the second child (MaxChildLimitReached) - provided the
     element's name is not the empty string and '' is not a base datatype;
   - everything else under STRICT is a refusal. *)
From Coq Require Import List Bool Arith ZArith NArith Lia Init.Byte.
From HL7 Require Import Lib.Str Model.Ec Model.Result Model.Ref Model.Tree Model.Parser Model.Encode.
From HL7 Require Import Proofs.NoDrop Proofs.StrictSubset.
Import ListNotations.
Open Scope bs_scope.
Open Scope res_scope.

Section Sim.
Variable t : tables.
Notation base := (base t).

Definition dt_simple (dt : option str) : Prop := dt = None \/ base dt = true.

(* ---------- _parse_structure never raises one of the library's exceptions ---------- *)
Lemma parse_children_not_hl7 cs : forall seen ord byn byl reps c,
  parse_children cs seen ord byn byl reps <> Err (HL7 c).
Proof.
  induction cs as [|[[name r mn mx k]|] rest IH]; intros seen ord byn byl reps c; cbn [parse_children];
    try discriminate. apply IH.
Qed.
Lemma parse_structure_not_hl7 r c : parse_structure t r <> Err (HL7 c).
Proof.
  unfold parse_structure. destruct (view_of t r) as [i|ch cs i|]; try discriminate.
  destruct (parse_children cs [] [] [] [] []) as [[[[? ?] ?] ?]|x] eqn:E; [discriminate|].
  intros H. injection H as ->. exact (parse_children_not_hl7 _ _ _ _ _ _ _ E).
Qed.

(* ---------- _set_datatype: STRICT only refuses ---------- *)
Lemma set_datatype_ctor_subset is_sub old ost new x :
  set_datatype_ctor t STRICT is_sub old ost new = Ok x -> set_datatype_ctor t TOLERANT is_sub old ost new = Ok x.
Proof.
  unfold set_datatype_ctor. cbn [is_strict andb]. destruct is_sub.
  - destruct (match new with Some n => _ | None => false end); [discriminate|].
    destruct (_ && _); [discriminate|auto].
  - destruct (_ && _); [discriminate|auto].
Qed.

(* ---------- CanBeVaries.__init__ ---------- *)
Lemma canbevaries_subset is_sub name datatype reference x : dt_simple datatype ->
  canbevaries t STRICT is_sub name datatype reference = Ok x ->
  canbevaries t TOLERANT is_sub name datatype reference = Ok x.
Proof.
  intros Hd. unfold canbevaries.
  set (reference' := if is_varies datatype && _ then Some varies_leaf else reference). clearbody reference'.
  assert (C : forall y, negb (is_strict TOLERANT) && (match datatype with Some _ => true | None => false end)
                 && negb (is_varies datatype) && negb (base datatype) && y = false).
  { intros y. destruct Hd as [-> | Hb]; [now rewrite andb_false_r|]. rewrite Hb. cbn [negb]. now rewrite andb_false_r. }
  rewrite C. clear C. cbn [is_strict negb andb bind].
  match goal with |- bind ?X _ = _ -> _ => destruct X as [[nm st]|err] end; cbn [bind]; [|auto].
  destruct (is_sub && _); [auto|].
  match goal with |- (if ?b then _ else _) = _ -> _ => destruct b; [auto|] end.
  destruct nm as [[|c n]|].
  - destruct (set_datatype_ctor t STRICT is_sub (st_dt st) st datatype) as [p|] eqn:E; cbn [bind]; [|discriminate].
    rewrite (set_datatype_ctor_subset _ _ _ _ _ E). auto.
  - match goal with |- (if ?b then _ else _) = _ -> _ => destruct b; [discriminate|] end.
    destruct datatype as [d|]; [|auto].
    destruct (set_datatype_ctor t STRICT is_sub (st_dt st) st (Some d)) as [p|] eqn:E; cbn [bind]; [|discriminate].
    rewrite (set_datatype_ctor_subset _ _ _ _ _ E). auto.
  - destruct (set_datatype_ctor t STRICT is_sub (st_dt st) st datatype) as [p|] eqn:E; cbn [bind]; [|discriminate].
    rewrite (set_datatype_ctor_subset _ _ _ _ _ E). auto.
Qed.

(* the name of an element built by CanBeVaries.__init__ is a non-empty string, or the datatype *)
Lemma canbevaries_name lvl is_sub name datatype reference nm dt st :
  canbevaries t lvl is_sub name datatype reference = Ok (nm, dt, st) ->
  nonempty_name nm = true \/ nm = dt.
Proof.
  unfold canbevaries.
  match goal with |- bind ?X _ = _ -> _ => destruct X as [r|err] end; cbn [bind]; [|discriminate].
  match goal with |- bind ?X _ = _ -> _ => destruct X as [[nm0 st0]|err] end; cbn [bind]; [|discriminate].
  destruct (is_sub && _); [discriminate|].
  match goal with |- (if ?b then _ else _) = _ -> _ => destruct b; [discriminate|] end.
  destruct nm0 as [[|c n]|].
  - destruct (set_datatype_ctor _ _ _ _ _ _) as [[d s]|]; cbn [bind]; [|discriminate].
    intros H. injection H as <- <- <-. now right.
  - match goal with |- (if ?b then _ else _) = _ -> _ => destruct b; [discriminate|] end.
    destruct datatype as [d|].
    + destruct (set_datatype_ctor _ _ _ _ _ _) as [[d' s]|]; cbn [bind]; [|discriminate].
      intros H. injection H as <- <- <-. now left.
    + intros H. injection H as <- <- <-. now left.
  - destruct (set_datatype_ctor _ _ _ _ _ _) as [[d s]|]; cbn [bind]; [|discriminate].
    intros H. injection H as <- <- <-. now right.
Qed.

Section Leaves.
Variable e : ec.
Variables leafS leafT : option str -> str -> result str.
Hypothesis Hleaf : forall dt x y, leafS dt x = Ok y -> leafT dt x = Ok y.
Hypothesis Hst : base (Some (unbs "ST")) = true.
Hypothesis Hnb : base (Some []) = false.

Lemma dt_simple_none : dt_simple None.
Proof. now left. Qed.
Lemma dt_simple_ST : dt_simple (Some (unbs "ST")).
Proof. now right. Qed.

(* ---------- constructors ---------- *)
Lemma mk_subcomponent_subset name datatype value reference x : dt_simple datatype ->
  mk_subcomponent t STRICT leafS name datatype value reference = Ok x ->
  mk_subcomponent t TOLERANT leafT name datatype value reference = Ok x.
Proof.
  intros Hd. unfold mk_subcomponent. destruct (_ && _); [discriminate|].
  destruct (canbevaries t STRICT true name datatype reference) as [[[nm dt] st]|] eqn:E; cbn [bind]; [|discriminate].
  rewrite (canbevaries_subset _ _ _ _ _ Hd E). cbn [bind].
  destruct value as [|c v]; [auto|].
  match goal with |- bind (leafS ?d ?v) _ = _ -> _ => destruct (leafS d v) as [y|] eqn:L end; cbn [bind]; [|discriminate].
  rewrite (Hleaf _ _ _ L). auto.
Qed.

Lemma mk_component_subset name datatype reference x : dt_simple datatype ->
  mk_component t STRICT name datatype reference = Ok x ->
  mk_component t TOLERANT name datatype reference = Ok x.
Proof.
  intros Hd. unfold mk_component.
  destruct (canbevaries t STRICT false name datatype reference) as [[[nm dt] st]|] eqn:E; cbn [bind]; [|discriminate].
  rewrite (canbevaries_subset _ _ _ _ _ Hd E). cbn [bind is_strict].
  destruct (opt_eqb nm dt && true && _ && _); [discriminate|].
  rewrite andb_false_r. auto.
Qed.

Lemma mk_component_name lvl name datatype reference c :
  mk_component t lvl name datatype reference = Ok c ->
  nonempty_name (c_name c) = true \/ c_name c = c_dt c.
Proof.
  unfold mk_component.
  destruct (canbevaries t lvl false name datatype reference) as [[[nm dt] st]|] eqn:E; cbn [bind]; [|discriminate].
  destruct (_ && _ && _ && _); [discriminate|]. intros H. injection H as <-. cbn.
  exact (canbevaries_name _ _ _ _ _ _ _ _ E).
Qed.

Lemma base_name_nonempty nm dt : nonempty_name nm = true \/ nm = dt -> base dt = true -> nonempty_name nm = true.
Proof.
  intros [H | ->] Hb; [exact H|]. destruct dt as [[|c d]|]; [discriminate (eq_trans (eq_sym Hb) Hnb)|reflexivity|discriminate].
Qed.

(* Field(name, reference=...) as the parser calls it (no datatype argument) *)
Lemma mk_field_subset name reference f :
  mk_field t STRICT name None reference = Ok f -> mk_field t TOLERANT name None reference = Ok f.
Proof.
  unfold mk_field. cbn [is_strict andb]. change (is_varies None) with false. cbn [negb andb].
  destruct name as [n0|]; [|discriminate]. cbn [andb].
  match goal with |- bind ?X _ = _ -> _ => destruct X as [[st dt]|err] end; cbn [bind]; [|auto].
  destruct dt as [d|]; [|auto]. cbn [andb].
  match goal with |- (if ?b then _ else _) = _ -> _ => destruct b; [discriminate|] end.
  destruct (set_datatype_ctor t STRICT false (st_dt (Some st)) (Some st) (Some d)) as [p|] eqn:E; cbn [bind]; [|discriminate].
  rewrite (set_datatype_ctor_subset _ _ _ _ _ E). auto.
Qed.

Lemma set_datatype_ctor_not_invalid lvl is_sub old ost new :
  set_datatype_ctor t lvl is_sub old ost new <> Err (HL7 EInvalidName).
Proof.
  unfold set_datatype_ctor.
  repeat match goal with
         | |- (if ?b then _ else _) <> _ => destruct b
         | |- (match ?o with Some _ => _ | None => _ end) <> _ => destruct o
         | |- (match ?o with SLeaf _ => _ | _ => _ end) <> _ => destruct o
         | |- bind (parse_structure t ?r) _ <> _ =>
             let E := fresh in destruct (parse_structure t r) as [?|[?| |?|]] eqn:E; cbn [bind];
             [| exfalso; exact (parse_structure_not_hl7 _ _ E) | | |]
         end; discriminate.
Qed.

Lemma mk_field_invalid name reference :
  mk_field t STRICT name None reference = Err (HL7 EInvalidName) ->
  mk_field t TOLERANT name None reference = Err (HL7 EInvalidName).
Proof.
  unfold mk_field. cbn [is_strict andb]. change (is_varies None) with false. cbn [negb andb].
  destruct name as [n0|]; [|discriminate]. cbn [andb].
  match goal with |- bind ?X _ = _ -> _ => destruct X as [[st dt]|err] end; cbn [bind]; [|auto].
  destruct dt as [d|]; [|discriminate]. cbn [andb].
  match goal with |- (if ?b then _ else _) = _ -> _ => destruct b; [discriminate|] end.
  destruct (set_datatype_ctor t STRICT false (st_dt (Some st)) (Some st) (Some d)) as [p|x] eqn:E; cbn [bind]; [destruct p; discriminate|].
  intros H. injection H as ->. exfalso. exact (set_datatype_ctor_not_invalid _ _ _ _ _ E).
Qed.

Lemma mk_field_name lvl n0 reference f : mk_field t lvl (Some n0) None reference = Ok f -> f_name f = Some (upper n0).
Proof.
  unfold mk_field. destruct (_ && _ && _); [discriminate|].
  match goal with |- bind ?X _ = _ -> _ => destruct X as [[st dt]|err] end; cbn [bind]; [|discriminate].
  destruct (_ && _ && _ && _); [discriminate|].
  destruct dt as [d|].
  - destruct (set_datatype_ctor _ _ _ _ _ _) as [[d' s]|]; cbn [bind]; [|discriminate]. intros H. now injection H as <-.
  - intros H. now injection H as <-.
Qed.

(* ---------- a base-typed element takes one child, under STRICT and TOLERANT alike ---------- *)
Lemma add_subs_base_limit lvl kids : forall c c', add_subs t lvl c kids = Ok c' ->
  nonempty_name (c_name c) = true -> base (c_dt c) = true -> length (c_children c) <= 1 ->
  length (c_children c) + length kids <= 1.
Proof.
  induction kids as [|k rest IH]; intros c c' H Hn Hb Hl; cbn [add_subs] in H; [cbn [length]; lia|].
  rewrite Hn, Hb in H. cbn [andb] in H.
  destruct (Nat.leb 1 (length (c_children c))) eqn:L; [discriminate|]. apply Nat.leb_gt in L.
  destruct (_ && _ && _) in H; [discriminate|].
  destruct (valid_child_complex _ _ _ _ _ _ _) as [v|] in H; cbn [bind] in H; [|discriminate].
  destruct (negb v) in H; [discriminate|]. destruct (negb _) in H; [discriminate|].
  apply IH in H; cbn [c_name c_dt c_children] in *; auto; rewrite ?app_length in *; cbn [length] in *; lia.
Qed.

Lemma add_comps_base_limit lvl kids : forall f f', add_comps t lvl f kids = Ok f' ->
  nonempty_name (f_name f) = true -> base (f_dt f) = true -> length (f_children f) <= 1 ->
  length (f_children f) + length kids <= 1.
Proof.
  induction kids as [|k rest IH]; intros f f' H Hn Hb Hl; cbn [add_comps] in H; [cbn [length]; lia|].
  rewrite Hn, Hb in H. cbn [andb] in H.
  destruct (Nat.leb 1 (length (f_children f))) eqn:L; [discriminate|]. apply Nat.leb_gt in L.
  destruct (valid_child_complex _ _ _ _ _ _ _) as [v|] in H; cbn [bind] in H; [|discriminate].
  destruct (negb v) in H; [discriminate|]. destruct (negb _) in H; [discriminate|].
  apply IH in H; cbn [f_name f_dt f_children] in *; auto; rewrite ?app_length in *; cbn [length] in *; lia.
Qed.

(* ---------- parse_subcomponents / parse_component ---------- *)
Lemma parse_subcomponents_aux_subset cdt st l : forall xs,
  parse_subcomponents_aux t STRICT leafS cdt st l = Ok xs ->
  parse_subcomponents_aux t TOLERANT leafT cdt st l = Ok xs.
Proof.
  induction l as [|[i s] rest IH]; intros xs; cbn [parse_subcomponents_aux]; [auto|].
  assert (K : forall nm dt ref, dt_simple dt ->
    (if materialise s nm
     then do x <- mk_subcomponent t STRICT leafS nm dt s ref;
          do xs <- parse_subcomponents_aux t STRICT leafS cdt st rest; Ok (x :: xs)
     else parse_subcomponents_aux t STRICT leafS cdt st rest) = Ok xs ->
    (if materialise s nm
     then do x <- mk_subcomponent t TOLERANT leafT nm dt s ref;
          do xs <- parse_subcomponents_aux t TOLERANT leafT cdt st rest; Ok (x :: xs)
     else parse_subcomponents_aux t TOLERANT leafT cdt st rest) = Ok xs).
  { intros nm dt ref Hd. destruct (materialise s nm); [|apply IH].
    destruct (mk_subcomponent t STRICT leafS nm dt s ref) as [x|] eqn:E; cbn [bind]; [|discriminate].
    rewrite (mk_subcomponent_subset _ _ _ _ _ Hd E). cbn [bind].
    destruct (parse_subcomponents_aux t STRICT leafS cdt st rest) as [ys|]; cbn [bind]; [|discriminate].
    rewrite (IH ys eq_refl). auto. }
  destruct (base cdt || opt_is_none cdt) eqn:C; cbn beta iota.
  - apply K. destruct cdt as [d|]; [|apply dt_simple_ST].
    right. cbn [opt_is_none] in C. now rewrite orb_false_r in C.
  - destruct (has_map st); cbn beta iota.
    + destruct (ref_in st (name_idx (str_of_opt cdt) i)) as [r|]; cbn beta iota; apply K;
        [apply dt_simple_none|apply dt_simple_ST].
    + apply K. apply dt_simple_none.
Qed.

Lemma parse_component_subset text name datatype reference c : dt_simple datatype ->
  parse_component t STRICT e leafS text name datatype reference = Ok c ->
  parse_component t TOLERANT e leafT text name datatype reference = Ok c.
Proof.
  intros Hd. unfold parse_component. cbn [is_strict negb andb].
  destruct (mk_component t STRICT name datatype reference) as [c0|[[]| |k|]] eqn:E; cbn [bind]; try discriminate.
  rewrite (mk_component_subset _ _ _ _ Hd E). cbn [bind]. unfold parse_subcomponents.
  destruct (parse_subcomponents_aux t STRICT leafS (c_dt c0) (c_st c0) _) as [kids|] eqn:K; cbn [bind]; [|discriminate].
  rewrite (parse_subcomponents_aux_subset _ _ _ _ K). cbn [bind]. intros H.
  (* the TOLERANT-only reset of the datatype is not taken: STRICT refused a second child *)
  assert (R : base (c_dt c0) && Nat.ltb 1 (length kids) = false).
  { destruct (base (c_dt c0)) eqn:B; [|reflexivity]. cbn [andb]. apply Nat.ltb_ge.
    pose proof (mk_component_no_children t STRICT _ _ _ _ E) as Hc.
    pose proof (add_subs_base_limit STRICT kids c0 c H) as L. rewrite Hc in L. cbn [length] in L.
    apply L; auto. exact (base_name_nonempty _ _ (mk_component_name _ _ _ _ _ E) B). }
  rewrite R. now apply add_subs_subset.
Qed.

(* ---------- parse_components / parse_field ---------- *)
Lemma parse_components_aux_subset fdt st l : forall xs,
  parse_components_aux t STRICT e leafS fdt st l = Ok xs ->
  parse_components_aux t TOLERANT e leafT fdt st l = Ok xs.
Proof.
  induction l as [|[i s] rest IH]; intros xs; cbn [parse_components_aux]; [auto|].
  assert (K : forall nm cdt ref (b : bool), dt_simple cdt ->
    (if b
     then do x <- parse_component t STRICT e leafS s nm cdt ref;
          do xs <- parse_components_aux t STRICT e leafS fdt st rest; Ok (x :: xs)
     else parse_components_aux t STRICT e leafS fdt st rest) = Ok xs ->
    (if b
     then do x <- parse_component t TOLERANT e leafT s nm cdt ref;
          do xs <- parse_components_aux t TOLERANT e leafT fdt st rest; Ok (x :: xs)
     else parse_components_aux t TOLERANT e leafT fdt st rest) = Ok xs).
  { intros nm cdt ref b Hd. destruct b; [|apply IH].
    destruct (parse_component t STRICT e leafS s nm cdt ref) as [x|] eqn:E; cbn [bind]; [|discriminate].
    rewrite (parse_component_subset _ _ _ _ _ Hd E). cbn [bind].
    destruct (parse_components_aux t STRICT e leafS fdt st rest) as [ys|]; cbn [bind]; [|discriminate].
    rewrite (IH ys eq_refl). auto. }
  destruct (base fdt) eqn:B; cbn beta iota.
  - apply K. now right.
  - destruct (opt_is_none fdt || is_varies fdt); cbn beta iota; apply K; apply dt_simple_none.
Qed.

(* the Field object parse_field starts from *)
Definition field_ctor (lvl : level) (name : option str) (reference : option sref) (fv : bool) : result field :=
  match mk_field t lvl name None reference with
  | Err (HL7 EInvalidName) =>
      if fv then mk_field t lvl name None (Some varies_leaf) else mk_field t lvl None None reference
  | r => r
  end.

Lemma field_ctor_subset name reference fv f :
  field_ctor STRICT name reference fv = Ok f ->
  field_ctor TOLERANT name reference fv = Ok f /\ f_children f = [] /\
  exists n0, name = Some n0 /\ f_name f = Some (upper n0).
Proof.
  unfold field_ctor.
  destruct (mk_field t STRICT name None reference) as [f0|[[]| |k|]] eqn:E; try discriminate.
  - intros H. injection H as <-. rewrite (mk_field_subset _ _ _ E).
    split; [reflexivity|]. split; [exact (mk_field_no_children t STRICT _ _ _ _ E)|].
    destruct name as [n0|]; [|discriminate E]. exists n0. split; [reflexivity|exact (mk_field_name _ _ _ _ E)].
  - rewrite (mk_field_invalid _ _ E). destruct fv; [|discriminate].
    intros H. rewrite (mk_field_subset _ _ _ H).
    split; [reflexivity|]. split; [exact (mk_field_no_children t STRICT _ _ _ _ H)|].
    destruct name as [n0|]; [|discriminate E]. exists n0. split; [reflexivity|exact (mk_field_name _ _ _ _ H)].
Qed.

Lemma parse_field_subset text name reference fv f : name <> Some [] ->
  parse_field t STRICT e leafS text name reference fv = Ok f ->
  parse_field t TOLERANT e leafT text name reference fv = Ok f.
Proof.
  intros Hne. unfold parse_field. fold (field_ctor STRICT name reference fv). fold (field_ctor TOLERANT name reference fv).
  destruct (field_ctor STRICT name reference fv) as [f0|] eqn:E; cbn [bind]; [|discriminate].
  destruct (field_ctor_subset _ _ _ _ E) as [-> [Hc [n0 [Hn Hf]]]]. cbn [bind].
  destruct (is_msh12 name).
  - destruct (mk_subcomponent t STRICT leafS None (Some (unbs "ST")) text None) as [s|] eqn:Es; cbn [bind]; [|discriminate].
    rewrite (mk_subcomponent_subset _ _ _ _ _ dt_simple_ST Es). cbn [bind].
    destruct (mk_component t STRICT None (Some (unbs "ST")) None) as [c0|] eqn:Ec; cbn [bind]; [|discriminate].
    rewrite (mk_component_subset _ _ _ _ dt_simple_ST Ec). cbn [bind].
    destruct (add_subs t STRICT c0 [s]) as [c|] eqn:Ea; cbn [bind]; [|discriminate].
    rewrite (add_subs_subset _ _ _ _ Ea). cbn [bind]. apply add_comps_subset.
  - unfold parse_components.
    destruct (parse_components_aux t STRICT e leafS (f_dt f0) (f_st f0) _) as [kids|] eqn:K; cbn [bind]; [|discriminate].
    rewrite (parse_components_aux_subset _ _ _ _ K). cbn [bind is_strict negb andb]. intros H.
    assert (R : base (f_dt f0) && Nat.ltb 1 (length kids) = false).
    { destruct (base (f_dt f0)) eqn:B; [|reflexivity]. cbn [andb]. apply Nat.ltb_ge.
      pose proof (add_comps_base_limit STRICT kids f0 f H) as L. rewrite Hc in L. cbn [length] in L.
      apply L; auto. rewrite Hf. subst name. destruct n0 as [|c n0]; [exfalso; apply Hne; reflexivity|reflexivity]. }
    rewrite R. now apply add_comps_subset.
Qed.

(* ---------- parse_fields / parse_segment ---------- *)
Lemma parse_reps_subset reps name reference fv : name <> Some [] -> forall fs,
  parse_reps t STRICT e leafS reps name reference fv = Ok fs ->
  parse_reps t TOLERANT e leafT reps name reference fv = Ok fs.
Proof.
  intros Hne. induction reps as [|r rest IH]; intros fs; cbn [parse_reps]; [auto|].
  destruct (parse_field t STRICT e leafS r name reference fv) as [x|] eqn:E; cbn [bind]; [|discriminate].
  rewrite (parse_field_subset _ _ _ _ _ Hne E). cbn [bind].
  destruct (parse_reps t STRICT e leafS rest name reference fv) as [xs|]; cbn [bind]; [|discriminate].
  rewrite (IH xs eq_refl). auto.
Qed.

Lemma parse_fields_aux_subset prefix st fv l : forall fs,
  parse_fields_aux t STRICT e leafS prefix st fv l = Ok fs ->
  parse_fields_aux t TOLERANT e leafT prefix st fv l = Ok fs.
Proof.
  induction l as [|[i f] rest IH]; intros fs; cbn [parse_fields_aux]; [auto|].
  assert (Hne : Some (name_idx prefix i) <> Some []).
  { unfold name_idx. destruct prefix; discriminate. }
  match goal with |- bind ?X _ = _ -> _ => destruct X as [here|] eqn:E end; cbn [bind]; [|discriminate].
  assert (E' : (if negb (is_blank f)
                then if streqb (upper (name_idx prefix i)) "MSH_2"
                     then parse_reps t TOLERANT e leafT [f] (Some (name_idx prefix i))
                            (if has_map st then ref_in st (name_idx prefix i) else None) false
                     else parse_reps t TOLERANT e leafT (bsplit (rsep e) f) (Some (name_idx prefix i))
                            (if has_map st then ref_in st (name_idx prefix i) else None) fv
                else if streqb (upper (name_idx prefix i)) "MSH_1"
                     then parse_reps t TOLERANT e leafT [[fsep e]] (Some (name_idx prefix i))
                            (if has_map st then ref_in st (name_idx prefix i) else None) false
                     else Ok []) = Ok here).
  { destruct (negb (is_blank f)); destruct (streqb _ _); try exact E; now apply parse_reps_subset. }
  rewrite E'. cbn [bind].
  destruct (parse_fields_aux t STRICT e leafS prefix st fv rest) as [xs|]; cbn [bind]; [|discriminate].
  rewrite (IH xs eq_refl). auto.
Qed.

(* C05 at the segment level: a line accepted under STRICT is accepted under TOLERANT and gives the
   same tree *)
Theorem parse_segment_subset text reference s :
  parse_segment t STRICT e leafS text reference = Ok s ->
  parse_segment t TOLERANT e leafT text reference = Ok s.
Proof.
  unfold parse_segment, parse_segment_in, parse_fields.
  destruct (mk_segment t (seg_name_of text) reference) as [s0|]; cbn [bind]; [|discriminate].
  match goal with |- bind ?X _ = _ -> _ => destruct X as [kids|] eqn:E end; cbn [bind]; [|discriminate].
  rewrite (parse_fields_aux_subset _ _ _ _ _ E). cbn [bind]. apply add_fields_subset.
Qed.

End Leaves.
End Sim.
