(* C04, Z MESSAGES (Message.is_z_element(): the name matches ^z[a-z0-9]{2}_z[a-z0-9]{2}$, e.g. ZDT_Z01).
   validation.py sends a Z message through _check_z_element: the message's own reference - the empty
   ('sequence', ()) Message.__init__ falls back to, or the structure a message profile declares for the
   name - is NEVER consulted; every child is validated on its own with no reference:
       for c in el.children: _is_valid(c, None, errs, warns)
   - an unnamed child draws "Unknown element found", a Z segment goes through _check_z_element (its fields
     one by one), any other segment is held against the entry its name has in the SEGMENT TABLE of the
     version ("Invalid element found" when there is none), a group against the group table;
   - no cardinality, required-child or allowed-children check is made at the message level.
   Model/Validate.v v_message has this branch; this file characterises it: the log of a Z message is the
   concatenation of the logs of its children (z_message_log), each segment's log being the log
   Segment.validate() gives on that segment alone when the segment carries the table entry of its name
   (`table_seg`: every segment the parser creates without a reference), and derives soundness /
   completeness and the named-error corollaries from the SEGMENT-level theorems of Proofs/ValidateFacts.v. *)
From Coq Require Import List Bool ZArith NArith Lia Init.Byte.
From HL7 Require Import Lib.Str Model.Ec Model.Result Model.Ref Model.Tree Model.Parser Model.Encode
                        Model.MsgTree Model.Validate Proofs.ValidateFacts Proofs.RoundTripStr Proofs.NoDrop.
Import ListNotations.
Open Scope bs_scope.
Open Scope res_scope.

(* ================================================================================================ *)
(* seq_res is concatenation (the first exception wins)                                              *)

Lemma seq_res_concat {A} (rs : list (result (list A))) ls :
  Forall2 (fun r l => r = Ok l) rs ls -> seq_res rs = Ok (concat ls).
Proof.
  induction 1 as [|r l rs ls Hr _ IH]; [reflexivity|]. cbn [seq_res concat]. now rewrite Hr, IH.
Qed.

Lemma seq_res_ok_concat {A} (rs : list (result (list A))) x :
  seq_res rs = Ok x -> exists ls, Forall2 (fun r l => r = Ok l) rs ls /\ x = concat ls.
Proof.
  revert x; induction rs as [|r rs IH]; intros x H; cbn [seq_res] in H.
  - injection H as <-. exists []. split; [constructor|reflexivity].
  - destruct r as [a|?]; [|discriminate]. destruct (seq_res rs) as [b|?]; [|discriminate]. injection H as <-.
    destruct (IH b eq_refl) as [ls [HF ->]]. exists (a :: ls). split; [now constructor|reflexivity].
Qed.

Lemma seq_res_err_first {A} (rs : list (result (list A))) x :
  seq_res rs = Err x -> exists pre r post, rs = pre ++ r :: post /\ r = Err x /\ forall p, In p pre -> exists a, p = Ok a.
Proof.
  induction rs as [|r rs IH]; cbn [seq_res]; [discriminate|]. destruct r as [a|y].
  - destruct (seq_res rs) as [b|y] eqn:E; [discriminate|]. intros H. injection H as ->.
    destruct (IH eq_refl) as (pre & r & post & -> & Hr & Hp). exists (Ok a :: pre), r, post.
    split; [reflexivity|]. split; [exact Hr|]. intros p [<-|Hin]; [eauto|now apply Hp].
  - intros H. injection H as ->. exists [], (Err x), rs. split; [reflexivity|]. split; [reflexivity|]. intros p [].
Qed.

Lemma errors_of_concat ls : errors_of (concat ls) = concat (map errors_of ls).
Proof. induction ls as [|l ls IH]; [reflexivity|]. cbn [concat map]. now rewrite errors_of_app, IH. Qed.

Lemma errors_of_incl a l : incl a l -> incl (errors_of a) (errors_of l).
Proof. intros H x Hx. apply errors_of_In. apply H. now apply errors_of_In. Qed.

Section ZMessage.
Variable t : tables.
Variable lvl : level.
Variable e : ec.

(* ================================================================================================ *)
(* what the validator does with ONE child of a Z message                                            *)

(* a standard (non-Z) segment: Validator.validate(segment, reference=<the table entry of its name>) *)
Definition std_seg_log (s : seg) : result (list vmsg) :=
  match slookup (s_name s) (t_segments t) with
  | Some r => v_seg t e (Some r) s
  | None => Ok [VE (InvalidElement (Some (s_name s)))]         (* "Invalid element found: <Segment XXX>" *)
  end.

(* a Z segment: _check_z_element - its fields one by one, no reference *)
Definition z_seg_log (s : seg) : result (list vmsg) :=
  seq_res (map (v_field t e (Some (s_name s)) None) (s_children s)).

(* any child (mn = the name of the Z message, printed in "Unknown element found: <Message mn>.<..>") *)
Definition z_child_log (mn : str) (k : node) : result (list vmsg) :=
  match k with
  | NSeg s => if seg_is_z s then z_seg_log s else std_seg_log s
  | NGrp None _ _ => Ok [VE (UnknownElement (Some mn) None)]
  | NGrp (Some g) _ _ =>
      match slookup g (t_groups t) with
      | Some r => v_node t lvl e (Some mn) (Some r) k         (* held against the group table's entry *)
      | None => Ok [VE (InvalidElement (Some g))]
      end
  end.

Lemma z_child_log_spec mn k : v_node t lvl e (Some mn) None k = z_child_log mn k.
Proof.
  destruct k as [s|[g|] st kids]; cbn [v_node z_child_log].
  - unfold v_seg, z_seg_log, std_seg_log. destruct (seg_is_z s) eqn:EZ; [reflexivity|]. cbn [ref_or_load].
    destruct (slookup (s_name s) (t_segments t)) as [r|]; [|reflexivity].
    unfold v_seg. rewrite EZ. reflexivity.
  - cbn [ref_or_load]. destruct (slookup g (t_groups t)) as [r|]; reflexivity.
  - reflexivity.
Qed.

(* ---- the log of a Z message: the concatenation, in order, of the logs of its children; the message's
        own structure / reference (m_st) does not occur ---- *)
Theorem z_message_log m mn :
  m_name m = Some mn -> valid_z_message_name mn = true ->
  validate_message_log t lvl e m = seq_res (map (z_child_log mn) (m_children m)).
Proof.
  intros HN HZ. unfold validate_message_log, v_message. rewrite HN, HZ. f_equal.
  apply map_ext. intros k. apply z_child_log_spec.
Qed.

(* ... spelled out: when no child raises, the errors are the children's errors, concatenated *)
Theorem z_message_errors_concat m mn ess :
  m_name m = Some mn -> valid_z_message_name mn = true ->
  Forall2 (fun k es => lift_errors (z_child_log mn k) = Ok es) (m_children m) ess ->
  validate_message_errors t lvl e m = Ok (concat ess).
Proof.
  intros HN HZ HF. unfold validate_message_errors. rewrite (z_message_log m mn HN HZ).
  assert (H : exists ls, Forall2 (fun r l => r = Ok l) (map (z_child_log mn) (m_children m)) ls /\
                         map errors_of ls = ess).
  { induction HF as [|k es kids ess Hk _ IH]; [exists []; split; [constructor|reflexivity]|].
    destruct IH as [ls [H1 H2]]. apply lift_errors_ok in Hk. destruct Hk as [l [Hl ->]].
    exists (l :: ls). split; [cbn [map]; now constructor | cbn [map]; now rewrite H2]. }
  destruct H as [ls [H1 <-]]. rewrite (seq_res_concat _ _ H1). cbn [lift_errors]. now rewrite errors_of_concat.
Qed.

(* and an exception inside one child (the first one that raises) is the outcome of the whole call *)
Theorem z_message_raises m mn x :
  m_name m = Some mn -> valid_z_message_name mn = true ->
  validate_message_log t lvl e m = Err x ->
  exists k, In k (m_children m) /\ z_child_log mn k = Err x.
Proof.
  intros HN HZ H. rewrite (z_message_log m mn HN HZ) in H.
  destruct (seq_res_err_first _ _ H) as (pre & r & post & E & -> & _).
  assert (Hin : In (Err x) (map (z_child_log mn) (m_children m))) by (rewrite E; apply in_or_app; right; now left).
  apply in_map_iff in Hin. destruct Hin as [k [Hk Hin]]. now exists k.
Qed.

(* the structure the message was created with (the empty one, or a message profile's) plays no part *)
Theorem z_message_structure_ignored mn st st' kids :
  valid_z_message_name mn = true ->
  validate_message_log t lvl e (mk_message (Some mn) st kids) =
  validate_message_log t lvl e (mk_message (Some mn) st' kids).
Proof.
  intros HZ.
  rewrite (z_message_log (mk_message (Some mn) st kids) mn eq_refl HZ).
  rewrite (z_message_log (mk_message (Some mn) st' kids) mn eq_refl HZ). reflexivity.
Qed.

(* ================================================================================================ *)
(* segments that carry the table entry of their name: the child's log IS Segment.validate()'s log    *)

(* true of every segment created without a reference of its own (Segment(name): the constructor loads
   the table entry; Proofs/ValidateTotalMsg.v own_ref / parse_segment_sgood), i.e. of every segment
   parse_message puts into a Z message (whose empty structure hands no reference to any child) *)
Definition table_seg (s : seg) : Prop :=
  seg_is_z s = true \/ slookup (s_name s) (t_segments t) = Some (st_reference (s_st s)).

Lemma z_child_log_seg mn s : table_seg s -> z_child_log mn (NSeg s) = validate_seg_log t e s.
Proof.
  intros H. cbn [z_child_log]. unfold validate_seg_log. destruct (seg_is_z s) eqn:EZ.
  - unfold z_seg_log, v_seg. now rewrite EZ.
  - destruct H as [H|H]; [congruence|]. unfold std_seg_log. now rewrite H.
Qed.

(* a Z message made of such segments: validating the message = validating each segment on its own *)
Theorem z_message_segmentwise m mn segs :
  m_name m = Some mn -> valid_z_message_name mn = true ->
  m_children m = map NSeg segs -> (forall s, In s segs -> table_seg s) ->
  validate_message_log t lvl e m = seq_res (map (validate_seg_log t e) segs).
Proof.
  intros HN HZ HC HT. rewrite (z_message_log m mn HN HZ), HC, map_map. f_equal.
  apply map_ext_in. intros s Hs. apply z_child_log_seg. now apply HT.
Qed.

(* ---- soundness and completeness: such a Z message validates exactly when each of its segments conforms
        to the table entry of its name (a Z segment: when each of its fields conforms on its own) ---- *)
Theorem z_message_sound_complete m mn segs :
  m_name m = Some mn -> valid_z_message_name mn = true ->
  m_children m = map NSeg segs ->
  (forall s, In s segs -> table_seg s /\ linked t e s = true) ->
  (validate_message_errors t lvl e m = Ok [] <-> forall s, In s segs -> conforms t s).
Proof.
  intros HN HZ HC HT. unfold validate_message_errors.
  rewrite (z_message_segmentwise m mn segs HN HZ HC (fun s Hs => proj1 (HT s Hs))).
  rewrite lift_errors_nil, clean_seq_res, Forall_forall. split.
  - intros H s Hs. apply (clean_v_seg t e (Some (st_reference (s_st s))) s (proj2 (HT s Hs))).
    apply H. unfold validate_seg_log. apply (in_map (validate_seg_log t e)) in Hs. exact Hs.
  - intros H r Hr. apply in_map_iff in Hr. destruct Hr as [s [<- Hs]].
    apply (clean_v_seg t e (Some (st_reference (s_st s))) s (proj2 (HT s Hs))). now apply H.
Qed.

(* soundness in the words of the property: every standard segment validates on its own, the other
   children are Z segments that validate on their own  ->  the Z message validates *)
Corollary z_message_sound m mn segs :
  m_name m = Some mn -> valid_z_message_name mn = true ->
  m_children m = map NSeg segs ->
  (forall s, In s segs -> table_seg s /\ validate_errors t e s = Ok []) ->
  validate_message_errors t lvl e m = Ok [].
Proof.
  intros HN HZ HC HT. unfold validate_message_errors.
  rewrite (z_message_segmentwise m mn segs HN HZ HC (fun s Hs => proj1 (HT s Hs))).
  apply lift_errors_nil, clean_seq_res, Forall_forall. intros r Hr. apply in_map_iff in Hr.
  destruct Hr as [s [<- Hs]]. apply lift_errors_nil. exact (proj2 (HT s Hs)).
Qed.

(* ================================================================================================ *)
(* every error of a child is an error of the Z message                                              *)

Lemma z_message_child_errors m mn k es :
  m_name m = Some mn -> valid_z_message_name mn = true -> In k (m_children m) ->
  validate_message_errors t lvl e m = Ok es ->
  exists l, z_child_log mn k = Ok l /\ incl (errors_of l) es.
Proof.
  intros HN HZ Hk H. unfold validate_message_errors in H. rewrite (z_message_log m mn HN HZ) in H.
  apply lift_errors_ok in H. destruct H as [l [Hl ->]].
  assert (Hin : In (z_child_log mn k) (map (z_child_log mn) (m_children m))) by now apply in_map.
  destruct (seq_res_ok_all _ _ _ Hl Hin) as [a Ha]. exists a. split; [exact Ha|].
  apply errors_of_incl. apply (seq_res_incl _ _ _ Hl). now rewrite <- Ha.
Qed.

(* a standard segment of a Z message is judged as Validator.validate(segment, reference=table entry) judges
   it, whatever structure the segment itself carries: all the errors of that call are reported *)
Theorem z_message_reports_segment_errors m mn s r es :
  m_name m = Some mn -> valid_z_message_name mn = true -> In (NSeg s) (m_children m) ->
  seg_is_z s = false -> slookup (s_name s) (t_segments t) = Some r ->
  validate_message_errors t lvl e m = Ok es ->
  exists es_s, validate_errors_with t e (Some r) s = Ok es_s /\ incl es_s es.
Proof.
  intros HN HZ Hk NZ HR H. destruct (z_message_child_errors m mn (NSeg s) es HN HZ Hk H) as [l [Hl Hi]].
  cbn [z_child_log] in Hl. unfold std_seg_log in Hl. rewrite NZ, HR in Hl.
  exists (errors_of l). split; [|exact Hi]. unfold validate_errors_with. now rewrite Hl.
Qed.

(* the same in terms of Segment.validate() for a segment that carries the table entry of its name
   (Z segments included) *)
Theorem z_message_reports_own_errors m mn s es :
  m_name m = Some mn -> valid_z_message_name mn = true -> In (NSeg s) (m_children m) -> table_seg s ->
  validate_message_errors t lvl e m = Ok es ->
  exists es_s, validate_errors t e s = Ok es_s /\ incl es_s es.
Proof.
  intros HN HZ Hk HT H. destruct (z_message_child_errors m mn (NSeg s) es HN HZ Hk H) as [l [Hl Hi]].
  rewrite (z_child_log_seg mn s HT) in Hl. exists (errors_of l). split; [|exact Hi].
  unfold validate_errors. now rewrite Hl.
Qed.

(* ---- named errors: a single-point defect inside a standard segment of a Z message draws the error the
        segment-level theorems name (Proofs/ValidateFacts.v seg_missing_required, seg_limit_exceeded,
        seg_foreign_child, seg_unknown_child) ---- *)
Section ZNamed.
Variables (m : message) (mn : str) (s : seg) (ch : bool) (rows : list (option vchild)) (oi : option info).
Hypothesis HN : m_name m = Some mn.
Hypothesis HZ : valid_z_message_name mn = true.
Hypothesis Hk : In (NSeg s) (m_children m).
Hypothesis NZ : seg_is_z s = false.
Hypothesis HO : slookup (s_name s) (t_segments t) = Some (st_reference (s_st s)).
Hypothesis HV : view_of t (st_reference (s_st s)) = VSeq ch rows oi.

Lemma z_own es : validate_message_errors t lvl e m = Ok es ->
  exists es_s, validate_errors t e s = Ok es_s /\ incl es_s es.
Proof. apply (z_message_reports_own_errors m mn s es HN HZ Hk). now right. Qed.

Lemma z_message_missing_required vc es :
  In (Some vc) rows -> resolve_seg s (vc_name vc) = Some (vc_name vc) ->
  (Z.of_nat (length (named_kids f_name (s_children s) (vc_name vc))) < vc_mn vc)%Z ->
  validate_message_errors t lvl e m = Ok es -> In (MissingRequired (Some (s_name s)) (vc_name vc)) es.
Proof.
  intros Hvc R Hlt H. destruct (z_own es H) as [es_s [Hs Hi]]. apply Hi.
  exact (seg_missing_required t e s ch rows oi NZ HV vc es_s Hvc R Hlt Hs).
Qed.

Lemma z_message_limit_exceeded vc es :
  In (Some vc) rows -> resolve_seg s (vc_name vc) = Some (vc_name vc) ->
  vc_mx vc <> (-1)%Z -> (vc_mn vc <= vc_mx vc)%Z ->
  (Z.of_nat (length (named_kids f_name (s_children s) (vc_name vc))) > vc_mx vc)%Z ->
  validate_message_errors t lvl e m = Ok es -> In (LimitExceeded (Some (s_name s)) (vc_name vc)) es.
Proof.
  intros Hvc R Hm Hle Hgt H. destruct (z_own es H) as [es_s [Hs Hi]]. apply Hi.
  exact (seg_limit_exceeded t e s ch rows oi NZ HV vc es_s Hvc R Hm Hle Hgt Hs).
Qed.

Lemma z_message_foreign_field k es :
  In k (s_children s) -> field_is_z k = false -> omem (f_name k) (row_names rows) = false ->
  validate_message_errors t lvl e m = Ok es ->
  exists names, In (InvalidChildren (Some (s_name s)) names) es /\ In (f_name k) names.
Proof.
  intros Hin Hz Hm H. destruct (z_own es H) as [es_s [Hs Hi]].
  destruct (seg_foreign_child t e s ch rows oi NZ HV k es_s Hin Hz Hm Hs) as [names [H1 H2]].
  exists names. split; [now apply Hi | exact H2].
Qed.

Lemma z_message_unknown_field k es :
  In k (s_children s) -> f_name k = None ->
  validate_message_errors t lvl e m = Ok es ->
  exists names, In (InvalidChildren (Some (s_name s)) names) es /\ In None names.
Proof.
  intros Hin Hn H. destruct (z_own es H) as [es_s [Hs Hi]].
  destruct (seg_unknown_child t e s ch rows oi NZ HV k es_s Hin Hn Hs) as [names [H1 H2]].
  exists names. split; [now apply Hi | exact H2].
Qed.
End ZNamed.

(* ---- the children that are neither a segment of the version nor a Z segment ---- *)
Theorem z_message_invalid_segment m mn s es :
  m_name m = Some mn -> valid_z_message_name mn = true -> In (NSeg s) (m_children m) ->
  seg_is_z s = false -> slookup (s_name s) (t_segments t) = None ->
  validate_message_errors t lvl e m = Ok es -> In (InvalidElement (Some (s_name s))) es.
Proof.
  intros HN HZ Hk NZ HR H. destruct (z_message_child_errors m mn (NSeg s) es HN HZ Hk H) as [l [Hl Hi]].
  cbn [z_child_log] in Hl. unfold std_seg_log in Hl. rewrite NZ, HR in Hl. injection Hl as <-.
  apply Hi. now left.
Qed.

Theorem z_message_unknown_child m mn st kids es :
  m_name m = Some mn -> valid_z_message_name mn = true -> In (NGrp None st kids) (m_children m) ->
  validate_message_errors t lvl e m = Ok es -> In (UnknownElement (Some mn) None) es.
Proof.
  intros HN HZ Hk H. destruct (z_message_child_errors m mn _ es HN HZ Hk H) as [l [Hl Hi]].
  cbn [z_child_log] in Hl. injection Hl as <-. apply Hi. now left.
Qed.

(* ---- no check at the message level: no child is required, none is limited, none is foreign ---- *)
Theorem z_message_no_children m mn :
  m_name m = Some mn -> valid_z_message_name mn = true -> m_children m = [] ->
  validate_message_log t lvl e m = Ok [].
Proof. intros HN HZ HC. rewrite (z_message_log m mn HN HZ), HC. reflexivity. Qed.

End ZMessage.

(* ================================================================================================ *)
(* `table_seg` holds of every segment the parser creates without a reference, hence of every child of *)
(* a Z message rebuilt from text (Model/Validate.v build_message: the empty structure of a Z message  *)
(* hands no reference to any segment)                                                               *)

Lemma bind_ok' {A B} (r : result A) (f : A -> result B) b :
  bind r f = Ok b -> exists a, r = Ok a /\ f a = Ok b.
Proof. destruct r as [a|x]; cbn; [eauto | discriminate]. Qed.

Lemma parse_structure_reference t r st : parse_structure t r = Ok st -> st_reference st = r.
Proof.
  unfold parse_structure. destruct (view_of t r) as [i|c cs oi|]; [| |discriminate].
  - intros H. now injection H as <-.
  - destruct (parse_children _ _ _ _ _ _) as [[[[o b] l] rp]|]; [|discriminate]. intros H. now injection H as <-.
Qed.

Lemma add_fields_structure t lvl kids : forall s s', add_fields t lvl s kids = Ok s' -> s_st s' = s_st s.
Proof.
  induction kids as [|k rest IH]; intros s s' H; cbn [add_fields] in H.
  - now injection H as <-.
  - destruct (f_name k) as [kn|].
    + repeat match type of H with
             | (if ?b then _ else _) = _ => destruct b; try discriminate
             end; apply IH in H; exact H.
    + destruct (is_strict lvl); try discriminate. apply IH in H. exact H.
Qed.

Lemma valid_z_segment_upper n : valid_z_segment_name (upper n) = valid_z_segment_name n.
Proof. unfold valid_z_segment_name. now rewrite upper_idem, upper_length. Qed.

(* Segment(name): a non-Z segment carries the segment table's entry of its (upper-cased) name *)
Lemma mk_segment_table t name s0 : mk_segment t name None = Ok s0 ->
  s_name s0 = upper name /\
  (valid_z_segment_name name = false -> slookup (upper name) (t_segments t) = Some (st_reference (s_st s0))).
Proof.
  unfold mk_segment. destruct (valid_z_segment_name name).
  - intros H. apply bind_ok' in H. destruct H as (st & _ & H). injection H as <-. split; [reflexivity|discriminate].
  - unfold structure_for, load_reference. cbn [table_of].
    destruct (slookup (upper name) (t_segments t)) as [r|] eqn:E; [|discriminate].
    destruct (parse_structure t r) as [st|] eqn:P; [|discriminate]. cbn [bind].
    pose proof (parse_structure_reference t r st P) as Er.
    assert (Q : forall inf la l, s0 = mk_seg (upper name) st inf la l [] ->
                s_name s0 = upper name /\ (false = false -> Some r = Some (st_reference (s_st s0)))).
    { intros inf la l ->. cbn. split; [reflexivity|]. intros _. now rewrite Er. }
    destruct (st_ordered st) as [ord|]; [|intros H; injection H as <-; eapply Q; reflexivity].
    destruct (last_opt ord) as [lastk|]; [|intros H; injection H as <-; eapply Q; reflexivity].
    destruct (by_name st lastk) as [en|]; [|discriminate].
    destruct (py_int_ok _); [|discriminate]. intros H; injection H as <-; eapply Q; reflexivity.
Qed.

(* parse_segment(text) (no reference) *)
Theorem parse_segment_table_seg t lvl e leaf text s :
  parse_segment t lvl e leaf text None = Ok s -> table_seg t s.
Proof.
  intros Es. unfold parse_segment in Es. apply bind_ok' in Es. destruct Es as (s0 & H0 & Es).
  unfold parse_segment_in in Es. apply bind_ok' in Es. destruct Es as (kids & _ & Es).
  pose proof (add_fields_structure t _ _ _ _ Es) as Est. apply add_fields_appends in Es. destruct Es as [_ En].
  destruct (mk_segment_table _ _ _ H0) as [N0 O0].
  unfold table_seg, seg_is_z. rewrite En, Est, N0, valid_z_segment_upper.
  destruct (valid_z_segment_name (seg_name_of text)); [now left | right; now apply O0].
Qed.

(* the structure of the reference ('sequence', ()) a Z message gets: no child receives a reference *)
Lemma empty_structure t st n : parse_structure t empty_seq = Ok st -> ref_in (Some st) n = None.
Proof. cbn. intros H. injection H as <-. reflexivity. Qed.

Lemma build_nodes_segments t lvl e lenc st texts : forall ks,
  (forall n, ref_in (Some st) n = None) ->
  build_nodes t lvl e lenc (Some st) (map ShSeg texts) = Ok ks ->
  exists segs, ks = map NSeg segs /\ forall s, In s segs -> table_seg t s.
Proof.
  induction texts as [|x texts IH]; intros ks Hr H; cbn [map build_nodes] in H.
  - injection H as <-. exists []. split; [reflexivity | intros s []].
  - apply bind_ok' in H. destruct H as (a & Ha & H). apply bind_ok' in H. destruct H as (b & Hb & H). injection H as <-.
    cbn [build_node] in Ha. rewrite Hr in Ha. apply bind_ok' in Ha. destruct Ha as (s & Hs & Ha). injection Ha as <-.
    destruct (IH b Hr Hb) as [segs [-> HT]]. exists (s :: segs). split; [reflexivity|].
    intros s' [<-|Hin]; [exact (parse_segment_table_seg _ _ _ _ _ _ Hs) | now apply HT].
Qed.

(* Message('Zxx_Zxx') filled with the segments of a text (the rebuilding the correspondence harness does for
   every parsed Z message): a named Z message whose children are segments carrying their table entries *)
Theorem build_z_message t lvl e lenc n texts m :
  slookup (upper n) (t_messages t) = None -> valid_z_message_name n = true ->
  build_message t lvl e lenc (Some n) (map ShSeg texts) = Ok m ->
  m_name m = Some (upper n) /\
  exists segs, m_children m = map NSeg segs /\ forall s, In s segs -> table_seg t s.
Proof.
  intros HL HZ H. unfold build_message in H. rewrite HL, HZ in H.
  apply bind_ok' in H. destruct H as (ost & Hst & H). apply bind_ok' in H. destruct H as (ks & Hks & H).
  injection H as <-. cbn [m_name m_children option_map]. split; [reflexivity|].
  apply bind_ok' in Hst. destruct Hst as (st & Hp & Hst). injection Hst as <-.
  exact (build_nodes_segments t lvl e lenc st texts ks (fun n' => empty_structure t st n' Hp) Hks).
Qed.

(* a Z name stays a Z name when upper-cased (Element.__init__ keeps name.upper()) *)
Lemma az09_bupper b : az09 (bupper b) = az09 b.
Proof. destruct b; reflexivity. Qed.
Lemma is_zZ_bupper b : is_zZ (bupper b) = is_zZ b.
Proof. destruct b; reflexivity. Qed.
Lemma beqb_bupper_us b : beqb (bupper b) "_" = beqb b "_".
Proof. destruct b; reflexivity. Qed.
Lemma beqb_bupper_nl b : beqb (bupper b) x0a = beqb b x0a.
Proof. destruct b; reflexivity. Qed.
Lemma valid_z_message_upper n : valid_z_message_name (upper n) = valid_z_message_name n.
Proof.
  destruct n as [|z1 [|a [|b [|u [|z2 [|c [|d [|nl [|x r]]]]]]]]]; try reflexivity; cbn [upper map valid_z_message_name];
    now rewrite ?az09_bupper, ?is_zZ_bupper, ?beqb_bupper_us, ?beqb_bupper_nl.
Qed.

(* together: the validator's log of a rebuilt Z message is the concatenation of the logs Segment.validate()
   gives for each of its segments *)
Theorem built_z_message_segmentwise t lvl e lenc n texts m lvl' e' :
  slookup (upper n) (t_messages t) = None -> valid_z_message_name n = true ->
  build_message t lvl e lenc (Some n) (map ShSeg texts) = Ok m ->
  exists segs, m_children m = map NSeg segs /\ (forall s, In s segs -> table_seg t s) /\
               validate_message_log t lvl' e' m = seq_res (map (validate_seg_log t e') segs).
Proof.
  intros HL HZ H. destruct (build_z_message t lvl e lenc n texts m HL HZ H) as [HN [segs [HC HT]]].
  exists segs. split; [exact HC|]. split; [exact HT|].
  apply (z_message_segmentwise t lvl' e' m (upper n) segs HN); [now rewrite valid_z_message_upper | exact HC | exact HT].
Qed.
