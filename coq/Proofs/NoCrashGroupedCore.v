(* C15, segment-list level (helper of Proofs/NoCrashGrouped.v, which has the message-level theorems):
   parse_segments(text, ..., references=root, find_groups=True) never leaks a crash.
   The group search of Model/Groups.v has these partial operations: parents_refs[-1] on an empty
   stack (IndexError), parents_refs.index(...) of an entry that is not there (ValueError),
   current_parent.repetitions[segment_name] (KeyError), `for c in p_ref[1]` / c[3] on a malformed
   reference (TypeError / IndexError), unbounded recursion (RecursionError = Err OutOfFuel) and the
   model-internal `Err OutOfFuel` of a path that does not point at a group.  None of them is
   reachable, for EVERY text: between two input lines the stack mirrors the chain of open groups
   (Proofs/GroupsMirror.v), the forest is sound (Proofs/GroupsFacts.v) and the current parent is the
   right-most spine.  The table facts needed are one boolean check (grp_tables_ok, below), decided by
   the kernel for every shipped version. *)
From Coq Require Import List Bool Arith ZArith NArith Lia Init.Byte.
From HL7 Require Import Lib.Str Model.Ec Model.Result Model.Header Model.Ref Model.Tree Model.Parser Model.Encode
     Model.Leaf Model.MsgTree Model.Groups Model.Message Model.Wf.
From HL7 Require Import Gen.Params Gen.Tables.
From HL7 Require Import Proofs.HeaderFacts Proofs.RoundTripStr Proofs.RoundTripSeg Proofs.RoundTripTables
     Proofs.NoCrash Proofs.NoCrashTables Proofs.NoCrashMsg Proofs.GroupsFacts Proofs.GroupsMirror.
From HL7 Require Proofs.RoundTripMsg.
Import ListNotations.
Open Scope bs_scope.
Open Scope res_scope.

(* ------------------------------------------------------------------ *)
(* == on references is reflexive: list.index finds an entry that is in the list *)

Lemma opt_eqb_refl o : opt_eqb o o = true.
Proof. destruct o as [x|]; [apply streqb_refl|reflexivity]. Qed.

Lemma info_eqb_refl i : info_eqb i i = true.
Proof. unfold info_eqb. now rewrite !opt_eqb_refl, Z.eqb_refl. Qed.

Lemma kind_eqb_refl k : kind_eqb k k = true.
Proof. now destruct k. Qed.

Fixpoint sref_eqb_refl (a : sref) : sref_eqb a a = true
with srow_eqb_refl (x : srow) : srow_eqb x x = true.
Proof.
  - destruct a as [i|i|c cs i|]; cbn [sref_eqb].
    + apply info_eqb_refl.
    + apply info_eqb_refl.
    + rewrite eqb_reflx. assert (Hi : oeqb info_eqb i i = true) by (destruct i as [j|]; [apply info_eqb_refl|reflexivity]).
      rewrite Hi. cbn [andb]. clear Hi. revert cs. fix IH 1. intros [|x cs]; [reflexivity|].
      rewrite (srow_eqb_refl x). cbn [andb]. apply IH.
    + reflexivity.
  - destruct x as [k n mn mx|k n r mn mx|]; cbn [srow_eqb].
    + now rewrite kind_eqb_refl, streqb_refl, !Z.eqb_refl.
    + now rewrite kind_eqb_refl, streqb_refl, !Z.eqb_refl, (sref_eqb_refl r).
    + reflexivity.
Qed.

Lemma entry_eqb_refl x : entry_eqb x x = true.
Proof. unfold entry_eqb. now rewrite opt_eqb_refl, sref_eqb_refl. Qed.

Lemma index_of_in x l : In x l -> forall i0, exists i, index_of x l i0 = Some i.
Proof.
  induction l as [|y l IH]; intros H i0; [destruct H|]. cbn [index_of].
  destruct (entry_eqb y x) eqn:Eyx; [eauto|]. destruct H as [->|H]; [now rewrite entry_eqb_refl in Eyx|].
  now apply IH.
Qed.

Lemma last_entry_cons a l : exists top, last_entry (a :: l) = Ok top.
Proof.
  unfold last_entry. cbn [rev]. destruct (rev l ++ [a]) as [|y r] eqn:Er; [|eauto].
  now destruct (rev l).
Qed.

(* ------------------------------------------------------------------ *)
(* the search never hands out the `None` reference of a malformed SEG row *)

Lemma scan_rows_not_bad t name rows : forall acc sr gs,
  scan_rows t name rows acc = Ok (Some sr, gs) -> sr <> SBad.
Proof.
  induction rows as [|x rows IH]; intros acc sr gs H; cbn [scan_rows] in H; [discriminate|].
  destruct (row_name_kind x) as [[k n]|]; [|discriminate]. destruct k; try (now apply IH in H).
  destruct (streqb n name); [|now apply IH in H].
  destruct (Groups.row_ref t x) as [r|]; cbn [bind] in H; [|discriminate].
  destruct r; try discriminate H; injection H as <- _; discriminate.
Qed.

Lemma search_not_bad t fuel : forall name r sr ex, search t fuel name r = Ok (Some (sr, ex)) -> sr <> SBad.
Proof.
  induction fuel as [|f IH]; intros name r sr ex H; cbn [search] in H; [discriminate|].
  inv_bind H. rename a into rows. inv_bind H. destruct a as [hit groups]. destruct hit as [sr'|].
  - injection H as <- _. exact (scan_rows_not_bad _ _ _ _ _ _ Ha0).
  - destruct (try_groups_spec _ _ _ _ _ H) as (x & k & g & gr & ex' & _ & _ & _ & Hrec & _).
    exact (IH _ _ _ _ Hrec).
Qed.

(* ------------------------------------------------------------------ *)
(* every row name of a reference is a key of the `repetitions` dict of its structure *)

Lemma parse_children_reps cs : forall seen ord byn byl reps o b l r,
  parse_children cs seen ord byn byl reps = Ok (o, b, l, r) ->
  (forall k, In k (map fst byn) -> In k (map fst reps)) ->
  (forall k, In k (map fst reps) -> In k (map fst r)) /\
  (forall vc, In (Some vc) cs -> In (vc_name vc) (map fst r)).
Proof.
  induction cs as [|[[name rf mn mx k]|] rest IH]; intros seen ord byn byl reps o b l r H Hsub;
    cbn [parse_children] in H.
  - injection H as _ _ _ <-. split; [|intros vc []]. intros k Hk. rewrite map_rev. now apply -> in_rev.
  - match type of H with parse_children _ _ _ ((?kk, ?ee) :: _) _ _ = _ => set (key := kk) in *; set (en := ee) in * end.
    destruct (IH _ _ _ _ _ _ _ _ _ H) as [H1 H2].
    { intros k' [Hk|Hk]; [now left|right; now apply Hsub]. }
    split.
    + intros k' Hk. apply H1. now right.
    + intros vc [E|Hvc]; [|now apply H2]. injection E as <-. cbn [vc_name].
      apply H1. subst key. destruct (slookup name byn) as [v|] eqn:El.
      * right. apply Hsub. apply slookup_in in El. apply in_map_iff. now exists (name, v).
      * now left.
  - discriminate.
Qed.

Lemma declared_reps t r st k n sr : parse_structure t r = Ok st -> declared t r k n sr ->
  repetitions_of st n <> None.
Proof.
  intros Hp (rows & x & Hrows & Hin & Hk & Href).
  assert (Hv : exists c i, view_of t r = VSeq c (map (row_view t) rows) i).
  { destruct r as [i|i|c cs i|]; cbn [rows_of] in Hrows; try discriminate.
    - cbn [view_of]. destruct (i_dt i) as [d|]; [|discriminate].
      destruct (slookup d (t_structs t)) as [rows'|]; [|discriminate]. injection Hrows as <-. eauto.
    - injection Hrows as <-. cbn [view_of]. eauto. }
  destruct Hv as (c & i & Hv). unfold parse_structure in Hp. rewrite Hv in Hp.
  destruct (parse_children _ _ _ _ _ _) as [[[[o b] l] rp]|] eqn:Ec; [|discriminate]. injection Hp as <-.
  destruct (parse_children_reps _ _ _ _ _ _ _ _ _ _ Ec) as [_ H2]; [intros k' []|].
  unfold Groups.row_ref in Href. destruct (row_view t x) as [vc|] eqn:Ev; [|discriminate].
  assert (En : vc_name vc = n).
  { destruct x as [k' n' mn mx|k' n' r' mn mx|]; cbn [row_name_kind] in Hk; try discriminate;
      injection Hk as _ <-; cbn [row_view] in Ev.
    - destruct (slookup n' (table_of t k')); [|discriminate]. now injection Ev as <-.
    - now injection Ev as <-. }
  assert (Hk' : In n (map fst (rev rp))).
  { rewrite map_rev. apply -> in_rev. rewrite <- En. apply H2. rewrite <- Ev. now apply in_map. }
  unfold repetitions_of. cbn [st_repetitions].
  destruct (in_keys_slookup n _ Hk') as [v ->]. discriminate.
Qed.

(* ------------------------------------------------------------------ *)
(* the loop, generically: items X, parsed segments A, acceptable exceptions Adm *)

Section Safe.
Variable Adm : exn -> Prop.
Hypothesis AdmH : forall c, Adm (HL7 c).
Variable t : tables.
Variable X A : Type.
Variable raw : X -> str.
Variable mkseg : X -> option sref -> result A.
Variable nm : A -> str.
Variable acceptance : str * sref * structure -> list str -> str -> result unit.
Variable root : sref.
(* what is recorded about every segment of the forest (B2: it can be encoded) *)
Variable Q : A -> option sref -> Prop.

(* the references the stack can hold: the message reference and what its GRP rows lead to *)
Variable gref : sref -> Prop.
Hypothesis Hroot : gref root.
Hypothesis Hgrp : forall r g gr, gref r -> declared t r GRP g gr -> gref gr /\ good t g gr.
Hypothesis Hps : forall r, gref r -> exists st, parse_structure t r = Ok st.
Hypothesis Hsearch : forall name r, gref r -> exists y, search t search_fuel name r = Ok y.
Hypothesis Hdist : forall ex, chain t root ex -> NoDup (map fst ex).
Hypothesis Hadm : forall p have c, sp Adm TT (acceptance p have c).
Hypothesis Hseg : forall r x sr, gref r -> declared t r SEG (raw x) sr -> sr <> SBad ->
  sp Adm (fun a => Q a (Some sr)) (mkseg x (Some sr)).
Hypothesis Hseg0 : forall x, sp Adm (fun a => Q a None) (mkseg x None).

Notation gstate := (gstate A).
Notation cur_group := (@cur_group A).
Notation add_child := (add_child A nm acceptance).
Notation open_group := (open_group t A nm acceptance).
Notation open_groups := (open_groups t A nm acceptance).
Notation reopen_group := (reopen_group t A nm acceptance).
Notation place := (place X A mkseg nm acceptance).
Notation after_found := (after_found t X A raw mkseg nm acceptance root).
Notation attempts := (attempts t X A raw mkseg nm acceptance root).
Notation step := (step t X A raw mkseg nm acceptance root).
Notation run := (run t X A raw mkseg nm acceptance root).
Notation sspine := (st_spine A).
Notation sclosed := (st_closed A).
Notation stack_of := (stack_of root).
Notation sound := (sound_tree t X A raw mkseg).
Notation segs := (seg_all A Q).
Notation mirror := (mirror t A root).
Notation path_entries := (path_entries A).
Notation sp := (sp Adm).

Lemma chain_gref ex : forall r, gref r -> chain t r ex ->
  gref (last_ref r ex) /\ Forall (fun p => gref (snd p)) ex.
Proof.
  induction ex as [|[g gr] ex IH]; intros r Hr Hc; [split; [exact Hr|constructor]|].
  destruct Hc as [Hd Hc]. destruct (Hgrp r g gr Hr Hd) as [Hg _]. rewrite last_ref_cons.
  destruct (IH gr Hg Hc) as [H1 H2]. split; [exact H1|]. constructor; [exact Hg|exact H2].
Qed.

Lemma Htab : groups_by_name t root.
Proof.
  intros ex g gr Hc Hd. destruct (chain_gref ex root Hroot Hc) as [Hl _].
  exact (proj2 (Hgrp _ g gr Hl Hd)).
Qed.

Lemma cur_group_safe s : sspine s -> exists c, cur_group s = Ok c.
Proof.
  unfold st_spine, Groups.cur_group. intros Hs. destruct (g_path s) as [|i p] eqn:Ep; [eauto|].
  destruct (spine_group A (i :: p) (g_forest s)) as (n & r & st & cs & E1 & _); [discriminate|exact Hs|].
  rewrite E1. eauto.
Qed.

Lemma cur_group_at s n r st cs : cur_group s = Ok (Some (n, r, st, cs)) ->
  group_at (g_path s) (g_forest s) = Some (n, r, st, cs).
Proof.
  unfold Groups.cur_group. destruct (g_path s) as [|i p]; [discriminate|].
  destruct (group_at (i :: p) (g_forest s)); [now intros [= ->]|discriminate].
Qed.

Lemma cur_group_top s : cur_group s = Ok None -> g_path s = [].
Proof.
  unfold Groups.cur_group. destruct (g_path s) as [|i p]; [reflexivity|].
  destruct (group_at (i :: p) (g_forest s)); discriminate.
Qed.

Lemma add_child_safe s x : sspine s -> sp TT (add_child s x).
Proof.
  intros Hs. unfold Groups.add_child. destruct (cur_group_safe s Hs) as [c ->]. cbn [bind].
  apply (sp_bind Adm TT).
  - destruct c as [[[[n r] st] cs]|]; [apply Hadm|exact I].
  - intros _ _. exact I.
Qed.

Lemma open_group_safe s n r : sspine s -> (exists st, parse_structure t r = Ok st) -> sp TT (open_group s n r).
Proof.
  intros Hs [st Hst]. unfold Groups.open_group. rewrite Hst. cbn [bind].
  destruct (cur_group_safe s Hs) as [c ->]. cbn [bind].
  apply (sp_bind Adm TT); [now apply add_child_safe|]. intros; exact I.
Qed.

Lemma open_groups_safe ex : forall s, sspine s -> Forall (fun p => gref (snd p)) ex ->
  sp TT (open_groups s (map some_e ex)).
Proof.
  induction ex as [|[g gr] ex IH]; intros s Hs Hg; [exact I|].
  cbn [map some_e fst snd Groups.open_groups]. inversion Hg as [|? ? Hg1 Hg2]; subst.
  apply (sp_bind_eq Adm TT); [apply open_group_safe; [exact Hs|now apply Hps]|].
  intros s1 E1 _. apply IH; [|exact Hg2].
  exact (proj1 (open_group_spine t A nm acceptance _ _ _ _ Hs E1)).
Qed.

(* the branch taken once the reference has been found *)
Lemma after_found_safe x sr s ex extra :
  sclosed s -> g_stack s = stack_of (ex ++ extra) -> chain t root (ex ++ extra) ->
  path_entries (g_path s) (g_forest s) = Some ex ->
  Forall (sound root) (g_forest s) -> Forall segs (g_forest s) ->
  declared t (last_ref root (ex ++ extra)) SEG (raw x) sr -> sr <> SBad ->
  sp (fun s' => Forall segs (g_forest s')) (after_found x sr s).
Proof.
  intros Hc Hst Hch He Hf Hq Hd Hnb.
  pose proof (chain_good t (ex ++ extra) root Htab Hch) as Hgood.
  pose proof (Hdist _ Hch) as Hnd.
  destruct (chain_gref _ root Hroot Hch) as [Hlast Hall].
  assert (Hsp : sspine s) by apply Hc.
  unfold Groups.after_found.
  destruct (cur_group_safe s Hsp) as [c Ec]. rewrite Ec. cbn [bind]. rewrite Hst.
  destruct (last_entry_cons (None, root) (map some_e (ex ++ extra))) as [top Et].
  change ((None, root) :: map some_e (ex ++ extra)) with (stack_of (ex ++ extra)) in Et.
  rewrite Et. cbn [bind].
  destruct (last_entry_stack root _ _ Et) as (Etop & Hcase).
  apply (sp_bind Adm (fun s2 => sspine s2 /\ Forall segs (g_forest s2))).
  - destruct c as [[[[n r] st] cs]|].
    + pose proof (cur_group_at _ _ _ _ _ Ec) as Hga.
      destruct (path_entries_group _ _ _ _ _ _ _ _ He Hga) as (ex0 & ->).
      destruct (group_at_sound t X A raw mkseg acceptance root _ root _ _ _ _ _ Hf Hga) as (Hr & pr' & Hr' & Hnode).
      apply sound_tree_GG in Hnode. destruct Hnode as ((Hdn & Hgn) & Hpst & Hcs).
      destruct (negb (opt_eqb (fst top) (Some n))) eqn:Eneq.
      * destruct (index_of_in (Some n, r) (stack_of ((ex0 ++ [(n, r)]) ++ extra))) with (i0 := 0) as [i Ei].
        { right. apply in_map_iff. exists (n, r). split; [reflexivity|].
          apply in_or_app. left. apply in_or_app. right. now left. }
        rewrite Ei.
        destruct (index_of_nth _ _ _ _ Ei) as (j & y & -> & Hn & Hy).
        unfold entry_eqb in Hy. apply andb_prop in Hy. destruct Hy as [Hy _]. apply opt_eqb_eq in Hy.
        destruct j as [|j]; [cbn in Hn; injection Hn as <-; discriminate|].
        cbn [GroupsFacts.stack_of nth_error] in Hn. rewrite nth_error_map in Hn.
        destruct (nth_error ((ex0 ++ [(n, r)]) ++ extra) j) as [[g gr]|] eqn:Ej; [|discriminate].
        cbn in Hn. injection Hn as <-. cbn in Hy. injection Hy as ->.
        assert (Ek : nth_error ((ex0 ++ [(n, r)]) ++ extra) (length ex0) = Some (n, r)).
        { rewrite <- app_assoc. rewrite nth_error_app2 by lia. now rewrite Nat.sub_diag. }
        assert (j = length ex0) by exact (NoDup_fst_nth _ _ _ _ _ _ Hnd Ej Ek). subst j.
        change (skipn (S (0 + S (length ex0))) (stack_of ((ex0 ++ [(n, r)]) ++ extra)))
          with (skipn (S (length ex0)) (map some_e ((ex0 ++ [(n, r)]) ++ extra))).
        rewrite skipn_map.
        assert (Esk : skipn (S (length ex0)) ((ex0 ++ [(n, r)]) ++ extra) = extra).
        { replace (S (length ex0)) with (length (ex0 ++ [(n, r)]) + 0) by (rewrite app_length; cbn; lia).
          now rewrite skipn_app, Nat.add_0_r, skipn_all, Nat.sub_diag. }
        rewrite Esk.
        assert (Hge : Forall (fun p => gref (snd p)) extra) by (apply Forall_app in Hall; tauto).
        eapply sp_post; [apply (open_groups_safe extra s Hsp Hge)|].
        intros s2 E2 _. split.
        -- exact (proj1 (open_groups_spine t A nm acceptance _ _ _ Hsp E2)).
        -- exact (open_groups_seg_all t A nm acceptance Q _ _ _ Hq E2).
      * apply negb_false_iff in Eneq. apply opt_eqb_eq in Eneq.
        assert (Eextra : extra = []).
        { destruct (list_snoc_cases extra) as [->|(extra' & [g gr] & ->)]; [reflexivity|]. exfalso.
          destruct Hcase as [[E0 _]|(ex' & g' & Eex & E0)].
          - destruct ex0; discriminate.
          - rewrite E0 in Eneq. injection Eneq as ->.
            rewrite app_assoc in Eex. apply app_inj_tail in Eex. destruct Eex as [_ Eex]. injection Eex as -> _.
            assert (E1 : nth_error ((ex0 ++ [(n, r)]) ++ extra' ++ [(n, gr)]) (length ex0) = Some (n, r)).
            { rewrite <- app_assoc. rewrite nth_error_app2 by lia. now rewrite Nat.sub_diag. }
            assert (E2 : nth_error ((ex0 ++ [(n, r)]) ++ extra' ++ [(n, gr)])
                                   (length (ex0 ++ [(n, r)]) + length extra') = Some (n, gr)).
            { rewrite nth_error_app2 by lia.
              replace (length (ex0 ++ [(n, r)]) + length extra' - length (ex0 ++ [(n, r)]))
                with (length extra') by lia. rewrite nth_error_app2 by lia. now rewrite Nat.sub_diag. }
            pose proof (NoDup_fst_nth _ _ _ _ _ _ Hnd E1 E2) as Ec'. rewrite app_length in Ec'. cbn in Ec'. lia. }
        subst extra. rewrite app_nil_r in *.
        destruct (smem (raw x) (map (child_name nm) cs)); [|now split].
        assert (Elr : last_ref root (ex0 ++ [(n, r)]) = r).
        { rewrite last_ref_app, last_ref_cons. reflexivity. }
        rewrite Elr in Hd.
        destruct (repetitions_of st (raw x)) as [[mn mx]|] eqn:Er;
          [|exfalso; exact (declared_reps t r st SEG (raw x) sr Hpst Hd Er)].
        destruct (mx =? 1)%Z; [|now split].
        unfold Groups.reopen_group. rewrite Ec. cbn [bind].
        set (up := mk_gstate (g_stack s) (removelast (g_path s)) (g_forest s)).
        assert (Hup : sspine up).
        { unfold st_spine, up. cbn [g_path g_forest]. apply (closed_removelast A (g_path s) (g_forest s) Hc). }
        eapply sp_post; [apply (open_group_safe up n r Hup); eauto|].
        intros s2 E2 _. split.
        -- exact (proj1 (open_group_spine t A nm acceptance _ _ _ _ Hup E2)).
        -- exact (open_group_seg_all t A nm acceptance Q up n r s2 Hq E2).
    + pose proof (cur_group_top _ Ec) as Hp.
      assert (Eex : ex = []).
      { pose proof (path_entries_length _ _ _ _ He) as El. rewrite Hp in El. now destruct ex. }
      subst ex. cbn [app] in *.
      destruct (opt_is_some (fst top)); [|now split].
      unfold GroupsFacts.stack_of at 1. cbn [index_of]. rewrite entry_eqb_refl.
      change (skipn 1 (stack_of extra)) with (map some_e extra).
      eapply sp_post; [apply (open_groups_safe extra s Hsp Hall)|].
      intros s2 E2 _. split.
      * exact (proj1 (open_groups_spine t A nm acceptance _ _ _ Hsp E2)).
      * exact (open_groups_seg_all t A nm acceptance Q _ _ _ Hq E2).
  - intros s2 [Hsp2 Hq2]. unfold Groups.place.
    apply (sp_bind Adm (fun a => Q a (Some sr))); [exact (Hseg _ x sr Hlast Hd Hnb)|].
    intros a Ha. eapply sp_post; [apply (add_child_safe s2 (GS a (Some sr)) Hsp2)|].
    intros s' E' _. exact (add_child_seg_all A nm acceptance Q s2 (GS a (Some sr)) s' Hq2 Ha E').
Qed.

(* the state between two input items *)
Definition inv (s : gstate) : Prop :=
  sclosed s /\ (exists ex, mirror s ex) /\ Forall (sound root) (g_forest s) /\ Forall segs (g_forest s).

Lemma attempts_safe n x : forall s ex, sclosed s -> mirror s ex -> n = S (length ex) ->
  Forall (sound root) (g_forest s) -> Forall segs (g_forest s) ->
  sp (fun r => match r with Some s' => inv s' | None => True end) (attempts n x s).
Proof.
  induction n as [|n IH]; intros s ex Hc (Hst & Hch & He) Hn Hf Hq; [discriminate|]. injection Hn as ->.
  cbn [Groups.attempts]. rewrite Hst.
  destruct (last_entry_cons (None, root) (map some_e ex)) as [top Et].
  change ((None, root) :: map some_e ex) with (stack_of ex) in Et. rewrite Et. cbn [bind].
  destruct (last_entry_stack root _ _ Et) as (Etop & Hcase).
  destruct (chain_gref _ root Hroot Hch) as [Hlast _].
  destruct (Hsearch (raw x) (snd top)) as [y Ey]; [now rewrite Etop|]. rewrite Ey. cbn [bind].
  destruct y as [[sr extra]|].
  - rewrite Etop in Ey. destruct (search_sound _ _ _ _ _ _ Ey) as (Hce & Hd).
    pose proof (search_not_bad _ _ _ _ _ _ Ey) as Hnb.
    assert (Est : stack_of ex ++ map (fun p : str * sref => (Some (fst p), snd p)) extra = stack_of (ex ++ extra)).
    { unfold GroupsFacts.stack_of. rewrite map_app. reflexivity. }
    rewrite Est.
    assert (Hch' : chain t root (ex ++ extra)) by now apply (chain_app t).
    assert (Hd' : declared t (last_ref root (ex ++ extra)) SEG (raw x) sr) by now rewrite last_ref_app.
    set (s0 := mk_gstate (stack_of (ex ++ extra)) (g_path s) (g_forest s)).
    apply (sp_bind_eq Adm (fun s' => Forall segs (g_forest s'))).
    + apply (after_found_safe x sr s0 ex extra); try assumption; reflexivity.
    + intros s1 E1 Hq1. cbn. split; [|split; [|split]].
      * exact (proj1 (after_found_closed t X A raw mkseg nm acceptance root x sr s0 s1 Hc E1)).
      * exists (ex ++ extra).
        apply (after_found_mirror t X A raw mkseg nm acceptance root Htab Hdist x sr s0 s1 ex extra); try assumption; reflexivity.
      * apply (after_found_sound t X A raw mkseg nm acceptance root Htab x sr s0 s1 (ex ++ extra)); try assumption; reflexivity.
      * exact Hq1.
  - pose proof (path_entries_length _ _ _ _ He) as El. destruct (g_path s) as [|i p] eqn:Ep.
    + destruct ex; [|discriminate]. exact I.
    + destruct (list_snoc_cases ex) as [->|(ex' & q & ->)]; [discriminate|].
      apply (IH _ ex'); [| |rewrite app_length; cbn; lia|exact Hf|exact Hq].
      * unfold st_closed. cbn [g_path g_forest]. rewrite <- Ep. now apply closed_removelast.
      * split; [|split]; cbn [g_stack g_path g_forest].
        -- unfold GroupsFacts.stack_of. rewrite map_app. cbn [map].
           change ((None, root) :: map some_e ex' ++ [some_e q])
             with (((None, root) :: map some_e ex') ++ [some_e q]).
           now rewrite removelast_last.
        -- apply (chain_removelast t _ root) in Hch. now rewrite removelast_last in Hch.
        -- rewrite (path_entries_removelast _ _ _ _ He). now rewrite removelast_last.
Qed.

Lemma step_safe s x : inv s -> sp inv (step s x).
Proof.
  intros (Hc & (ex & Hm) & Hf & Hq). unfold Groups.step.
  assert (El : length (g_stack s) = S (length ex)).
  { destruct Hm as (-> & _). unfold GroupsFacts.stack_of. cbn. now rewrite map_length. }
  rewrite El.
  apply (sp_bind Adm (fun r => match r with Some s' => inv s' | None => True end)).
  - now apply (attempts_safe _ x s ex).
  - intros [s'|] H; [exact H|]. unfold Groups.place.
    apply (sp_bind Adm (fun a => Q a None)); [apply Hseg0|]. intros a Ha.
    eapply sp_post; [apply (add_child_safe s (GS a None) (proj1 Hc))|].
    intros s' E' _. destruct (add_child_eq _ _ _ _ _ _ E') as (E1 & E2 & E3).
    split; [|split; [|split]].
    + unfold st_closed. rewrite E2, E3. apply append_seg_closed. exact (proj1 Hc).
    + exists ex. destruct Hm as (M1 & M2 & M3). split; [congruence|]. split; [exact M2|].
      rewrite E2, E3. now rewrite path_entries_append.
    + rewrite E3. destruct (spine_ref_at A _ root _ (proj1 Hc)) as (cr & Hr).
      apply (append_sound t X A raw mkseg _ root _ _ cr); [exact Hf|exact Hr|exact I].
    + rewrite E3. apply append_seg_all; [exact Hq|exact Ha].
Qed.

Lemma run_safe xs : forall s, inv s -> sp inv (run xs s).
Proof.
  induction xs as [|x xs IH]; intros s Hi; [exact Hi|]. cbn [Groups.run].
  apply (sp_bind Adm inv); [now apply step_safe|]. intros s' Hi'. now apply IH.
Qed.

(* the search as a whole: a forest all of whose segments satisfy Q, or an acceptable exception *)
Theorem find_groups_safe xs :
  sp (fun f => Forall segs f /\ Forall (ne_tree A) f) (find_groups t X A raw mkseg nm acceptance root xs).
Proof.
  unfold find_groups. apply (sp_bind Adm inv).
  - apply run_safe. split; [split; constructor|]. split; [|split; constructor].
    exists []. split; [reflexivity|]. split; [exact I|reflexivity].
  - intros s (Hc & _ & _ & Hq). split; [exact Hq|exact (proj2 Hc)].
Qed.
End Safe.
Print Assumptions find_groups_safe.

(* ------------------------------------------------------------------ *)
(* the table premise, as one boolean check *)

Section Check.
Variable t : tables.

(* a row of a message / group reference: written by name and defined in its table; a GRP row has an
   upper-case name not used by an enclosing group and leads to a reference of the same kind; the
   v2.1 ORU_R03 groups carry SEG rows without reference (c[1] is None), which the search skips *)
Definition grow_ok (rec : str -> sref -> bool) (seen : list str) (x : srow) : bool :=
  match x with
  | SByName GRP g _ _ =>
      streqb (upper g) g && negb (smem g seen) &&
      match slookup g (t_groups t) with Some gr => rec g gr | None => false end
  | SByName k n _ _ => opt_is_some (slookup n (table_of t k))
  | SIn SEG _ SBad _ _ => true
  | _ => false
  end.
(* false at fuel 0: gref_ok n [] r bounds the nesting depth of the groups below r by n *)
Fixpoint gref_ok (fuel : nat) (seen : list str) (r : sref) : bool :=
  match fuel with
  | O => false
  | S f => match r with
           | SSeqIn _ rows _ => forallb (grow_ok (fun g gr => gref_ok f (g :: seen) gr) seen) rows
           | _ => false
           end
  end.
(* keys of the segment table of at most 3 characters are upper case without white space *)
Definition seg_keys_ok : bool :=
  forallb (fun p : str * sref => Nat.ltb 3 (length (fst p)) ||
     (streqb (upper (fst p)) (fst p) && forallb (fun c => negb (is_space c)) (fst p))) (t_segments t).
Definition grp_tables_ok : bool :=
  forallb (fun p : str * sref => gref_ok 12 [] (snd p)) (t_messages t) && seg_keys_ok.

Lemma grow_ok_inv rec seen x : grow_ok rec seen x = true ->
  (exists g mn mx gr, x = SByName GRP g mn mx /\ upper g = g /\ smem g seen = false /\
                      slookup g (t_groups t) = Some gr /\ rec g gr = true) \/
  (exists k n mn mx sr, x = SByName k n mn mx /\ k <> GRP /\ slookup n (table_of t k) = Some sr) \/
  (exists n mn mx, x = SIn SEG n SBad mn mx).
Proof.
  destruct x as [k n mn mx|k n r mn mx|]; cbn [grow_ok]; [| |discriminate].
  - destruct k.
    + intros H. right. left. destruct (slookup n (table_of t SEG)) as [sr|] eqn:El; [|discriminate].
      exists SEG, n, mn, mx, sr. split; [reflexivity|split; [discriminate|exact El]].
    + intros H. left. apply andb_prop in H. destruct H as [H H3]. apply andb_prop in H. destruct H as [H1 H2].
      destruct (slookup n (t_groups t)) as [gr|] eqn:El; [|discriminate].
      exists n, mn, mx, gr. split; [reflexivity|]. split; [now apply streqb_eq|]. split; [now apply negb_true_iff|]. split; [exact El|exact H3].
    + intros H. right. left. destruct (slookup n (table_of t FIE)) as [sr|] eqn:El; [|discriminate].
      exists FIE, n, mn, mx, sr. split; [reflexivity|split; [discriminate|exact El]].
    + intros H. right. left. destruct (slookup n (table_of t CMP)) as [sr|] eqn:El; [|discriminate].
      exists CMP, n, mn, mx, sr. split; [reflexivity|split; [discriminate|exact El]].
  - destruct k; try discriminate. destruct r; try discriminate. intros _. right. right. eauto.
Qed.

Definition gref (r : sref) : Prop := exists n seen, n <= search_fuel /\ gref_ok n seen r = true.

Lemma gref_rows r : gref r -> exists c rows i n seen, r = SSeqIn c rows i /\ n < search_fuel /\
  forall x, In x rows -> grow_ok (fun g gr => gref_ok n (g :: seen) gr) seen x = true.
Proof.
  intros (n & seen & Hn & H). destruct n as [|n]; [discriminate|]. cbn [gref_ok] in H.
  destruct r as [i|i|c rows i|]; try discriminate. exists c, rows, i, n, seen.
  split; [reflexivity|]. split; [lia|]. now apply forallb_forall.
Qed.

Lemma gref_grp r g gr : gref r -> declared t r GRP g gr -> gref gr /\ good t g gr.
Proof.
  intros Hr (rows' & x & Hrows & Hin & Hk & Href).
  destruct (gref_rows r Hr) as (c & rows & i & n & seen & -> & Hn & Hall).
  cbn [rows_of] in Hrows. injection Hrows as <-.
  destruct (grow_ok_inv _ _ _ (Hall x Hin)) as [(g' & mn & mx & gr' & -> & Hu & _ & Hl & Hrec)|
    [(k & n' & mn & mx & sr & -> & Hne & _)|(n' & mn & mx & ->)]]; cbn [row_name_kind] in Hk.
  - injection Hk as <-. unfold Groups.row_ref in Href. cbn [row_view table_of] in Href. rewrite Hl in Href.
    cbn [vc_ref] in Href. injection Href as <-. split; [|split; assumption].
    exists n, (g' :: seen). split; [lia|exact Hrec].
  - injection Hk as -> _. congruence.
  - discriminate.
Qed.

Lemma gref_seg r n sr : gref r -> declared t r SEG n sr -> sr <> SBad -> slookup n (t_segments t) = Some sr.
Proof.
  intros Hr (rows' & x & Hrows & Hin & Hk & Href) Hnb.
  destruct (gref_rows r Hr) as (c & rows & i & f & seen & -> & Hn & Hall).
  cbn [rows_of] in Hrows. injection Hrows as <-.
  destruct (grow_ok_inv _ _ _ (Hall x Hin)) as [(g' & mn & mx & gr' & -> & _)|
    [(k & n' & mn & mx & sr' & -> & Hne & Hl)|(n' & mn & mx & ->)]]; cbn [row_name_kind] in Hk.
  - discriminate.
  - injection Hk as -> ->. unfold Groups.row_ref in Href. cbn [row_view] in Href. rewrite Hl in Href.
    cbn [vc_ref] in Href. injection Href as <-. exact Hl.
  - unfold Groups.row_ref in Href. cbn [row_view vc_ref] in Href. injection Href as <-. congruence.
Qed.

Lemma gref_parse r : gref r -> exists st, parse_structure t r = Ok st.
Proof.
  intros Hr. destruct (gref_rows r Hr) as (c & rows & i & f & seen & -> & Hn & Hall).
  unfold parse_structure. cbn [view_of].
  destruct (parse_children_total (map (row_view t) rows)) with (seen := @nil str) (ord := @nil str)
    (byn := @nil (str * sentry)) (byl := @nil (option str * sentry)) (reps := @nil (str * (Z * Z)))
    as [[[[o b] l] rp] E].
  { intros o Ho. apply in_map_iff in Ho. destruct Ho as [x [<- Hx]].
    destruct (grow_ok_inv _ _ _ (Hall x Hx)) as [(g' & mn & mx & gr' & -> & _ & _ & Hl & _)|
      [(k & n' & mn & mx & sr' & -> & _ & Hl)|(n' & mn & mx & ->)]]; cbn [row_view table_of]; try rewrite Hl; discriminate. }
  rewrite E. eauto.
Qed.

Lemma scan_rows_total rec seen name rows : (forall x, In x rows -> grow_ok rec seen x = true) ->
  forall acc, exists hit gs, scan_rows t name rows acc = Ok (hit, gs).
Proof.
  induction rows as [|x rows IH]; intros Hall acc; cbn [scan_rows]; [eauto|].
  assert (Hrest : forall y, In y rows -> grow_ok rec seen y = true) by (intros y Hy; apply Hall; now right).
  destruct (grow_ok_inv _ _ _ (Hall x (or_introl eq_refl))) as [(g' & mn & mx & gr' & -> & _)|
    [(k & n' & mn & mx & sr' & -> & Hne & Hl)|(n' & mn & mx & ->)]]; cbn [row_name_kind].
  - now apply IH.
  - destruct k; try (now apply IH).
    destruct (streqb n' name); [|now apply IH].
    unfold Groups.row_ref. cbn [row_view]. rewrite Hl. cbn [bind vc_ref]. destruct sr'; eauto.
  - destruct (streqb n' name); [|now apply IH].
    unfold Groups.row_ref. cbn [row_view bind vc_ref]. eauto.
Qed.

Lemma try_groups_total (srch : sref -> result (option (sref * list (str * sref)))) rec seen gs :
  (forall x, In x gs -> grow_ok rec seen x = true /\ exists g, row_name_kind x = Some (GRP, g)) ->
  (forall g gr, rec g gr = true -> exists y, srch gr = Ok y) ->
  exists y, try_groups t srch gs = Ok y.
Proof.
  intros Hall Hrec. induction gs as [|x gs IH]; cbn [try_groups]; [eauto|].
  assert (Hrest : exists y, try_groups t srch gs = Ok y) by (apply IH; intros y Hy; apply Hall; now right).
  destruct (Hall x (or_introl eq_refl)) as [Hx [g Hg]].
  destruct (grow_ok_inv _ _ _ Hx) as [(g' & mn & mx & gr' & -> & _ & _ & Hl & Hr)|
    [(k & n' & mn & mx & sr' & -> & Hne & _)|(n' & mn & mx & ->)]]; cbn [row_name_kind] in Hg |- *.
  - unfold Groups.row_ref. cbn [row_view table_of]. rewrite Hl. cbn [bind vc_ref].
    destruct (Hrec g' gr' Hr) as [y ->]. cbn [bind]. destruct y as [[sr ex]|]; [eauto|exact Hrest].
  - injection Hg as -> _. congruence.
  - discriminate.
Qed.

Lemma search_total n : forall seen r name fuel, gref_ok n seen r = true -> n <= fuel ->
  exists y, search t fuel name r = Ok y.
Proof.
  induction n as [|n IH]; intros seen r name fuel H Hle; [discriminate|].
  destruct fuel as [|f]; [lia|]. cbn [gref_ok] in H. destruct r as [i|i|c rows i|]; try discriminate.
  cbn [search rows_of bind].
  assert (Hall : forall x, In x rows -> grow_ok (fun g gr => gref_ok n (g :: seen) gr) seen x = true)
    by now apply forallb_forall.
  destruct (scan_rows_total _ seen name rows Hall []) as (hit & gs & Es). rewrite Es. cbn [bind].
  destruct hit as [sr|]; [eauto|].
  apply (try_groups_total _ (fun g gr => gref_ok n (g :: seen) gr) seen).
  - intros x Hx. destruct (proj2 (scan_rows_spec t _ _ _ _ _ Es) x Hx) as [[]|[Hin Hg]]. split; [now apply Hall|exact Hg].
  - intros g gr Hr. apply (IH (g :: seen)); [exact Hr|lia].
Qed.

Lemma gref_search name r : gref r -> exists y, search t search_fuel name r = Ok y.
Proof. intros (n & seen & Hn & H). exact (search_total n seen r name search_fuel H Hn). Qed.

Lemma gref_ok_distinct n : forall seen r, gref_ok n seen r = true -> names_distinct t n seen r = true.
Proof.
  induction n as [|n IH]; intros seen r H; [discriminate|]. cbn [gref_ok] in H.
  destruct r as [i|i|c rows i|]; try discriminate. cbn [names_distinct rows_of].
  apply forallb_forall. intros x Hx. apply (proj1 (forallb_forall _ _) H) in Hx.
  destruct (grow_ok_inv _ _ _ Hx) as [(g' & mn & mx & gr' & -> & _ & Hs & Hl & Hr)|
    [(k & n' & mn & mx & sr' & -> & Hne & _)|(n' & mn & mx & ->)]]; cbn [row_name_kind].
  - rewrite Hs. cbn [negb andb]. unfold Groups.row_ref. cbn [row_view table_of]. rewrite Hl. cbn [vc_ref].
    now apply IH.
  - destruct k; congruence.
  - reflexivity.
Qed.

Lemma seg_keys_sound n sr : seg_keys_ok = true -> slookup n (t_segments t) = Some sr -> length n <= 3 ->
  upper n = n /\ forallb (fun c => negb (is_space c)) n = true.
Proof.
  intros Hk Hl Hlen. unfold seg_keys_ok in Hk. rewrite forallb_forall in Hk.
  specialize (Hk _ (slookup_in _ _ _ Hl)). cbn [fst] in Hk.
  apply orb_prop in Hk. destruct Hk as [Hk|Hk]; [apply Nat.ltb_lt in Hk; lia|].
  apply andb_prop in Hk. destruct Hk as [H1 H2]. split; [now apply streqb_eq|exact H2].
Qed.
End Check.

(* the check holds for every shipped version (kernel-evaluated) *)
Lemma all_grp_tables_ok : forallb (fun p => grp_tables_ok (snd p)) all_tables = true.
Proof. vm_cast_no_check (@eq_refl bool true). Qed.

(* ------------------------------------------------------------------ *)
(* a property of every segment of a list of Group/Message children *)
Fixpoint nall (P : seg -> Prop) (n : node) : Prop :=
  match n with
  | NSeg s => P s
  | NGrp _ _ cs => (fix all (l : list node) : Prop :=
                      match l with [] => True | y :: r => nall P y /\ all r end) cs
  end.
Lemma nall_NGrp P a b cs : nall P (NGrp a b cs) <-> Forall (nall P) cs.
Proof.
  cbn [nall]. induction cs as [|y cs IH]; split; intros H.
  - constructor.
  - exact I.
  - destruct H as [H1 H2]. constructor; [exact H1 | now apply IH].
  - inversion H; subst. split; [assumption | now apply IH].
Qed.

Lemma node_of_nall (P : seg -> Prop) (x : gtree seg) :
  seg_all seg (fun a _ => P a) x -> nall P (node_of x).
Proof.
  induction x as [a r | n r st cs IH] using gtree_ind'; intros H; [exact H|].
  cbn [node_of]. apply nall_NGrp. apply seg_all_GG in H. rewrite Forall_forall in *.
  intros y Hy. apply in_map_iff in Hy. destruct Hy as [z [<- Hz]]. exact (IH z Hz (H z Hz)).
Qed.

(* ------------------------------------------------------------------ *)
(* segment level: parse_segments(text, ..., references=root, find_groups=True) *)

Section Grouped.
Variable Adm : exn -> Prop.
Hypothesis AdmH : forall c, Adm (HL7 c).
Variable t : tables.
Hypothesis Hst : base t (Some (unbs "ST")) = true.
Hypothesis Hfields : forall n r, slookup n (t_fields t) = Some r -> ref_ok t r.
Hypothesis Hcomps : forall n r, slookup n (t_components t) = Some r -> ref_ok t r.
Hypothesis Hsegs : forall n r, length n <= 3 -> slookup n (t_segments t) = Some r -> seg_good t n r.
Hypothesis Hkeys : seg_keys_ok t = true.
Variable lvl : level.
Variable e : ec.
Variable leaf : option str -> str -> result str.
Hypothesis Hleaf : forall dt s, sp Adm TT (leaf dt s).

(* what the encoder needs of a segment *)
Definition encodable (a : seg) : Prop := forall e' trailing, exists x, enc_segment t e' a trailing = Ok x.

Lemma group_acceptance_safe p have c : sp Adm TT (group_acceptance t lvl p have c).
Proof.
  destruct p as [[n r] st]. unfold group_acceptance, child_acceptance. apply (sp_bind Adm TT).
  - unfold find_child_check.
    repeat match goal with |- sp _ _ (if ?b then _ else _) => destruct b end; first [exact I|apply AdmH].
  - intros _ _. destruct (child_card_ok _ _ _ _); first [exact I|apply AdmH].
Qed.

Lemma seg_of_piece_safe s : sp Adm encodable (seg_of_piece t lvl e leaf s None).
Proof. unfold seg_of_piece. apply (parse_segment_safe Adm AdmH t Hst Hfields Hcomps Hsegs lvl e leaf Hleaf). Qed.

Lemma seg_of_piece_safe_ref r s sr : gref t r -> declared t r SEG (take 3 s) sr -> sr <> SBad ->
  sp Adm encodable (seg_of_piece t lvl e leaf s (Some sr)).
Proof.
  intros Hr Hd Hnb. pose proof (gref_seg t r _ sr Hr Hd Hnb) as Hl.
  assert (Hlen : length (take 3 s) <= 3) by (unfold take; apply firstn_le_length).
  pose proof (Hsegs _ _ Hlen Hl) as Hg.
  assert (H3 : length (take 3 s) = 3) by (destruct Hg as (rows & _ & H3 & _); exact H3).
  destruct (seg_keys_sound t _ sr Hkeys Hl Hlen) as [Hup Hns].
  unfold seg_of_piece.
  apply (parse_segment_safe_ref Adm AdmH t Hst Hfields Hcomps Hsegs lvl e leaf Hleaf).
  intros r0 E0. injection E0 as <-. unfold seg_name_of.
  rewrite (Proofs.RoundTripMsg.take3_strip s (take 3 s) eq_refl H3 Hns), Hup. exact Hg.
Qed.

Theorem parse_segments_grouped_safe root text : gref t root ->
  (forall ex, chain t root ex -> NoDup (map fst ex)) ->
  sp Adm (Forall (nall encodable)) (parse_segments_grouped t lvl e leaf root text).
Proof.
  intros Hroot Hdist. unfold parse_segments_grouped, parse_segments_grouped_trees.
  apply (sp_bind Adm (fun f => Forall (seg_all seg (fun a _ => encodable a)) f /\ Forall (ne_tree seg) f)).
  - apply (find_groups_safe Adm t str seg (take 3) (seg_of_piece t lvl e leaf) s_name (group_acceptance t lvl)
             root (fun a _ => encodable a) (gref t)).
    + exact Hroot.
    + intros r g gr. apply gref_grp.
    + apply gref_parse.
    + intros name r. apply gref_search.
    + exact Hdist.
    + apply group_acceptance_safe.
    + intros r x sr. apply seg_of_piece_safe_ref.
    + apply seg_of_piece_safe.
  - intros f [Hf _]. cbn. rewrite Forall_forall in *. intros y Hy. apply in_map_iff in Hy.
    destruct Hy as [z [<- Hz]]. apply node_of_nall. exact (Hf z Hz).
Qed.

(* parse_segments(..., find_groups=False), with the encoder's premise *)
Lemma parse_flat_enc ps : sp Adm (Forall (nall encodable)) (parse_flat t lvl e leaf ps).
Proof.
  induction ps as [|s r IH]; [constructor|]. cbn [parse_flat].
  apply (sp_bind Adm encodable); [apply seg_of_piece_safe|]. intros x Hx.
  apply (sp_bind Adm (Forall (nall encodable))); [exact IH|]. intros xs Hxs. cbn. constructor; assumption.
Qed.
End Grouped.
Print Assumptions parse_segments_grouped_safe.
