(* Facts about Model/Groups.v: the current parent is always the right-most spine of the forest, so
   flattening the forest gives the parsed segments in input order; no group is left empty, so the
   insertion-order encoding of the forest is the encoding of its flattening. *)
From Coq Require Import List Bool Arith ZArith NArith Lia Init.Byte.
From HL7 Require Import Lib.Str Model.Ec Model.Result Model.Ref Model.Tree Model.Parser Model.MsgTree
                        Model.Groups.
Import ListNotations.
Open Scope bs_scope.
Open Scope res_scope.

(* ---------- generic helpers ---------- *)
Lemma bind_ok {A B} (r : result A) (f : A -> result B) b :
  bind r f = Ok b -> exists a, r = Ok a /\ f a = Ok b.
Proof. destruct r as [a|x]; cbn; [eauto | discriminate]. Qed.

Ltac inv_bind H :=
  let a := fresh "a" in let Ha := fresh "Ha" in
  apply bind_ok in H; destruct H as (a & Ha & H).

Lemma join_app' {B} (c : B) l m : l <> [] -> m <> [] -> join c (l ++ m) = join c l ++ c :: join c m.
Proof.
  induction l as [|x l IH]; [congruence|]. intros _ Hm. destruct l as [|y l].
  - cbn. destruct m; [congruence | reflexivity].
  - cbn [app]. change (join c (x :: y :: l ++ m)) with (x ++ c :: join c ((y :: l) ++ m)).
    rewrite IH by (congruence || assumption).
    change (join c (x :: y :: l)) with (x ++ c :: join c (y :: l)).
    now rewrite <- app_assoc.
Qed.

Lemma join_concat {B} (c : B) (ls : list (list (list B))) :
  Forall (fun l => l <> []) ls -> join c (map (join c) ls) = join c (concat ls).
Proof.
  induction 1 as [|l ls Hl Hls IH]; [reflexivity|]. cbn [map concat].
  destruct ls as [|l2 ls].
  - cbn. now rewrite app_nil_r.
  - assert (Hne : concat (l2 :: ls) <> []).
    { inversion Hls; subst. cbn. destruct l2; [congruence | discriminate]. }
    rewrite join_app' by assumption. rewrite <- IH.
    change (map (join c) (l2 :: ls)) with (join c l2 :: map (join c) ls). reflexivity.
Qed.

Lemma nth_error_snoc {B} (pre : list B) x : nth_error (pre ++ [x]) (length pre) = Some x.
Proof. induction pre; cbn; auto. Qed.

Lemma update_nth_snoc {B} (g : B -> B) pre x : update_nth (length pre) g (pre ++ [x]) = pre ++ [g x].
Proof. induction pre; cbn; congruence. Qed.

Lemma removelast_snoc {B} (l : list B) x : removelast (l ++ [x]) = l.
Proof. apply removelast_last. Qed.

Lemma list_snoc_cases {B} (l : list B) : l = [] \/ exists l' x, l = l' ++ [x].
Proof.
  destruct l as [|a l]; [now left | right].
  destruct (@exists_last _ (a :: l)) as (l' & x & E); [discriminate|]. eauto.
Qed.

(* ---------- forests ---------- *)
Section Forest.
Variable A : Type.

(* induction over the nested type *)
Section Ind.
Variable P : gtree A -> Prop.
Hypothesis HS : forall a r, P (GS a r).
Hypothesis HG : forall n r st cs, Forall P cs -> P (GG n r st cs).
Fixpoint gtree_ind' (x : gtree A) : P x :=
  match x with
  | GS a r => HS a r
  | GG n r st cs =>
      HG n r st cs ((fix go (l : list (gtree A)) : Forall P l :=
                       match l with
                       | [] => Forall_nil P
                       | y :: r => Forall_cons y (gtree_ind' y) (go r)
                       end) cs)
  end.
End Ind.

Lemma gflatten_tree_GG n r st (cs : gforest A) : gflatten_tree (GG n r st cs) = gflatten cs.
Proof. cbn [gflatten_tree]. unfold gflatten. induction cs as [|y cs IH]; cbn; congruence. Qed.

Lemma gflatten_app (f g : gforest A) : gflatten (f ++ g) = gflatten f ++ gflatten g.
Proof. unfold gflatten. apply flat_map_app. Qed.

Lemma gflatten_snoc (f : gforest A) x : gflatten (f ++ [x]) = gflatten f ++ gflatten_tree x.
Proof. rewrite gflatten_app. unfold gflatten at 2. cbn. now rewrite app_nil_r. Qed.

(* every group has a child *)
Fixpoint ne_tree (x : gtree A) : Prop :=
  match x with
  | GS _ _ => True
  | GG _ _ _ cs => cs <> [] /\ (fix all (l : list (gtree A)) : Prop :=
                                 match l with [] => True | y :: r => ne_tree y /\ all r end) cs
  end.
Lemma ne_tree_GG n r st cs : ne_tree (GG n r st cs) <-> cs <> [] /\ Forall ne_tree cs.
Proof.
  cbn [ne_tree].
  assert (E : forall l : list (gtree A),
             (fix all (l : list (gtree A)) : Prop :=
                match l with [] => True | y :: r => ne_tree y /\ all r end) l <-> Forall ne_tree l).
  { induction l as [|y l IH]; split; intros H.
    - constructor.
    - exact I.
    - destruct H as [H1 H2]. constructor; [exact H1 | now apply IH].
    - inversion H; subst. split; [assumption | now apply IH]. }
  rewrite E. reflexivity.
Qed.

(* the path p runs down the LAST children of f, and every group off that path has a child
   (the groups on the path may still be empty) *)
Fixpoint spine (p : list nat) (f : gforest A) : Prop :=
  match p with
  | [] => Forall ne_tree f
  | i :: p' => exists pre n r st cs,
                 f = pre ++ [GG n r st cs] /\ i = length pre /\ Forall ne_tree pre /\ spine p' cs
  end.
(* the forest is complete (no empty group) and p is its right-most spine *)
Definition closed (p : list nat) (f : gforest A) : Prop := spine p f /\ Forall ne_tree f.

Lemma spine_children p : forall f, spine p f -> exists cs, children_at p f = Some cs /\ Forall ne_tree cs.
Proof.
  induction p as [|i p IH]; intros f H.
  - exists f. split; [reflexivity | exact H].
  - destruct H as (pre & n & r & st & cs & -> & -> & Hpre & Hs).
    cbn [children_at]. rewrite nth_error_snoc. now apply IH.
Qed.

Lemma spine_group p : forall f, p <> [] -> spine p f ->
  exists n r st cs, group_at p f = Some (n, r, st, cs) /\ children_at p f = Some cs /\ Forall ne_tree cs.
Proof.
  induction p as [|i p IH]; intros f Hp H; [congruence|].
  destruct H as (pre & n & r & st & cs & -> & -> & Hpre & Hs).
  cbn [children_at]. rewrite nth_error_snoc. destruct p as [|j p].
  - cbn [group_at]. rewrite nth_error_snoc. exists n, r, st, cs. repeat split. exact Hs.
  - change (group_at (length pre :: j :: p) (pre ++ [GG n r st cs]))
      with (match nth_error (pre ++ [GG n r st cs]) (length pre) with
            | Some (GG _ _ _ cs0) => group_at (j :: p) cs0 | _ => None end).
    rewrite nth_error_snoc. apply IH; [discriminate | exact Hs].
Qed.

(* appending at the spine *)
Lemma append_at_spine p : forall f x, spine p f ->
  gflatten (append_at p x f) = gflatten f ++ gflatten_tree x.
Proof.
  induction p as [|i p IH]; intros f x H.
  - cbn [append_at]. apply gflatten_snoc.
  - destruct H as (pre & n & r & st & cs & -> & -> & Hpre & Hs).
    cbn [append_at]. rewrite update_nth_snoc. rewrite !gflatten_snoc, !gflatten_tree_GG.
    rewrite IH by assumption. now rewrite app_assoc.
Qed.

(* a segment appended at the spine closes the forest *)
Lemma append_seg_closed p : forall f a r, spine p f -> closed p (append_at p (GS a r) f).
Proof.
  induction p as [|i p IH]; intros f a r H.
  - cbn [append_at]. split; cbn [spine]; apply Forall_app; split; auto; repeat constructor.
  - destruct H as (pre & n & r0 & st & cs & -> & -> & Hpre & Hs).
    cbn [append_at]. rewrite update_nth_snoc. destruct (IH cs a r Hs) as [H1 H2]. split.
    + cbn [spine]. exists pre, n, r0, st, (append_at p (GS a r) cs). repeat split; assumption.
    + apply Forall_app. split; [assumption|]. constructor; [|constructor].
      apply ne_tree_GG. split; [|assumption].
      destruct p; cbn [append_at]; intros E.
      * now destruct cs.
      * destruct Hs as (pre' & ? & ? & ? & ? & -> & -> & _). rewrite update_nth_snoc in E.
        now destruct pre'.
Qed.

(* an empty group appended at the spine extends the spine *)
Lemma append_group_spine p : forall f n r st cs0, spine p f -> children_at p f = Some cs0 ->
  spine (p ++ [length cs0]) (append_at p (GG n r st []) f).
Proof.
  induction p as [|i p IH]; intros f n r st cs0 H Hc.
  - cbn in Hc. injection Hc as <-. cbn [append_at app spine].
    exists f, n, r, st, []. repeat split; [exact H | constructor].
  - destruct H as (pre & n' & r' & st' & cs & -> & -> & Hpre & Hs).
    cbn [children_at] in Hc. rewrite nth_error_snoc in Hc.
    cbn [append_at]. rewrite update_nth_snoc. cbn [app spine].
    exists pre, n', r', st', (append_at p (GG n r st []) cs). repeat split; [assumption|].
    now apply IH.
Qed.

Lemma closed_removelast p : forall f, closed p f -> closed (removelast p) f.
Proof.
  intros f [Hs Hf]. split; [|exact Hf]. revert f Hs Hf.
  induction p as [|i p IH]; intros f Hs Hf; [exact Hs|].
  destruct p as [|j p]; [exact Hf|].
  destruct Hs as (pre & n & r & st & cs & -> & -> & Hpre & Hs).
  change (removelast (length pre :: j :: p)) with (length pre :: removelast (j :: p)).
  cbn [spine]. exists pre, n, r, st, cs. repeat split; [assumption|].
  apply IH; [exact Hs|]. apply Forall_app in Hf. destruct Hf as [_ Hf]. inversion Hf; subst.
  now apply ne_tree_GG in H1.
Qed.

(* ---------- insertion-order encoding ---------- *)
Variable g : A -> str.
Fixpoint enc_gtree (x : gtree A) : str :=
  match x with
  | GS a _ => g a
  | GG _ _ _ cs => bjoin CR ((fix go (l : list (gtree A)) : list str :=
                                match l with [] => [] | y :: r => enc_gtree y :: go r end) cs)
  end.
Definition enc_gforest (f : gforest A) : str := bjoin CR (map enc_gtree f).
Lemma enc_gtree_GG n r st cs : enc_gtree (GG n r st cs) = enc_gforest cs.
Proof.
  cbn [enc_gtree]. unfold enc_gforest.
  assert (E : forall l : list (gtree A),
            (fix go (l : list (gtree A)) : list str :=
               match l with [] => [] | y :: r => enc_gtree y :: go r end) l = map enc_gtree l).
  { induction l as [|y l IH]; [reflexivity|]. cbn [map]. now rewrite <- IH. }
  now rewrite E.
Qed.

Lemma enc_ne_tree x : ne_tree x ->
  enc_gtree x = bjoin CR (map g (gflatten_tree x)) /\ gflatten_tree x <> [].
Proof.
  induction x as [a r | n r st cs IH] using gtree_ind'; intros H.
  - cbn. split; [reflexivity | discriminate].
  - apply ne_tree_GG in H. destruct H as [Hne Hall].
    rewrite enc_gtree_GG, gflatten_tree_GG. unfold enc_gforest, gflatten.
    assert (E : map enc_gtree cs = map (bjoin CR) (map (fun y => map g (gflatten_tree y)) cs)
                /\ Forall (fun l : list str => l <> []) (map (fun y => map g (gflatten_tree y)) cs)).
    { clear Hne. induction cs as [|y cs IHcs]; [split; [reflexivity | constructor]|].
      inversion IH; subst. inversion Hall; subst. destruct (H1 H3) as [E1 E2].
      destruct (IHcs H2 H4) as [E3 E4]. split.
      - cbn [map]. now rewrite E1, E3.
      - cbn [map]. constructor; [|assumption]. intros E. apply map_eq_nil in E. contradiction. }
    destruct E as [E1 E2]. rewrite E1. unfold bjoin. rewrite join_concat by assumption.
    rewrite flat_map_concat_map, concat_map, map_map. split; [reflexivity|].
    destruct cs as [|y cs]; [congruence|]. inversion IH; subst. inversion Hall; subst.
    destruct (H1 H3) as [_ E]. cbn. intros E'. apply app_eq_nil in E'. now destruct E'.
Qed.

Lemma enc_ne_forest f : Forall ne_tree f -> enc_gforest f = bjoin CR (map g (gflatten f)).
Proof.
  intros H. unfold enc_gforest, gflatten.
  assert (E : map enc_gtree f = map (bjoin CR) (map (fun y => map g (gflatten_tree y)) f)
              /\ Forall (fun l : list str => l <> []) (map (fun y => map g (gflatten_tree y)) f)).
  { induction H as [|y f Hy Hf IH]; [split; [reflexivity | constructor]|].
    destruct (enc_ne_tree y Hy) as [E1 E2]. destruct IH as [E3 E4]. split.
    - cbn [map]. now rewrite E1, E3.
    - cbn [map]. constructor; [|assumption]. intros E. apply map_eq_nil in E. contradiction. }
  destruct E as [E1 E2]. rewrite E1. unfold bjoin. rewrite join_concat by assumption.
  now rewrite flat_map_concat_map, concat_map, map_map.
Qed.
End Forest.

(* ---------- the loop keeps the current parent on the right-most spine ---------- *)
Section LoopFacts.
Variable t : tables.
Variable X A : Type.
Variable raw : X -> str.
Variable mkseg : X -> option sref -> result A.
Variable nm : A -> str.
Variable admission : str * sref * structure -> list str -> str -> result unit.
Variable root : sref.

Notation gstate := (gstate A).
Notation cur_group := (@cur_group A).
Notation add_child := (add_child A nm admission).
Notation open_group := (open_group t A nm admission).
Notation open_groups := (open_groups t A nm admission).
Notation reopen_group := (reopen_group t A nm admission).
Notation place := (place X A mkseg nm admission).
Notation after_found := (after_found t X A raw mkseg nm admission root).
Notation attempts := (attempts t X A raw mkseg nm admission root).
Notation step := (step t X A raw mkseg nm admission root).
Notation run := (run t X A raw mkseg nm admission root).

Definition st_spine (s : gstate) : Prop := spine A (g_path s) (g_forest s).
Definition st_closed (s : gstate) : Prop := closed A (g_path s) (g_forest s).

Lemma cur_group_children s c : st_spine s -> cur_group s = Ok c ->
  exists cs, children_at (g_path s) (g_forest s) = Some cs /\
             match c with
             | None => g_path s = [] /\ cs = g_forest s
             | Some (_, _, _, cs') => cs' = cs /\ g_path s <> []
             end.
Proof.
  unfold st_spine, Groups.cur_group. intros Hs H. destruct (g_path s) as [|i p] eqn:Ep.
  - injection H as <-. exists (g_forest s). repeat split.
  - destruct (spine_group A (i :: p) (g_forest s)) as (n & r & st & cs & E1 & E2 & _);
      [discriminate | exact Hs |].
    cbv beta iota in H. rewrite E1 in H. injection H as <-. exists cs. split; [exact E2|]. split; [reflexivity | discriminate].
Qed.

Lemma add_child_eq s x s' : add_child s x = Ok s' ->
  g_stack s' = g_stack s /\ g_path s' = g_path s /\
  g_forest s' = append_at (g_path s) x (g_forest s).
Proof.
  unfold Groups.add_child. intros H. inv_bind H. inv_bind H. injection H as <-. repeat split.
Qed.

Lemma open_group_spine s n r s' : st_spine s -> open_group s n r = Ok s' ->
  st_spine s' /\ gflatten (g_forest s') = gflatten (g_forest s) /\ g_stack s' = g_stack s.
Proof.
  unfold Groups.open_group. intros Hs H. inv_bind H. rename a into st. inv_bind H. rename a into c.
  inv_bind H. rename a into s1. injection H as <-.
  destruct (add_child_eq _ _ _ Ha1) as (E1 & E2 & E3).
  destruct (cur_group_children s c Hs Ha0) as (cs & Hc & Hm).
  unfold st_spine. cbn [g_path g_forest g_stack]. rewrite E2, E3. repeat split; [| |exact E1].
  - assert (El : match c with Some (_, _, _, cs0) => length cs0 | None => length (g_forest s) end
                 = length cs).
    { destruct c as [[[[? ?] ?] cs']|]; [now destruct Hm as [-> _] | now destruct Hm as [_ ->]]. }
    rewrite El. now apply append_group_spine.
  - rewrite append_at_spine by exact Hs. rewrite gflatten_tree_GG. cbn. apply app_nil_r.
Qed.

Lemma open_groups_spine ps : forall s s', st_spine s -> open_groups s ps = Ok s' ->
  st_spine s' /\ gflatten (g_forest s') = gflatten (g_forest s) /\ g_stack s' = g_stack s.
Proof.
  induction ps as [|[[n|] r] ps IH]; intros s s' Hs H; cbn [Groups.open_groups] in H.
  - injection H as <-. auto.
  - inv_bind H. destruct (open_group_spine _ _ _ _ Hs Ha) as (H1 & H2 & H3).
    destruct (IH _ _ H1 H) as (H4 & H5 & H6). repeat split; [assumption | congruence | congruence].
  - discriminate.
Qed.

Lemma reopen_group_spine s s' : st_closed s -> reopen_group s = Ok s' ->
  st_spine s' /\ gflatten (g_forest s') = gflatten (g_forest s) /\ g_stack s' = g_stack s.
Proof.
  unfold Groups.reopen_group. intros Hs H. inv_bind H. destruct a as [[[[n r] st] cs]|]; [|discriminate].
  apply (open_group_spine (mk_gstate (g_stack s) (removelast (g_path s)) (g_forest s))) in H; [exact H|].
  unfold st_spine. cbn [g_path g_forest]. now apply closed_removelast.
Qed.

Lemma place_closed x sr s s' : st_spine s -> place x sr s = Ok s' ->
  st_closed s' /\ g_stack s' = g_stack s /\
  exists a, mkseg x sr = Ok a /\ gflatten (g_forest s') = gflatten (g_forest s) ++ [a].
Proof.
  unfold Groups.place. intros Hs H. inv_bind H. destruct (add_child_eq _ _ _ H) as (E1 & E2 & E3).
  unfold st_closed. rewrite E2, E3. repeat split; [now apply append_seg_closed | now apply append_seg_closed | exact E1 |].
  exists a. split; [exact Ha|]. now rewrite append_at_spine.
Qed.

Lemma after_found_closed x sr s s' : st_closed s -> after_found x sr s = Ok s' ->
  st_closed s' /\ exists a, mkseg x (Some sr) = Ok a /\
                            gflatten (g_forest s') = gflatten (g_forest s) ++ [a].
Proof.
  unfold Groups.after_found. intros Hc H. inv_bind H. rename a into c. inv_bind H. rename a into top.
  inv_bind H. rename a into s2.
  assert (H2 : st_spine s2 /\ gflatten (g_forest s2) = gflatten (g_forest s)).
  { destruct Hc as [Hsp Hf]. destruct c as [[[[n r] st] cs]|].
    - destruct (negb (opt_eqb (fst top) (Some n))).
      + destruct (index_of (Some n, r) (g_stack s) 0); [|discriminate].
        destruct (open_groups_spine _ _ _ Hsp Ha1) as (? & ? & _). auto.
      + destruct (smem (raw x) (map (child_name nm) cs)).
        * destruct (repetitions_of st (raw x)) as [[mn mx]|]; [|discriminate].
          destruct (mx =? 1)%Z.
          -- destruct (reopen_group_spine s s2 (conj Hsp Hf) Ha1) as (? & ? & _). auto.
          -- injection Ha1 as <-. auto.
        * injection Ha1 as <-. auto.
    - destruct (opt_is_some (fst top)).
      + destruct (index_of (None, root) (g_stack s) 0); [|discriminate].
        destruct (open_groups_spine _ _ _ Hsp Ha1) as (? & ? & _). auto.
      + injection Ha1 as <-. auto. }
  destruct H2 as [H2 H3]. destruct (place_closed _ _ _ _ H2 H) as (H4 & _ & a & H5 & H6).
  split; [exact H4|]. exists a. split; [exact H5 | congruence].
Qed.

Lemma attempts_closed n x : forall s s', st_closed s -> attempts n x s = Ok (Some s') ->
  st_closed s' /\ exists a sr, mkseg x sr = Ok a /\
                               gflatten (g_forest s') = gflatten (g_forest s) ++ [a].
Proof.
  induction n as [|n IH]; intros s s' Hc H; cbn [Groups.attempts] in H; [discriminate|].
  inv_bind H. rename a into top. inv_bind H. destruct a as [[sr extra]|].
  - inv_bind H. rename a into s1. injection H as <-.
    apply after_found_closed in Ha1; [|exact Hc]. destruct Ha1 as (H1 & a & H2 & H3).
    split; [exact H1|]. exists a, (Some sr). auto.
  - destruct (g_path s) eqn:Ep.
    + now apply IH.
    + apply IH in H; [exact H|]. unfold st_closed. cbn [g_path g_forest]. rewrite <- Ep.
      now apply closed_removelast.
Qed.

Lemma step_closed s x s' : st_closed s -> step s x = Ok s' ->
  st_closed s' /\ exists a sr, mkseg x sr = Ok a /\
                               gflatten (g_forest s') = gflatten (g_forest s) ++ [a].
Proof.
  unfold Groups.step. intros Hc H. inv_bind H. destruct a as [s1|].
  - injection H as <-. now apply (attempts_closed _ _ _ _ Hc Ha).
  - destruct (place_closed _ _ _ _ (proj1 Hc) H) as (H1 & _ & a & H2 & H3).
    split; [exact H1|]. eauto.
Qed.

Lemma run_closed xs : forall s s', st_closed s -> run xs s = Ok s' ->
  st_closed s' /\ exists l, Forall2 (fun x a => exists sr, mkseg x sr = Ok a) xs l /\
                            gflatten (g_forest s') = gflatten (g_forest s) ++ l.
Proof.
  induction xs as [|x xs IH]; intros s s' Hc H; cbn [Groups.run] in H.
  - injection H as <-. split; [exact Hc|]. exists []. split; [constructor | now rewrite app_nil_r].
  - inv_bind H. destruct (step_closed _ _ _ Hc Ha) as (H1 & a0 & sr & H2 & H3).
    destruct (IH _ _ H1 H) as (H4 & l & H5 & H6). split; [exact H4|].
    exists (a0 :: l). split; [constructor; eauto|]. rewrite H6, H3, <- app_assoc. reflexivity.
Qed.

(* the forest returned by the search: no empty group, and its flattening is the list of the
   parsed segments, one per input item, in input order *)
Theorem find_groups_order xs f :
  find_groups t X A raw mkseg nm admission root xs = Ok f ->
  Forall (ne_tree A) f /\
  Forall2 (fun x a => exists sr, mkseg x sr = Ok a) xs (gflatten f).
Proof.
  unfold find_groups. intros H. inv_bind H. injection H as <-.
  destruct (run_closed xs _ _ (conj (Forall_nil _) (Forall_nil _) : st_closed (init_state A root)) Ha)
    as ((_ & H1) & l & H2 & H3).
  split; [exact H1|]. cbn in H3. now rewrite H3.
Qed.
End LoopFacts.

(* ---------- corollaries used by Properties/C08.v ---------- *)
Lemma Forall2_map_ok {X A} (h : X -> A) (xs : list X) (l : list A) :
  Forall2 (fun x a => exists sr : option sref, (fun (n : X) (_ : option sref) => Ok (h n)) x sr = Ok a) xs l ->
  l = map h xs.
Proof.
  induction 1 as [|x a xs l (sr & E) _ IH]; [reflexivity|]. cbn [map]. injection E as <-. now rewrite IH.
Qed.

Lemma flatten_node_of (f : list (gtree seg)) : flatten (map node_of f) = gflatten f.
Proof.
  unfold flatten, gflatten. induction f as [|x f IHf]; [reflexivity|]. cbn [map flat_map]. rewrite IHf. f_equal.
  clear IHf f. induction x as [a r | n r st cs IH] using gtree_ind'; [reflexivity|].
  cbn [node_of flatten_node]. rewrite gflatten_tree_GG. unfold gflatten.
  induction IH as [|y cs Hy _ IHcs]; [reflexivity|]. cbn [map flat_map]. now rewrite Hy, IHcs.
Qed.
