(* Facts about Model/Groups.v: the current parent is always the right-most spine of the forest, so
   flattening the forest gives the parsed segments in input order; no group is left empty, so the
   insertion-order encoding of the forest is the encoding of its flattening. *)
From Coq Require Import List Bool Arith ZArith NArith Lia Init.Byte.
From HL7 Require Import Lib.Str Model.Ec Model.Result Model.Ref Model.Tree Model.Parser Model.MsgTree
                        Model.Groups.
Import ListNotations.
Open Scope bs_scope.
Open Scope res_scope.

(* ---------- generic helpers ---------- *)
Lemma bind_ok {A B} (r : result A) (f : A -> result B) b :
  bind r f = Ok b -> exists a, r = Ok a /\ f a = Ok b.
Proof. destruct r as [a|x]; cbn; [eauto | discriminate]. Qed.

Ltac inv_bind H :=
  let a := fresh "a" in let Ha := fresh "Ha" in
  apply bind_ok in H; destruct H as (a & Ha & H).

Lemma join_app' {B} (c : B) l m : l <> [] -> m <> [] -> join c (l ++ m) = join c l ++ c :: join c m.
Proof.
  induction l as [|x l IH]; [congruence|]. intros _ Hm. destruct l as [|y l].
  - cbn. destruct m; [congruence | reflexivity].
  - cbn [app]. change (join c (x :: y :: l ++ m)) with (x ++ c :: join c ((y :: l) ++ m)).
    rewrite IH by (congruence || assumption).
    change (join c (x :: y :: l)) with (x ++ c :: join c (y :: l)).
    now rewrite <- app_assoc.
Qed.

Lemma join_concat {B} (c : B) (ls : list (list (list B))) :
  Forall (fun l => l <> []) ls -> join c (map (join c) ls) = join c (concat ls).
Proof.
  induction 1 as [|l ls Hl Hls IH]; [reflexivity|]. cbn [map concat].
  destruct ls as [|l2 ls].
  - cbn. now rewrite app_nil_r.
  - assert (Hne : concat (l2 :: ls) <> []).
    { inversion Hls; subst. cbn. destruct l2; [congruence | discriminate]. }
    rewrite join_app' by assumption. rewrite <- IH.
    change (map (join c) (l2 :: ls)) with (join c l2 :: map (join c) ls). reflexivity.
Qed.

Lemma nth_error_snoc {B} (pre : list B) x : nth_error (pre ++ [x]) (length pre) = Some x.
Proof. induction pre; cbn; auto. Qed.

Lemma update_nth_snoc {B} (g : B -> B) pre x : update_nth (length pre) g (pre ++ [x]) = pre ++ [g x].
Proof. induction pre; cbn; congruence. Qed.

Lemma removelast_snoc {B} (l : list B) x : removelast (l ++ [x]) = l.
Proof. apply removelast_last. Qed.

Lemma list_snoc_cases {B} (l : list B) : l = [] \/ exists l' x, l = l' ++ [x].
Proof.
  destruct l as [|a l]; [now left | right].
  destruct (@exists_last _ (a :: l)) as (l' & x & E); [discriminate|]. eauto.
Qed.

(* ---------- forests ---------- *)
Section Forest.
Variable A : Type.

(* induction over the nested type *)
Section Ind.
Variable P : gtree A -> Prop.
Hypothesis HS : forall a r, P (GS a r).
Hypothesis HG : forall n r st cs, Forall P cs -> P (GG n r st cs).
Fixpoint gtree_ind' (x : gtree A) : P x :=
  match x with
  | GS a r => HS a r
  | GG n r st cs =>
      HG n r st cs ((fix go (l : list (gtree A)) : Forall P l :=
                       match l with
                       | [] => Forall_nil P
                       | y :: r => Forall_cons y (gtree_ind' y) (go r)
                       end) cs)
  end.
End Ind.

Lemma gflatten_tree_GG n r st (cs : gforest A) : gflatten_tree (GG n r st cs) = gflatten cs.
Proof. cbn [gflatten_tree]. unfold gflatten. induction cs as [|y cs IH]; cbn; congruence. Qed.

Lemma gflatten_app (f g : gforest A) : gflatten (f ++ g) = gflatten f ++ gflatten g.
Proof. unfold gflatten. apply flat_map_app. Qed.

Lemma gflatten_snoc (f : gforest A) x : gflatten (f ++ [x]) = gflatten f ++ gflatten_tree x.
Proof. rewrite gflatten_app. unfold gflatten at 2. cbn. now rewrite app_nil_r. Qed.

(* every group has a child *)
Fixpoint ne_tree (x : gtree A) : Prop :=
  match x with
  | GS _ _ => True
  | GG _ _ _ cs => cs <> [] /\ (fix all (l : list (gtree A)) : Prop :=
                                 match l with [] => True | y :: r => ne_tree y /\ all r end) cs
  end.
Lemma ne_tree_GG n r st cs : ne_tree (GG n r st cs) <-> cs <> [] /\ Forall ne_tree cs.
Proof.
  cbn [ne_tree].
  assert (E : forall l : list (gtree A),
             (fix all (l : list (gtree A)) : Prop :=
                match l with [] => True | y :: r => ne_tree y /\ all r end) l <-> Forall ne_tree l).
  { induction l as [|y l IH]; split; intros H.
    - constructor.
    - exact I.
    - destruct H as [H1 H2]. constructor; [exact H1 | now apply IH].
    - inversion H; subst. split; [assumption | now apply IH]. }
  rewrite E. reflexivity.
Qed.

(* the path p runs down the LAST children of f, and every group off that path has a child
   (the groups on the path may still be empty) *)
Fixpoint spine (p : list nat) (f : gforest A) : Prop :=
  match p with
  | [] => Forall ne_tree f
  | i :: p' => exists pre n r st cs,
                 f = pre ++ [GG n r st cs] /\ i = length pre /\ Forall ne_tree pre /\ spine p' cs
  end.
(* the forest is complete (no empty group) and p is its right-most spine *)
Definition closed (p : list nat) (f : gforest A) : Prop := spine p f /\ Forall ne_tree f.

Lemma spine_children p : forall f, spine p f -> exists cs, children_at p f = Some cs /\ Forall ne_tree cs.
Proof.
  induction p as [|i p IH]; intros f H.
  - exists f. split; [reflexivity | exact H].
  - destruct H as (pre & n & r & st & cs & -> & -> & Hpre & Hs).
    cbn [children_at]. rewrite nth_error_snoc. now apply IH.
Qed.

Lemma spine_group p : forall f, p <> [] -> spine p f ->
  exists n r st cs, group_at p f = Some (n, r, st, cs) /\ children_at p f = Some cs /\ Forall ne_tree cs.
Proof.
  induction p as [|i p IH]; intros f Hp H; [congruence|].
  destruct H as (pre & n & r & st & cs & -> & -> & Hpre & Hs).
  cbn [children_at]. rewrite nth_error_snoc. destruct p as [|j p].
  - cbn [group_at]. rewrite nth_error_snoc. exists n, r, st, cs. repeat split. exact Hs.
  - change (group_at (length pre :: j :: p) (pre ++ [GG n r st cs]))
      with (match nth_error (pre ++ [GG n r st cs]) (length pre) with
            | Some (GG _ _ _ cs0) => group_at (j :: p) cs0 | _ => None end).
    rewrite nth_error_snoc. apply IH; [discriminate | exact Hs].
Qed.

(* appending at the spine *)
Lemma append_at_spine p : forall f x, spine p f ->
  gflatten (append_at p x f) = gflatten f ++ gflatten_tree x.
Proof.
  induction p as [|i p IH]; intros f x H.
  - cbn [append_at]. apply gflatten_snoc.
  - destruct H as (pre & n & r & st & cs & -> & -> & Hpre & Hs).
    cbn [append_at]. rewrite update_nth_snoc. rewrite !gflatten_snoc, !gflatten_tree_GG.
    rewrite IH by assumption. now rewrite app_assoc.
Qed.

(* a segment appended at the spine closes the forest *)
Lemma append_seg_closed p : forall f a r, spine p f -> closed p (append_at p (GS a r) f).
Proof.
  induction p as [|i p IH]; intros f a r H.
  - cbn [append_at]. split; cbn [spine]; apply Forall_app; split; auto; repeat constructor.
  - destruct H as (pre & n & r0 & st & cs & -> & -> & Hpre & Hs).
    cbn [append_at]. rewrite update_nth_snoc. destruct (IH cs a r Hs) as [H1 H2]. split.
    + cbn [spine]. exists pre, n, r0, st, (append_at p (GS a r) cs). repeat split; assumption.
    + apply Forall_app. split; [assumption|]. constructor; [|constructor].
      apply ne_tree_GG. split; [|assumption].
      destruct p; cbn [append_at]; intros E.
      * now destruct cs.
      * destruct Hs as (pre' & ? & ? & ? & ? & -> & -> & _). rewrite update_nth_snoc in E.
        now destruct pre'.
Qed.

(* an empty group appended at the spine extends the spine *)
Lemma append_group_spine p : forall f n r st cs0, spine p f -> children_at p f = Some cs0 ->
  spine (p ++ [length cs0]) (append_at p (GG n r st []) f).
Proof.
  induction p as [|i p IH]; intros f n r st cs0 H Hc.
  - cbn in Hc. injection Hc as <-. cbn [append_at app spine].
    exists f, n, r, st, []. repeat split; [exact H | constructor].
  - destruct H as (pre & n' & r' & st' & cs & -> & -> & Hpre & Hs).
    cbn [children_at] in Hc. rewrite nth_error_snoc in Hc.
    cbn [append_at]. rewrite update_nth_snoc. cbn [app spine].
    exists pre, n', r', st', (append_at p (GG n r st []) cs). repeat split; [assumption|].
    now apply IH.
Qed.

Lemma closed_removelast p : forall f, closed p f -> closed (removelast p) f.
Proof.
  intros f [Hs Hf]. split; [|exact Hf]. revert f Hs Hf.
  induction p as [|i p IH]; intros f Hs Hf; [exact Hs|].
  destruct p as [|j p]; [exact Hf|].
  destruct Hs as (pre & n & r & st & cs & -> & -> & Hpre & Hs).
  change (removelast (length pre :: j :: p)) with (length pre :: removelast (j :: p)).
  cbn [spine]. exists pre, n, r, st, cs. repeat split; [assumption|].
  apply IH; [exact Hs|]. apply Forall_app in Hf. destruct Hf as [_ Hf]. inversion Hf; subst.
  now apply ne_tree_GG in H1.
Qed.

(* ---------- insertion-order encoding ---------- *)
Variable g : A -> str.
Fixpoint enc_gtree (x : gtree A) : str :=
  match x with
  | GS a _ => g a
  | GG _ _ _ cs => bjoin CR ((fix go (l : list (gtree A)) : list str :=
                                match l with [] => [] | y :: r => enc_gtree y :: go r end) cs)
  end.
Definition enc_gforest (f : gforest A) : str := bjoin CR (map enc_gtree f).
Lemma enc_gtree_GG n r st cs : enc_gtree (GG n r st cs) = enc_gforest cs.
Proof.
  cbn [enc_gtree]. unfold enc_gforest.
  assert (E : forall l : list (gtree A),
            (fix go (l : list (gtree A)) : list str :=
               match l with [] => [] | y :: r => enc_gtree y :: go r end) l = map enc_gtree l).
  { induction l as [|y l IH]; [reflexivity|]. cbn [map]. now rewrite <- IH. }
  now rewrite E.
Qed.

Lemma enc_ne_tree x : ne_tree x ->
  enc_gtree x = bjoin CR (map g (gflatten_tree x)) /\ gflatten_tree x <> [].
Proof.
  induction x as [a r | n r st cs IH] using gtree_ind'; intros H.
  - cbn. split; [reflexivity | discriminate].
  - apply ne_tree_GG in H. destruct H as [Hne Hall].
    rewrite enc_gtree_GG, gflatten_tree_GG. unfold enc_gforest, gflatten.
    assert (E : map enc_gtree cs = map (bjoin CR) (map (fun y => map g (gflatten_tree y)) cs)
                /\ Forall (fun l : list str => l <> []) (map (fun y => map g (gflatten_tree y)) cs)).
    { clear Hne. induction cs as [|y cs IHcs]; [split; [reflexivity | constructor]|].
      inversion IH; subst. inversion Hall; subst. destruct (H1 H3) as [E1 E2].
      destruct (IHcs H2 H4) as [E3 E4]. split.
      - cbn [map]. now rewrite E1, E3.
      - cbn [map]. constructor; [|assumption]. intros E. apply map_eq_nil in E. contradiction. }
    destruct E as [E1 E2]. rewrite E1. unfold bjoin. rewrite join_concat by assumption.
    rewrite flat_map_concat_map, concat_map, map_map. split; [reflexivity|].
    destruct cs as [|y cs]; [congruence|]. inversion IH; subst. inversion Hall; subst.
    destruct (H1 H3) as [_ E]. cbn. intros E'. apply app_eq_nil in E'. now destruct E'.
Qed.

Lemma enc_ne_forest f : Forall ne_tree f -> enc_gforest f = bjoin CR (map g (gflatten f)).
Proof.
  intros H. unfold enc_gforest, gflatten.
  assert (E : map enc_gtree f = map (bjoin CR) (map (fun y => map g (gflatten_tree y)) f)
              /\ Forall (fun l : list str => l <> []) (map (fun y => map g (gflatten_tree y)) f)).
  { induction H as [|y f Hy Hf IH]; [split; [reflexivity | constructor]|].
    destruct (enc_ne_tree y Hy) as [E1 E2]. destruct IH as [E3 E4]. split.
    - cbn [map]. now rewrite E1, E3.
    - cbn [map]. constructor; [|assumption]. intros E. apply map_eq_nil in E. contradiction. }
  destruct E as [E1 E2]. rewrite E1. unfold bjoin. rewrite join_concat by assumption.
  now rewrite flat_map_concat_map, concat_map, map_map.
Qed.
End Forest.

(* ---------- the loop keeps the current parent on the right-most spine ---------- *)
Section LoopFacts.
Variable t : tables.
Variable X A : Type.
Variable raw : X -> str.
Variable mkseg : X -> option sref -> result A.
Variable nm : A -> str.
Variable acceptance : str * sref * structure -> list str -> str -> result unit.
Variable root : sref.

Notation gstate := (gstate A).
Notation cur_group := (@cur_group A).
Notation add_child := (add_child A nm acceptance).
Notation open_group := (open_group t A nm acceptance).
Notation open_groups := (open_groups t A nm acceptance).
Notation reopen_group := (reopen_group t A nm acceptance).
Notation place := (place X A mkseg nm acceptance).
Notation after_found := (after_found t X A raw mkseg nm acceptance root).
Notation attempts := (attempts t X A raw mkseg nm acceptance root).
Notation step := (step t X A raw mkseg nm acceptance root).
Notation run := (run t X A raw mkseg nm acceptance root).

Definition st_spine (s : gstate) : Prop := spine A (g_path s) (g_forest s).
Definition st_closed (s : gstate) : Prop := closed A (g_path s) (g_forest s).

Lemma cur_group_children s c : st_spine s -> cur_group s = Ok c ->
  exists cs, children_at (g_path s) (g_forest s) = Some cs /\
             match c with
             | None => g_path s = [] /\ cs = g_forest s
             | Some (_, _, _, cs') => cs' = cs /\ g_path s <> []
             end.
Proof.
  unfold st_spine, Groups.cur_group. intros Hs H. destruct (g_path s) as [|i p] eqn:Ep.
  - injection H as <-. exists (g_forest s). repeat split.
  - destruct (spine_group A (i :: p) (g_forest s)) as (n & r & st & cs & E1 & E2 & _);
      [discriminate | exact Hs |].
    cbv beta iota in H. rewrite E1 in H. injection H as <-. exists cs. split; [exact E2|]. split; [reflexivity | discriminate].
Qed.

Lemma add_child_eq s x s' : add_child s x = Ok s' ->
  g_stack s' = g_stack s /\ g_path s' = g_path s /\
  g_forest s' = append_at (g_path s) x (g_forest s).
Proof.
  unfold Groups.add_child. intros H. inv_bind H. inv_bind H. injection H as <-. repeat split.
Qed.

Lemma open_group_spine s n r s' : st_spine s -> open_group s n r = Ok s' ->
  st_spine s' /\ gflatten (g_forest s') = gflatten (g_forest s) /\ g_stack s' = g_stack s.
Proof.
  unfold Groups.open_group. intros Hs H. inv_bind H. rename a into st. inv_bind H. rename a into c.
  inv_bind H. rename a into s1. injection H as <-.
  destruct (add_child_eq _ _ _ Ha1) as (E1 & E2 & E3).
  destruct (cur_group_children s c Hs Ha0) as (cs & Hc & Hm).
  unfold st_spine. cbn [g_path g_forest g_stack]. rewrite E2, E3. repeat split; [| |exact E1].
  - assert (El : match c with Some (_, _, _, cs0) => length cs0 | None => length (g_forest s) end
                 = length cs).
    { destruct c as [[[[? ?] ?] cs']|]; [now destruct Hm as [-> _] | now destruct Hm as [_ ->]]. }
    rewrite El. now apply append_group_spine.
  - rewrite append_at_spine by exact Hs. rewrite gflatten_tree_GG. cbn. apply app_nil_r.
Qed.

Lemma open_groups_spine ps : forall s s', st_spine s -> open_groups s ps = Ok s' ->
  st_spine s' /\ gflatten (g_forest s') = gflatten (g_forest s) /\ g_stack s' = g_stack s.
Proof.
  induction ps as [|[[n|] r] ps IH]; intros s s' Hs H; cbn [Groups.open_groups] in H.
  - injection H as <-. auto.
  - inv_bind H. destruct (open_group_spine _ _ _ _ Hs Ha) as (H1 & H2 & H3).
    destruct (IH _ _ H1 H) as (H4 & H5 & H6). repeat split; [assumption | congruence | congruence].
  - discriminate.
Qed.

Lemma reopen_group_spine s s' : st_closed s -> reopen_group s = Ok s' ->
  st_spine s' /\ gflatten (g_forest s') = gflatten (g_forest s) /\ g_stack s' = g_stack s.
Proof.
  unfold Groups.reopen_group. intros Hs H. inv_bind H. destruct a as [[[[n r] st] cs]|]; [|discriminate].
  apply (open_group_spine (mk_gstate (g_stack s) (removelast (g_path s)) (g_forest s))) in H; [exact H|].
  unfold st_spine. cbn [g_path g_forest]. now apply closed_removelast.
Qed.

Lemma place_closed x sr s s' : st_spine s -> place x sr s = Ok s' ->
  st_closed s' /\ g_stack s' = g_stack s /\
  exists a, mkseg x sr = Ok a /\ gflatten (g_forest s') = gflatten (g_forest s) ++ [a].
Proof.
  unfold Groups.place. intros Hs H. inv_bind H. destruct (add_child_eq _ _ _ H) as (E1 & E2 & E3).
  unfold st_closed. rewrite E2, E3. repeat split; [now apply append_seg_closed | now apply append_seg_closed | exact E1 |].
  exists a. split; [exact Ha|]. now rewrite append_at_spine.
Qed.

Lemma after_found_closed x sr s s' : st_closed s -> after_found x sr s = Ok s' ->
  st_closed s' /\ exists a, mkseg x (Some sr) = Ok a /\
                            gflatten (g_forest s') = gflatten (g_forest s) ++ [a].
Proof.
  unfold Groups.after_found. intros Hc H. inv_bind H. rename a into c. inv_bind H. rename a into top.
  inv_bind H. rename a into s2.
  assert (H2 : st_spine s2 /\ gflatten (g_forest s2) = gflatten (g_forest s)).
  { destruct Hc as [Hsp Hf]. destruct c as [[[[n r] st] cs]|].
    - destruct (negb (opt_eqb (fst top) (Some n))).
      + destruct (index_of (Some n, r) (g_stack s) 0); [|discriminate].
        destruct (open_groups_spine _ _ _ Hsp Ha1) as (? & ? & _). auto.
      + destruct (smem (raw x) (map (child_name nm) cs)).
        * destruct (repetitions_of st (raw x)) as [[mn mx]|]; [|discriminate].
          destruct (mx =? 1)%Z.
          -- destruct (reopen_group_spine s s2 (conj Hsp Hf) Ha1) as (? & ? & _). auto.
          -- injection Ha1 as <-. auto.
        * injection Ha1 as <-. auto.
    - destruct (opt_is_some (fst top)).
      + destruct (index_of (None, root) (g_stack s) 0); [|discriminate].
        destruct (open_groups_spine _ _ _ Hsp Ha1) as (? & ? & _). auto.
      + injection Ha1 as <-. auto. }
  destruct H2 as [H2 H3]. destruct (place_closed _ _ _ _ H2 H) as (H4 & _ & a & H5 & H6).
  split; [exact H4|]. exists a. split; [exact H5 | congruence].
Qed.

Lemma attempts_closed n x : forall s s', st_closed s -> attempts n x s = Ok (Some s') ->
  st_closed s' /\ exists a sr, mkseg x sr = Ok a /\
                               gflatten (g_forest s') = gflatten (g_forest s) ++ [a].
Proof.
  induction n as [|n IH]; intros s s' Hc H; cbn [Groups.attempts] in H; [discriminate|].
  inv_bind H. rename a into top. inv_bind H. destruct a as [[sr extra]|].
  - inv_bind H. rename a into s1. injection H as <-.
    apply after_found_closed in Ha1; [|exact Hc]. destruct Ha1 as (H1 & a & H2 & H3).
    split; [exact H1|]. exists a, (Some sr). auto.
  - destruct (g_path s) eqn:Ep.
    + now apply IH.
    + apply IH in H; [exact H|]. unfold st_closed. cbn [g_path g_forest]. rewrite <- Ep.
      now apply closed_removelast.
Qed.

Lemma step_closed s x s' : st_closed s -> step s x = Ok s' ->
  st_closed s' /\ exists a sr, mkseg x sr = Ok a /\
                               gflatten (g_forest s') = gflatten (g_forest s) ++ [a].
Proof.
  unfold Groups.step. intros Hc H. inv_bind H. destruct a as [s1|].
  - injection H as <-. now apply (attempts_closed _ _ _ _ Hc Ha).
  - destruct (place_closed _ _ _ _ (proj1 Hc) H) as (H1 & _ & a & H2 & H3).
    split; [exact H1|]. eauto.
Qed.

Lemma run_closed xs : forall s s', st_closed s -> run xs s = Ok s' ->
  st_closed s' /\ exists l, Forall2 (fun x a => exists sr, mkseg x sr = Ok a) xs l /\
                            gflatten (g_forest s') = gflatten (g_forest s) ++ l.
Proof.
  induction xs as [|x xs IH]; intros s s' Hc H; cbn [Groups.run] in H.
  - injection H as <-. split; [exact Hc|]. exists []. split; [constructor | now rewrite app_nil_r].
  - inv_bind H. destruct (step_closed _ _ _ Hc Ha) as (H1 & a0 & sr & H2 & H3).
    destruct (IH _ _ H1 H) as (H4 & l & H5 & H6). split; [exact H4|].
    exists (a0 :: l). split; [constructor; eauto|]. rewrite H6, H3, <- app_assoc. reflexivity.
Qed.

(* the forest returned by the search: no empty group, and its flattening is the list of the
   parsed segments, one per input item, in input order *)
Theorem find_groups_order xs f :
  find_groups t X A raw mkseg nm acceptance root xs = Ok f ->
  Forall (ne_tree A) f /\
  Forall2 (fun x a => exists sr, mkseg x sr = Ok a) xs (gflatten f).
Proof.
  unfold find_groups. intros H. inv_bind H. injection H as <-.
  destruct (run_closed xs _ _ (conj (Forall_nil _) (Forall_nil _) : st_closed (init_state A root)) Ha)
    as ((_ & H1) & l & H2 & H3).
  split; [exact H1|]. cbn in H3. now rewrite H3.
Qed.
End LoopFacts.

(* ---------- corollaries used by Properties/C08.v ---------- *)
Lemma Forall2_map_ok {X A} (h : X -> A) (xs : list X) (l : list A) :
  Forall2 (fun x a => exists sr : option sref, (fun (n : X) (_ : option sref) => Ok (h n)) x sr = Ok a) xs l ->
  l = map h xs.
Proof.
  induction 1 as [|x a xs l (sr & E) _ IH]; [reflexivity|]. cbn [map]. injection E as <-. now rewrite IH.
Qed.

Lemma flatten_node_of (f : list (gtree seg)) : flatten (map node_of f) = gflatten f.
Proof.
  unfold flatten, gflatten. induction f as [|x f IHf]; [reflexivity|]. cbn [map flat_map]. rewrite IHf. f_equal.
  clear IHf f. induction x as [a r | n r st cs IH] using gtree_ind'; [reflexivity|].
  cbn [node_of flatten_node]. rewrite gflatten_tree_GG. unfold gflatten.
  induction IH as [|y cs Hy _ IHcs]; [reflexivity|]. cbn [map flat_map]. now rewrite Hy, IHcs.
Qed.

(* ---------- soundness: declared children ---------- *)
Lemma last_cons {B} (a : B) l d : last (a :: l) d = last l a.
Proof.
  revert a d; induction l as [|b l IH]; intros a d; [reflexivity|].
  change (last (a :: b :: l) d) with (last (b :: l) d). rewrite (IH b d). symmetry. apply IH.
Qed.

Lemma nth_error_update_nth {B} (g : B -> B) : forall i (l : list B) y,
  nth_error l i = Some y -> nth_error (update_nth i g l) i = Some (g y).
Proof. induction i as [|i IH]; intros [|x l] y H; cbn in *; try discriminate; [congruence | now apply IH]. Qed.

Lemma Forall_update_nth {B} (P : B -> Prop) (g : B -> B) : forall i (l : list B),
  Forall P l -> (forall y, nth_error l i = Some y -> P y -> P (g y)) -> Forall P (update_nth i g l).
Proof.
  induction i as [|i IH]; intros l H Hg; destruct l as [|x l]; cbn [update_nth];
    [constructor | | constructor |].
  - inversion H; subst. constructor; [apply (Hg x); [reflexivity | assumption] | assumption].
  - inversion H; subst. constructor; [assumption|]. apply IH; [assumption|].
    intros y Hy. now apply (Hg y).
Qed.

Section Sound.
Variable t : tables.

(* (n, cr) is a child of kind k listed by the reference pr *)
Definition declared (pr : sref) (k : kind) (n : str) (cr : sref) : Prop :=
  exists rows x, rows_of t pr = Ok rows /\ In x rows /\ row_name_kind x = Some (k, n) /\ row_ref t x = Ok cr.

(* a path of declared groups below r *)
Fixpoint chain (r : sref) (ex : list (str * sref)) : Prop :=
  match ex with
  | [] => True
  | (g, gr) :: rest => declared r GRP g gr /\ chain gr rest
  end.
Definition last_ref (r : sref) (ex : list (str * sref)) : sref := last (map snd ex) r.

Lemma last_ref_cons r g gr ex : last_ref r ((g, gr) :: ex) = last_ref gr ex.
Proof. unfold last_ref. cbn [map snd]. apply last_cons. Qed.

Lemma chain_app r ex1 : forall ex2, chain r ex1 -> chain (last_ref r ex1) ex2 -> chain r (ex1 ++ ex2).
Proof.
  revert r; induction ex1 as [|[g gr] ex1 IH]; intros r ex2 H1 H2; [exact H2|].
  destruct H1 as [Hd H1]. rewrite last_ref_cons in H2. cbn [app chain]. split; [exact Hd | now apply IH].
Qed.

Lemma last_ref_app r ex1 ex2 : last_ref r (ex1 ++ ex2) = last_ref (last_ref r ex1) ex2.
Proof.
  revert r; induction ex1 as [|[g gr] ex1 IH]; intros r; [reflexivity|].
  cbn [app]. rewrite !last_ref_cons. apply IH.
Qed.

Lemma scan_rows_spec name rows : forall acc hit gs,
  scan_rows t name rows acc = Ok (hit, gs) ->
  (forall sr, hit = Some sr ->
     exists x, In x rows /\ row_name_kind x = Some (SEG, name) /\ row_ref t x = Ok sr) /\
  (forall x, In x gs -> In x acc \/ (In x rows /\ exists g, row_name_kind x = Some (GRP, g))).
Proof.
  induction rows as [|x rows IH]; intros acc hit gs H; cbn [scan_rows] in H.
  - injection H as <- <-. split; [discriminate|]. intros x Hx. left. now apply in_rev.
  - destruct (row_name_kind x) as [[k n]|] eqn:Ek; [|discriminate]. destruct k.
    + destruct (streqb n name) eqn:En.
      * apply streqb_eq in En. subst n. inv_bind H.
        assert (E : (hit, gs) = (None, []) \/ (hit, gs) = (Some a, [])).
        { destruct a; injection H as <- <-; auto. }
        destruct E as [E|E]; injection E as -> ->; (split; [|intros ? []]).
        -- discriminate.
        -- intros sr Hs. injection Hs as <-. exists x. repeat split; [now left | assumption | assumption].
      * destruct (IH _ _ _ H) as [H1 H2]. split.
        -- intros sr Hs. destruct (H1 sr Hs) as (y & ? & ? & ?). exists y. repeat split; auto. now right.
        -- intros y Hy. destruct (H2 y Hy) as [?|[? ?]]; [now left | right; split; [now right | assumption]].
    + destruct (IH _ _ _ H) as [H1 H2]. split.
      * intros sr Hs. destruct (H1 sr Hs) as (y & ? & ? & ?). exists y. repeat split; auto. now right.
      * intros y Hy. destruct (H2 y Hy) as [[<-|?]|[? ?]].
        -- right. split; [now left | eauto].
        -- now left.
        -- right. split; [now right | assumption].
    + destruct (IH _ _ _ H) as [H1 H2]. split.
      * intros sr Hs. destruct (H1 sr Hs) as (y & ? & ? & ?). exists y. repeat split; auto. now right.
      * intros y Hy. destruct (H2 y Hy) as [?|[? ?]]; [now left | right; split; [now right | assumption]].
    + destruct (IH _ _ _ H) as [H1 H2]. split.
      * intros sr Hs. destruct (H1 sr Hs) as (y & ? & ? & ?). exists y. repeat split; auto. now right.
      * intros y Hy. destruct (H2 y Hy) as [?|[? ?]]; [now left | right; split; [now right | assumption]].
Qed.

Lemma try_groups_spec rec gs : forall sr ex,
  try_groups t rec gs = Ok (Some (sr, ex)) ->
  exists x k g gr ex', In x gs /\ row_name_kind x = Some (k, g) /\ row_ref t x = Ok gr /\
                       rec gr = Ok (Some (sr, ex')) /\ ex = (g, gr) :: ex'.
Proof.
  induction gs as [|x gs IH]; intros sr ex H; cbn [try_groups] in H; [discriminate|].
  destruct (row_name_kind x) as [[k g]|] eqn:Ek; [|discriminate].
  inv_bind H. rename a into gr. inv_bind H. destruct a as [[sr' ex']|].
  - injection H as <- <-. exists x, k, g, gr, ex'. repeat split; auto. now left.
  - destruct (IH _ _ H) as (y & k' & g' & gr' & ex'' & ? & ? & ? & ? & ?).
    exists y, k', g', gr', ex''. repeat split; auto. now right.
Qed.

(* what the search returns is a path of declared groups ending in a declared segment *)
Lemma search_sound fuel : forall name r sr ex,
  search t fuel name r = Ok (Some (sr, ex)) -> chain r ex /\ declared (last_ref r ex) SEG name sr.
Proof.
  induction fuel as [|f IH]; intros name r sr ex H; cbn [search] in H; [discriminate|].
  inv_bind H. rename a into rows. inv_bind H. destruct a as [hit groups].
  destruct (scan_rows_spec _ _ _ _ _ Ha0) as [H1 H2]. destruct hit as [sr'|].
  - injection H as <- <-. split; [exact I|]. destruct (H1 sr' eq_refl) as (x & ? & ? & ?).
    exists rows, x. auto.
  - destruct (try_groups_spec _ _ _ _ H) as (x & k & g & gr & ex' & Hin & Hk & Hr & Hrec & ->).
    destruct (H2 x Hin) as [[]|[Hin' (g' & Hk')]]. rewrite Hk in Hk'. injection Hk' as -> <-.
    destruct (IH _ _ _ _ Hrec) as [Hc Hd]. split.
    + split; [exists rows, x; auto | exact Hc].
    + now rewrite last_ref_cons.
Qed.
End Sound.

(* ---------- the loop only attaches declared children ---------- *)
Section SoundLoop.
Variable t : tables.
Variable X A : Type.
Variable raw : X -> str.
Variable mkseg : X -> option sref -> result A.
Variable nm : A -> str.
Variable acceptance : str * sref * structure -> list str -> str -> result unit.
Variable root : sref.

Notation gstate := (gstate A).
Notation cur_group := (@cur_group A).
Notation add_child := (add_child A nm acceptance).
Notation open_group := (open_group t A nm acceptance).
Notation open_groups := (open_groups t A nm acceptance).
Notation reopen_group := (reopen_group t A nm acceptance).
Notation place := (place X A mkseg nm acceptance).
Notation after_found := (after_found t X A raw mkseg nm acceptance root).
Notation attempts := (attempts t X A raw mkseg nm acceptance root).
Notation step := (step t X A raw mkseg nm acceptance root).
Notation run := (run t X A raw mkseg nm acceptance root).
Notation sspine := (st_spine A).
Notation sclosed := (st_closed A).

(* the group row named g is the group table's entry of that name, and the name is upper case
   (Group() upper-cases it) *)
Definition good (g : str) (gr : sref) : Prop := slookup g (t_groups t) = Some gr /\ upper g = g.
(* table hypothesis: every group reachable from r is `good` (decided per version by tab_ok) *)
Definition groups_by_name (r : sref) : Prop :=
  forall ex g gr, chain t r ex -> declared t (last_ref r ex) GRP g gr -> good g gr.
Hypothesis Htab : groups_by_name root.

Definition some_e (p : str * sref) : entry := (Some (fst p), snd p).

Lemma chain_good ex : forall r, groups_by_name r -> chain t r ex -> Forall (fun p => good (fst p) (snd p)) ex.
Proof.
  induction ex as [|[g gr] ex IH]; intros r H Hc; [constructor|]. destruct Hc as [Hd Hc]. constructor.
  - exact (H [] g gr I Hd).
  - apply (IH gr); [|exact Hc]. intros ex' g' gr' Hc' Hd'.
    apply (H ((g, gr) :: ex') g' gr'); [split; assumption | now rewrite last_ref_cons].
Qed.

Lemma chain_nth ex : forall r j g gr, chain t r ex -> nth_error ex j = Some (g, gr) ->
  chain t gr (skipn (S j) ex) /\ last_ref gr (skipn (S j) ex) = last_ref r ex.
Proof.
  induction ex as [|[g0 gr0] ex IH]; intros r j g gr Hc Hn; [destruct j; discriminate|].
  destruct Hc as [Hd Hc]. rewrite last_ref_cons. destruct j as [|j].
  - cbn in Hn. injection Hn as <- <-. cbn [skipn]. split; [exact Hc | reflexivity].
  - cbn in Hn. cbn [skipn]. apply (IH gr0 j g gr); assumption.
Qed.

Lemma chain_removelast ex : forall r, chain t r ex -> chain t r (removelast ex).
Proof.
  induction ex as [|[g gr] ex IH]; intros r Hc; [exact I|]. destruct Hc as [Hd Hc].
  destruct ex as [|p ex]; [exact I|]. change (removelast ((g, gr) :: p :: ex)) with ((g, gr) :: removelast (p :: ex)).
  split; [exact Hd | now apply IH].
Qed.

(* soundness of a tree below a parent whose reference is pr *)
Fixpoint sound_tree (pr : sref) (x : gtree A) : Prop :=
  match x with
  | GS a None => True
  | GS a (Some sr) => exists i, mkseg i (Some sr) = Ok a /\ declared t pr SEG (raw i) sr
  | GG g r st cs =>
      (declared t pr GRP g r /\ good g r) /\ parse_structure t r = Ok st /\
      (fix all (l : list (gtree A)) : Prop :=
         match l with [] => True | y :: rest => sound_tree r y /\ all rest end) cs
  end.
Lemma sound_tree_GG pr g r st cs :
  sound_tree pr (GG g r st cs) <->
  (declared t pr GRP g r /\ good g r) /\ parse_structure t r = Ok st /\ Forall (sound_tree r) cs.
Proof.
  cbn [sound_tree].
  assert (E : forall l : list (gtree A),
             (fix all (l : list (gtree A)) : Prop :=
                match l with [] => True | y :: rest => sound_tree r y /\ all rest end) l
             <-> Forall (sound_tree r) l).
  { induction l as [|y l IH]; split; intros H.
    - constructor.
    - exact I.
    - destruct H as [H1 H2]. constructor; [exact H1 | now apply IH].
    - inversion H; subst. split; [assumption | now apply IH]. }
  rewrite E. reflexivity.
Qed.

(* the reference of the node a path points at (pr for the empty path) *)
Fixpoint ref_at (pr : sref) (p : list nat) (f : gforest A) : option sref :=
  match p with
  | [] => Some pr
  | i :: p' => match nth_error f i with
               | Some (GG _ r _ cs) => ref_at r p' cs
               | _ => None
               end
  end.

Lemma append_sound p : forall pr f x r, Forall (sound_tree pr) f -> ref_at pr p f = Some r ->
  sound_tree r x -> Forall (sound_tree pr) (append_at p x f).
Proof.
  induction p as [|i p IH]; intros pr f x r Hf Hr Hx.
  - cbn in Hr. injection Hr as <-. cbn [append_at]. apply Forall_app. split; [exact Hf | now constructor].
  - cbn [ref_at] in Hr. cbn [append_at]. apply Forall_update_nth; [exact Hf|].
    intros y Hy Hs. rewrite Hy in Hr. destruct y as [a sr | g r0 st cs]; [exact Hs|].
    apply sound_tree_GG in Hs. destruct Hs as (H1 & H2 & H3). apply sound_tree_GG.
    split; [exact H1|]. split; [exact H2|]. now apply (IH r0 cs x r).
Qed.

Lemma group_at_sound p : forall pr f n r st cs, Forall (sound_tree pr) f ->
  group_at p f = Some (n, r, st, cs) ->
  ref_at pr p f = Some r /\
  exists pr', ref_at pr (removelast p) f = Some pr' /\ sound_tree pr' (GG n r st cs).
Proof.
  induction p as [|i p IH]; intros pr f n r st cs Hf Hg; [discriminate|].
  destruct p as [|j p].
  - cbn [group_at] in Hg. destruct (nth_error f i) as [[a sr | g r0 st0 cs0]|] eqn:En; try discriminate.
    injection Hg as -> -> -> ->. cbn [ref_at]. rewrite En. split; [reflexivity|].
    exists pr. split; [reflexivity|]. apply nth_error_In in En.
    now apply (proj1 (Forall_forall _ _) Hf) in En.
  - change (group_at (i :: j :: p) f) with
      (match nth_error f i with Some (GG _ _ _ cs0) => group_at (j :: p) cs0 | _ => None end) in Hg.
    destruct (nth_error f i) as [[a sr | g r0 st0 cs0]|] eqn:En; try discriminate.
    assert (Hs : Forall (sound_tree r0) cs0).
    { apply nth_error_In in En. apply (proj1 (Forall_forall _ _) Hf) in En.
      apply sound_tree_GG in En. tauto. }
    destruct (IH r0 cs0 n r st cs Hs Hg) as (H1 & pr' & H2 & H3).
    change (removelast (i :: j :: p)) with (i :: removelast (j :: p)).
    cbn [ref_at]. rewrite En. split; [exact H1|]. exists pr'. split; assumption.
Qed.

Lemma ref_at_append_group p : forall pr f cs0 r0 n r st,
  children_at p f = Some cs0 -> ref_at pr p f = Some r0 ->
  ref_at pr (p ++ [length cs0]) (append_at p (GG n r st []) f) = Some r.
Proof.
  induction p as [|i p IH]; intros pr f cs0 r0 n r st Hc Hr.
  - cbn in Hc. injection Hc as <-. cbn [app append_at ref_at]. now rewrite nth_error_snoc.
  - cbn [children_at] in Hc. cbn [ref_at] in Hr.
    destruct (nth_error f i) as [[a sr | g r1 st1 cs1]|] eqn:En; try discriminate.
    cbn [app append_at ref_at]. rewrite (nth_error_update_nth _ _ _ _ En). now apply (IH r1 cs1 cs0 r0).
Qed.

Lemma spine_ref_at p : forall pr f, spine A p f -> exists cr, ref_at pr p f = Some cr.
Proof.
  induction p as [|i p IH]; intros pr f H; [now exists pr|].
  destruct H as (pre & n & r & st & cs & -> & -> & _ & Hs). cbn [ref_at]. rewrite nth_error_snoc.
  now apply IH.
Qed.

(* forest sound, and cr is the reference of the current parent *)
Definition sinv (s : gstate) (cr : sref) : Prop :=
  Forall (sound_tree root) (g_forest s) /\ ref_at root (g_path s) (g_forest s) = Some cr.

Lemma add_child_sound s x s' cr : sinv s cr -> sound_tree cr x -> add_child s x = Ok s' ->
  Forall (sound_tree root) (g_forest s').
Proof.
  intros [Hf Hr] Hx H. destruct (add_child_eq _ _ _ _ _ _ H) as (_ & _ & ->).
  now apply (append_sound _ root _ x cr).
Qed.

Lemma open_group_sound s n r s' cr : sspine s -> sinv s cr ->
  declared t cr GRP n r -> good n r -> open_group s n r = Ok s' -> sinv s' r.
Proof.
  intros Hsp [Hf Hr] Hd Hg H. unfold Groups.open_group in H. inv_bind H. rename a into st.
  inv_bind H. rename a into c. inv_bind H. rename a into s1. injection H as <-.
  assert (Eu : upper n = n) by apply Hg.
  assert (Hx : sound_tree cr (GG (upper n) r st [])).
  { rewrite Eu. apply sound_tree_GG. repeat split; try assumption; try apply Hg. constructor. }
  destruct (add_child_eq _ _ _ _ _ _ Ha1) as (E1 & E2 & E3).
  destruct (cur_group_children _ s c Hsp Ha0) as (cs & Hc & Hm).
  assert (El : match c with Some (_, _, _, cs0) => length cs0 | None => length (g_forest s) end = length cs).
  { destruct c as [[[[? ?] ?] cs']|]; [now destruct Hm as [-> _] | now destruct Hm as [_ ->]]. }
  split; cbn [g_path g_forest].
  - rewrite E3. now apply (append_sound _ root _ _ cr).
  - rewrite E2, E3, El. now apply (ref_at_append_group _ root _ cs cr).
Qed.

Lemma open_groups_sound ex : forall s cr s', sspine s -> sinv s cr -> chain t cr ex ->
  Forall (fun p => good (fst p) (snd p)) ex -> open_groups s (map some_e ex) = Ok s' ->
  sinv s' (last_ref cr ex).
Proof.
  induction ex as [|[g gr] ex IH]; intros s cr s' Hsp Hi Hc Hg H.
  - cbn in H. injection H as <-. exact Hi.
  - cbn [map some_e fst snd Groups.open_groups] in H. inv_bind H. rename a into s1.
    destruct Hc as [Hd Hc]. inversion Hg; subst.
    assert (H1 : sinv s1 gr) by (apply (open_group_sound s g gr s1 cr); assumption).
    destruct (open_group_spine _ _ _ _ _ _ _ _ Hsp Ha) as (Hsp1 & _).
    rewrite last_ref_cons. now apply (IH s1 gr).
Qed.

Lemma place_sound x sr s s' cr : sinv s cr ->
  match sr with Some r => declared t cr SEG (raw x) r | None => True end ->
  place x sr s = Ok s' -> Forall (sound_tree root) (g_forest s').
Proof.
  intros Hi Hd H. unfold Groups.place in H. inv_bind H.
  apply (add_child_sound _ _ _ cr Hi) in H; [exact H|].
  destruct sr as [r|]; [|exact I]. cbn [sound_tree]. exists x. split; assumption.
Qed.

(* the stack: the bottom entry, then a path of declared groups *)
Definition stack_of (ex : list (str * sref)) : list entry := (None, root) :: map some_e ex.

Lemma last_entry_stack ex top : last_entry (stack_of ex) = Ok top ->
  snd top = last_ref root ex /\
  (ex = [] /\ fst top = None \/ exists ex' g, ex = ex' ++ [(g, snd top)] /\ fst top = Some g).
Proof.
  unfold last_entry, stack_of. destruct (list_snoc_cases ex) as [->|(ex' & [g gr] & ->)].
  - cbn. intros H. injection H as <-. split; [reflexivity | left; split; reflexivity].
  - rewrite map_app. cbn [map]. change ((None, root) :: map some_e ex' ++ [some_e (g, gr)])
      with (((None, root) :: map some_e ex') ++ [some_e (g, gr)]).
    rewrite rev_app_distr. cbn. intros H. injection H as <-. cbn [snd fst some_e]. split.
    + rewrite last_ref_app. reflexivity.
    + right. exists ex', g. split; reflexivity.
Qed.

Lemma index_of_nth x l : forall i0 i, index_of x l i0 = Some i ->
  exists j y, i = i0 + j /\ nth_error l j = Some y /\ entry_eqb y x = true.
Proof.
  induction l as [|y l IH]; intros i0 i H; cbn [index_of] in H; [discriminate|].
  destruct (entry_eqb y x) eqn:E.
  - injection H as <-. exists 0, y. repeat split; [lia | exact E].
  - destruct (IH _ _ H) as (j & z & -> & Hn & Hz). exists (S j), z. repeat split; [lia | exact Hn | exact Hz].
Qed.

Lemma opt_eqb_eq a b : opt_eqb a b = true -> a = b.
Proof. destruct a, b; cbn; try discriminate; [|reflexivity]. intros H. now rewrite (streqb_eq _ _ H). Qed.

Lemma after_found_sound x sr s s' ex : sclosed s -> g_stack s = stack_of ex -> chain t root ex ->
  Forall (sound_tree root) (g_forest s) -> declared t (last_ref root ex) SEG (raw x) sr ->
  after_found x sr s = Ok s' ->
  Forall (sound_tree root) (g_forest s') /\ g_stack s' = g_stack s.
Proof.
  intros Hc Hst Hch Hf Hd H. pose proof (chain_good ex root Htab Hch) as Hgood.
  unfold Groups.after_found in H. inv_bind H. rename a into c. inv_bind H. rename a into top.
  inv_bind H. rename a into s2. rewrite Hst in Ha0.
  destruct (last_entry_stack _ _ Ha0) as (Etop & Hcase).
  assert (Hsp : sspine s) by apply Hc.
  assert (H2 : sspine s2 /\ sinv s2 (last_ref root ex) /\ g_stack s2 = g_stack s).
  { destruct c as [[[[n r] st] cs]|].
    - (* inside a group *)
      assert (Hp : g_path s <> []).
      { unfold Groups.cur_group in Ha. destruct (g_path s); [discriminate | discriminate]. }
      assert (Hga : group_at (g_path s) (g_forest s) = Some (n, r, st, cs)).
      { unfold Groups.cur_group in Ha. destruct (g_path s) as [|i p]; [congruence|].
        destruct (group_at (i :: p) (g_forest s)); [now injection Ha as -> | discriminate]. }
      destruct (group_at_sound _ root _ _ _ _ _ Hf Hga) as (Hr & pr' & Hr' & Hnode).
      apply sound_tree_GG in Hnode. destruct Hnode as ((Hdn & Hgn) & Hps & Hcs).
      destruct (negb (opt_eqb (fst top) (Some n))) eqn:Eneq.
      + destruct (index_of (Some n, r) (g_stack s) 0) as [i|] eqn:Ei; [|discriminate].
        destruct (index_of_nth _ _ _ _ Ei) as (j & y & -> & Hn & Hy). rewrite Hst in Hn.
        unfold entry_eqb in Hy. apply andb_prop in Hy. destruct Hy as [Hy _]. apply opt_eqb_eq in Hy.
        destruct j as [|j]; [cbn in Hn; injection Hn as <-; discriminate|].
        cbn [stack_of nth_error] in Hn. rewrite nth_error_map in Hn.
        destruct (nth_error ex j) as [[g gr]|] eqn:Ej; [|discriminate]. cbn in Hn. injection Hn as <-.
        cbn in Hy. injection Hy as ->.
        assert (Hgg : good n gr).
        { apply nth_error_In in Ej. exact (proj1 (Forall_forall _ _) Hgood _ Ej). }
        assert (gr = r) by (destruct Hgg as [E1 _], Hgn as [E2 _]; congruence). subst gr.
        destruct (chain_nth ex root j n r Hch Ej) as (Hch' & El).
        rewrite Hst in Ha1. change (skipn (S (0 + S j)) (stack_of ex)) with (skipn (S j) (map some_e ex)) in Ha1.
        rewrite skipn_map in Ha1.
        assert (Hg' : Forall (fun p => good (fst p) (snd p)) (skipn (S j) ex)).
        { apply Forall_forall. intros p Hp'. apply (proj1 (Forall_forall _ _) Hgood).
          rewrite <- (firstn_skipn (S j) ex). apply in_or_app. now right. }
        pose proof (open_groups_sound _ s r s2 Hsp (conj Hf Hr) Hch' Hg' Ha1) as Hs2.
        rewrite El in Hs2. destruct (open_groups_spine t A nm acceptance _ _ _ Hsp Ha1) as (? & _ & ?). auto.
      + apply negb_false_iff in Eneq. apply opt_eqb_eq in Eneq.
        destruct Hcase as [[_ E]|(ex' & g & Eex & E)]; [congruence|].
        rewrite E in Eneq. injection Eneq as ->.
        assert (Hgg : good n (snd top)).
        { apply (proj1 (Forall_forall _ _) Hgood (n, snd top)). rewrite Eex. apply in_or_app. right. now left. }
        assert (snd top = r) by (destruct Hgg as [E1 _], Hgn as [E2 _]; congruence).
        assert (Er : last_ref root ex = r) by congruence.
        destruct (smem (raw x) (map (child_name nm) cs)).
        * destruct (repetitions_of st (raw x)) as [[mn mx]|]; [|discriminate].
          destruct (mx =? 1)%Z.
          -- unfold Groups.reopen_group in Ha1. rewrite Ha in Ha1. cbn [bind] in Ha1.
             set (up := mk_gstate (g_stack s) (removelast (g_path s)) (g_forest s)) in *.
             assert (Hup : sspine up).
             { unfold st_spine, up. cbn [g_path g_forest].
               apply (closed_removelast A (g_path s) (g_forest s) Hc). }
             pose proof (open_group_sound up n r s2 pr' Hup (conj Hf Hr') Hdn Hgn Ha1) as Hs2.
             destruct (open_group_spine t A nm acceptance _ _ _ _ Hup Ha1) as (? & _ & ?). rewrite Er. auto.
          -- injection Ha1 as <-. rewrite Er. repeat split; assumption.
        * injection Ha1 as <-. rewrite Er. repeat split; assumption.
    - (* at top level *)
      assert (Hp : g_path s = []).
      { unfold Groups.cur_group in Ha. destruct (g_path s) as [|i p]; [reflexivity|].
        destruct (group_at (i :: p) (g_forest s)); discriminate. }
      assert (Hr : ref_at root (g_path s) (g_forest s) = Some root) by now rewrite Hp.
      destruct (opt_is_some (fst top)) eqn:Etn.
      + destruct (index_of (None, root) (g_stack s) 0) as [i|] eqn:Ei; [|discriminate].
        destruct (index_of_nth _ _ _ _ Ei) as (j & y & -> & Hn & Hy). rewrite Hst in Hn.
        unfold entry_eqb in Hy. apply andb_prop in Hy. destruct Hy as [Hy _]. apply opt_eqb_eq in Hy.
        destruct j as [|j].
        * rewrite Hst in Ha1. change (skipn (S (0 + 0)) (stack_of ex)) with (map some_e ex) in Ha1.
          pose proof (open_groups_sound _ s root s2 Hsp (conj Hf Hr) Hch Hgood Ha1) as Hs2.
          destruct (open_groups_spine t A nm acceptance _ _ _ Hsp Ha1) as (? & _ & ?). auto.
        * cbn [stack_of nth_error] in Hn. rewrite nth_error_map in Hn.
          destruct (nth_error ex j) as [[g gr]|]; [|discriminate]. cbn in Hn. injection Hn as <-. discriminate.
      + injection Ha1 as <-. destruct Hcase as [[-> _]|(ex' & g & _ & E)]; [|rewrite E in Etn; discriminate].
        repeat split; assumption. }
  destruct H2 as (Hsp2 & Hi2 & Hs2). split.
  - apply (place_sound x (Some sr) s2 s' _ Hi2 Hd H).
  - unfold Groups.place in H. inv_bind H. destruct (add_child_eq _ _ _ _ _ _ H) as (E & _). congruence.
Qed.

(* the stack between iterations: empty (only after the bottom entry was popped: the next access
   raises) or the bottom entry followed by a path of declared groups *)
Definition stack_ok (stk : list entry) : Prop :=
  stk = [] \/ exists ex, stk = stack_of ex /\ chain t root ex.

Lemma attempts_sound n x : forall s s', sclosed s -> stack_ok (g_stack s) ->
  Forall (sound_tree root) (g_forest s) -> attempts n x s = Ok (Some s') ->
  Forall (sound_tree root) (g_forest s') /\ stack_ok (g_stack s').
Proof.
  induction n as [|n IH]; intros s s' Hc Hk Hf H; cbn [Groups.attempts] in H; [discriminate|].
  inv_bind H. rename a into top. destruct Hk as [Hk|(ex & Hk & Hch)]; [rewrite Hk in Ha; discriminate|].
  inv_bind H. destruct a as [[sr extra]|].
  - inv_bind H. rename a into s1. injection H as <-.
    rewrite Hk in Ha. destruct (last_entry_stack _ _ Ha) as (Etop & _). rewrite Etop in Ha0.
    destruct (search_sound _ _ _ _ _ _ Ha0) as (Hce & Hd).
    assert (Est : g_stack s ++ map (fun p : str * sref => (Some (fst p), snd p)) extra = stack_of (ex ++ extra)).
    { rewrite Hk. unfold stack_of. rewrite map_app. reflexivity. }
    rewrite Est in Ha1.
    destruct (after_found_sound x sr (mk_gstate (stack_of (ex ++ extra)) (g_path s) (g_forest s)) s1 (ex ++ extra))
      as (H1 & H2); try assumption; try reflexivity.
    + now apply chain_app.
    + now rewrite last_ref_app.
    + split; [exact H1|]. right. exists (ex ++ extra). split; [exact H2 | now apply chain_app].
  - destruct (g_path s) eqn:Ep.
    + apply (IH s s'); try assumption. right. eauto.
    + apply IH in H; [exact H | | | exact Hf].
      * unfold st_closed. cbn [g_path g_forest]. rewrite <- Ep. now apply closed_removelast.
      * cbn [g_stack]. rewrite Hk. unfold stack_of.
        destruct (list_snoc_cases ex) as [->|(ex' & p & ->)]; [now left|]. right. exists ex'.
        rewrite map_app. cbn [map].
        change ((None, root) :: map some_e ex' ++ [some_e p]) with (((None, root) :: map some_e ex') ++ [some_e p]).
        rewrite removelast_last. split; [reflexivity|].
        apply chain_removelast in Hch. now rewrite removelast_last in Hch.
Qed.

Lemma step_sound s x s' : sclosed s -> stack_ok (g_stack s) -> Forall (sound_tree root) (g_forest s) ->
  step s x = Ok s' -> Forall (sound_tree root) (g_forest s') /\ stack_ok (g_stack s').
Proof.
  unfold Groups.step. intros Hc Hk Hf H. inv_bind H. destruct a as [s1|].
  - injection H as <-. now apply (attempts_sound _ _ _ _ Hc Hk Hf Ha).
  - destruct (spine_ref_at _ root _ (proj1 Hc)) as (cr & Hr). split.
    + now apply (place_sound x None s s' cr (conj Hf Hr) I).
    + unfold Groups.place in H. inv_bind H. destruct (add_child_eq _ _ _ _ _ _ H) as (E & _). now rewrite E.
Qed.

Lemma run_sound xs : forall s s', sclosed s -> stack_ok (g_stack s) ->
  Forall (sound_tree root) (g_forest s) -> run xs s = Ok s' -> Forall (sound_tree root) (g_forest s').
Proof.
  induction xs as [|x xs IH]; intros s s' Hc Hk Hf H; cbn [Groups.run] in H.
  - now injection H as <-.
  - inv_bind H. destruct (step_sound _ _ _ Hc Hk Hf Ha) as (H1 & H2).
    destruct (step_closed _ _ _ _ _ _ _ _ _ _ _ Hc Ha) as (H3 & _). now apply (IH a s').
Qed.

(* every group of the forest is a declared GRP child of its parent's reference (the message
   reference at top level) and carries the structure of its own reference; every segment parsed
   with a reference is a declared SEG child, under the name it had in the input *)
Theorem find_groups_sound xs f :
  find_groups t X A raw mkseg nm acceptance root xs = Ok f -> Forall (sound_tree root) f.
Proof.
  unfold find_groups. intros H. inv_bind H. injection H as <-.
  apply (run_sound xs (init_state A root) a); try assumption.
  - split; constructor.
  - right. exists []. split; [reflexivity | exact I].
  - constructor.
Qed.
End SoundLoop.

(* ---------- the table hypothesis is decidable ---------- *)
Section TabOk.
Variable t : tables.

(* every GRP row below r is written by name (so that it IS the group table's entry), its name is
   upper case, and the same holds below it *)
Fixpoint tab_ok (fuel : nat) (r : sref) : bool :=
  match fuel with
  | O => false
  | S f =>
      match rows_of t r with
      | Err _ => true
      | Ok rows =>
          forallb (fun x => match x with
                            | SByName GRP g _ _ =>
                                streqb (upper g) g &&
                                match slookup g (t_groups t) with Some gr => tab_ok f gr | None => true end
                            | SIn GRP _ _ _ _ => false
                            | _ => true
                            end) rows
      end
  end.

Lemma tab_ok_sound fuel : forall r, tab_ok fuel r = true -> groups_by_name t r.
Proof.
  induction fuel as [|f IH]; intros r H; [discriminate|]. cbn [tab_ok] in H.
  assert (Hrow : forall g gr, declared t r GRP g gr -> good t g gr /\ tab_ok f gr = true).
  { intros g gr (rows & x & Hr & Hin & Hk & Hx). rewrite Hr in H.
    apply (proj1 (forallb_forall _ _) H) in Hin.
    destruct x as [k n mn mx | k n r' mn mx |]; cbn in Hk; [| |discriminate].
    - injection Hk as -> ->. apply andb_prop in Hin. destruct Hin as [Hu Hl].
      unfold row_ref, row_view in Hx. cbn [table_of] in Hx.
      destruct (slookup g (t_groups t)) as [gr'|] eqn:El; [|discriminate]. cbn in Hx. injection Hx as <-.
      split; [split; [exact El | now apply streqb_eq] | exact Hl].
    - injection Hk as -> ->. discriminate. }
  intros ex. revert r H Hrow. induction ex as [|[g0 gr0] ex IHex]; intros r H Hrow g gr Hc Hd.
  - now apply Hrow.
  - destruct Hc as [Hd0 Hc]. rewrite last_ref_cons in Hd. destruct (Hrow g0 gr0 Hd0) as [_ Hok].
    exact (IH gr0 Hok ex g gr Hc Hd).
Qed.
End TabOk.
