(* Facts about Model/Header.v (_split_msh, get_message_type, get_message_info): totality without
   crashes for every string, the rejection cases, and recovery of the encoding characters from a
   header rendered by Model/MsgEc.v. *)
From Coq Require Import List Bool Arith NArith Init.Byte Lia.
From HL7 Require Import Lib.Str Model.Ec Model.Result Model.Header Model.MsgEc Proofs.MsgEcFacts.
Import ListNotations.
Open Scope bs_scope.
Open Scope res_scope.
Local Arguments ge_27 : simpl never.

(* ------------------------------------------------------------------ *)
(* split / join                                                          *)

Lemma beqb_eq a b : beqb a b = true -> a = b.
Proof. destruct (beqb_spec a b); congruence. Qed.

Lemma split_aux_app c cur x r : nosep beqb c x = true ->
  split_aux beqb c cur (x ++ r) = match r with
                                   | [] => [rev cur ++ x]
                                   | _ => split_aux beqb c (rev x ++ cur) r end.
Proof.
  revert cur. induction x as [|y x IH]; intros cur H; cbn [app rev] in *.
  - destruct r; cbn [split_aux]; auto. now rewrite app_nil_r.
  - cbn [nosep forallb] in H. apply andb_prop in H. destruct H as [Hy Hx].
    apply negb_true_iff in Hy. cbn [split_aux]. rewrite Hy.
    rewrite IH by exact Hx. destruct r; cbn [rev]; now rewrite <- app_assoc.
Qed.

Lemma bsplit_bjoin c (l : list str) : l <> [] -> forallb (nosep beqb c) l = true ->
  bsplit c (bjoin c l) = l.
Proof.
  unfold bsplit, bjoin, split. intros Hne H.
  assert (G: forall cur, split_aux beqb c cur (join c l) =
             match l with [] => [rev cur] | x :: r => (rev cur ++ x) :: r end).
  { induction l as [|x r IH]; intros cur; [congruence|].
    cbn [forallb] in H. apply andb_prop in H. destruct H as [Hx Hr].
    destruct r as [|y r'].
    - cbn [join]. rewrite <- (app_nil_r x) at 1. rewrite split_aux_app by exact Hx. reflexivity.
    - change (join c (x :: y :: r')) with (x ++ c :: join c (y :: r')).
      rewrite split_aux_app by exact Hx.
      cbn [split_aux]. rewrite beqb_refl.
      rewrite rev_app_distr, rev_involutive. f_equal.
      rewrite IH by (auto; congruence). reflexivity. }
  rewrite G. destruct l; [congruence|]. reflexivity.
Qed.

(* a string containing the separator splits into at least two pieces *)
Lemma split_aux_two c cur s : bmem c s = true -> 2 <= length (split_aux beqb c cur s).
Proof.
  revert cur. induction s as [|x r IH]; intros cur H; [discriminate|].
  cbn [split_aux]. unfold bmem in H. cbn [mem existsb] in H.
  destruct (beqb x c) eqn:E.
  - cbn [length]. assert (1 <= length (split_aux beqb c [] r)); [|lia].
    destruct r; cbn [split_aux length]; [lia|]. destruct (beqb b c); cbn [length]; [lia|].
    clear. generalize [b] as k. induction r as [|y r IHr]; intros k; cbn [split_aux length]; [lia|].
    destruct (beqb y c); cbn [length]; [lia|apply IHr].
  - cbn [orb] in H. apply IH. exact H.
Qed.

Lemma nth1_exists {A} (l : list A) : 2 <= length l -> exists x, nth_error l 1 = Some x.
Proof. destruct l as [|a [|b l]]; cbn [length]; try lia. intros _. now exists b. Qed.

(* ------------------------------------------------------------------ *)
(* first line                                                            *)

Lemma first_line_app x t : nosep beqb CR x = true -> (t = [] \/ exists t', t = CR :: t') ->
  first_line (x ++ t) = x.
Proof.
  intros Hx Ht. induction x as [|a x IH]; cbn [app].
  - destruct Ht as [->|[t' ->]]; [reflexivity|]. cbn [first_line]. now rewrite beqb_refl.
  - cbn [nosep forallb] in Hx. apply andb_prop in Hx. destruct Hx as [Ha Hx]. apply negb_true_iff in Ha.
    cbn [first_line]. rewrite Ha. now rewrite (IH Hx).
Qed.

Lemma nosep_app c (x y : str) : nosep beqb c (x ++ y) = nosep beqb c x && nosep beqb c y.
Proof. unfold nosep. now rewrite forallb_app. Qed.

Lemma nosep_join d c (l : list str) : beqb c d = false -> forallb (nosep beqb d) l = true ->
  nosep beqb d (bjoin c l) = true.
Proof.
  intros Hc. unfold bjoin. induction l as [|x [|y r] IH]; cbn [forallb join]; intros H.
  - reflexivity.
  - now rewrite andb_true_r in H.
  - apply andb_prop in H. destruct H as [Hx Hr]. rewrite nosep_app, Hx. cbn [nosep forallb andb].
    rewrite Hc. cbn [negb andb]. exact (IH Hr).
Qed.

Lemma bjoin_cons_shape c (h : str) (l : list str) :
  exists t, bjoin c (h :: l) = h ++ t /\ (t = [] \/ exists t', t = c :: t').
Proof.
  destruct l as [|y r].
  - exists []. cbn. now rewrite app_nil_r; auto.
  - exists (c :: bjoin c (y :: r)). split; [reflexivity|right; eauto].
Qed.

(* ------------------------------------------------------------------ *)
(* the regular expression ^MSH(\S)                                        *)

Lemma msh_field_sep_some content fs : msh_field_sep content = Some fs ->
  exists rest, content = ("MSH" : str) ++ fs :: rest /\ is_space fs = false.
Proof.
  unfold msh_field_sep. destruct content as [|m [|s [|h [|f rest]]]]; try discriminate.
  destruct (beqb m "M") eqn:Em; [|discriminate]. destruct (beqb s "S") eqn:Es; [|discriminate].
  destruct (beqb h "H") eqn:Eh; [|discriminate]. cbn [andb].
  destruct (is_space f) eqn:Ef; [discriminate|]. cbn [negb]. intros E. inversion E. subst f.
  apply beqb_eq in Em, Es, Eh. subst. exists rest. split; [reflexivity|exact Ef].
Qed.

Lemma msh_field_sep_msh fs rest : is_space fs = false ->
  msh_field_sep (("MSH" : str) ++ fs :: rest) = Some fs.
Proof. intros H. cbn. now rewrite H. Qed.

Lemma not_space_not_cr fs : is_space fs = false -> beqb fs CR = false.
Proof.
  intros H. destruct (beqb fs CR) eqn:E; [|reflexivity]. apply beqb_eq in E. subst fs.
  vm_compute in H. discriminate.
Qed.

(* MSH-2 (fields[1]) always exists once the regular expression has matched *)
Lemma field1_exists content fs : msh_field_sep content = Some fs ->
  exists seps, nth_str (bsplit fs (first_line content)) 1 = Ok seps.
Proof.
  intros H. apply msh_field_sep_some in H. destruct H as [rest [-> Hs]].
  pose proof (not_space_not_cr fs Hs) as Hcr.
  assert (E : first_line (("MSH" : str) ++ fs :: rest) = ("MSH" : str) ++ fs :: first_line rest).
  { cbn. now rewrite Hcr. }
  rewrite E. unfold nth_str, bsplit, split.
  destruct (nth1_exists (split_aux beqb fs [] (("MSH" : str) ++ fs :: first_line rest))) as [x Hx].
  - apply split_aux_two. unfold bmem, mem. rewrite existsb_app. cbn [existsb]. rewrite beqb_refl.
    now rewrite orb_true_r.
  - exists x.
    exact (f_equal (fun o : option str => match o with Some x0 => Ok x0 | None => Err (Crash IndexError) end) Hx).
Qed.

(* ------------------------------------------------------------------ *)
(* totality: never Crash, never OutOfFuel                                 *)

Definition header_outcome {A} (r : result A) : Prop :=
  (exists x, r = Ok x) \/ r = Err (HL7 EParserError) \/ r = Err (HL7 EInvalidEncodingChars).

Lemma split_msh_total content : header_outcome (split_msh content).
Proof.
  unfold header_outcome, split_msh. destruct (msh_field_sep content) as [fs|] eqn:F; [|auto].
  destruct (field1_exists content fs F) as [seps ->]. cbn [bind].
  destruct (negb (nodupb beqb seps)); [auto|].
  destruct (existsb is_space seps); [auto|].
  destruct seps as [|c [|r [|e [|s [|t [|u seps]]]]]]; auto; [eauto|].
  destruct (nth_error _ 11) as [v|]; auto. destruct (ge_27 v); eauto.
Qed.

Lemma get_message_type_total content : header_outcome (get_message_type content).
Proof.
  unfold get_message_type. destruct (split_msh_total content) as [[[fields e] ->]|[->| ->]];
    unfold header_outcome; cbn [bind]; eauto.
Qed.

Lemma get_message_info_total content : header_outcome (get_message_info content).
Proof.
  unfold get_message_info. destruct (split_msh_total content) as [[[fields e] ->]|[->| ->]];
    unfold header_outcome; cbn [bind]; eauto.
Qed.

Lemma header_outcome_no_crash {A} (r : result A) : header_outcome r ->
  is_crash r = false /\ r <> Err OutOfFuel /\ r <> Err PyValueError.
Proof.
  intros [[x ->]|[->| ->]]; cbn; repeat split; discriminate.
Qed.

(* ------------------------------------------------------------------ *)
(* rejection of malformed MSH-2                                           *)

Lemma split_msh_rejects content fs seps :
  msh_field_sep content = Some fs ->
  nth_error (bsplit fs (first_line content)) 1 = Some seps ->
  nodupb beqb seps = false \/ existsb is_space seps = true \/ length seps < 4 \/ 5 < length seps ->
  split_msh content = Err (HL7 EInvalidEncodingChars).
Proof.
  intros F N H. unfold split_msh, nth_str, str in *. rewrite F, N. cbn [bind].
  destruct (nodupb beqb seps); cbn [negb]; [|reflexivity].
  destruct (existsb is_space seps); [reflexivity|].
  destruct H as [H|[H|[H|H]]]; [discriminate|discriminate| |];
    destruct seps as [|c [|r [|e [|s [|t [|u seps]]]]]]; cbn [length] in H; try lia; reflexivity.
Qed.

(* five characters need a version >= 2.7 in MSH-12 *)
Lemma split_msh_rejects_five content fs c r e s t :
  msh_field_sep content = Some fs ->
  nth_error (bsplit fs (first_line content)) 1 = Some [c; r; e; s; t] ->
  (forall v, nth_error (bsplit fs (first_line content)) 11 = Some v -> ge_27 v = false) ->
  split_msh content = Err (HL7 EInvalidEncodingChars).
Proof.
  intros F N H. unfold split_msh, nth_str, str in *. rewrite F, N. cbn [bind].
  destruct (negb _); [reflexivity|]. destruct (existsb is_space _); [reflexivity|].
  destruct (nth_error _ 11) as [v|]; [|reflexivity].
  now rewrite (H v eq_refl).
Qed.

(* ------------------------------------------------------------------ *)
(* a rendered header is read back                                         *)

(* what makes a valid set survive the trip through text: no encoding character is white space
   (the regular expression wants \S after MSH, _split_msh refuses white space in MSH-2, and CR ends
   the segment) and the field separator is not a letter of "MSH" *)
Definition ec_textual (e : ec) : bool :=
  negb (existsb is_space (ec_all e)) && negb (bmem (fsep e) "MSH").

Lemma ec_textual_parts e : ec_textual e = true ->
  is_space (fsep e) = false /\ bmem (fsep e) "MSH" = false /\ bmem CR (ec_all e) = false /\
  existsb is_space (ec_all e) = false.
Proof.
  unfold ec_textual. intros H. apply andb_prop in H. destruct H as [Hs Hm].
  apply negb_true_iff in Hs, Hm. repeat split; try assumption.
  - unfold ec_all, ec_required in Hs. cbn [app existsb] in Hs. now apply orb_false_elim in Hs.
  - destruct (bmem CR (ec_all e)) eqn:E; [|reflexivity]. exfalso.
    unfold bmem, mem in E. apply existsb_exists in E. destruct E as [x [Hin Hx]].
    apply beqb_eq in Hx. subst x.
    assert (existsb is_space (ec_all e) = true); [|congruence].
    apply existsb_exists. exists CR. split; [exact Hin|reflexivity].
Qed.

Lemma msh2_incl v e : incl (msh2_of v e) (ec_all e).
Proof.
  intros x. unfold msh2_of, trunc_part, ec_all, ec_required.
  destruct e as [f c r es s [t|]]; cbn [fsep csep rsep esc ssep tsep]; destruct (ge_27 v);
    cbn [app In]; intuition.
Qed.

Lemma msh2_nospace v e : existsb is_space (ec_all e) = false -> existsb is_space (msh2_of v e) = false.
Proof.
  intros H. destruct (existsb is_space (msh2_of v e)) eqn:E; [|reflexivity]. exfalso.
  apply existsb_exists in E. destruct E as [x [Hin Hx]].
  assert (existsb is_space (ec_all e) = true); [|congruence].
  apply existsb_exists. exists x. split; [exact (msh2_incl v e x Hin)|exact Hx].
Qed.

Definition field_ok (e : ec) (x : str) : bool := nosep beqb CR x && nosep beqb (fsep e) x.

(* the version hypothesis: when the truncation character is emitted, MSH-12 must compare >= '2.7' *)
Definition version_field_ok (v : str) (e : ec) (rest : list str) : Prop :=
  trunc_part v e <> [] -> exists v12, nth_error rest 9 = Some v12 /\ ge_27 v12 = true.

Lemma msh2_nodup v e : ec_wf e = true -> nodupb beqb (msh2_of v e) = true.
Proof.
  unfold ec_wf. apply (nodupb_sub beqb beqb_spec). intros x.
  unfold msh2_of, trunc_part, ec_all, ec_required.
  destruct e as [f c r es s [t|]]; cbn [fsep csep rsep esc ssep tsep]; destruct (ge_27 v);
    cbn [app count_occ_b]; lia.
Qed.

Lemma msh2_nosep_f v e : ec_wf e = true -> nosep beqb (fsep e) (msh2_of v e) = true.
Proof.
  intros H. rewrite (nosep_mem beqb). apply negb_true_iff.
  assert (G : nodupb beqb (fsep e :: msh2_of v e) = true).
  { revert H. unfold ec_wf. apply (nodupb_sub beqb beqb_spec). intros x.
    unfold msh2_of, trunc_part, ec_all, ec_required.
    destruct e as [f c r es s [t|]]; cbn [fsep csep rsep esc ssep tsep]; destruct (ge_27 v);
      cbn [app count_occ_b]; lia. }
  cbn [nodupb] in G. apply andb_prop in G. destruct G as [G _]. now apply negb_true_iff in G.
Qed.

Lemma msh2_nocr v e : bmem CR (ec_all e) = false -> nosep beqb CR (msh2_of v e) = true.
Proof.
  intros H. rewrite (nosep_mem beqb). apply negb_true_iff.
  destruct (mem beqb CR (msh2_of v e)) eqn:E; [|reflexivity].
  apply (mem_count beqb) in E.
  assert (count_occ_b beqb CR (ec_all e) = 0) as Z by (apply (mem_false_count beqb); exact H).
  revert E Z. unfold msh2_of, trunc_part, ec_all, ec_required.
  destruct e as [f c r es s [t|]]; cbn [fsep csep rsep esc ssep tsep]; destruct (ge_27 v);
    cbn [app count_occ_b]; lia.
Qed.

Lemma split_msh_header v e rest tail :
  ec_wf e = true -> ec_textual e = true -> forallb (field_ok e) rest = true ->
  (tail = [] \/ exists t', tail = CR :: t') ->
  version_field_ok v e rest ->
  split_msh (header_text v e rest ++ tail) = Ok (("MSH" : str) :: msh2_of v e :: rest, norm_ec v e).
Proof.
  intros Hwf Htx Hrest Htail Hver.
  destruct (ec_textual_parts e Htx) as [Hsp [Hmsh [Hcr Hnsp]]].
  pose proof (not_space_not_cr _ Hsp) as Hfcr.
  assert (Hfields : forallb (nosep beqb (fsep e)) ((("MSH" : bs) : str) :: msh2_of v e :: rest) = true).
  { cbn [forallb]. rewrite (nosep_mem beqb). fold (bmem (fsep e) "MSH"). rewrite Hmsh.
    rewrite (msh2_nosep_f v e Hwf). cbn [negb andb].
    rewrite forallb_forall in Hrest |- *. intros x Hx. specialize (Hrest x Hx).
    unfold field_ok in Hrest. apply andb_prop in Hrest. tauto. }
  assert (Hnocr : nosep beqb CR (header_text v e rest) = true).
  { unfold header_text. apply nosep_join; [exact Hfcr|].
    cbn [forallb]. rewrite (msh2_nocr v e Hcr).
    assert (nosep beqb CR (("MSH" : bs) : str) = true) as -> by reflexivity.
    cbn [andb].
    rewrite forallb_forall in Hrest |- *. intros x Hx. specialize (Hrest x Hx).
    unfold field_ok in Hrest. apply andb_prop in Hrest. tauto. }
  unfold split_msh.
  assert (Hsep : msh_field_sep (header_text v e rest ++ tail) = Some (fsep e)).
  { unfold header_text, bjoin.
    change (join (fsep e) ((("MSH" : bs) : str) :: msh2_of v e :: rest))
      with ((("MSH" : bs) : str) ++ fsep e :: join (fsep e) (msh2_of v e :: rest)).
    rewrite <- app_assoc. cbn [app]. apply (msh_field_sep_msh (fsep e)). exact Hsp. }
  rewrite Hsep. rewrite (first_line_app _ _ Hnocr Htail).
  unfold header_text. rewrite bsplit_bjoin by (discriminate || exact Hfields).
  cbn [nth_str nth_error bind]. rewrite (msh2_nodup v e Hwf). cbn [negb].
  rewrite (msh2_nospace v e Hnsp).
  unfold version_field_ok in Hver. unfold msh2_of in *. unfold norm_ec.
  destruct (trunc_part v e) as [|t [|t2 l]] eqn:T.
  - cbn [app]. unfold trunc_part in T. destruct (if ge_27 v then tsep e else None); [discriminate|reflexivity].
  - cbn [app nth_error]. destruct Hver as [v12 [H12 Hge]]; [discriminate|]. unfold str in *. cbn [nth_error] in H12. rewrite H12, Hge.
    unfold trunc_part in T. destruct (if ge_27 v then tsep e else None); inversion T. reflexivity.
  - unfold trunc_part in T. destruct (if ge_27 v then tsep e else None); discriminate.
Qed.

(* and the hypothesis on MSH-12 is necessary *)
Lemma split_msh_header_needs_version v e rest tail :
  ec_wf e = true -> ec_textual e = true -> forallb (field_ok e) rest = true ->
  (tail = [] \/ exists t', tail = CR :: t') ->
  trunc_part v e <> [] ->
  (forall v12, nth_error rest 9 = Some v12 -> ge_27 v12 = false) ->
  split_msh (header_text v e rest ++ tail) = Err (HL7 EInvalidEncodingChars).
Proof.
  intros Hwf Htx Hrest Htail Htr Hver.
  destruct (ec_textual_parts e Htx) as [Hsp [Hmsh [Hcr Hnsp]]].
  pose proof (not_space_not_cr _ Hsp) as Hfcr.
  assert (Hfields : forallb (nosep beqb (fsep e)) ((("MSH" : bs) : str) :: msh2_of v e :: rest) = true).
  { cbn [forallb]. rewrite (nosep_mem beqb). fold (bmem (fsep e) "MSH"). rewrite Hmsh.
    rewrite (msh2_nosep_f v e Hwf). cbn [negb andb].
    rewrite forallb_forall in Hrest |- *. intros x Hx. specialize (Hrest x Hx).
    unfold field_ok in Hrest. apply andb_prop in Hrest. tauto. }
  assert (Hnocr : nosep beqb CR (header_text v e rest) = true).
  { unfold header_text. apply nosep_join; [exact Hfcr|].
    cbn [forallb]. rewrite (msh2_nocr v e Hcr).
    assert (nosep beqb CR (("MSH" : bs) : str) = true) as -> by reflexivity.
    cbn [andb].
    rewrite forallb_forall in Hrest |- *. intros x Hx. specialize (Hrest x Hx).
    unfold field_ok in Hrest. apply andb_prop in Hrest. tauto. }
  assert (Hsep : msh_field_sep (header_text v e rest ++ tail) = Some (fsep e)).
  { unfold header_text, bjoin.
    change (join (fsep e) ((("MSH" : bs) : str) :: msh2_of v e :: rest))
      with ((("MSH" : bs) : str) ++ fsep e :: join (fsep e) (msh2_of v e :: rest)).
    rewrite <- app_assoc. cbn [app]. apply (msh_field_sep_msh (fsep e)). exact Hsp. }
  assert (Hsplit : bsplit (fsep e) (first_line (header_text v e rest ++ tail)) =
                   (("MSH" : bs) : str) :: msh2_of v e :: rest).
  { rewrite (first_line_app _ _ Hnocr Htail). unfold header_text.
    apply bsplit_bjoin; [discriminate|exact Hfields]. }
  unfold msh2_of in *. unfold trunc_part in *.
  destruct (if ge_27 v then tsep e else None) as [t|]; [|congruence].
  apply (split_msh_rejects_five _ (fsep e) (csep e) (rsep e) (esc e) (ssep e) t Hsep).
  - rewrite Hsplit. reflexivity.
  - rewrite Hsplit. cbn [nth_error]. exact Hver.
Qed.
