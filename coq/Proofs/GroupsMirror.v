(* The parents_refs stack mirrors the chain of open groups exactly, provided group names are
   pairwise distinct along every path of the structure; consequently a segment is left unplaced
   only when the search from the message reference itself finds nothing. *)
From Coq Require Import List Bool Arith ZArith NArith Lia Init.Byte.
From HL7 Require Import Lib.Str Model.Ec Model.Result Model.Ref Model.Tree Model.Parser Model.MsgTree
                        Model.Groups Proofs.GroupsFacts.
Import ListNotations.
Open Scope bs_scope.
Open Scope res_scope.

Lemma NoDup_fst_nth {B} (l : list (str * B)) a b n x y :
  NoDup (map fst l) -> nth_error l a = Some (n, x) -> nth_error l b = Some (n, y) -> a = b.
Proof.
  intros Hnd Ha Hb.
  assert (Ea : nth_error (map fst l) a = Some n) by (rewrite nth_error_map, Ha; reflexivity).
  assert (Eb : nth_error (map fst l) b = Some n) by (rewrite nth_error_map, Hb; reflexivity).
  apply (proj1 (NoDup_nth_error (map fst l)) Hnd a b).
  - apply nth_error_Some. congruence.
  - congruence.
Qed.

Section Mirror.
Variable t : tables.
Variable X A : Type.
Variable raw : X -> str.
Variable mkseg : X -> option sref -> result A.
Variable nm : A -> str.
Variable acceptance : str * sref * structure -> list str -> str -> result unit.
Variable root : sref.

Notation gstate := (gstate A).
Notation cur_group := (@cur_group A).
Notation add_child := (add_child A nm acceptance).
Notation open_group := (open_group t A nm acceptance).
Notation open_groups := (open_groups t A nm acceptance).
Notation reopen_group := (reopen_group t A nm acceptance).
Notation place := (place X A mkseg nm acceptance).
Notation after_found := (after_found t X A raw mkseg nm acceptance root).
Notation attempts := (attempts t X A raw mkseg nm acceptance root).
Notation step := (step t X A raw mkseg nm acceptance root).
Notation run := (run t X A raw mkseg nm acceptance root).
Notation sspine := (st_spine A).
Notation sclosed := (st_closed A).
Notation some_e := (@some_e).
Notation stack_of := (stack_of root).
Notation good := (good t).

Hypothesis Htab : groups_by_name t root.
(* group names are pairwise distinct along every path of declared groups below root *)
Hypothesis Hdist : forall ex, chain t root ex -> NoDup (map fst ex).

(* (name, reference) of the group nodes along a path *)
Fixpoint path_entries (p : list nat) (f : gforest A) : option (list (str * sref)) :=
  match p with
  | [] => Some []
  | i :: p' => match nth_error f i with
               | Some (GG n r _ cs) => option_map (cons (n, r)) (path_entries p' cs)
               | _ => None
               end
  end.

Lemma path_entries_length p : forall f ex, path_entries p f = Some ex -> length ex = length p.
Proof.
  induction p as [|i p IH]; intros f ex H; cbn [path_entries] in H.
  - now injection H as <-.
  - destruct (nth_error f i) as [[a r | n r st cs]|]; try discriminate.
    destruct (path_entries p cs) as [ex'|] eqn:E; [|discriminate]. cbn in H. injection H as <-.
    cbn. f_equal. now apply (IH cs).
Qed.

Lemma path_entries_append p : forall f x, path_entries p (append_at p x f) = path_entries p f.
Proof.
  induction p as [|i p IH]; intros f x; [reflexivity|]. cbn [path_entries append_at].
  destruct (nth_error f i) as [y|] eqn:En.
  - rewrite (nth_error_update_nth _ _ _ _ En). destruct y as [a r | n r st cs]; [reflexivity|].
    now rewrite IH.
  - assert (E : nth_error (update_nth i (fun n => match n with
                                                   | GG a b c cs => GG a b c (append_at p x cs)
                                                   | s => s end) f) i = None).
    { clear IH. revert f En. induction i as [|i IHi]; intros [|z f] En; cbn in *; try reflexivity; try discriminate.
      now apply IHi. }
    now rewrite E.
Qed.

Lemma path_entries_open p : forall f cs0 n r st ex, children_at p f = Some cs0 ->
  path_entries p f = Some ex ->
  path_entries (p ++ [length cs0]) (append_at p (GG n r st []) f) = Some (ex ++ [(n, r)]).
Proof.
  induction p as [|i p IH]; intros f cs0 n r st ex Hc He.
  - cbn in Hc, He. injection Hc as <-. injection He as <-. cbn [app append_at path_entries].
    now rewrite nth_error_snoc.
  - cbn [children_at] in Hc. cbn [path_entries] in He.
    destruct (nth_error f i) as [[a sr | g r1 st1 cs1]|] eqn:En; try discriminate.
    destruct (path_entries p cs1) as [ex'|] eqn:E; [|discriminate]. cbn in He. injection He as <-.
    cbn [app append_at path_entries]. rewrite (nth_error_update_nth _ _ _ _ En).
    rewrite (IH cs1 cs0 n r st ex' Hc E). reflexivity.
Qed.

Lemma path_entries_removelast p : forall f ex, path_entries p f = Some ex ->
  path_entries (removelast p) f = Some (removelast ex).
Proof.
  induction p as [|i p IH]; intros f ex H; [cbn in H; now injection H as <-|].
  cbn [path_entries] in H. destruct (nth_error f i) as [[a r | n r st cs]|] eqn:En; try discriminate.
  destruct (path_entries p cs) as [ex'|] eqn:E; [|discriminate]. cbn in H. injection H as <-.
  destruct p as [|j p].
  - cbn in E. injection E as <-. reflexivity.
  - change (removelast (i :: j :: p)) with (i :: removelast (j :: p)). cbn [path_entries]. rewrite En.
    rewrite (IH cs ex' E). pose proof (path_entries_length _ _ _ E) as El.
    destruct ex' as [|q ex']; [discriminate|]. reflexivity.
Qed.

Lemma path_entries_group p : forall f ex n r st cs, path_entries p f = Some ex ->
  group_at p f = Some (n, r, st, cs) -> exists ex0, ex = ex0 ++ [(n, r)].
Proof.
  induction p as [|i p IH]; intros f ex n r st cs He Hg; [discriminate|].
  cbn [path_entries] in He. destruct p as [|j p].
  - cbn [group_at] in Hg. destruct (nth_error f i) as [[a sr | g r1 st1 cs1]|]; try discriminate.
    injection Hg as -> -> -> ->. cbn in He. injection He as <-. now exists [].
  - change (group_at (i :: j :: p) f) with
      (match nth_error f i with Some (GG _ _ _ cs0) => group_at (j :: p) cs0 | _ => None end) in Hg.
    destruct (nth_error f i) as [[a sr | g r1 st1 cs1]|]; try discriminate.
    destruct (path_entries (j :: p) cs1) as [ex'|] eqn:E; [|discriminate]. cbn in He. injection He as <-.
    destruct (IH cs1 ex' n r st cs E Hg) as (ex0 & ->). now exists ((g, r1) :: ex0).
Qed.

(* the mirror: stack = bottom entry + the entries of the open groups, in order *)
Definition mirror (s : gstate) (ex : list (str * sref)) : Prop :=
  g_stack s = stack_of ex /\ chain t root ex /\ path_entries (g_path s) (g_forest s) = Some ex.

Lemma open_group_mirror s n r s' ex : sspine s -> path_entries (g_path s) (g_forest s) = Some ex ->
  good n r -> open_group s n r = Ok s' ->
  path_entries (g_path s') (g_forest s') = Some (ex ++ [(n, r)]).
Proof.
  intros Hsp He Hg H. unfold Groups.open_group in H. inv_bind H. rename a into st.
  inv_bind H. rename a into c. inv_bind H. rename a into s1. injection H as <-.
  destruct (add_child_eq _ _ _ _ _ _ Ha1) as (E1 & E2 & E3).
  destruct (cur_group_children _ s c Hsp Ha0) as (cs & Hc & Hm).
  assert (El : match c with Some (_, _, _, cs0) => length cs0 | None => length (g_forest s) end = length cs).
  { destruct c as [[[[? ?] ?] cs']|]; [now destruct Hm as [-> _] | now destruct Hm as [_ ->]]. }
  cbn [g_path g_forest]. rewrite E2, E3, El. destruct Hg as [_ Hu]. rewrite Hu.
  now apply path_entries_open.
Qed.

Lemma open_groups_mirror extra : forall s s' ex, sspine s ->
  path_entries (g_path s) (g_forest s) = Some ex ->
  Forall (fun p => good (fst p) (snd p)) extra -> open_groups s (map some_e extra) = Ok s' ->
  path_entries (g_path s') (g_forest s') = Some (ex ++ extra).
Proof.
  induction extra as [|[g gr] extra IH]; intros s s' ex Hsp He Hg H.
  - cbn in H. injection H as <-. now rewrite app_nil_r.
  - cbn [map GroupsFacts.some_e fst snd Groups.open_groups] in H. inv_bind H. rename a into s1.
    inversion Hg; subst.
    pose proof (open_group_mirror s g gr s1 ex Hsp He H2 Ha) as H1.
    destruct (open_group_spine t A nm acceptance _ _ _ _ Hsp Ha) as (Hsp1 & _).
    rewrite (IH s1 s' (ex ++ [(g, gr)]) Hsp1 H1 H3 H). now rewrite <- app_assoc.
Qed.

Lemma after_found_mirror x sr s s' ex extra : sclosed s ->
  g_stack s = stack_of (ex ++ extra) -> chain t root (ex ++ extra) ->
  path_entries (g_path s) (g_forest s) = Some ex ->
  after_found x sr s = Ok s' -> mirror s' (ex ++ extra).
Proof.
  intros Hc Hst Hch He H.
  pose proof (chain_good t (ex ++ extra) root Htab Hch) as Hgood.
  pose proof (Hdist _ Hch) as Hnd.
  unfold Groups.after_found in H. inv_bind H. rename a into c. inv_bind H. rename a into top.
  inv_bind H. rename a into s2. rewrite Hst in Ha0.
  destruct (last_entry_stack root _ _ Ha0) as (Etop & Hcase).
  assert (Hsp : sspine s) by apply Hc.
  assert (H2 : sspine s2 /\ path_entries (g_path s2) (g_forest s2) = Some (ex ++ extra) /\ g_stack s2 = g_stack s).
  { destruct c as [[[[n r] st] cs]|].
    - assert (Hga : group_at (g_path s) (g_forest s) = Some (n, r, st, cs)).
      { unfold Groups.cur_group in Ha. destruct (g_path s) as [|i p]; [congruence|].
        destruct (group_at (i :: p) (g_forest s)); [now injection Ha as -> | discriminate]. }
      destruct (path_entries_group _ _ _ _ _ _ _ He Hga) as (ex0 & ->).
      destruct (negb (opt_eqb (fst top) (Some n))) eqn:Eneq.
      + destruct (index_of (Some n, r) (g_stack s) 0) as [i|] eqn:Ei; [|discriminate].
        destruct (index_of_nth _ _ _ _ Ei) as (j & y & -> & Hn & Hy). rewrite Hst in Hn.
        unfold entry_eqb in Hy. apply andb_prop in Hy. destruct Hy as [Hy _]. apply opt_eqb_eq in Hy.
        destruct j as [|j]; [cbn in Hn; injection Hn as <-; discriminate|].
        cbn [GroupsFacts.stack_of nth_error] in Hn. rewrite nth_error_map in Hn.
        destruct (nth_error ((ex0 ++ [(n, r)]) ++ extra) j) as [[g gr]|] eqn:Ej; [|discriminate].
        cbn in Hn. injection Hn as <-. cbn in Hy. injection Hy as ->.
        assert (Ek : nth_error ((ex0 ++ [(n, r)]) ++ extra) (length ex0) = Some (n, r)).
        { rewrite <- app_assoc. rewrite nth_error_app2 by lia. now rewrite Nat.sub_diag. }
        assert (j = length ex0) by exact (NoDup_fst_nth _ _ _ _ _ _ Hnd Ej Ek). subst j.
        rewrite Hst in Ha1.
        change (skipn (S (0 + S (length ex0))) (stack_of ((ex0 ++ [(n, r)]) ++ extra)))
          with (skipn (S (length ex0)) (map some_e ((ex0 ++ [(n, r)]) ++ extra))) in Ha1.
        rewrite skipn_map in Ha1.
        assert (Esk : skipn (S (length ex0)) ((ex0 ++ [(n, r)]) ++ extra) = extra).
        { replace (S (length ex0)) with (length (ex0 ++ [(n, r)]) + 0) by (rewrite app_length; cbn; lia).
          now rewrite skipn_app, Nat.add_0_r, skipn_all, Nat.sub_diag. }
        rewrite Esk in Ha1.
        assert (Hg' : Forall (fun p => good (fst p) (snd p)) extra).
        { apply Forall_app in Hgood. tauto. }
        pose proof (open_groups_mirror extra s s2 _ Hsp He Hg' Ha1) as Hm.
        destruct (open_groups_spine t A nm acceptance _ _ _ Hsp Ha1) as (? & _ & ?). auto.
      + apply negb_false_iff in Eneq. apply opt_eqb_eq in Eneq.
        assert (Eextra : extra = []).
        { destruct (list_snoc_cases extra) as [->|(extra' & [g gr] & ->)]; [reflexivity|]. exfalso.
          destruct Hcase as [[E _]|(ex' & g' & Eex & E)].
          - destruct ex0; discriminate.
          - rewrite E in Eneq. injection Eneq as ->.
            rewrite app_assoc in Eex. apply app_inj_tail in Eex. destruct Eex as [_ Eex]. injection Eex as -> _.
            assert (E1 : nth_error ((ex0 ++ [(n, r)]) ++ extra' ++ [(n, gr)]) (length ex0) = Some (n, r)).
            { rewrite <- app_assoc. rewrite nth_error_app2 by lia. now rewrite Nat.sub_diag. }
            assert (E2 : nth_error ((ex0 ++ [(n, r)]) ++ extra' ++ [(n, gr)])
                                   (length (ex0 ++ [(n, r)]) + length extra') = Some (n, gr)).
            { rewrite nth_error_app2 by lia. replace (length (ex0 ++ [(n, r)]) + length extra' - length (ex0 ++ [(n, r)]))
                with (length extra') by lia. rewrite nth_error_app2 by lia. now rewrite Nat.sub_diag. }
            pose proof (NoDup_fst_nth _ _ _ _ _ _ Hnd E1 E2) as Ec. rewrite app_length in Ec. cbn in Ec. lia. }
        subst extra. rewrite app_nil_r in *.
        destruct (smem (raw x) (map (child_name nm) cs)).
        * destruct (repetitions_of st (raw x)) as [[mn mx]|]; [|discriminate].
          destruct (mx =? 1)%Z.
          -- unfold Groups.reopen_group in Ha1. rewrite Ha in Ha1. cbn [bind] in Ha1.
             set (up := mk_gstate (g_stack s) (removelast (g_path s)) (g_forest s)) in *.
             assert (Hup : sspine up).
             { unfold st_spine, up. cbn [g_path g_forest].
               apply (closed_removelast A (g_path s) (g_forest s) Hc). }
             assert (Heu : path_entries (g_path up) (g_forest up) = Some ex0).
             { unfold up. cbn [g_path g_forest]. rewrite (path_entries_removelast _ _ _ He).
               now rewrite removelast_last. }
             assert (Hgn : good n r).
             { apply (proj1 (Forall_forall _ _) Hgood (n, r)). apply in_or_app. right. now left. }
             pose proof (open_group_mirror up n r s2 ex0 Hup Heu Hgn Ha1) as Hm.
             destruct (open_group_spine t A nm acceptance _ _ _ _ Hup Ha1) as (? & _ & ?). auto.
          -- injection Ha1 as <-. auto.
        * injection Ha1 as <-. auto.
    - assert (Hp : g_path s = []).
      { unfold Groups.cur_group in Ha. destruct (g_path s) as [|i p]; [reflexivity|].
        destruct (group_at (i :: p) (g_forest s)); discriminate. }
      assert (Eex : ex = []).
      { pose proof (path_entries_length _ _ _ He) as El. rewrite Hp in El. now destruct ex. }
      subst ex. cbn [app] in *.
      destruct (opt_is_some (fst top)) eqn:Etn.
      + destruct (index_of (None, root) (g_stack s) 0) as [i|] eqn:Ei; [|discriminate].
        destruct (index_of_nth _ _ _ _ Ei) as (j & y & -> & Hn & Hy). rewrite Hst in Hn.
        unfold entry_eqb in Hy. apply andb_prop in Hy. destruct Hy as [Hy _]. apply opt_eqb_eq in Hy.
        destruct j as [|j].
        * rewrite Hst in Ha1. change (skipn (S (0 + 0)) (stack_of extra)) with (map some_e extra) in Ha1.
          pose proof (open_groups_mirror extra s s2 [] Hsp He Hgood Ha1) as Hm.
          destruct (open_groups_spine t A nm acceptance _ _ _ Hsp Ha1) as (? & _ & ?). auto.
        * cbn [GroupsFacts.stack_of nth_error] in Hn. rewrite nth_error_map in Hn.
          destruct (nth_error extra j) as [[g gr]|]; [|discriminate]. cbn in Hn. injection Hn as <-. discriminate.
      + injection Ha1 as <-. destruct Hcase as [[-> _]|(ex' & g & _ & E)]; [|rewrite E in Etn; discriminate].
        auto. }
  destruct H2 as (Hsp2 & He2 & Hs2). unfold Groups.place in H. inv_bind H.
  destruct (add_child_eq _ _ _ _ _ _ H) as (E1 & E2 & E3). split; [congruence|]. split; [exact Hch|].
  rewrite E2, E3. now rewrite path_entries_append.
Qed.

(* one input item: the mirror is kept, and when no level places the item the search from the
   message reference itself finds nothing *)
Lemma attempts_mirror n x : forall s ex, sclosed s -> mirror s ex -> n = S (length ex) ->
  match attempts n x s with
  | Ok (Some s') => exists ex', mirror s' ex'
  | Ok None => search t search_fuel (raw x) root = Ok None
  | Err _ => True
  end.
Proof.
  induction n as [|n IH]; intros s ex Hc (Hst & Hch & He) Hn; [discriminate|]. injection Hn as ->.
  cbn [Groups.attempts]. rewrite Hst.
  destruct (last_entry (stack_of ex)) as [top|] eqn:Et; cbn [bind]; [|exact I].
  destruct (last_entry_stack root _ _ Et) as (Etop & Hcase).
  destruct (search t search_fuel (raw x) (snd top)) as [[[sr extra]|]|] eqn:Es; cbn [bind]; [| |exact I].
  - destruct (after_found x sr _) as [s1|] eqn:Ea; cbn [bind]; [|exact I].
    rewrite Etop in Es. destruct (search_sound _ _ _ _ _ _ Es) as (Hce & _).
    assert (Est : stack_of ex ++ map (fun p : str * sref => (Some (fst p), snd p)) extra = stack_of (ex ++ extra)).
    { unfold GroupsFacts.stack_of. rewrite map_app. reflexivity. }
    rewrite Est in Ea. exists (ex ++ extra).
    apply (after_found_mirror x sr (mk_gstate (stack_of (ex ++ extra)) (g_path s) (g_forest s)) s1 ex extra).
    + exact Hc.
    + reflexivity.
    + now apply (chain_app t).
    + exact He.
    + exact Ea.
  - pose proof (path_entries_length _ _ _ He) as El. destruct (g_path s) as [|i p] eqn:Ep.
    + destruct ex; [|discriminate]. cbn [length Groups.attempts]. cbn in Etop. congruence.
    + destruct (list_snoc_cases ex) as [->|(ex' & q & ->)]; [discriminate|].
      apply (IH _ ex'); [| |rewrite app_length; cbn; lia].
      * unfold st_closed. cbn [g_path g_forest]. rewrite <- Ep. now apply closed_removelast.
      * split; [|split]; cbn [g_stack g_path g_forest].
        -- unfold GroupsFacts.stack_of. rewrite map_app. cbn [map].
           change ((None, root) :: map some_e ex' ++ [some_e q])
             with (((None, root) :: map some_e ex') ++ [some_e q]).
           now rewrite removelast_last.
        -- apply (chain_removelast t _ root) in Hch. now rewrite removelast_last in Hch.
        -- rewrite (path_entries_removelast _ _ _ He). now rewrite removelast_last.
Qed.

(* a property of every segment leaf of a forest *)
Variable Q : A -> option sref -> Prop.
Fixpoint seg_all (x : gtree A) : Prop :=
  match x with
  | GS a r => Q a r
  | GG _ _ _ cs => (fix all (l : list (gtree A)) : Prop :=
                      match l with [] => True | y :: rest => seg_all y /\ all rest end) cs
  end.
Lemma seg_all_GG n r st cs : seg_all (GG n r st cs) <-> Forall seg_all cs.
Proof.
  cbn [seg_all]. induction cs as [|y cs IH]; split; intros H.
  - constructor.
  - exact I.
  - destruct H as [H1 H2]. constructor; [exact H1 | now apply IH].
  - inversion H; subst. split; [assumption | now apply IH].
Qed.

Lemma append_seg_all p : forall f x, Forall seg_all f -> seg_all x -> Forall seg_all (append_at p x f).
Proof.
  induction p as [|i p IH]; intros f x Hf Hx.
  - cbn [append_at]. apply Forall_app. split; [exact Hf | now constructor].
  - cbn [append_at]. apply Forall_update_nth; [exact Hf|]. intros y _ Hy.
    destruct y as [a r | n r st cs]; [exact Hy|]. apply seg_all_GG. apply seg_all_GG in Hy. now apply IH.
Qed.

Lemma add_child_seg_all s x s' : Forall seg_all (g_forest s) -> seg_all x -> add_child s x = Ok s' ->
  Forall seg_all (g_forest s').
Proof.
  intros Hf Hx H. destruct (add_child_eq _ _ _ _ _ _ H) as (_ & _ & ->). now apply append_seg_all.
Qed.

Lemma open_group_seg_all s n r s' : Forall seg_all (g_forest s) -> open_group s n r = Ok s' ->
  Forall seg_all (g_forest s').
Proof.
  intros Hf H. unfold Groups.open_group in H. inv_bind H. inv_bind H. inv_bind H. injection H as <-.
  cbn [g_forest]. apply (add_child_seg_all s _ _ Hf) in Ha1; [exact Ha1|]. apply seg_all_GG. constructor.
Qed.

Lemma open_groups_seg_all ps : forall s s', Forall seg_all (g_forest s) -> open_groups s ps = Ok s' ->
  Forall seg_all (g_forest s').
Proof.
  induction ps as [|[[n|] r] ps IH]; intros s s' Hf H; cbn [Groups.open_groups] in H.
  - now injection H as <-.
  - inv_bind H. apply (IH a s'); [|exact H]. now apply (open_group_seg_all s n r).
  - discriminate.
Qed.

Lemma after_found_seg_all x sr s s' : Forall seg_all (g_forest s) -> (forall a, Q a (Some sr)) ->
  after_found x sr s = Ok s' -> Forall seg_all (g_forest s').
Proof.
  intros Hf HQ H. unfold Groups.after_found in H. inv_bind H. rename a into c. inv_bind H. rename a into top.
  inv_bind H. rename a into s2.
  assert (H2 : Forall seg_all (g_forest s2)).
  { destruct c as [[[[n r] st] cs]|].
    - destruct (negb (opt_eqb (fst top) (Some n))).
      + destruct (index_of (Some n, r) (g_stack s) 0); [|discriminate]. exact (open_groups_seg_all _ s s2 Hf Ha1).
      + destruct (smem (raw x) (map (child_name nm) cs)).
        * destruct (repetitions_of st (raw x)) as [[mn mx]|]; [|discriminate]. destruct (mx =? 1)%Z.
          -- unfold Groups.reopen_group in Ha1. inv_bind Ha1. destruct a as [[[[n' r'] st'] cs']|]; [|discriminate].
             now apply (open_group_seg_all _ n' r' s2) in Ha1.
          -- now injection Ha1 as <-.
        * now injection Ha1 as <-.
    - destruct (opt_is_some (fst top)).
      + destruct (index_of (None, root) (g_stack s) 0); [|discriminate]. exact (open_groups_seg_all _ s s2 Hf Ha1).
      + now injection Ha1 as <-. }
  unfold Groups.place in H. inv_bind H. apply (add_child_seg_all s2 _ s' H2) in H; [exact H|]. apply HQ.
Qed.

Lemma attempts_seg_all n x : forall s s', Forall seg_all (g_forest s) -> (forall a sr, Q a (Some sr)) ->
  attempts n x s = Ok (Some s') -> Forall seg_all (g_forest s').
Proof.
  induction n as [|n IH]; intros s s' Hf HQ H; cbn [Groups.attempts] in H; [discriminate|].
  inv_bind H. inv_bind H. destruct a0 as [[sr extra]|].
  - inv_bind H. injection H as <-.
    exact (after_found_seg_all x sr (mk_gstate _ (g_path s) (g_forest s)) _ Hf (fun a => HQ a sr) Ha1).
  - destruct (g_path s); now apply IH in H.
Qed.
End Mirror.

(* ---------- unplaced segments ---------- *)
Section Unplaced.
Variable t : tables.
Variable X A : Type.
Variable raw : X -> str.
Variable mkseg : X -> option sref -> result A.
Variable nm : A -> str.
Variable acceptance : str * sref * structure -> list str -> str -> result unit.
Variable root : sref.
Hypothesis Htab : groups_by_name t root.
Hypothesis Hdist : forall ex, chain t root ex -> NoDup (map fst ex).

(* a segment parsed without reference comes from an input item whose name the search from the
   message reference does not find *)
Definition unplaced_ok (a : A) (r : option sref) : Prop :=
  r = None -> exists x, mkseg x None = Ok a /\ search t search_fuel (raw x) root = Ok None.

Notation mirror := (mirror t A root).
Notation seg_ok := (seg_all A unplaced_ok).

Lemma step_unplaced s x s' ex : st_closed A s -> mirror s ex -> Forall seg_ok (g_forest s) ->
  step t X A raw mkseg nm acceptance root s x = Ok s' ->
  (exists ex', mirror s' ex') /\ Forall seg_ok (g_forest s').
Proof.
  intros Hc Hm Hf H. unfold Groups.step in H.
  assert (El : length (g_stack s) = S (length ex)).
  { destruct Hm as (-> & _). unfold stack_of. cbn. now rewrite map_length. }
  pose proof (attempts_mirror t X A raw mkseg nm acceptance root Htab Hdist (S (length ex)) x s ex Hc Hm eq_refl) as Ha.
  rewrite El in H. destruct (attempts t X A raw mkseg nm acceptance root (S (length ex)) x s) as [[s1|]|] eqn:Ea;
    cbn [bind] in H; [| |discriminate].
  - injection H as <-. split; [exact Ha|].
    apply (attempts_seg_all t X A raw mkseg nm acceptance root unplaced_ok (S (length ex)) x s s1 Hf); [|exact Ea].
    intros a sr E. discriminate.
  - unfold Groups.place in H. apply bind_ok in H. destruct H as (a & Hmk & H).
    destruct (add_child_eq _ _ _ _ _ _ H) as (E1 & E2 & E3). split.
    + exists ex. destruct Hm as (M1 & M2 & M3). split; [congruence|]. split; [exact M2|].
      rewrite E2, E3. now rewrite path_entries_append.
    + rewrite E3. apply append_seg_all; [exact Hf|]. cbn [seg_all]. intros _. exists x. split; assumption.
Qed.

Lemma run_unplaced xs : forall s s' ex, st_closed A s -> mirror s ex -> Forall seg_ok (g_forest s) ->
  run t X A raw mkseg nm acceptance root xs s = Ok s' -> Forall seg_ok (g_forest s').
Proof.
  induction xs as [|x xs IH]; intros s s' ex Hc Hm Hf H; cbn [Groups.run] in H.
  - now injection H as <-.
  - apply bind_ok in H. destruct H as (s1 & Hs & H).
    destruct (step_unplaced _ _ _ _ Hc Hm Hf Hs) as ((ex' & Hm') & Hf').
    destruct (step_closed _ _ _ _ _ _ _ _ _ _ _ Hc Hs) as (Hc' & _). now apply (IH s1 s' ex').
Qed.

Theorem find_groups_unplaced xs f :
  find_groups t X A raw mkseg nm acceptance root xs = Ok f -> Forall seg_ok f.
Proof.
  unfold find_groups. intros H. apply bind_ok in H. destruct H as (s & Hs & H). injection H as <-.
  apply (run_unplaced xs (init_state A root) s []); try assumption.
  - split; constructor.
  - split; [reflexivity|]. split; [exact I | reflexivity].
  - constructor.
Qed.
End Unplaced.

(* ---------- the distinct-names hypothesis is decidable ---------- *)
Section Distinct.
Variable t : tables.

Fixpoint names_distinct (fuel : nat) (seen : list str) (r : sref) : bool :=
  match fuel with
  | O => false
  | S f =>
      match rows_of t r with
      | Err _ => true
      | Ok rows =>
          forallb (fun x => match row_name_kind x with
                            | Some (GRP, g) =>
                                negb (smem g seen) &&
                                match row_ref t x with
                                | Ok gr => names_distinct f (g :: seen) gr
                                | Err _ => true
                                end
                            | _ => true
                            end) rows
      end
  end.

Lemma smem_false g l : smem g l = false -> ~ In g l.
Proof.
  unfold smem. induction l as [|y l IH]; cbn; [tauto|]. intros H. apply orb_false_iff in H. destruct H as [H1 H2].
  intros [->|Hin]; [now rewrite streqb_refl in H1 | now apply IH].
Qed.

Lemma names_distinct_sound fuel : forall seen r, names_distinct fuel seen r = true ->
  forall ex, chain t r ex -> NoDup (map fst ex) /\ (forall g, In g (map fst ex) -> ~ In g seen).
Proof.
  induction fuel as [|f IH]; intros seen r H ex; [discriminate|]. cbn [names_distinct] in H.
  destruct ex as [|[g gr] ex]; intros Hc; [split; [constructor | intros ? []]|].
  destruct Hc as [(rows & x & Hr & Hin & Hk & Hx) Hc]. rewrite Hr in H.
  apply (proj1 (forallb_forall _ _) H) in Hin. rewrite Hk, Hx in Hin.
  apply andb_prop in Hin. destruct Hin as [Hs Hrec]. apply negb_true_iff in Hs. apply smem_false in Hs.
  destruct (IH _ _ Hrec ex Hc) as [Hnd Hnot]. cbn [map fst]. split.
  - constructor; [|exact Hnd]. intros Hin. apply (Hnot g Hin). now left.
  - intros g' [<-|Hin]; [exact Hs|]. intros Hs'. apply (Hnot g' Hin). now right.
Qed.
End Distinct.
