(* String facts used by the round-trip / position proofs: blanks, stripping, decimal numerals,
   upper-casing, child names NAME_i and the name predicates of core.py. *)
From Coq Require Import List Bool Arith NArith Lia Init.Byte Strings.Byte.
From HL7 Require Import Lib.Str Model.Result Model.Ref Model.Tree Model.Parser.
From HL7 Require Import Proofs.SplitJoin.
Import ListNotations.
Open Scope bs_scope.

(* ------------------------------------------------------------------ *)
(* blanks and stripping                                                 *)

Lemma lstrip_by_nil_iff {A} (p : A -> bool) l : lstrip_by p l = [] <-> forallb p l = true.
Proof.
  induction l as [|x r IH]; cbn [lstrip_by forallb]; [tauto|].
  destruct (p x); cbn [andb]; [exact IH|]. split; discriminate.
Qed.

Lemma forallb_rev {A} (p : A -> bool) l : forallb p (rev l) = forallb p l.
Proof.
  induction l as [|x r IH]; [reflexivity|]. cbn [rev forallb].
  rewrite forallb_app, IH. cbn [forallb]. now rewrite andb_true_r, andb_comm.
Qed.

Lemma lstrip_by_sub {A} (p : A -> bool) l : forallb p l = false -> forallb p (lstrip_by p l) = false.
Proof.
  induction l as [|x r IH]; cbn [lstrip_by forallb]; [discriminate|].
  destruct (p x) eqn:E; cbn [andb]; [exact IH|]. intros _. cbn [forallb]. now rewrite E.
Qed.

Lemma is_blank_forallb s : is_blank s = forallb is_space s.
Proof.
  unfold is_blank, strip, strip_by, rstrip_by.
  destruct (forallb is_space s) eqn:E.
  - apply lstrip_by_nil_iff in E. now rewrite E.
  - apply lstrip_by_sub in E. rewrite <- forallb_rev in E. apply lstrip_by_sub in E.
    rewrite <- forallb_rev in E. destruct (rev _); [discriminate|reflexivity].
Qed.

Lemma is_blank_nil : is_blank [] = true.
Proof. reflexivity. Qed.

Lemma is_blank_app a b : is_blank (a ++ b) = is_blank a && is_blank b.
Proof. rewrite !is_blank_forallb. apply forallb_app. Qed.

Lemma is_blank_cons c s : is_blank (c :: s) = is_space c && is_blank s.
Proof. now rewrite !is_blank_forallb. Qed.

Lemma not_blank_ne s : is_blank s = false -> s <> [].
Proof. intros H ->. discriminate. Qed.

Lemma lstrip_by_id' {A} (p : A -> bool) s : match s with c :: _ => p c = false | [] => True end -> lstrip_by p s = s.
Proof. destruct s as [|c s]; intros H; [reflexivity|]. cbn. now rewrite H. Qed.

Lemma strip_by_none (p : byte -> bool) s : forallb (fun c => negb (p c)) s = true -> strip_by p s = s.
Proof.
  intros H. unfold strip_by, rstrip_by.
  assert (L : lstrip_by p s = s).
  { apply lstrip_by_id'. destruct s as [|c s]; auto. cbn in H. apply andb_prop in H. destruct H as [H _].
    now apply negb_true_iff in H. }
  rewrite L. rewrite lstrip_by_id'; [apply rev_involutive|].
  destruct (rev s) as [|c r] eqn:E; auto.
  rewrite forallb_forall in H. assert (In c s) as Hc by (apply in_rev; rewrite E; now left).
  specialize (H c Hc). now apply negb_true_iff in H.
Qed.

Lemma strip_cr_none s : bmem CR s = false -> strip_cr s = s.
Proof.
  intros H. apply strip_by_none. change (nosep beqb CR s = true). now apply nosep_of_bmem.
Qed.

(* ------------------------------------------------------------------ *)
(* decimal numerals: str(n)                                             *)

Lemma small_cases (d : N) : (d < 10)%N ->
  d = 0%N \/ d = 1%N \/ d = 2%N \/ d = 3%N \/ d = 4%N \/ d = 5%N \/ d = 6%N \/ d = 7%N \/ d = 8%N \/ d = 9%N.
Proof. lia. Qed.

Lemma digit_of_props (d : N) : (d < 10)%N -> is_digit (digit_of d) = true /\ digit_val (digit_of d) = d.
Proof.
  intros H. destruct (small_cases d H) as [->|[->|[->|[->|[->|[->|[->|[->|[->| ->]]]]]]]]];
    split; reflexivity.
Qed.

Lemma digits_val_snoc ds d : digits_val (ds ++ [d]) = (digits_val ds * 10 + digit_val d)%N.
Proof. unfold digits_val. now rewrite fold_left_app. Qed.

Lemma N_to_str_aux_acc f : forall n acc, N_to_str_aux f n acc = N_to_str_aux f n [] ++ acc.
Proof.
  induction f as [|f IH]; intros n acc; [reflexivity|]. cbn [N_to_str_aux].
  destruct (n / 10 =? 0)%N; [reflexivity|].
  rewrite IH. rewrite (IH _ [_]). now rewrite <- app_assoc.
Qed.

Lemma N_to_str_aux_spec f : forall n, (n < 2 ^ N.of_nat f)%N -> f <> 0 ->
  let ds := N_to_str_aux f n [] in
  ds <> [] /\ forallb is_digit ds = true /\ digits_val ds = n.
Proof.
  induction f as [|f IH]; intros n Hn Hf; [congruence|]. cbn [N_to_str_aux]. cbv zeta.
  assert (Hd : (n mod 10 < 10)%N) by (apply N.mod_lt; lia).
  destruct (digit_of_props _ Hd) as [D1 D2].
  destruct (N.eqb_spec (n / 10) 0) as [E|E].
  - split; [discriminate|]. split; [cbn [forallb]; now rewrite D1|].
    unfold digits_val. cbn [fold_left]. rewrite D2.
    pose proof (N.div_mod n 10). lia.
  - rewrite N_to_str_aux_acc.
    assert (Hq : (n / 10 < 2 ^ N.of_nat f)%N).
    { rewrite Nat2N.inj_succ, N.pow_succ_r' in Hn.
      assert (n / 10 <= n / 2)%N.
      { apply N.div_le_compat_l. lia. }
      assert (n / 2 < 2 ^ N.of_nat f)%N by (apply N.div_lt_upper_bound; lia). lia. }
    assert (Hf' : f <> 0).
    { intros ->. change (2 ^ N.of_nat 0)%N with 1%N in Hq. apply N.lt_1_r in Hq. congruence. }
    destruct (IH _ Hq Hf') as [I1 [I2 I3]].
    split; [destruct (N_to_str_aux f (n / 10) []); [congruence|discriminate]|].
    split.
    + rewrite forallb_app, I2. cbn [forallb]. now rewrite D1.
    + rewrite digits_val_snoc, I3, D2. pose proof (N.div_mod n 10). lia.
Qed.

Lemma N_to_str_spec n :
  N_to_str n <> [] /\ forallb is_digit (N_to_str n) = true /\ digits_val (N_to_str n) = n.
Proof.
  unfold N_to_str. apply N_to_str_aux_spec; [|discriminate].
  rewrite Nat2N.inj_succ, N2Nat.id.
  destruct n as [|p]; [reflexivity|]. apply N.log2_spec. lia.
Qed.

Lemma nat_to_str_ne n : nat_to_str n <> [].
Proof. apply N_to_str_spec. Qed.
Lemma nat_to_str_digits n : forallb is_digit (nat_to_str n) = true.
Proof. apply N_to_str_spec. Qed.
Lemma nat_to_str_val n : digits_val (nat_to_str n) = N.of_nat n.
Proof. apply N_to_str_spec. Qed.

Lemma nat_to_str_all_digits n : all_digits (nat_to_str n) = true.
Proof.
  unfold all_digits. pose proof (nat_to_str_ne n). pose proof (nat_to_str_digits n).
  destruct (nat_to_str n); [congruence|assumption].
Qed.

Lemma nat_to_str_inj a b : nat_to_str a = nat_to_str b -> a = b.
Proof.
  intros H. apply (f_equal digits_val) in H. rewrite !nat_to_str_val in H. lia.
Qed.

(* properties of digit characters *)
Lemma digit_not c d : is_digit d = false -> is_digit c = true -> beqb c d = false.
Proof.
  intros Hd Hc. destruct (beqb_spec c d) as [->|]; [congruence|reflexivity].
Qed.

Lemma digits_no c s : is_digit c = false -> forallb is_digit s = true -> bmem c s = false.
Proof.
  intros Hc. induction s as [|x r IH]; [reflexivity|]. cbn [forallb]. intros H.
  apply andb_prop in H. destruct H as [Hx Hr]. unfold bmem, mem. cbn [existsb].
  rewrite (digit_not x c Hc Hx). now apply IH.
Qed.

Lemma is_digit_not_space c : is_digit c = true -> is_space c = false.
Proof.
  unfold is_digit, is_space, between. intros H. apply andb_prop in H. destruct H as [H1 H2].
  apply N.leb_le in H1. apply N.leb_le in H2.
  destruct (N.leb_spec (code c) 13), (N.leb_spec 28 (code c)), (N.leb_spec (code c) 32); cbn;
    rewrite ?andb_false_r; try reflexivity; lia.
Qed.

Lemma is_digit_upper c : is_digit c = true -> bupper c = c.
Proof.
  unfold is_digit, bupper, is_lower, between. intros H. apply andb_prop in H. destruct H as [H1 H2].
  apply N.leb_le in H1. apply N.leb_le in H2.
  destruct (N.leb_spec 97 (code c)); cbn [andb]; [lia|reflexivity].
Qed.

Lemma digits_strip s : forallb is_digit s = true -> strip s = s.
Proof.
  intros H. apply strip_by_none. rewrite forallb_forall in *. intros c Hc.
  now rewrite (is_digit_not_space c (H c Hc)).
Qed.

Lemma digits_upper s : forallb is_digit s = true -> upper s = s.
Proof.
  induction s as [|c r IH]; [reflexivity|]. cbn [forallb]. intros H.
  apply andb_prop in H. destruct H as [Hc Hr]. unfold upper in *. cbn [map].
  now rewrite (is_digit_upper c Hc), IH.
Qed.

Lemma digits_py_int s : s <> [] -> forallb is_digit s = true ->
  py_int_ok s = true /\ py_int_val s = digits_val s.
Proof.
  intros Hne H. unfold py_int_ok, py_int_val. rewrite (digits_strip s H).
  destruct s as [|c r]; [congruence|].
  assert (Hc : is_digit c = true) by (cbn in H; now apply andb_prop in H).
  assert (beqb c "+" || beqb c "-" = false) as ->.
  { rewrite (digit_not c "+"), (digit_not c "-"); auto. }
  split; [|reflexivity]. unfold all_digits. exact H.
Qed.

Lemma nat_to_str_py_int n : py_int_ok (nat_to_str n) = true.
Proof. apply digits_py_int; [apply nat_to_str_ne|apply nat_to_str_digits]. Qed.
Lemma nat_to_str_py_val n : py_int_val (nat_to_str n) = N.of_nat n.
Proof.
  rewrite (proj2 (digits_py_int _ (nat_to_str_ne n) (nat_to_str_digits n))). apply nat_to_str_val.
Qed.

(* ------------------------------------------------------------------ *)
(* upper                                                                *)

Lemma bupper_idem b : bupper (bupper b) = bupper b.
Proof. destruct b; reflexivity. Qed.

Lemma upper_idem s : upper (upper s) = upper s.
Proof. unfold upper. rewrite map_map. apply map_ext, bupper_idem. Qed.

Lemma upper_app a b : upper (a ++ b) = upper a ++ upper b.
Proof. apply map_app. Qed.

Lemma upper_length s : length (upper s) = length s.
Proof. apply map_length. Qed.

(* ------------------------------------------------------------------ *)
(* NAME_i                                                               *)

Lemma name_idx_upper p i : upper (name_idx p i) = name_idx (upper p) i.
Proof.
  unfold name_idx. rewrite !upper_app, (digits_upper _ (nat_to_str_digits i)). reflexivity.
Qed.

Lemma name_idx_inj p i j : name_idx p i = name_idx p j -> i = j.
Proof.
  unfold name_idx. intros H. apply app_inv_head in H. apply app_inv_head in H.
  now apply nat_to_str_inj.
Qed.

Lemma bmem_rev c s : bmem c (rev s) = bmem c s.
Proof.
  unfold bmem, mem. induction s as [|x r IH]; [reflexivity|]. cbn [rev existsb].
  rewrite existsb_app, IH. cbn [existsb]. now rewrite orb_false_r, orb_comm.
Qed.

Lemma rsplit_us_aux_scan x : forall r acc, bmem "_" x = false ->
  rsplit_us_aux (x ++ "_"%byte :: r) acc = Some (rev r, rev x ++ acc).
Proof.
  induction x as [|c x IH]; intros r acc H.
  - cbn. reflexivity.
  - unfold bmem, mem in H. cbn [existsb] in H. apply orb_false_elim in H. destruct H as [Hc Hx].
    cbn [app rsplit_us_aux]. rewrite Hc. rewrite IH by exact Hx. cbn [rev]. now rewrite <- app_assoc.
Qed.

Lemma rsplit_us_name_idx p i : rsplit_us (name_idx p i) = Some (p, nat_to_str i).
Proof.
  unfold rsplit_us.
  assert (R : rev (name_idx p i) = rev (nat_to_str i) ++ "_"%byte :: rev p).
  { unfold name_idx. rewrite !rev_app_distr. cbn [unbs rev app]. rewrite <- app_assoc. reflexivity. }
  rewrite R, rsplit_us_aux_scan.
  - now rewrite !rev_involutive, app_nil_r.
  - assert (bmem "_" (nat_to_str i) = false) as H by (apply digits_no; [reflexivity|apply nat_to_str_digits]).
    now rewrite bmem_rev.
Qed.

(* str(n) has no leading zero when n <> 0 *)
Definition head_nonzero (ds : str) : Prop := match ds with c :: _ => beqb c "0" = false | [] => False end.

Lemma digit_of_nonzero (d : N) : (0 < d < 10)%N -> beqb (digit_of d) "0" = false.
Proof.
  intros [H0 H]. destruct (small_cases d H) as [->|[->|[->|[->|[->|[->|[->|[->|[->| ->]]]]]]]]];
    try reflexivity. lia.
Qed.

Lemma N_to_str_aux_head f : forall n, (0 < n < 2 ^ N.of_nat f)%N -> head_nonzero (N_to_str_aux f n []).
Proof.
  induction f as [|f IH]; intros n [H0 Hn].
  - change (2 ^ N.of_nat 0)%N with 1%N in Hn. lia.
  - cbn [N_to_str_aux]. destruct (N.eqb_spec (n / 10) 0) as [E|E].
    + cbn [head_nonzero]. apply digit_of_nonzero.
      assert (n < 10)%N by (apply N.div_small_iff in E; lia).
      rewrite N.mod_small by assumption. lia.
    + rewrite N_to_str_aux_acc.
      assert (Hq : (0 < n / 10 < 2 ^ N.of_nat f)%N).
      { split; [now apply N.neq_0_lt_0|]. rewrite Nat2N.inj_succ, N.pow_succ_r' in Hn.
        assert (n / 10 <= n / 2)%N by (apply N.div_le_compat_l; lia).
        assert (n / 2 < 2 ^ N.of_nat f)%N by (apply N.div_lt_upper_bound; lia). lia. }
      specialize (IH _ Hq). destruct (N_to_str_aux f (n / 10) []); [contradiction|exact IH].
Qed.

Lemma N_to_str_head n : n <> 0%N -> head_nonzero (N_to_str n).
Proof.
  intros Hn. unfold N_to_str. apply N_to_str_aux_head. split; [lia|].
  rewrite Nat2N.inj_succ, N2Nat.id.
  destruct n as [|p]; [congruence|]. apply N.log2_spec. lia.
Qed.

Lemma nat_to_str_plain n : n <> 0 -> plain_index (nat_to_str n) = true.
Proof.
  intros Hn. unfold plain_index. pose proof (nat_to_str_digits n) as D.
  assert (H : head_nonzero (nat_to_str n)) by (apply N_to_str_head; lia).
  destruct (nat_to_str n) as [|c r]; [contradiction|]. cbn [head_nonzero] in H. now rewrite H, D.
Qed.

Lemma nat_to_str_plain_0 : plain_index (nat_to_str 0) = false.
Proof. reflexivity. Qed.

Lemma plain_index_py_int s : plain_index s = true -> py_int_ok s = true /\ py_int_val s = digits_val s.
Proof.
  unfold plain_index. destruct s as [|c r] eqn:E; [discriminate|]. intros H.
  apply andb_prop in H. destruct H as [_ H]. apply digits_py_int; [discriminate|exact H].
Qed.

(* positions start at 1: <p>_0 is no child name *)
Lemma valid_child_name_idx p i q : i <> 0 ->
  valid_child_name (Some (name_idx p i)) (Some q) = streqb (upper p) (upper q).
Proof.
  intros Hi. unfold valid_child_name. rewrite rsplit_us_name_idx, nat_to_str_plain by exact Hi. reflexivity.
Qed.

Lemma valid_child_name_idx_0 p q : valid_child_name (Some (name_idx p 0)) (Some q) = false.
Proof. unfold valid_child_name. rewrite rsplit_us_name_idx. reflexivity. Qed.

Lemma valid_child_name_none q : valid_child_name None q = false.
Proof. reflexivity. Qed.

Lemma starts_with_app (p r : str) : bstarts p (p ++ r) = true.
Proof.
  unfold bstarts. induction p as [|c p IH]; [reflexivity|]. cbn [app starts_with].
  now rewrite beqb_refl, IH.
Qed.

Lemma drop_app (p r : str) : drop (length p) (p ++ r) = r.
Proof. unfold drop. induction p; [reflexivity|]. cbn. assumption. Qed.

Lemma take_app (p r : str) : take (length p) (p ++ r) = p.
Proof. unfold take. induction p as [|c p IH]; [reflexivity|]. cbn [length app firstn]. now rewrite IH. Qed.

Lemma name_idx_drop p i : drop (S (length p)) (name_idx p i) = nat_to_str i.
Proof.
  unfold name_idx. rewrite app_assoc.
  replace (S (length p)) with (length (p ++ unbs "_")) by (rewrite app_length; cbn; lia).
  apply drop_app.
Qed.

Lemma name_idx_starts p i : bstarts p (name_idx p i) = true.
Proof. apply starts_with_app. Qed.

(* ------------------------------------------------------------------ *)
(* characters of a joined text                                          *)

Lemma bmem_bjoin c sep l : c <> sep -> Forall (fun x => bmem c x = false) l -> bmem c (bjoin sep l) = false.
Proof.
  intros Hc. induction 1 as [|x l Hx _ IH]; [reflexivity|].
  destruct l as [|y l]; [exact Hx|].
  change (bjoin sep (x :: y :: l)) with (x ++ sep :: bjoin sep (y :: l)).
  unfold bmem, mem in *. rewrite existsb_app, Hx. cbn [existsb orb].
  rewrite IH, orb_false_r. destruct (beqb_spec sep c); [congruence|reflexivity].
Qed.


Lemma not_blank_bjoin sep l x : In x l -> is_blank x = false -> is_blank (bjoin sep l) = false.
Proof.
  induction l as [|y l IH]; intros Hx Hb; [destruct Hx|].
  destruct l as [|z l].
  - destruct Hx as [->|[]]. exact Hb.
  - change (bjoin sep (y :: z :: l)) with (y ++ sep :: bjoin sep (z :: l)).
    rewrite is_blank_app, is_blank_cons. destruct Hx as [->|Hx].
    + now rewrite Hb.
    + rewrite (IH Hx Hb). now rewrite !andb_false_r.
Qed.
