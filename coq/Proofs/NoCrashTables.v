(* The premises of Proofs/NoCrash.v hold for every shipped version: they follow from the
   kernel-checked well-formedness report of the regenerated tables (Oblig/WfAll.v), the uniqueness
   of the struct names (Proofs/RoundTripSegTables.v) and one more finite check made here (every entry
   of the component table DATATYPES is a leaf or a complex datatype with a well-formed struct). *)
From Coq Require Import List Bool Arith ZArith NArith Lia Init.Byte.
From HL7 Require Import Lib.Str Model.Ec Model.Result Model.Ref Model.Tree Model.Parser Model.Encode Model.Leaf Model.Wf.
From HL7 Require Import Gen.Params Gen.Tables.
From HL7 Require Oblig.WfAll.
From HL7 Require Import Proofs.RoundTripStr Proofs.RoundTripCore Proofs.RoundTripSeg Proofs.RoundTripTables
     Proofs.RoundTripSegTables Proofs.NoCrash.
Import ListNotations.
Open Scope bs_scope.

(* a leaf, or a complex datatype whose struct is well formed *)
Definition ref_okb (good : list str) (r : sref) : bool :=
  match r with
  | SLeaf _ => true
  | SSeqDt i => match i_dt i with Some d => smem d good | None => false end
  | _ => false
  end.
Definition comps_tables_ok (t : tables) : bool :=
  let good := good_structs t in
  forallb (fun p : str * sref => ref_okb good (snd p)) (t_components t).

Lemma all_comps_tables_ok : forallb (fun p => comps_tables_ok (snd p)) all_tables = true.
Proof. vm_compute. reflexivity. Qed.

Lemma filter_nil {A} (f : A -> bool) l : filter f l = [] -> forall x, In x l -> f x = false.
Proof.
  induction l as [|y l IH]; intros H x Hx; [destruct Hx|]. cbn [filter] in H.
  destruct (f y) eqn:E; [discriminate|]. destruct Hx as [<-|Hx]; auto.
Qed.

Lemma in_keys_slookup {B} k (l : list (str * B)) : In k (map fst l) -> exists v, slookup k l = Some v.
Proof.
  unfold slookup. induction l as [|[k' v] l IH]; intros H; [destruct H|]. cbn [alookup].
  destruct (leqb beqb k k') eqn:E; [eauto|]. destruct H as [H|H]; [|auto].
  cbn [fst] in H. subst k'. change (streqb k k = false) in E. now rewrite streqb_refl in E.
Qed.

Section One.
Variable t : tables.
Hypothesis Hrep : report_ok t = true.
Hypothesis Hnd : NoDup (map fst (t_structs t)).

Lemma report_ok_parts :
  (forall p, In p (t_structs t) -> wf_struct t (flat_structs t) p = true) /\
  (forall p, In p (t_fields t) -> wf_field_ref t (good_structs t) (snd p) = true).
Proof.
  pose proof Hrep as H. unfold report_ok, table_report in H. cbv zeta in H.
  apply andb_prop in H. destruct H as [_ H].
  match type of H with (match ?a with [] => _ | _ => _ end) = _ => destruct a eqn:E1; [|discriminate] end.
  match type of H with (match ?a with [] => _ | _ => _ end) = _ => destruct a eqn:E2; [|discriminate] end.
  apply map_eq_nil in E1. apply map_eq_nil in E2. split.
  - intros p Hp. pose proof (filter_nil _ _ E1 p Hp) as G. cbn beta in G. now apply negb_false_iff in G.
  - intros p Hp. pose proof (filter_nil _ _ E2 p Hp) as G. cbn beta in G. now apply negb_false_iff in G.
Qed.

(* a flat struct: every row is a (base) leaf *)
Lemma flat_ref_ok i d : i_dt i = Some d -> smem d (flat_structs t) = true -> ref_ok t (SSeqDt i).
Proof.
  intros Hi Hd. apply smem_In in Hd. apply In_filter_names in Hd. destruct Hd as [rows [Hin Hf]].
  pose proof (In_slookup d rows (t_structs t) Hnd Hin) as Hl.
  unfold wf_struct_flat in Hf. cbn [fst snd] in Hf. apply andb_prop in Hf. destruct Hf as [Hc Hrows].
  destruct (rows_parse t (SSeqDt i) false rows (Some i) d CMP) as [st [Hp [Hs _]]].
  - unfold view_of. now rewrite Hi, Hl.
  - exact Hc.
  - intros row Hrow. rewrite forallb_forall in Hrows. specialize (Hrows row Hrow).
    unfold wf_sub_row in Hrows. destruct (row_ref t row) as [[i'| | |]|]; try discriminate.
    exists (SLeaf i'). split; [reflexivity|apply leaf_ref_ok].
  - exact (ref_ok_intro t _ st Hp Hs).
Qed.

(* a well-formed struct: every row is a leaf or a flat struct *)
Lemma good_ref_ok i d : i_dt i = Some d -> smem d (good_structs t) = true -> ref_ok t (SSeqDt i).
Proof.
  intros Hi Hd. apply smem_In in Hd.
  assert (Hk : In d (map fst (t_structs t))).
  { apply In_filter_names in Hd. destruct Hd as [rows [Hin _]]. apply in_map_iff. now exists (d, rows). }
  destruct (in_keys_slookup d _ Hk) as [rows Hl].
  pose proof (proj1 report_ok_parts (d, rows) (slookup_in _ _ _ Hl)) as Hw.
  unfold wf_struct in Hw. cbn [fst snd] in Hw. apply andb_prop in Hw. destruct Hw as [Hc Hrows].
  destruct (rows_parse t (SSeqDt i) false rows (Some i) d CMP) as [st [Hp [Hs _]]].
  - unfold view_of. now rewrite Hi, Hl.
  - exact Hc.
  - intros row Hrow. rewrite forallb_forall in Hrows. specialize (Hrows row Hrow).
    unfold wf_comp_row in Hrows. destruct (row_ref t row) as [[i'|i'| |]|]; try discriminate.
    + exists (SLeaf i'). split; [reflexivity|apply leaf_ref_ok].
    + exists (SSeqDt i'). split; [reflexivity|]. destruct (i_dt i') as [d'|] eqn:E; [|discriminate].
      now apply (flat_ref_ok i' d').
  - exact (ref_ok_intro t _ st Hp Hs).
Qed.

Lemma ref_okb_sound r : ref_okb (good_structs t) r = true -> ref_ok t r.
Proof.
  destruct r as [i|i| |]; cbn [ref_okb]; try discriminate.
  - intros _. apply leaf_ref_ok.
  - destruct (i_dt i) as [d|] eqn:E; [|discriminate]. now apply good_ref_ok.
Qed.

Lemma wf_field_ref_okb r : wf_field_ref t (good_structs t) r = true -> ref_okb (good_structs t) r = true.
Proof. destruct r as [i|i| |]; cbn [wf_field_ref ref_okb]; auto. Qed.

Lemma fields_ref_ok n r : slookup n (t_fields t) = Some r -> ref_ok t r.
Proof.
  intros H. apply slookup_in in H. apply ref_okb_sound, wf_field_ref_okb.
  exact (proj2 report_ok_parts (n, r) H).
Qed.

Hypothesis Hcomps : comps_tables_ok t = true.

Lemma comps_ref_ok n r : slookup n (t_components t) = Some r -> ref_ok t r.
Proof.
  intros H. apply slookup_in in H. apply ref_okb_sound.
  unfold comps_tables_ok in Hcomps. cbv zeta in Hcomps. rewrite forallb_forall in Hcomps.
  exact (Hcomps (n, r) H).
Qed.

Lemma segs_good n r : length n <= 3 -> slookup n (t_segments t) = Some r -> seg_good t n r.
Proof.
  intros Hlen H. apply slookup_in in H.
  assert (Hw : wf_seg t (good_structs t) (n, r) = true).
  { apply (report_ok_seg t (n, r) Hrep H). cbn [fst]. intros ->. cbn in Hlen. lia. }
  unfold wf_seg in Hw. cbn [fst snd] in Hw. destruct r as [i|i|[|] rows [i|]|]; try discriminate.
  do 2 (apply andb_prop in Hw; destruct Hw as [Hw ?H]).
  exists rows. split; [reflexivity|]. split; [now apply Nat.eqb_eq|]. split; [assumption|].
  intros row Hrow. rewrite forallb_forall in H0. specialize (H0 row Hrow). unfold wf_field_row in H0.
  destruct (row_ref t row) as [fr|]; [|discriminate]. exists fr. split; [reflexivity|].
  now apply ref_okb_sound, wf_field_ref_okb.
Qed.

End One.

(* the real leaf encoder only raises the library's exceptions *)
Lemma hl7_only_hl7 c : hl7_only (HL7 c).
Proof. exact I. Qed.
Lemma hl7_or_value_hl7 lvl c : hl7_or_value lvl (HL7 c).
Proof. exact I. Qed.

Lemma leaf_enc_safe v lvl e dt s : sp hl7_only TT (leaf_enc v lvl e dt s).
Proof.
  unfold leaf_enc. destruct dt as [d|]; [|exact I]. destruct (dt_row v d) as [[k mx]|]; [|exact I].
  destruct k; try exact I; destruct (is_strict lvl && too_long mx s); exact I.
Qed.

(* the premises of Proofs/NoCrash.v, for every shipped version *)
Lemma shipped_premises v t : tables_of v = Some t ->
  base t (Some (unbs "ST")) = true /\
  (forall n r, slookup n (t_fields t) = Some r -> ref_ok t r) /\
  (forall n r, slookup n (t_components t) = Some r -> ref_ok t r) /\
  (forall n r, length n <= 3 -> slookup n (t_segments t) = Some r -> seg_good t n r).
Proof.
  intros Ht.
  pose proof (Oblig.WfAll.tables_of_wf v t Ht) as Hrep.
  destruct (shipped_table_facts v t Ht) as [Hst _].
  pose proof (lookup_forallb (fun _ x => seg_tables_ok x) all_tables v t all_seg_tables_ok Ht) as F.
  unfold seg_tables_ok in F. cbv beta in F. repeat (apply andb_prop in F; destruct F as [F _]).
  apply nodupb_streqb_NoDup in F.
  pose proof (lookup_forallb (fun _ x => comps_tables_ok x) all_tables v t all_comps_tables_ok Ht) as Hc.
  split; [exact Hst|]. split; [exact (fields_ref_ok t Hrep F)|].
  split; [exact (comps_ref_ok t Hrep F Hc)|exact (segs_good t Hrep F)].
Qed.

(* C15 at the segment level, every shipped version, ANY leaf function: the outcome of
   parse_segment is a Segment that can be encoded, one of the library's exceptions, or an exception
   the leaf function itself raised (Adm) *)
Theorem shipped_parse_segment_safe_gen (Adm : exn -> Prop) v t lvl e leaf text :
  (forall c, Adm (HL7 c)) -> (forall dt s, sp Adm TT (leaf dt s)) -> tables_of v = Some t ->
  sp Adm (fun s => forall e' trailing, exists x, enc_segment t e' s trailing = Ok x)
     (parse_segment t lvl e leaf text None).
Proof.
  intros HA Hl Ht. destruct (shipped_premises v t Ht) as [H1 [H2 [H3 H4]]].
  apply (parse_segment_safe Adm HA t H1 H2 H3 H4 lvl e leaf Hl).
Qed.

Theorem shipped_parse_segment_safe v t lvl e text : tables_of v = Some t ->
  sp hl7_only (fun s => forall e' trailing, exists x, enc_segment t e' s trailing = Ok x)
     (parse_segment t lvl e (leaf_enc v lvl e) text None).
Proof.
  intros Ht. exact (shipped_parse_segment_safe_gen hl7_only v t lvl e _ text hl7_only_hl7 (leaf_enc_safe v lvl e) Ht).
Qed.

(* parse_field / parse_component called directly (standard references) *)
Theorem shipped_parse_field_safe_gen (Adm : exn -> Prop) v t lvl e leaf text name fv :
  (forall c, Adm (HL7 c)) -> (forall dt s, sp Adm TT (leaf dt s)) -> tables_of v = Some t ->
  sp Adm (fun f => forall e', exists x, enc_field t e' f = Ok x)
     (parse_field t lvl e leaf text name None fv).
Proof.
  intros HA Hl Ht. destruct (shipped_premises v t Ht) as [H1 [H2 [H3 _]]].
  eapply sp_weaken; [|apply (parse_field_safe Adm HA t H1 H2 H3 lvl e leaf Hl text name None fv I)].
  intros f [_ H]. exact H.
Qed.

Theorem shipped_parse_component_safe_gen (Adm : exn -> Prop) v t lvl e leaf text name datatype :
  (forall c, Adm (HL7 c)) -> (forall dt s, sp Adm TT (leaf dt s)) -> tables_of v = Some t ->
  datatype = None \/ base t datatype = true ->
  sp Adm TT (parse_component t lvl e leaf text name datatype None).
Proof.
  intros HA Hl Ht Hd. destruct (shipped_premises v t Ht) as [H1 [H2 [H3 _]]].
  apply (parse_component_safe Adm HA t H1 H2 H3 lvl e leaf Hl text name datatype None Hd I).
Qed.
