(* The table premises of Proofs/ValidateTotal.v hold for every shipped version (one vm_compute
   over all regenerated tables), hence: validate(return_errors=True) of a parsed segment returns a
   report, for every shipped version. *)
From Coq Require Import List Bool Arith ZArith NArith Lia Init.Byte.
From HL7 Require Import Lib.Str Model.Ec Model.Result Model.Ref Model.Tree Model.Parser Model.Encode
     Model.MsgTree Model.Validate Model.Wf.
From HL7 Require Import Gen.Params Gen.Tables.
From HL7 Require Import Proofs.RoundTripStr Proofs.RoundTripCore Proofs.RoundTripSeg Proofs.RoundTripTables
     Proofs.RoundTripSegTables Proofs.NoCrash Proofs.NoCrashTables Proofs.ValidateTotal.
Import ListNotations.
Open Scope bs_scope.

Section Checks.
Variable t : tables.

Definition ncxb (dt : option str) : bool := opt_is_none dt || base t dt || is_varies dt.
Definition crowb (row : srow) : bool :=
  match row with SByName CMP n _ _ => opt_is_some (slookup n (t_components t)) | _ => false end.
Definition struct_okb (p : str * list srow) : bool :=
  negb (match fst p with [] => true | _ => false end) && streqb (upper (fst p)) (fst p) &&
  negb (base t (Some (fst p))) && rows_contiguous (fst p) CMP 1 (snd p) && forallb crowb (snd p).
Definition ok_structs : list str := map fst (filter struct_okb (t_structs t)).
Definition grefb (good : list str) (r : sref) : bool :=
  match r with
  | SLeaf i => ncxb (i_dt i)
  | SSeqDt i => match i_dt i with Some d => smem d good | None => false end
  | _ => false
  end.
Definition frowb (good : list str) (row : srow) : bool :=
  match row with
  | SByName FIE n _ _ => true       (* resolves: Oblig/WfAll.v (seg_good) *)
  | SIn FIE n r _ _ => grefb good r && match slookup n (t_fields t) with Some (SLeaf _) | None => true | _ => false end
  | _ => false
  end.
Definition gsegb (good : list str) (p : str * sref) : bool :=
  Nat.ltb 3 (length (fst p)) ||
  match snd p with
  | SSeqIn false rows None => Nat.eqb (length (fst p)) 3 && rows_contiguous (fst p) FIE 1 rows && forallb (frowb good) rows
  | _ => false
  end.
Definition vt_tables_ok : bool :=
  let good := ok_structs in
  forallb (fun p : str * sref => grefb good (snd p)) (t_fields t) &&
  forallb (fun p : str * sref => grefb good (snd p)) (t_components t) &&
  forallb (gsegb good) (t_segments t).

Hypothesis Hnd : NoDup (map fst (t_structs t)).

Lemma ncxb_sound dt : ncxb dt = true -> ncx t dt.
Proof.
  unfold ncxb, ncx. intros H. apply orb_prop in H. destruct H as [H|H]; [apply orb_prop in H; destruct H as [H|H]|].
  - left. now destruct dt.
  - right. now left.
  - right. now right.
Qed.

Lemma crowb_sound row : crowb row = true -> crow t row.
Proof.
  destruct row as [[] n mn mx| |]; cbn [crowb]; try discriminate.
  destruct (slookup n (t_components t)) as [r|] eqn:E; [|discriminate]. intros _. now exists n, mn, mx, r.
Qed.

Lemma grefb_sound r : grefb ok_structs r = true -> gref t r.
Proof.
  destruct r as [i|i|c cs oi|]; cbn [grefb gref]; try discriminate.
  - apply ncxb_sound.
  - destruct (i_dt i) as [d|] eqn:Ed; [|discriminate]. intros H.
    apply smem_In in H. apply In_filter_names in H. destruct H as [rows [Hin Hf]].
    pose proof (In_slookup d rows (t_structs t) Hnd Hin) as Hl.
    unfold struct_okb in Hf. cbn [fst snd] in Hf. repeat (apply andb_prop in Hf; destruct Hf as [Hf ?Hf]).
    exists d, rows. split; [reflexivity|]. split; [now destruct d|]. split; [now apply streqb_eq|].
    split; [now apply negb_true_iff|]. split; [exact Hl|]. split; [assumption|].
    intros row Hrow. apply crowb_sound. rewrite forallb_forall in Hf0. now apply Hf0.
Qed.

Lemma frowb_sound row : frowb ok_structs row = true -> row_ref t row <> None -> frow t row.
Proof.
  destruct row as [[] n mn mx|[] n r mn mx|]; cbn [frowb]; try discriminate.
  - intros _. cbn [row_ref table_of]. destruct (slookup n (t_fields t)) as [r|] eqn:E; [|congruence].
    intros _. left. now exists n, mn, mx, r.
  - intros H _. apply andb_prop in H. destruct H as [H1 H2]. right. exists n, r, mn, mx.
    split; [reflexivity|]. split; [now apply grefb_sound|]. intros r' E. rewrite E in H2.
    destruct r' as [i| | |]; try discriminate. now exists i.
Qed.

Hypothesis Hok : vt_tables_ok = true.

Lemma vt_fields n r : slookup n (t_fields t) = Some r -> gref t r.
Proof.
  intros H. apply slookup_in in H. pose proof Hok as K. unfold vt_tables_ok in K. cbv zeta in K.
  apply andb_prop in K. destruct K as [H1 _]. apply andb_prop in H1. destruct H1 as [H1 _].
  apply grefb_sound. exact (proj1 (forallb_forall _ _) H1 (n, r) H).
Qed.
Lemma vt_comps n r : slookup n (t_components t) = Some r -> gref t r.
Proof.
  intros H. apply slookup_in in H. pose proof Hok as K. unfold vt_tables_ok in K. cbv zeta in K.
  apply andb_prop in K. destruct K as [H1 _]. apply andb_prop in H1. destruct H1 as [_ H1].
  apply grefb_sound. exact (proj1 (forallb_forall _ _) H1 (n, r) H).
Qed.
Lemma vt_segs n r : length n <= 3 -> slookup n (t_segments t) = Some r -> seg_good t n r -> gseg t n r.
Proof.
  intros Hlen H [rows0 [Er0 [_ [_ Hgood]]]]. apply slookup_in in H. pose proof Hok as K. unfold vt_tables_ok in K. cbv zeta in K.
  apply andb_prop in K. destruct K as [_ H1]. pose proof (proj1 (forallb_forall _ _) H1 (n, r) H) as H1'.
  clear H1. rename H1' into H1.
  unfold gsegb in H1. cbn [fst snd] in H1. apply orb_prop in H1. destruct H1 as [H1|H1].
  - apply Nat.ltb_lt in H1. lia.
  - destruct r as [i|i|[|] rows [i|]|]; try discriminate.
    repeat (apply andb_prop in H1; destruct H1 as [H1 ?H1]).
    exists rows. split; [reflexivity|]. split; [now apply Nat.eqb_eq|]. split; [assumption|].
    injection Er0 as <-. intros row Hrow. apply frowb_sound.
    + match goal with X : forallb _ rows = true |- _ => exact (proj1 (forallb_forall _ _) X row Hrow) end.
    + destruct (Hgood row Hrow) as [fr [E _]]. congruence.
Qed.
End Checks.

Lemma all_vt_tables_ok : forallb (fun p => vt_tables_ok (snd p)) all_tables = true.
Proof. vm_compute. reflexivity. Qed.

Lemma shipped_vt_premises v t : tables_of v = Some t ->
  base t (Some (unbs "ST")) = true /\ base t (Some (unbs "varies")) = false /\
  (forall n r, slookup n (t_fields t) = Some r -> gref t r) /\
  (forall n r, slookup n (t_components t) = Some r -> gref t r) /\
  (forall n r, length n <= 3 -> slookup n (t_segments t) = Some r -> gseg t n r).
Proof.
  intros Ht. destruct (shipped_table_facts v t Ht) as [Hst [Hvar _]].
  pose proof (lookup_forallb (fun _ x => seg_tables_ok x) all_tables v t all_seg_tables_ok Ht) as F.
  unfold seg_tables_ok in F. cbv beta in F. repeat (apply andb_prop in F; destruct F as [F _]).
  apply nodupb_streqb_NoDup in F.
  pose proof (lookup_forallb (fun _ x => vt_tables_ok x) all_tables v t all_vt_tables_ok Ht) as Hok.
  cbv beta in Hok.
  split; [exact Hst|]. split; [exact Hvar|].
  destruct (NoCrashTables.shipped_premises v t Ht) as [_ [_ [_ Hsg]]].
  split; [exact (vt_fields t F Hok)|]. split; [exact (vt_comps t F Hok)|].
  intros n r Hlen E. exact (vt_segs t F Hok n r Hlen E (Hsg n r Hlen E)).
Qed.

(* C15: for every shipped version, both validation levels, every delimiter set, ANY leaf function and
   every text: a segment that parse_segment returned is validated to a report (no exception of any
   kind leaves the validator) *)
Theorem shipped_parse_segment_validates v t lvl e leaf text s e' : tables_of v = Some t ->
  parse_segment t lvl e leaf text None = Ok s -> exists errs, validate_errors t e' s = Ok errs.
Proof.
  intros Ht. destruct (shipped_vt_premises v t Ht) as [H1 [H2 [H3 [H4 H5]]]].
  exact (parse_segment_validates t H1 H2 H3 H4 H5 lvl e leaf text s e').
Qed.
Print Assumptions shipped_parse_segment_validates.
