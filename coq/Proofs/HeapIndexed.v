(* C09: the index-addressed operations as edits of the abstract list.
     children.remove_by_name(name, i)          removes repetition i of the name (Python index: i < 0
                                               counts from the end) and nothing else;
     children.set(name, text, i)               (x.<name>[i] = text after the proxy is resolved)
                                               replaces repetition i in place, or appends when there is
                                               no such repetition;
   lifted to sequences of such operations. *)
From Coq Require Import List Bool Arith Lia ZArith NArith Init.Byte.
From HL7 Require Import Lib.Str Model.Ec Model.Result Model.Ref Model.Tree Model.Parser Model.Encode Model.Heap Model.HeapSpec.
From HL7 Require Import Proofs.HeapFacts Proofs.HeapInv Proofs.HeapOps Proofs.HeapAlloc Proofs.HeapSteps Proofs.HeapAtomic
                        Proofs.HeapRefine Proofs.HeapLeaf.
Import ListNotations.

(* ---------- the abstract operations ---------- *)

(* remove repetition i (Python index) of key k; nothing when there is no such repetition *)
Definition spec_remove_at (a : absl) (k : option str) (i : Z) : absl :=
  match py_nth (reps a k) i with
  | Some old => spec_remove a old
  | None => a
  end.
(* replace repetition i of key k by `new` in place; append when there is no such repetition *)
Definition spec_assign_at (a : absl) (k : option str) (i : Z) (new : nat) : absl :=
  match py_nth (reps a k) i with
  | Some old => spec_replace a old k new
  | None => spec_append a k new
  end.

(* "the others unchanged and in order" for a removal *)
Lemma others_remove a c : others (spec_remove a c) c = others a c.
Proof.
  unfold others. induction a as [|[k0 c0] a IH]; cbn; auto.
  destruct (Nat.eqb_spec c c0) as [->|N]; cbn.
  - rewrite Nat.eqb_refl. cbn. clear IH. induction a as [|[k1 c1] a IH]; cbn; auto.
  - destruct (Nat.eqb_spec c0 c) as [E|_]; [congruence|]. cbn. now rewrite IH.
Qed.
Lemma spec_remove_sub a c x : In x (spec_remove a c) -> In x a.
Proof.
  induction a as [|y a IH]; cbn; auto. destruct (Nat.eqb c (snd y)); cbn; [auto|]. intros [H|H]; auto.
Qed.

Lemma abs_same s s' p :
  n_list (getn s' p) = n_list (getn s p) ->
  (forall c, In c (n_list (getn s p)) -> n_name (getn s' c) = n_name (getn s c)) -> abs s' p = abs s p.
Proof. intros L N. unfold abs. rewrite L. apply map_ext_in. intros c Hc. now rewrite N. Qed.

Section Indexed.
Variable t : tables.
Variable e : ec.
Variable le : level -> option str -> str -> result str.

(* no listed child of p names p as its traversal parent too (the side condition of C09_refines_remove /
   _replace, for every child) *)
Definition settled (s : store) (p : nat) : Prop :=
  forall c, In c (n_list (getn s p)) -> oid_eqb (n_tparent (getn s c)) p = false.

(* ---------- remove_by_name ---------- *)

Theorem remove_by_name_refines x name i s s' :
  Inv s -> settled s x ->
  remove_by_name t x name i s = (s', Ok tt) ->
  exists cname cref,
    fcr t (getn s x) (upper name) = Ok (cname, cref) /\
    abs s' x = spec_remove_at (abs s x) (Some (if streqb cname name then name else cname)) i /\
    (forall q, q <> x -> abs s' q = abs s q) /\ (forall c, n_name (getn s' c) = n_name (getn s c)).
Proof.
  intros I St. unfold remove_by_name, child_at_index. rewrite mbind_run. cbn [mbind node_of lift].
  destruct (fcr t (getn s x) (upper name)) as [[cname cref]|y] eqn:Ef; cbn [mbind]; [|discriminate].
  set (k := Some (if streqb cname name then name else cname)).
  assert (Hk : (if streqb cname name then ret (finder (getn s x) (Some name) i)
                else ret (finder (getn s x) (Some cname) i)) s = (s, Ok (finder (getn s x) k i)))
    by (unfold k; destruct (streqb cname name); reflexivity).
  rewrite Hk. clear Hk. intros H. exists cname, cref. split; [reflexivity|]. fold k.
  revert H. unfold finder. unfold spec_remove_at. rewrite (reps_index s x k I). intros H.
  destruct (py_nth (iget k (n_idx (getn s x))) i) as [c|] eqn:E1.
  - assert (Hin : In c (n_list (getn s x))).
    { apply py_nth_In in E1. rewrite (I_index s I) in E1. apply filter_In in E1. tauto. }
    pose proof (remove_child_ok x c s s' H) as Ed. rewrite (St c Hin) in Ed.
    split; [now apply abs_remove|]. split; [|apply Ed]. intros q Hq. eapply abs_edit_other; eauto.
  - destruct (py_nth (iget k (n_tidx (getn s x))) i) as [c|] eqn:E2; [|discriminate].
    pose proof (remove_child_ok x c s s' H) as Ed.
    assert (Hn : ~ In c (n_list (getn s x))).
    { apply py_nth_In in E2. destruct (I_trav s I x) as (_ & TT & _).
      assert (Hb : exists l, In (k, l) (n_tidx (getn s x)) /\ In c l).
      { exists (iget k (n_tidx (getn s x))). split; [|exact E2]. apply iget_In_binding. intros F. rewrite F in E2. destruct E2. }
      destruct Hb as (l & A & B). destruct (TT _ _ _ A B) as (_ & N & _). exact N. }
    assert (Ed' : edit s s' x (n_list (getn s x))).
    { destruct (oid_eqb _ _); [exact Ed|]. now rewrite (remove1_notin _ _ Hn) in Ed. }
    split; [|split; [|apply Ed']].
    + rewrite (abs_edit _ _ _ _ Ed'). reflexivity.
    + intros q Hq. eapply abs_edit_other; eauto.
Qed.

(* ---------- children.set(name, text, i) ---------- *)

Lemma child_at_index_guarded p name i s s' r :
  child_at_index t true p name i s = (s', Ok r) -> s' = s /\ r = finder (getn s p) (Some name) i.
Proof.
  unfold child_at_index. cbn [mbind node_of lift].
  destruct (fcr t (getn s p) (upper name)) as [[cn cr]|x]; [|discriminate]. cbn [mbind].
  destruct (streqb cn name); [cbn [ret]; intros [= <- <-]; auto|cbn [raise]; discriminate].
Qed.

Theorem set_child_refines p name txt i s s' :
  Inv s -> p < s_next s -> n_tparent (getn s p) = None -> settled s p ->
  set_child t e le false p name (VText txt) i s = (s', Ok tt) ->
  exists cname cref child,
    fcr t (getn s p) (upper name) = Ok (cname, cref) /\ s_next s <= child /\
    abs s' p = spec_assign_at (abs s p) (Some cname) i child /\
    (forall q, q < s_next s -> q <> p -> abs s' q = abs s q) /\
    (forall c, c < s_next s -> n_name (getn s' c) = n_name (getn s c)) /\
    s_next s <= s_next s' /\ Inv s' /\ n_tparent (getn s' p) = None.
Proof.
  intros I Hp Htp St. unfold set_child. rewrite mbind_run. cbn [ret]. cbn [mbind node_of lift].
  destruct (fcr t (getn s p) (upper name)) as [[cname cref]|x] eqn:Ef; [|discriminate]. cbn [mbind].
  rewrite mbind_run. set (n := s_next s).
  pose proof (parse_child_spec t e le Unone Unone p cname cref txt s (K_none s I)) as HS.
  (* the parser only allocates: every existing element, p included, keeps its shape *)
  pose proof (frm_parse_child t e le n n p cname cref txt s (le_n _)) as K1.
  destruct (parse_child t e le p cname cref txt s) as [s1 [child|x]]; [|discriminate].
  destruct K1 as [[N1 K1] Q1]. cbn [fst snd] in N1, K1, Q1.
  destruct HS as (HK1 & _ & Hc). cbn [mbind node_of].
  destruct (opt_eqb_spec (n_name (getn s1 child)) (Some cname)) as [En|]; cbn [negb]; [|discriminate].
  rewrite mbind_run.
  pose proof (child_at_index_guarded p cname i s1) as CG.
  destruct (child_at_index t true p cname i s1) as [s0 [old|x]]; [|discriminate].
  destruct (CG s0 old eq_refl) as [-> Eold]. clear CG. rewrite mbind_run.
  assert (I1 : Inv s1) by (apply K_Inv in HK1; exact HK1).
  assert (Hct : n_tparent (getn s1 child) = None) by (destruct Hc as (_ & _ & X & _); exact X).
  assert (Hcb : child < s_next s1) by (destruct Hc as (_ & X & _); exact X).
  assert (Hpc : child <> p) by (unfold n in Q1; lia).
  assert (NU : ~ Unone child) by (intros []).
  assert (Sh1 : forall y, y < n -> shape (getn s1 y) = shape (getn s y) /\ ident (getn s1 y) = ident (getn s y)).
  { intros y Hy. destruct (K1 y Hy) as [Id Sh]. split; [apply Sh; unfold n in *; lia|exact Id]. }
  assert (Lp1 : n_list (getn s1 p) = n_list (getn s p) /\ n_idx (getn s1 p) = n_idx (getn s p)).
  { destruct (Sh1 p Hp) as [Sh _]. apply shape_fields in Sh. tauto. }
  destruct Lp1 as [Lp1 Ip1].
  assert (Nm1 : forall c, c < n -> n_name (getn s1 c) = n_name (getn s c)).
  { intros c Hc'. destruct (Sh1 c Hc') as [_ Id]. apply ident_fields in Id. tauto. }
  assert (St1 : settled s1 p).
  { intros c Hc'. rewrite Lp1 in Hc'. pose proof (I_bound s I p c Hc') as Hb. destruct (Sh1 c Hb) as [_ Id].
    apply ident_fields in Id. destruct Id as (_ & _ & _ & _ & _ & ->). now apply St. }
  assert (A1 : abs s1 p = abs s p).
  { apply abs_same; auto. intros c Hc'. apply Nm1. now apply (I_bound s I p). }
  set (att := match old with None => append t p child | Some o => replace_child t p o child end).
  assert (Fatt : frm n p anyr att).
  { unfold att. destruct old; [apply frm_replace_child|apply frm_append]; auto; now left. }
  assert (Katt : match att s1 with (s2, Ok _) => K Unone Unone s2 | (s2, Err _) => K Unone Unone s2 end).
  { unfold att. destruct old as [o|].
    - pose proof (replace_child_spec t Unone Unone p o child s1) as H. cbv beta in H.
      assert (Hn : In o (n_list (getn s1 p)) -> n_name (getn s1 o) = n_name (getn s1 child)).
      { intros Hin. rewrite En. symmetry in Eold. eapply finder_listed_name; eauto. }
      specialize (H (conj HK1 (conj NU (conj Hc Hn)))).
      destruct (replace_child t p o child s1) as [s2 [[]|x]]; exact H.
    - pose proof (append_spec t Unone Unone p child s1 (conj HK1 (cand_addable Unone s1 child p NU Hc))) as H.
      destruct (append t p child s1) as [s2 [[]|x]]; exact H. }
  (* the list edit *)
  assert (LA : forall sa sb, n_tparent (getn sa child) = None -> append t p child sa = (sb, Ok tt) ->
                edit sa sb p (n_list (getn sa p) ++ [child])).
  { intros sa sb Ht Ha. apply append_ok in Ha.
    assert (L : listing_add sa p child = true) by (unfold listing_add; rewrite Ht; cbn; apply orb_true_r).
    now rewrite L in Ha. }
  assert (Eatt : forall s2, att s1 = (s2, Ok tt) ->
            edit s1 s2 p (match py_nth (iget (Some cname) (n_idx (getn s1 p))) i with
                          | Some o => map (fun d => if Nat.eqb d o then child else d) (n_list (getn s1 p))
                          | None => n_list (getn s1 p) ++ [child]
                          end)).
  { intros s2. unfold att. rewrite Eold. unfold finder.
    destruct (py_nth (iget (Some cname) (n_idx (getn s1 p))) i) as [o|] eqn:E1.
    - intros Hr. assert (Hin : In o (n_list (getn s1 p))).
      { apply py_nth_In in E1. rewrite (I_index s1 I1) in E1. apply filter_In in E1. tauto. }
      destruct (replace_child_ok t p o child s1 s2 Hr (St1 o Hin) (I_nodup s1 I1 p)) as [_ Ed]. exact Ed.
    - destruct (py_nth (iget (Some cname) (n_tidx (getn s1 p))) i) as [o|] eqn:E2; [|now apply LA].
      assert (Hn : ~ In o (n_list (getn s1 p))).
      { apply py_nth_In in E2. destruct (I_trav s1 I1 p) as (_ & TT & _).
        assert (Hb : In (Some cname, iget (Some cname) (n_tidx (getn s1 p))) (n_tidx (getn s1 p))).
        { apply iget_In_binding. intros F. rewrite F in E2. destruct E2. }
        destruct (TT _ _ _ Hb E2) as (_ & N & _). exact N. }
      unfold replace_child. cbn [mbind node_of]. destruct (oid_eqb (n_tparent (getn s1 o)) p) eqn:Et.
      + rewrite mbind_run.
        pose proof (frm_remove_child (s_next s1) p p o (or_introl eq_refl) s1 (le_n _)) as [[_ Kr] _].
        pose proof (remove_child_ok p o s1) as Er.
        destruct (remove_child p o s1) as [sa [[]|x]]; [|discriminate]. cbn [fst] in Kr.
        specialize (Er sa eq_refl). rewrite Et in Er. intros Ha.
        assert (Hta : n_tparent (getn sa child) = None).
        { destruct (Kr child Hcb) as [Id _]. apply ident_fields in Id. destruct Id as (_ & _ & _ & _ & _ & ->). exact Hct. }
        pose proof (LA sa s2 Hta Ha) as Ea. destruct Er as (Er1 & Er2 & Er3). destruct Ea as (Ea1 & Ea2 & Ea3).
        rewrite Er1 in Ea1. split; [exact Ea1|split].
        * intros q Hq. now rewrite Ea2, Er2.
        * intros q. now rewrite Ea3, Er3.
      + cbn [mbind node_of]. destruct (index_of o (n_list (getn s1 p))) as [li|] eqn:Eli; [|discriminate].
        apply index_of_Some_In in Eli. contradiction. }
  destruct (Fatt s1 N1) as [[N2 K2] _].
  destruct (att s1) as [s2 [[]|x]] eqn:Ea; [|discriminate]. cbn [fst] in N2, K2.
  specialize (Eatt s2 eq_refl). apply K_Inv in Katt.
  (* the final promotion finds p settled *)
  assert (Htp2 : n_tparent (getn s2 p) = None).
  { destruct (K2 p Hp) as [Id _]. apply ident_fields in Id. destruct Id as (_ & _ & _ & _ & _ & ->).
    destruct (Sh1 p Hp) as [_ Id]. apply ident_fields in Id. destruct Id as (_ & _ & _ & _ & _ & ->). exact Htp. }
  unfold FUEL. rewrite (to_traversal_settled t _ p s2 Htp2). intros [= <-].
  pose proof (set_tparent_none_spec Unone Unone p s2 (K_none s2 Katt)) as I3.
  unfold set_tparent_raw, modify in I3. cbv beta iota in I3. apply K_Inv in I3.
  set (s3 := setn s2 p (with_tparent (getn s2 p) None)) in *.
  assert (L3 : forall q, n_list (getn s3 q) = n_list (getn s2 q)) by (intros q; unfold s3; now apply list_setn_same).
  assert (Nm3 : forall q, n_name (getn s3 q) = n_name (getn s2 q)).
  { intros q. unfold s3. rewrite getn_setn. destruct (Nat.eqb_spec q p) as [->|]; reflexivity. }
  assert (A3 : forall q, abs s3 q = abs s2 q).
  { intros q. unfold abs. rewrite L3. apply map_ext. intros c. now rewrite Nm3. }
  exists cname, cref, child. split; [reflexivity|]. split; [exact Q1|].
  destruct Eatt as (E1 & E2 & E3).
  split; [|split; [|split; [|split; [|split]]]].
  - rewrite A3. unfold spec_assign_at. rewrite <- A1. rewrite (reps_index s1 p (Some cname) I1).
    rewrite (abs_edit s1 s2 p _ (conj E1 (conj E2 E3))).
    destruct (py_nth (iget (Some cname) (n_idx (getn s1 p))) i) as [o|].
    + unfold spec_replace, abs. rewrite !map_map. apply map_ext. intros d. cbn.
      destruct (Nat.eqb d o); [now rewrite En|reflexivity].
    + unfold spec_append, abs. rewrite map_app. cbn. now rewrite En.
  - intros q Hq Hne. rewrite A3. apply abs_same.
    + rewrite E2 by exact Hne. destruct (Sh1 q Hq) as [Sh _]. apply shape_fields in Sh. tauto.
    + intros c Hc'. rewrite E3. apply Nm1. now apply (I_bound s I q).
  - intros c Hc'. rewrite Nm3, E3. now apply Nm1.
  - unfold s3. cbn. unfold n in *. lia.
  - exact I3.
  - unfold s3. now rewrite getn_setn_same.
Qed.

(* ---------- sequences of index-addressed operations ---------- *)

(* the operations carry the key k their name resolves to (a long name resolves to the short one) *)
Inductive iop :=
  | IRemoveAt (p : nat) (name : str) (k : option str) (i : Z)
  | IAssignAt (p : nat) (name : str) (k : option str) (i : Z) (txt : str).

Definition rm_key (s : store) (p : nat) (name : str) : option (option str) :=
  match fcr t (getn s p) (upper name) with
  | Ok (cname, _) => Some (Some (if streqb cname name then name else cname))
  | Err _ => None
  end.
Definition set_key (s : store) (p : nat) (name : str) : option (option str) :=
  match fcr t (getn s p) (upper name) with
  | Ok (cname, _) => Some (Some cname)
  | Err _ => None
  end.

(* a run in which every operation ends normally and meets its side conditions: the addressed element
   is allocated, not waiting under a traversal parent, and settled *)
Inductive good_irun : store -> list iop -> store -> Prop :=
  | irun_nil s : good_irun s [] s
  | irun_remove s p name k i s1 ops s' :
      remove_by_name t p name i s = (s1, Ok tt) -> settled s p -> rm_key s p name = Some k ->
      good_irun s1 ops s' -> good_irun s (IRemoveAt p name k i :: ops) s'
  | irun_assign s p name k i txt s1 ops s' :
      set_child t e le false p name (VText txt) i s = (s1, Ok tt) ->
      p < s_next s -> n_tparent (getn s p) = None -> settled s p -> set_key s p name = Some k ->
      good_irun s1 ops s' -> good_irun s (IAssignAt p name k i txt :: ops) s'.

(* the abstract list semantics: a state is the allocation mark and the children list of every element *)
Definition astep (n : nat) (a : nat -> absl) (o : iop) (n1 : nat) (a1 : nat -> absl) : Prop :=
  match o with
  | IRemoveAt p _ k i =>
      n1 = n /\ a1 p = spec_remove_at (a p) k i /\ forall q, q <> p -> a1 q = a q
  | IAssignAt p _ k i _ =>
      n <= n1 /\ exists child, n <= child /\ a1 p = spec_assign_at (a p) k i child /\
                               forall q, q < n -> q <> p -> a1 q = a q
  end.
Inductive arun : nat -> (nat -> absl) -> list iop -> nat -> (nat -> absl) -> Prop :=
  | arun_nil n a : arun n a [] n a
  | arun_cons n a o n1 a1 ops n' a' : astep n a o n1 a1 -> arun n1 a1 ops n' a' -> arun n a (o :: ops) n' a'.

Theorem refines_indexed s ops s' :
  Inv s -> good_irun s ops s' -> arun (s_next s) (abs s) ops (s_next s') (abs s') /\ Inv s'.
Proof.
  intros I H. induction H as [s|s p name k i s1 ops s' H St Hk _ IH|s p name k i txt s1 ops s' H Hp Ht St Hk _ IH].
  - split; [constructor|exact I].
  - destruct (remove_by_name_refines p name i s s1 I St H) as (cname & cref & Ef & A & F & _).
    assert (I1 : Inv s1).
    { pose proof (remove_by_name_spec t Unone Unone p name i s (K_none s I)) as HS. rewrite H in HS. now apply K_Inv in HS. }
    assert (N1 : s_next s1 = s_next s).
    { clear - H. revert H. unfold remove_by_name, child_at_index. rewrite !mbind_run. cbn [node_of lift]. rewrite !mbind_run.
      cbn [lift]. destruct (fcr t (getn s p) (upper name)) as [[cn cr]|ex]; [|discriminate].
      assert (R : forall c sa, remove_child p c s = (sa, Ok tt) -> s_next sa = s_next s).
      { intros c sa. unfold remove_child. cbn [mbind node_of]. destruct (oid_eqb _ _).
        - unfold do_rm_tidx, modify. now intros [= <-].
        - rewrite mbind_run. unfold do_rm_idx at 1, modify at 1. cbn [mbind node_of].
          destruct (memb _ _); [|discriminate]. unfold do_rm_list, modify. now intros [= <-]. }
      destruct (streqb cn name); cbn [ret]; destruct (finder _ _ _) as [c|]; try discriminate; apply R. }
    destruct (IH I1) as [R I']. split; [|exact I'].
    apply arun_cons with (n1 := s_next s1) (a1 := abs s1); [|exact R].
    cbn [astep]. unfold rm_key in Hk. rewrite Ef in Hk. injection Hk as <-. auto.
  - destruct (set_child_refines p name txt i s s1 I Hp Ht St H) as (cname & cref & child & Ef & Fc & A & F & _ & N1 & I1 & _).
    destruct (IH I1) as [R I']. split; [|exact I'].
    apply arun_cons with (n1 := s_next s1) (a1 := abs s1); [|exact R].
    cbn [astep]. unfold set_key in Hk. rewrite Ef in Hk. injection Hk as <-.
    split; [exact N1|]. exists child. auto.
Qed.

(* x.<name>[i] = v for a name that needs no second look (not a positional path through a field):
   the proxy is (x, NAME) and the assignment is children.set *)
Lemma set_index_direct x name i v s pn :
  proxy_name_plain t (getn s x) name = Ok pn ->
  set_index t e le false x name i v s = set_child t e le false x pn v i s.
Proof.
  intros H. unfold set_index, get_proxy. rewrite mbind_run. cbn [mbind node_of].
  destruct (n_cls (getn s x)); unfold mcatch; cbn [mbind lift]; rewrite H; reflexivity.
Qed.

(* ---------- a checker for good_irun, to exhibit runs ---------- *)

Definition istep (o : iop) : M unit :=
  match o with
  | IRemoveAt p name _ i => remove_by_name t p name i
  | IAssignAt p name _ i txt => set_child t e le false p name (VText txt) i
  end.
Definition settled_b (s : store) (p : nat) : bool :=
  forallb (fun c => negb (oid_eqb (n_tparent (getn s c)) p)) (n_list (getn s p)).
Definition key_is (r : option (option str)) (k : option str) : bool :=
  match r with Some k' => opt_eqb k' k | None => false end.
Definition ok_b (r : result unit) : bool := match r with Ok _ => true | Err _ => false end.
Definition iside_b (s : store) (o : iop) : bool :=
  match o with
  | IRemoveAt p name k i => settled_b s p && key_is (rm_key s p name) k
  | IAssignAt p name k i _ =>
      Nat.ltb p (s_next s) && match n_tparent (getn s p) with None => true | Some _ => false end &&
      settled_b s p && key_is (set_key s p name) k
  end.
Fixpoint irun_b (s : store) (ops : list iop) : bool :=
  match ops with
  | [] => true
  | o :: r => iside_b s o && ok_b (snd (istep o s)) && irun_b (fst (istep o s)) r
  end.
Fixpoint irun_end (s : store) (ops : list iop) : store :=
  match ops with [] => s | o :: r => irun_end (fst (istep o s)) r end.

Lemma settled_b_ok s p : settled_b s p = true -> settled s p.
Proof.
  unfold settled_b. rewrite forallb_forall. intros H c Hc. specialize (H c Hc). now apply negb_true_iff in H.
Qed.
Lemma key_is_ok r k : key_is r k = true -> r = Some k.
Proof. destruct r as [k'|]; cbn; [|discriminate]. destruct (opt_eqb_spec k' k); [now intros _; subst|discriminate]. Qed.

Lemma good_irun_b ops : forall s, irun_b s ops = true -> good_irun s ops (irun_end s ops).
Proof.
  induction ops as [|o r IH]; intros s; cbn [irun_b irun_end]; [constructor|].
  intros H. apply andb_true_iff in H. destruct H as [H Hr]. apply andb_true_iff in H. destruct H as [Hs Ho].
  assert (E : istep o s = (fst (istep o s), Ok tt)).
  { destruct (istep o s) as [s1 [[]|y]]; [reflexivity|discriminate]. }
  specialize (IH _ Hr). destruct o as [p name k i|p name k i txt]; cbn [istep iside_b] in *.
  - apply andb_true_iff in Hs. destruct Hs as [A B].
    eapply irun_remove; [exact E|now apply settled_b_ok|now apply key_is_ok|exact IH].
  - apply andb_true_iff in Hs. destruct Hs as [Hs D]. apply andb_true_iff in Hs. destruct Hs as [Hs C].
    apply andb_true_iff in Hs. destruct Hs as [A B].
    eapply irun_assign; [exact E|now apply Nat.ltb_lt|destruct (n_tparent (getn s p)); [discriminate|reflexivity]|
                         now apply settled_b_ok|now apply key_is_ok|exact IH].
Qed.

End Indexed.
