(* C11, second sentence, the by-name form:   x.n1...nk = text   (k >= 2).  The chain n1...n(k-1) is
   read, its last proxy resolved to an element el, the new child is parsed and attached to el (still
   waiting), and ElementList.set ends with el.set_parent_to_traversal(): the promotion happens AFTER
   the attachment. *)
From Coq Require Import List Bool Arith Lia ZArith NArith Init.Byte.
From HL7 Require Import Lib.Str Model.Ec Model.Result Model.Ref Model.Tree Model.Parser Model.Encode Model.Heap Model.HeapSpec.
From HL7 Require Import Proofs.HeapFacts Proofs.HeapInv Proofs.HeapOps Proofs.HeapAlloc Proofs.HeapSteps Proofs.HeapAtomic
                        Proofs.HeapRefine Proofs.HeapRead Proofs.HeapWrite Proofs.HeapChain Proofs.HeapLeaf
                        Proofs.HeapMaterialise.
Import ListNotations.

(* a chain whose leaf changes keeps its upper part *)
Lemma upchain_transport_tl s s' c r x :
  (forall q d, In q (r ++ [x]) -> link s q d -> link s' q d) ->
  (forall q d, In d (c :: r) -> In q (r ++ [x]) -> travc s q d -> travc s' q d) ->
  upchain s (c :: r) x -> upchain s' (c :: r) x.
Proof.
  intros ML MT. cbn [upchain]. intros [[A B]|B].
  - left. split; [apply MT; auto; [now left|apply hd_In_app]|].
    revert B. apply upchain_transport; [exact ML|]. intros q d Hd Hq. apply MT; auto. now right.
  - right. revert B. now apply uplinks_mono_tl.
Qed.

Section Assign.
Variable t : tables.
Variable e : ec.
Variable le : level -> option str -> str -> result str.


Lemma child_at_index_pure g p name i s s' r : child_at_index t g p name i s = (s', r) -> s' = s.
Proof.
  unfold child_at_index. cbn [mbind node_of lift].
  destruct (fcr t (getn s p) (upper name)) as [[cn cr]|x]; [|now intros [= <- _]]. cbn [mbind].
  destruct (streqb cn name); [cbn [ret]; now intros [= <- _]|].
  destruct g; [cbn [raise]|cbn [ret]]; now intros [= <- _].
Qed.

(* children.set(name, text, 0) that ends normally: up to the final promotion only p and the freshly
   parsed child changed, the child is listed, and the invariant holds *)
Lemma set_child_text_run p name txt s s' :
  Inv s -> p < s_next s ->
  set_child t e le false p name (VText txt) 0 s = (s', Ok tt) ->
  exists s2 child, Inv s2 /\ keeps (s_next s) p s s2 /\ In child (n_list (getn s2 p)) /\ s_next s <= child /\
                   to_traversal t FUEL p s2 = (s', Ok tt).
Proof.
  intros I Hp. unfold set_child. rewrite mbind_run. cbn [ret]. cbn [mbind node_of lift].
  destruct (fcr t (getn s p) (upper name)) as [[cname cref]|x]; [|discriminate]. cbn [mbind].
  rewrite mbind_run.
  pose proof (parse_child_spec t e le Unone Unone p cname cref txt s (K_none s I)) as HS.
  pose proof (frm_parse_child t e le (s_next s) p p cname cref txt s (le_n _)) as [K1 Q1].
  destruct (parse_child t e le p cname cref txt s) as [s1 [child|x]]; [|discriminate]. cbn [fst snd] in K1, Q1.
  destruct HS as (HK1 & _ & Hc). cbn [mbind node_of].
  destruct (opt_eqb_spec (n_name (getn s1 child)) (Some cname)) as [En|]; cbn [negb]; [|discriminate].
  rewrite mbind_run.
  pose proof (child_at_index_spec t (fun s' => K Unone Unone s' /\ cand s' child /\ n_name (getn s' child) = Some cname)
                p cname 0%Z (fun s' H => K_Inv _ _ _ (proj1 H)) s1 (conj HK1 (conj Hc En))) as H.
  pose proof (child_at_index_pure true p cname 0%Z s1) as Pure.
  destruct (child_at_index t true p cname 0 s1) as [s0 [old|x]]; [|discriminate].
  specialize (Pure s0 (Ok old) eq_refl). subst s0. destruct H as (_ & Hold). rewrite mbind_run.
  assert (N1 : s_next s <= s_next s1) by (destruct K1; assumption).
  assert (Hpc : child <> p) by lia.
  assert (I1 : Inv s1) by (apply K_Inv in HK1; exact HK1).
  assert (Hct : n_tparent (getn s1 child) = None) by (destruct Hc as (_ & _ & X & _); exact X).
  assert (Hcb : child < s_next s1) by (destruct Hc as (_ & X & _); exact X).
  assert (NU : ~ Unone child) by (intros []).
  set (att := match old with None => append t p child | Some o => replace_child t p o child end).
  assert (Fatt : frm (s_next s) p anyr att).
  { unfold att. destruct old; [apply frm_replace_child|apply frm_append]; auto; now left. }
  assert (Katt : match att s1 with (s2, Ok _) => K Unone Unone s2 | (s2, Err _) => K Unone Unone s2 end).
  { unfold att. destruct old as [o|].
    - pose proof (replace_child_spec t Unone Unone p o child s1) as H. cbv beta in H.
      assert (Hn : In o (n_list (getn s1 p)) -> n_name (getn s1 o) = n_name (getn s1 child)).
      { intros Hin. destruct (Hold o eq_refl) as [_ X]. now rewrite (X Hin). }
      specialize (H (conj HK1 (conj NU (conj Hc Hn)))).
      destruct (replace_child t p o child s1) as [s2 [[]|x]]; exact H.
    - pose proof (append_spec t Unone Unone p child s1 (conj HK1 (cand_addable Unone s1 child p NU Hc))) as H.
      destruct (append t p child s1) as [s2 [[]|x]]; exact H. }
  assert (Latt : forall s2, att s1 = (s2, Ok tt) -> In child (n_list (getn s2 p))).
  { assert (LA : forall sa sb, n_tparent (getn sa child) = None -> append t p child sa = (sb, Ok tt) ->
                  In child (n_list (getn sb p))).
    { intros sa sb Ht Ha. apply append_ok in Ha. destruct Ha as (Ea & _).
      assert (L : listing_add sa p child = true) by (unfold listing_add; rewrite Ht; cbn; apply orb_true_r).
      rewrite L in Ea. rewrite Ea. apply in_or_app. right. now left. }
    unfold att. destruct old as [o|]; [|intros s2; now apply LA]. intros s2 Hr.
    destruct (oid_eqb (n_tparent (getn s1 o)) p) eqn:Et.
    - revert Hr. unfold replace_child. cbn [mbind node_of]. rewrite Et. rewrite mbind_run.
      pose proof (frm_remove_child (s_next s1) p p o (or_introl eq_refl) s1 (le_n _)) as [[_ Kr] _].
      destruct (remove_child p o s1) as [sa [[]|x]]; [|discriminate]. cbn [fst] in Kr.
      apply LA. destruct (Kr child Hcb) as [Id _]. apply ident_fields in Id.
      destruct Id as (_ & _ & _ & _ & _ & ->). exact Hct.
    - destruct (replace_child_ok t p o child s1 s2 Hr Et (I_nodup s1 I1 p)) as (Hin & Ed & _).
      rewrite Ed. apply in_map_iff. exists o. now rewrite Nat.eqb_refl. }
  destruct (Fatt s1 N1) as [K2 _].
  destruct (att s1) as [s2 [[]|x]]; [|discriminate]. cbn [fst] in K2.
  intros H. exists s2, child. split; [now apply K_Inv in Katt|]. split; [eapply keeps_trans; eauto|].
  split; [now apply Latt|]. split; [exact Q1|exact H].
Qed.

(* ---------- the whole assignment ---------- *)

(* x.n1...nk = text with the last name taken as a child name of the element the chain leads to *)
Definition write_direct (x : nat) (names : list str) (txt : str) : M unit :=
  match rev names with
  | last :: f :: fr =>
      let! pr := read_chain t le false x (rev (f :: fr)) in
      let! el := proxy_element t le false (fst pr) (snd pr) in
      set_child t e le false el last (VText txt) 0
  | _ => raise OutOfFuel
  end.

(* whenever that direct path ends normally, it is what the assignment does *)
Lemma write_chain_direct x names txt s s' :
  write_direct x names txt s = (s', Ok tt) -> write_chain t e le false x names (VText txt) s = (s', Ok tt).
Proof.
  unfold write_direct, write_chain. destruct (rev names) as [|last [|f fr]]; try discriminate.
  rewrite !mbind_run.
  destruct (read_chain t le false x (rev (f :: fr)) s) as [s1 [pr|y]]; [|discriminate]. rewrite !mbind_run.
  destruct (proxy_element t le false (fst pr) (snd pr) s1) as [s2 [el|y]]; [|discriminate].
  intros H. unfold set_attr. cbn [mbind node_of].
  destruct (n_cls (getn s2 el)); try exact H. unfold mcatch. now rewrite H.
Qed.

Theorem assign_materialises x names txt s s' :
  Inv s -> Tidy s -> x < s_next s -> n_tparent (getn s x) = None ->
  write_direct x names txt s = (s', Ok tt) ->
  exists l child, chain_written s s' x (removelast names) l /\
                  In child (n_list (getn s' (hd x l))) /\ s_next s <= child.
Proof.
  intros I T Hx Htx. unfold write_direct.
  destruct (rev names) as [|last [|f fr]] eqn:Er; try discriminate.
  assert (En : removelast names = rev (f :: fr)).
  { rewrite <- (rev_involutive names), Er. cbn [rev]. rewrite removelast_app by discriminate.
    cbn. now rewrite app_nil_r. }
  rewrite En. set (front := rev (f :: fr)). rewrite mbind_run.
  assert (J0 : J x s []).
  { refine (conj I (conj T (conj Htx (conj Logic.I _)))). intros d [<-|[]]. exact Hx. }
  destruct (read_chain t le false x front s) as [s1 [pr|ex]] eqn:H1; [|discriminate]. rewrite mbind_run.
  destruct (read_chain_chain t le x front s s1 pr J0 H1) as (l1 & J1 & Hh1 & E1 & Len1).
  destruct (proxy_element t le false (fst pr) (snd pr) s1) as [s2 [el|ex]] eqn:H2; [|discriminate].
  rewrite <- Hh1 in H2.
  destruct (proxy_element_chain t le x s1 l1 (snd pr) s2 el J1 H2) as (J2 & E2).
  assert (E02 : ext s s2) by (eapply ext_trans; eauto).
  destruct J2 as (I2 & T2 & Hx2 & Hc2 & Hb2).
  destruct (chain_NoDup s2 (el :: l1) x T2 Hb2 Hc2) as [ND _].
  assert (Hel2 : el < s_next s2) by (apply Hb2; now left).
  intros H3. destruct (set_child_text_run el last txt s2 s' I2 Hel2 H3) as (s3 & child & I3 & [K3n K3] & Lc & Fc & H4).
  assert (Nel : forall q, In q (l1 ++ [x]) -> q <> el).
  { intros q Hq ->. cbn in ND. inversion ND. contradiction. }
  assert (Sh3 : forall q, In q (l1 ++ [x]) -> shape (getn s3 q) = shape (getn s2 q)).
  { intros q Hq. destruct (K3 q) as [_ Sh]; [apply Hb2; now right|]. apply Sh. now apply Nel. }
  assert (Id3 : forall d, In d ((el :: l1) ++ [x]) -> ident (getn s3 d) = ident (getn s2 d)).
  { intros d Hd. destruct (K3 d) as [Id _]; [now apply Hb2|exact Id]. }
  assert (Hc3 : upchain s3 (el :: l1) x).
  { revert Hc2. apply upchain_transport_tl.
    - intros q d Hq. unfold link. pose proof (Sh3 q Hq) as Sh. apply shape_fields in Sh.
      destruct Sh as (_ & _ & _ & _ & -> & _). auto.
    - intros q d Hd Hq (A & B & C). unfold travc.
      pose proof (Sh3 q Hq) as Sh. apply shape_fields in Sh. destruct Sh as (_ & _ & _ & _ & _ & _ & ->).
      assert (Hd' : In d ((el :: l1) ++ [x])) by (apply in_or_app; now left).
      pose proof (Id3 d Hd') as Id. apply ident_fields in Id. destruct Id as (_ & _ & _ & _ & -> & ->). auto. }
  assert (Hb3 : forall d, In d ((el :: l1) ++ [x]) -> d < s_next s3) by (intros d Hd; specialize (Hb2 d Hd); lia).
  assert (Hx3 : n_tparent (getn s3 x) = None).
  { assert (Hxin : In x ((el :: l1) ++ [x])) by (apply in_or_app; right; now left).
    pose proof (Id3 x Hxin) as Id. apply ident_fields in Id. destruct Id as (_ & _ & _ & _ & _ & ->). exact Hx2. }
  destruct (promote t FUEL (el :: l1) x s3 s' el l1 eq_refl I3 ND Hb3 Hx3 Hc3 H4) as [[P1 P2 P3 P4 P5 P6 P7] _].
  assert (N02 : s_next s <= s_next s2) by (destruct E02; assumption).
  assert (Old2 : forall y, y < s_next s -> core (getn s2 y) = core (getn s y)).
  { intros y Hy. destruct E02 as (_ & B & _). destruct (B y Hy) as (V & A1 & A2). now apply core_of_vis. }
  exists (el :: l1), child. split; [|split; [cbn [hd]; now apply P5|lia]].
  constructor.
  - cbn [length]. lia.
  - now apply uplinks_listed.
  - exact P2.
  - intros y Hy Hn. rewrite P4 by exact Hn. destruct (K3 y) as [_ Sh]; [lia|].
    rewrite (core_of_shape _ _ (Sh (fun E => Hn (or_introl (eq_sym E))))). now apply Old2.
  - cbn [hd]. intros q d Hq Hne Hd. apply P5. destruct (K3 q) as [_ Sh]; [lia|].
    apply shape_fields in Sh; [|exact Hne]. destruct Sh as (_ & _ & _ & _ & -> & _).
    rewrite (ext_list s s2 q E02 Hq). exact Hd.
  - cbn [hd]. intros q d Hq Hne Hd. destruct (P6 q d Hd) as [Hd'|[Hd' _]]; [|now right]. left.
    destruct (K3 q) as [_ Sh]; [lia|]. apply shape_fields in Sh; [|exact Hne].
    destruct Sh as (_ & _ & _ & _ & Sh & _). rewrite Sh in Hd'. now rewrite (ext_list s s2 q E02 Hq) in Hd'.
  - intros y Hy. rewrite P7. destruct (K3 y) as [Id _]; [lia|]. apply ident_fields in Id. destruct Id as (_ & -> & _).
    destruct E02 as (_ & B & _). destruct (B y Hy) as (V & _). apply vis_fields in V. tauto.
  - rewrite P3. lia.
Qed.

(* the assignment itself, whenever its direct path ends normally *)
Corollary assign_materialises_chain x names txt s s' :
  Inv s -> Tidy s -> x < s_next s -> n_tparent (getn s x) = None ->
  write_direct x names txt s = (s', Ok tt) ->
  write_chain t e le false x names (VText txt) s = (s', Ok tt) /\
  exists l child, chain_written s s' x (removelast names) l /\
                  In child (n_list (getn s' (hd x l))) /\ s_next s <= child.
Proof. intros I T Hx Ht H. split; [now apply write_chain_direct|eapply assign_materialises; eauto]. Qed.

End Assign.
