(* Line ends do not matter (parser.py after the CR LF fix: parse_segments strips every CR-separated
   piece BEFORE it takes the segment name and skips the pieces that are blank after stripping):
   LF after every CR, blanks around the lines, a blank tail after a final CR leave the result of
   parse_segments (grouped and flat) and of parse_message (with and without a message profile)
   unchanged.  Before the fix the name was taken from the unstripped piece: '\nPID' is found in no
   group and the message came back flat. *)
From Coq Require Import List Bool Arith Lia Init.Byte.
From HL7 Require Import Lib.Str Model.Ec Model.Result Model.Header Model.Ref Model.Tree Model.Parser Model.MsgTree
                        Model.Groups Model.Message Model.MessageProf Proofs.SplitJoin Proofs.PiecesFacts.
Import ListNotations.
Open Scope bs_scope.

(* ------------------------------------------------------------------ *)
(* parse_segments depends on the text through its pieces only           *)
Section Segs.
Variable t : tables.
Variable lvl : level.
Variable e : ec.
Variable leaf : option str -> str -> result str.

Lemma grouped_trees_ext root t1 t2 : pieces t1 = pieces t2 ->
  parse_segments_grouped_trees t lvl e leaf root t1 = parse_segments_grouped_trees t lvl e leaf root t2.
Proof. unfold parse_segments_grouped_trees. now intros ->. Qed.

Lemma grouped_ext root t1 t2 : pieces t1 = pieces t2 ->
  parse_segments_grouped t lvl e leaf root t1 = parse_segments_grouped t lvl e leaf root t2.
Proof. intros H. unfold parse_segments_grouped. now rewrite (grouped_trees_ext root t1 t2 H). Qed.

Lemma flat_ext t1 t2 : pieces t1 = pieces t2 ->
  parse_segments_flat t lvl e leaf t1 = parse_segments_flat t lvl e leaf t2.
Proof. unfold parse_segments_flat. now intros ->. Qed.

(* every item the loop sees is stripped and not empty: the name it searches, take 3 of the item, is
   the first three characters of the STRIPPED piece *)
Theorem pieces_stripped_nonempty text : Forall (fun p => strip p = p /\ p <> []) (pieces text).
Proof.
  pose proof (pieces_stripped text) as A. pose proof (pieces_nonempty text) as B.
  induction A as [|p ps Hp _ IH]; [constructor|]. inversion B; subst. constructor; [now split|now apply IH].
Qed.

(* LF after every CR *)
Theorem crlf_same_forest root text :
  parse_segments_grouped_trees t lvl e leaf root (crlf text) = parse_segments_grouped_trees t lvl e leaf root text.
Proof. apply grouped_trees_ext, pieces_crlf. Qed.

Theorem crlf_same_nodes root text :
  parse_segments_grouped t lvl e leaf root (crlf text) = parse_segments_grouped t lvl e leaf root text.
Proof. apply grouped_ext, pieces_crlf. Qed.

Theorem crlf_same_flat text :
  parse_segments_flat t lvl e leaf (crlf text) = parse_segments_flat t lvl e leaf text.
Proof. apply flat_ext, pieces_crlf. Qed.

(* blanks around the lines (and blank lines, whose strip is empty on both sides or which are filtered:
   use lines' = the non-blank lines padded at will) *)
Theorem padding_same_forest root lines lines' : lines <> [] -> lines' <> [] ->
  Forall (fun l => bmem CR l = false) lines -> Forall (fun l => bmem CR l = false) lines' ->
  map strip lines = map strip lines' ->
  parse_segments_grouped_trees t lvl e leaf root (bjoin CR lines) =
  parse_segments_grouped_trees t lvl e leaf root (bjoin CR lines').
Proof. intros N N' H H' E. apply grouped_trees_ext. now apply pieces_bjoin_ext. Qed.

Theorem padding_same_flat lines lines' : lines <> [] -> lines' <> [] ->
  Forall (fun l => bmem CR l = false) lines -> Forall (fun l => bmem CR l = false) lines' ->
  map strip lines = map strip lines' ->
  parse_segments_flat t lvl e leaf (bjoin CR lines) = parse_segments_flat t lvl e leaf (bjoin CR lines').
Proof. intros N N' H H' E. apply flat_ext. now apply pieces_bjoin_ext. Qed.

(* a blank tail after a final CR (trailing CR, CR LF, CR blank LF ...) *)
Theorem trailing_blank_same_forest root text tail : forallb is_space tail = true -> bmem CR tail = false ->
  parse_segments_grouped_trees t lvl e leaf root (text ++ CR :: tail) =
  parse_segments_grouped_trees t lvl e leaf root text.
Proof. intros A B. apply grouped_trees_ext. now apply pieces_trailing. Qed.

Theorem trailing_blank_same_flat text tail : forallb is_space tail = true -> bmem CR tail = false ->
  parse_segments_flat t lvl e leaf (text ++ CR :: tail) = parse_segments_flat t lvl e leaf text.
Proof. intros A B. apply flat_ext. now apply pieces_trailing. Qed.
End Segs.

(* ------------------------------------------------------------------ *)
(* the header functions read the first line only                        *)

Lemma first_line_crlf s : first_line (crlf s) = first_line s.
Proof.
  unfold crlf, breplace1. induction s as [|x s IH]; [reflexivity|]. cbn [replace1 first_line].
  destruct (beqb x CR) eqn:E; cbn [app first_line].
  - now rewrite beqb_refl.
  - now rewrite E, IH.
Qed.

Lemma msh_field_sep_crlf s : msh_field_sep (crlf s) = msh_field_sep s.
Proof.
  unfold crlf, breplace1.
  destruct s as [|a [|b [|c [|d r]]]]; cbn [replace1 app]; try reflexivity;
    repeat match goal with
           | |- context [beqb ?x CR] => is_var x; destruct (beqb_spec x CR) as [->|?]
           end; cbn [app]; unfold msh_field_sep;
    repeat match goal with
           | |- context [beqb ?x ?y] => is_var x; destruct (beqb x y); cbn [andb]
           end; try reflexivity;
    repeat match goal with
           | |- context [match ?l with [] => _ | _ :: _ => _ end] => destruct l; cbn [andb]
           end; cbn; try reflexivity.
Qed.

Lemma split_msh_crlf s : split_msh (crlf s) = split_msh s.
Proof. unfold split_msh. now rewrite msh_field_sep_crlf, first_line_crlf. Qed.

Lemma get_message_info_crlf s : get_message_info (crlf s) = get_message_info s.
Proof. unfold get_message_info. now rewrite split_msh_crlf. Qed.

Lemma lstrip_crlf s : lstrip (crlf s) = crlf (lstrip s).
Proof.
  unfold crlf, breplace1, lstrip. induction s as [|x s IH]; [reflexivity|]. cbn [replace1 lstrip_by].
  destruct (beqb_spec x CR) as [->|N].
  - cbn [app lstrip_by]. change (is_space CR) with true. change (is_space LF) with true. cbv iota. exact IH.
  - cbn [app lstrip_by]. destruct (is_space x); [exact IH|]. cbn [replace1].
    destruct (beqb_spec x CR) as [->|_]; [congruence|reflexivity].
Qed.

(* ------------------------------------------------------------------ *)
(* parse_message                                                        *)

Lemma parse_message_ext lib dflt lvl fg t1 t2 :
  get_message_info (lstrip t1) = get_message_info (lstrip t2) -> pieces (lstrip t1) = pieces (lstrip t2) ->
  parse_message lib dflt lvl fg t1 = parse_message lib dflt lvl fg t2.
Proof.
  intros H1 H2. unfold parse_message, parse_segments_flat, parse_segments_grouped, parse_segments_grouped_trees.
  cbv zeta. rewrite H1, H2. reflexivity.
Qed.

Theorem parse_message_crlf lib dflt lvl fg text :
  parse_message lib dflt lvl fg (crlf text) = parse_message lib dflt lvl fg text.
Proof.
  apply parse_message_ext; rewrite lstrip_crlf; [apply get_message_info_crlf|apply pieces_crlf].
Qed.

Lemma parse_message_prof_gen_ext lib dflt lvl leafv fg prof t1 t2 :
  get_message_info (lstrip t1) = get_message_info (lstrip t2) -> pieces (lstrip t1) = pieces (lstrip t2) ->
  parse_message_prof_gen lib dflt lvl leafv fg prof t1 = parse_message_prof_gen lib dflt lvl leafv fg prof t2.
Proof.
  intros H1 H2. unfold parse_message_prof_gen, parse_segments_flat, parse_segments_grouped,
    parse_segments_grouped_trees.
  cbv zeta. rewrite H1, H2. reflexivity.
Qed.

Theorem parse_message_prof_gen_crlf lib dflt lvl leafv fg prof text :
  parse_message_prof_gen lib dflt lvl leafv fg prof (crlf text) = parse_message_prof_gen lib dflt lvl leafv fg prof text.
Proof.
  apply parse_message_prof_gen_ext; rewrite lstrip_crlf; [apply get_message_info_crlf|apply pieces_crlf].
Qed.

Theorem parse_message_prof_crlf lib dflt lvl fg prof text :
  parse_message_prof lib dflt lvl fg prof (crlf text) = parse_message_prof lib dflt lvl fg prof text.
Proof. apply parse_message_prof_gen_crlf. Qed.

(* the reproducer of the defect is decided by the kernel in Properties/C08.v (C08_crlf_example) *)
