(* The MSH segment line: `MSH` + field separator + MSH-2 + the remaining fields.
   parse_fields gives MSH_1 the field separator itself and does not split MSH_2 on the repetition
   character; Field.to_er7 of MSH_1 / MSH_2 returns the raw text; Segment.to_er7 pops the
   MSH_1 entry before joining.  Everything from MSH_3 on goes through the table-driven proofs of
   RoundTripSeg.v. *)
From Coq Require Import List Bool Arith ZArith NArith Lia Init.Byte.
From HL7 Require Import Lib.Str Model.Ec Model.Result Model.Ref Model.Tree Model.Parser Model.Encode Model.Wf
  Model.MsgTree Model.Message.
From HL7 Require Import Proofs.SplitJoin Proofs.LevelCodec Proofs.RoundTripStr Proofs.RoundTripCore
  Proofs.RoundTripVT Proofs.RoundTripZ Proofs.RoundTripSeg.
Import ListNotations.
Open Scope bs_scope.
Open Scope res_scope.

Definition MSH : str := unbs "MSH".
Definition STn : str := unbs "ST".

Lemma msh_name_1 : name_idx MSH 1 = unbs "MSH_1". Proof. reflexivity. Qed.
Lemma msh_name_2 : name_idx MSH 2 = unbs "MSH_2". Proof. reflexivity. Qed.

Lemma msh_name_other i : 3 <= i ->
  streqb (name_idx MSH i) (unbs "MSH_1") = false /\ streqb (name_idx MSH i) (unbs "MSH_2") = false.
Proof.
  intros Hi. rewrite <- msh_name_1, <- msh_name_2.
  split; match goal with |- streqb ?a ?b = false => destruct (streqb_spec a b) as [E|]; [|reflexivity] end;
    apply name_idx_inj in E; lia.
Qed.

Lemma msh_upper i : upper (name_idx MSH i) = name_idx MSH i.
Proof. now rewrite name_idx_upper. Qed.

Lemma msh_is_msh12_other i : 3 <= i -> is_msh12 (Some (name_idx MSH i)) = false /\ not_msh12 (name_idx MSH i).
Proof.
  intros Hi. destruct (msh_name_other i Hi) as [A B].
  unfold is_msh12, not_msh12. cbn [option_map opt_eqb]. rewrite msh_upper. now rewrite A, B.
Qed.

Section Msh.
Variable t : tables.
Variable e : ec.
Variable leaf : option str -> str -> result str.
Hypothesis Hec : ec_ok e.

Notation base := (base t).
Hypothesis Hst : base (Some STn) = true.
Hypothesis Hvar : base (Some (unbs "varies")) = false.

(* ---------- the MSH_1 / MSH_2 field objects ---------- *)

Definition msh12_field (n : str) (sto : option structure) (v ev : str) : field :=
  mk_field_rec (Some n) (Some STn) sto [mk_comp (Some STn) (Some STn) None [mk_sub (Some STn) (Some STn) v ev]].

Lemma st_not_varies' : is_varies (Some STn) = false. Proof. reflexivity. Qed.

Lemma mk_subcomponent_raw v ev : v <> [] -> leaf (Some STn) v = Ok ev ->
  mk_subcomponent t TOLERANT leaf None (Some STn) v None = Ok (mk_sub (Some STn) (Some STn) v ev).
Proof.
  intros Hv Hl. unfold mk_subcomponent, canbevaries.
  rewrite st_not_varies'. cbn [andb negb is_strict]. rewrite Hst. cbn [andb negb bind valid_child_name st_dt].
  unfold set_datatype_ctor. rewrite Hst. cbn [andb negb is_strict bind].
  destruct v; [congruence|]. rewrite Hl. reflexivity.
Qed.

Lemma add_subs_one_raw k c : sc_name k = Some STn -> sc_dt k = Some STn ->
  c_dt c = Some STn -> c_children c = [] ->
  add_subs t TOLERANT c [k] = Ok (mk_comp (c_name c) (c_dt c) (c_st c) [k]).
Proof.
  intros Hn Hd Hc Hk. cbn [add_subs]. rewrite Hk. cbn [length Nat.leb]. rewrite andb_false_r.
  rewrite Hn, Hd, opt_eqb_some_refl. cbn [negb andb]. rewrite andb_false_r.
  rewrite (vcc_base_child t _ (c_dt c) _ STn (Some STn) Hst); [|now right|now right].
  reflexivity.
Qed.

Lemma parse_field_msh12 v ev name ref fv n sto :
  field_ctor t name ref fv = Ok (mk_field_rec (Some n) (Some STn) sto []) -> is_msh12 name = true ->
  v <> [] -> leaf (Some STn) v = Ok ev ->
  parse_field t TOLERANT e leaf v name ref fv = Ok (msh12_field n sto v ev).
Proof.
  intros Hc Hm Hv Hl. rewrite parse_field_unfold, Hc, Hm. cbn [bind].
  change (Some (unbs "ST")) with (Some STn).
  rewrite (mk_subcomponent_raw v ev Hv Hl). cbn [bind].
  rewrite (mk_component_unnamed t STn Hst st_not_varies'). cbn [bind].
  rewrite add_subs_one_raw by reflexivity. cbn [bind c_name c_dt c_st].
  rewrite (add_comps_step_base t STn (mk_field_rec (Some n) (Some STn) sto []) _ [] Hst);
    [reflexivity|reflexivity|now right|right; split; reflexivity].
Qed.

Lemma enc_field_msh12 n sto v ev :
  opt_eqb (Some n) (Some (unbs "MSH_1")) || opt_eqb (Some n) (Some (unbs "MSH_2")) = true ->
  enc_field t e (msh12_field n sto v ev) = Ok v.
Proof. intros H. unfold enc_field, msh12_field. cbn [f_name f_children c_children sc_value]. now rewrite H. Qed.

(* ---------- the field loop, with the conditions on MSH_1 / MSH_2 local to the list ---------- *)

Lemma parse_fields_aux_groups_on prefix st fv : forall l gs,
  (forall i f, In (i, f) l -> streqb (upper (name_idx prefix i)) (unbs "MSH_2") = false /\
                              streqb (upper (name_idx prefix i)) (unbs "MSH_1") = false) ->
  Forall2 (fun p g => field_group t e leaf prefix st fv (fst p) (snd p) g) l gs ->
  parse_fields_aux t TOLERANT e leaf prefix st fv l = Ok (concat gs).
Proof.
  intros l gs Hm H. induction H as [|[i f] g l gs H _ IH]; [reflexivity|].
  cbn [parse_fields_aux fst snd] in *. destruct (Hm i f (or_introl eq_refl)) as [M2 M1]. rewrite M2, M1.
  rewrite IH by (intros i' f' Hi; apply (Hm i' f'); now right).
  destruct H as [[Hb ->]|[Hb Hp]]; rewrite Hb; cbn [negb].
  - reflexivity.
  - rewrite Hp. reflexivity.
Qed.

(* ---------- the whole line ---------- *)

Variable srows : list srow.
Hypothesis Hl : slookup MSH (t_segments t) = Some (SSeqIn false srows None).
Hypothesis Hc : rows_contiguous MSH FIE 1 srows = true.
Hypothesis Hrows : forall row, In row srows -> field_row_ok t row.
(* MSH-1 and MSH-2 are ST leaves *)
Variables row1 row2 : srow.
Variables inf1 inf2 : info.
Hypothesis Hn1 : nth_error srows 0 = Some row1.
Hypothesis Hn2 : nth_error srows 1 = Some row2.
Hypothesis Hr1 : row_ref t row1 = Some (SLeaf inf1).
Hypothesis Hr2 : row_ref t row2 = Some (SLeaf inf2).
Hypothesis Hd1 : i_dt inf1 = Some STn.
Hypothesis Hd2 : i_dt inf2 = Some STn.

Lemma msh_resolved : rows_resolved t srows.
Proof. intros x Hx E. destruct (Hrows x Hx) as [fr [E' _]]. congruence. Qed.

Lemma enc_segment_msh st (inf : bool) n last (gs : list (list field)) m2 (fs : list str) :
  st_ordered st = Some (map (name_idx MSH) (seq 1 n)) ->
  (N.of_nat n <= last)%N ->
  length gs <= (if inf then N.to_nat last else n) ->
  groups_named MSH 1 gs -> Forall2 (group_enc t e) ([fsep e] :: m2 :: fs) gs -> no_trail (m2 :: fs) ->
  enc_segment t e (mk_seg MSH st inf (N.of_nat n) last (concat gs)) false = Ok (bjoin (fsep e) (MSH :: m2 :: fs)).
Proof.
  intros Ho Hla HK Hn Hg Ht. unfold enc_segment.
  assert (Ht' : no_trail ([fsep e] :: m2 :: fs)).
  { intros l' E. destruct l' as [|x l']; [discriminate|]. injection E as _ E. exact (Ht l' E). }
  rewrite (seg_slots_groups MSH st inf n last gs eq_refl Ho Hla HK Hn (group_enc_no_trail t e _ gs Hg Ht')).
  rewrite (enc_seg_slots_groups t e _ gs Hg). cbn [s_name]. reflexivity.
Qed.

Theorem msh_roundtrip (m2 e1 e2 : str) (fs : list str) :
  is_blank m2 = false -> bmem (fsep e) m2 = false -> bmem CR m2 = false ->
  leaf (Some STn) [fsep e] = Ok e1 -> leaf (Some STn) m2 = Ok e2 ->
  no_trail (m2 :: fs) -> 2 + length fs <= length srows ->
  (forall i f, In (i, f) (combine (seq 3 (length fs)) fs) -> tfield_text t e leaf srows i f) ->
  let text := bjoin (fsep e) (MSH :: m2 :: fs) in
  exists s, parse_segment t TOLERANT e leaf text None = Ok s /\
            enc_segment t e s false = Ok text /\
            (* what Message._get_encoding_chars reads back *)
            s_name s = MSH /\ field_value s (unbs "MSH_1") = Some [fsep e] /\ field_value s (unbs "MSH_2") = Some m2.
Proof.
  intros Hb2 Hf2 Hcr2 Hl1 Hl2 Ht Hlen Hf text.
  pose proof msh_resolved as Hres.
  assert (Hinfo : forall row, In row srows -> exists r, row_ref t row = Some r /\ ref_info r <> None).
  { intros row Hx. destruct (Hrows row Hx) as [fr [E' K]]. exists fr. split; [exact E'|].
    destruct fr; try contradiction; discriminate. }
  destruct (mk_segment_table t MSH srows eq_refl eq_refl eq_refl Hl Hc Hres Hinfo) as [st [inf [Hmk [Hs _]]]].
  (* the references of MSH_1 and MSH_2 *)
  destruct (rows_structure_ref_in t MSH FIE srows st 0 row1 _ Hs Hn1 Hr1) as [Hm Href1].
  destruct (rows_structure_ref_in t MSH FIE srows st 1 row2 _ Hs Hn2 Hr2) as [_ Href2].
  set (st1 := mk_structure (SLeaf inf1) None [] [] [] (Some inf1)).
  set (st2 := mk_structure (SLeaf inf2) None [] [] [] (Some inf2)).
  set (F1 := msh12_field (name_idx MSH 1) (Some st1) [fsep e] e1).
  set (F2 := msh12_field (name_idx MSH 2) (Some st2) m2 e2).
  assert (P1 : parse_field t TOLERANT e leaf [fsep e] (Some (name_idx MSH 1)) (Some (SLeaf inf1)) false = Ok F1).
  { apply parse_field_msh12; auto; [|discriminate].
    pose proof (field_ctor_ref t (name_idx MSH 1) (SLeaf inf1) _ false (msh_upper 1) (leaf_structure t inf1)) as Hct.
    cbn [st_dt st_info] in Hct. now rewrite Hd1 in Hct. }
  assert (P2 : parse_field t TOLERANT e leaf m2 (Some (name_idx MSH 2)) (Some (SLeaf inf2)) false = Ok F2).
  { apply parse_field_msh12; auto; [|now apply not_blank_ne].
    pose proof (field_ctor_ref t (name_idx MSH 2) (SLeaf inf2) _ false (msh_upper 2) (leaf_structure t inf2)) as Hct.
    cbn [st_dt st_info] in Hct. now rewrite Hd2 in Hct. }
  (* the fields from MSH_3 on *)
  assert (Htf : forall i f, In (i, f) (combine (seq 3 (length fs)) fs) -> tfield t e leaf MSH st inf i f).
  { intros i f Hif. destruct (Hf i f Hif) as [A [B C]]. split; [exact A|]. split; [exact B|].
    destruct C as [->|[Hb [row [fr [Hn [Hr Hall]]]]]]; [now left|right]. split; [exact Hb|].
    assert (Hi : 3 <= i) by (apply in_combine_seq in Hif; lia).
    destruct (msh_is_msh12_other i Hi) as [M12 N12].
    eapply Forall_impl; [|exact Hall]. intros r Hr'.
    apply (field_rt_of_text_gen t e leaf Hst Hvar MSH eq_refl eq_refl srows st Hs inf i row fr r M12 N12 Hn); auto.
    - lia.
    - apply Hrows. exact (nth_error_In _ _ Hn). }
  destruct (tfield_groups t e leaf MSH st inf fs 3 Htf) as [gs' G].
  assert (Hgl : length gs' = length fs).
  { rewrite <- (Forall2_length' _ _ _ G). rewrite combine_length, seq_length. apply Nat.min_id. }
  set (gs := [F1] :: [F2] :: gs').
  assert (Hnamed : groups_named MSH 1 gs).
  { cbn [gs groups_named]. split; [intros x [<-|[]]; reflexivity|]. split; [intros x [<-|[]]; reflexivity|].
    apply (groups_rel_named t e leaf MSH st inf (combine (seq 3 (length fs)) fs) gs' 3); [|exact G].
    rewrite combine_length, seq_length, Nat.min_id. clear. generalize 3. induction fs as [|f l IH]; intros a; [reflexivity|].
    cbn [length seq combine map fst]. now rewrite IH. }
  set (last := last_idx inf 1 gs (N.of_nat (length srows))).
  exists (mk_seg MSH st inf (N.of_nat (length srows)) last (concat gs)).
  assert (Hfs_nosep : forall f, In f fs -> bmem (fsep e) f = false /\ bmem CR f = false).
  { intros f Hin. apply (In_nth _ _ []) in Hin. destruct Hin as [k [Hk <-]].
    assert (In (3 + k, nth k fs []) (combine (seq 3 (length fs)) fs)) as Hi.
    { replace (3 + k, nth k fs []) with (nth k (combine (seq 3 (length fs)) fs) (0, [])).
      - apply nth_In. rewrite combine_length, seq_length, Nat.min_id. exact Hk.
      - rewrite combine_nth by apply seq_length. rewrite seq_nth by exact Hk. reflexivity. }
    destruct (Hf _ _ Hi) as [A [B _]]. now split. }
  split.
  - (* parsing *)
    unfold parse_segment. subst text. rewrite (seg_name_sn e MSH eq_refl), Hmk. cbn [bind].
    unfold parse_segment_in. rewrite (seg_name_sn e MSH eq_refl). cbn [s_st s_inf].
    assert (Hrest : seg_rest_of (bjoin (fsep e) (MSH :: m2 :: fs)) = bjoin (fsep e) ([] :: m2 :: fs)).
    { unfold seg_rest_of. fold (seg_name_of (bjoin (fsep e) (MSH :: m2 :: fs))). rewrite (seg_name_sn e MSH eq_refl).
      reflexivity. }
    rewrite Hrest. unfold parse_fields.
    assert (Hcr : bmem CR (bjoin (fsep e) ([] :: m2 :: fs)) = false).
    { apply bmem_bjoin.
      - intros E. destruct Hec as [_ Hsp]. specialize (Hsp (fsep e) (or_introl eq_refl)). rewrite <- E in Hsp. discriminate.
      - constructor; [reflexivity|]. constructor; [exact Hcr2|]. rewrite Forall_forall. intros f Hin. now apply Hfs_nosep. }
    rewrite (strip_cr_none _ Hcr).
    assert (Hsp : bsplit (fsep e) (bjoin (fsep e) ([] :: m2 :: fs)) = [] :: m2 :: fs).
    { apply bsplit_bjoin; [discriminate|]. cbn [forallb]. rewrite (nosep_of_bmem _ _ Hf2). cbn [nosep forallb andb].
      rewrite forallb_forall. intros f Hin. apply nosep_of_bmem. now apply Hfs_nosep. }
    rewrite Hsp. unfold indexed. cbn [length seq combine parse_fields_aux].
    (* MSH_1 *)
    rewrite Hm, Href1. change (is_blank []) with true. cbn [negb].
    rewrite (msh_upper 1), msh_name_1. cbn [streqb leqb beqb Byte.eqb andb]. rewrite <- msh_name_1.
    cbn [parse_reps]. rewrite P1. cbn [bind].
    (* MSH_2 *)
    rewrite Href2, Hb2. cbn [negb]. rewrite (msh_upper 2), msh_name_2. cbn [streqb leqb beqb Byte.eqb andb].
    rewrite <- msh_name_2. cbn [parse_reps]. rewrite P2. cbn [bind].
    (* the rest *)
    erewrite (parse_fields_aux_groups_on MSH (Some st) inf _ gs').
    + rewrite !streqb_refl. cbn [bind app]. change (F1 :: F2 :: concat gs') with (concat gs).
      rewrite (add_fields_groups t MSH st inf (N.of_nat (length srows)) gs 1 (N.of_nat (length srows)) []); auto.
      right. intros i Hi. apply (rows_structure_known t MSH FIE srows st i Hs Hres).
      cbn [gs length] in Hi. lia.
    + intros i f Hif. assert (Hi : 3 <= i) by (apply in_combine_seq in Hif; lia).
      destruct (msh_name_other i Hi) as [A B]. rewrite msh_upper. now split.
    + eapply Forall2_impl; [|exact G]. intros p g. apply groups_rel_field_group.
  - split; [|split; [reflexivity|split; reflexivity]].
    (* encoding *)
    subst text.
    apply (enc_segment_msh st inf (length srows) last gs m2 fs (rs_ordered _ _ _ _ _ Hs)); auto.
    + subst last. apply last_idx_ge.
    + destruct inf.
      * subst last. pose proof (last_idx_ge true gs 1 (N.of_nat (length srows))). cbn [gs length]. lia.
      * cbn [gs length]. lia.
    + constructor.
      { right. split; [discriminate|]. exists [[fsep e]]. split; [|reflexivity].
        cbn [enc_reps]. subst F1. rewrite enc_field_msh12; [reflexivity|]. rewrite msh_name_1. reflexivity. }
      constructor.
      { right. split; [discriminate|]. exists [m2]. split; [|reflexivity].
        cbn [enc_reps]. subst F2. rewrite enc_field_msh12; [reflexivity|]. rewrite msh_name_2. reflexivity. }
      clear -G. revert G. generalize 3. revert gs'.
      induction fs as [|f l IH]; intros gs' a G; inversion G; subst; constructor.
      * eapply groups_rel_enc; eauto.
      * eapply IH; eauto.
Qed.

End Msh.

(* MSH-2 as hl7apy writes it: component, repetition, escape, subcomponent (and truncation) characters *)
Definition msh2_of (e : ec) : str :=
  [csep e; rsep e; esc e; ssep e] ++ match tsep e with Some c => [c] | None => [] end.

Lemma bmem_notin c l : ~ In c l -> bmem c l = false.
Proof.
  intros H. unfold bmem, mem. destruct (existsb (fun y => beqb y c) l) eqn:E; [|reflexivity].
  apply existsb_exists in E. destruct E as [x [Hx Hb]]. destruct (beqb_spec x c); [subst; contradiction|discriminate].
Qed.

Lemma msh2_props e : NoDup (ec_all e) -> (forall c, In c (ec_all e) -> is_space c = false) ->
  is_blank (msh2_of e) = false /\ bmem (fsep e) (msh2_of e) = false /\ bmem CR (msh2_of e) = false.
Proof.
  intros Hn Hs.
  assert (Sub : forall c, In c (msh2_of e) -> In c (tl (ec_all e))).
  { intros c. unfold msh2_of, ec_all, ec_required. cbn [app tl]. intros H.
    destruct (tsep e); cbn [In] in *; tauto. }
  split; [|split].
  - unfold msh2_of. cbn [app]. rewrite is_blank_cons. rewrite (Hs (csep e)); [reflexivity|].
    unfold ec_all, ec_required. cbn. tauto.
  - apply bmem_notin. intros H. apply Sub in H. unfold ec_all, ec_required in Hn, H. cbn [app tl] in *.
    inversion Hn; subst. contradiction.
  - apply bmem_notin. intros H. apply Sub in H.
    assert (In CR (ec_all e)) as H' by (unfold ec_all, ec_required in *; cbn [app tl In] in *; tauto).
    specialize (Hs _ H'). discriminate.
Qed.
