(* Canonical segment lines of the shipped versions (table segments and Z-segments) round-trip and
   carry a name that Message.add accepts: the per-line premises of Proofs/RoundTripMsg.v. *)
From Coq Require Import List Bool Arith ZArith NArith Lia Init.Byte.
From HL7 Require Import Lib.Str Model.Ec Model.Escape Model.Result Model.Header Model.Ref Model.Tree Model.Parser Model.Encode
  Model.Leaf Model.Wf Model.MsgTree Model.Groups Model.Message.
From HL7 Require Import Gen.Params Gen.Tables.
From HL7 Require Import Proofs.EscapeFacts Proofs.SplitJoin Proofs.LevelCodec Proofs.RoundTripStr Proofs.RoundTripCore
  Proofs.RoundTripVT Proofs.RoundTripZ Proofs.RoundTripSeg Proofs.RoundTripMsh Proofs.RoundTripTables
  Proofs.RoundTripSegTables Proofs.RoundTripMsg Proofs.GroupsFacts Proofs.GroupsMirror.
Import ListNotations.
Open Scope bs_scope.

Section Lines.
Variable t : tables.
Variable e : ec.
Variable leaf : option str -> str -> result str.

(* a line of a segment that the version defines (not MSH) *)
Definition table_line (l : str) : Prop :=
  exists sn r srows fs,
    In (sn, r) (t_segments t) /\ sn <> unbs "ANYHL7SEGMENT" /\ sn <> unbs "MSH" /\ r = SSeqIn false srows None /\
    l = bjoin (fsep e) (sn :: fs) /\ no_trail fs /\ length fs <= length srows /\
    forall i f, In (i, f) (indexed fs) -> tfield_text t e leaf srows i f.

(* a line of a Z-segment *)
Definition z_line (l : str) : Prop :=
  exists a b fs, bupper a = a /\ bupper b = b /\ l = bjoin (fsep e) (zname a b :: fs) /\
                 no_trail fs /\ Forall (zfield_ok e leaf) fs.

Definition canonical_line (l : str) : Prop :=
  l <> [] /\ bmem CR l = false /\ strip l = l /\ (table_line l \/ z_line l).
End Lines.

Lemma canonical_line_rt v t e l : tables_of v = Some t -> ec_ok e ->
  canonical_line t e (leaf_enc v TOLERANT e) l ->
  exists s, parse_segment t TOLERANT e (leaf_enc v TOLERANT e) l None = Ok s /\
            enc_segment t e s false = Ok l /\ known_name t (s_name s).
Proof.
  intros Ht He [_ [_ [_ [Hl|Hl]]]].
  - destruct Hl as [sn [r [srows [fs [Hin [Ha [Hm [-> [-> [Hn [Hlen Hf]]]]]]]]]]].
    destruct (shipped_table_facts v t Ht) as [Hst [Hvar _]].
    destruct (shipped_segment_ok v t sn _ Ht Hin Ha Hm) as [Hlk [srows' [E [H3 [Hup [Hmsh [Hz [Hc [Hrows _]]]]]]]]].
    injection E as <-.
    destruct (seg_table_roundtrip t e (leaf_enc v TOLERANT e) He Hst Hvar sn srows fs H3 Hup Hmsh Hz Hlk Hc Hrows Hn Hlen Hf)
      as [s [gs [Hp [_ [_ Henc]]]]].
    exists s. split; [exact Hp|]. split; [exact Henc|].
    rewrite (parse_segment_name _ _ _ _ _ _ _ Hp), (seg_name_sn e sn H3), Hup. right. now rewrite Hup, Hlk.
  - destruct Hl as [a [b [fs [Ha [Hb [-> [Hn Hf]]]]]]].
    destruct (shipped_table_facts v t Ht) as [Hst [Hvar [Hzf _]]].
    assert (Hup : upper (zname a b) = zname a b) by (unfold zname, upper; cbn [map]; now rewrite Ha, Hb).
    assert (Hnf : forall i, slookup (name_idx (zname a b) i) (t_fields t) = None) by (intros i; now apply no_z_fields_lookup).
    exists (zseg e a b fs).
    pose proof (parse_segment_z t e (leaf_enc v TOLERANT e) Hst Hvar a b Hup Hnf He fs Hn Hf) as Hp.
    split; [exact Hp|]. split; [apply (enc_segment_z t e (leaf_enc v TOLERANT e)); auto|].
    left. cbn [zseg s_name]. rewrite Hup. apply (zname_valid a b Hup).
Qed.

(* the MSH line *)
Lemma msh_line_rt v t e hf : tables_of v = Some t -> ec_header_ok e ->
  exists srows, slookup MSH (t_segments t) = Some (SSeqIn false srows None) /\
  (no_trail (msh2_of e :: hf) -> 2 + length hf <= length srows ->
   (forall i f, In (i, f) (combine (seq 3 (length hf)) hf) -> tfield_text t e (leaf_enc v TOLERANT e) srows i f) ->
   exists s, parse_segment t TOLERANT e (leaf_enc v TOLERANT e) (msh_line e hf) None = Ok s /\
             enc_segment t e s false = Ok (msh_line e hf) /\ known_name t (s_name s) /\
             s_name s = MSH /\ field_value s (unbs "MSH_1") = Some [fsep e] /\ field_value s (unbs "MSH_2") = Some (msh2_of e)).
Proof.
  intros Ht He.
  destruct (shipped_table_facts v t Ht) as [Hst [Hvar [_ [f [mx Hrow]]]]].
  destruct (shipped_msh_ok v t Ht) as [srows [row1 [row2 [inf1 [inf2 [Hl [Hc [Hrows [Hn1 [Hn2 [Hr1 [Hr2 [Hd1 Hd2]]]]]]]]]]]]].
  exists srows. split; [exact Hl|]. intros Hnt Hlen Hfs.
  destruct (msh2_props e (proj1 He) (proj2 He)) as [Hb [Hf Hcr]].
  destruct (msh_roundtrip t e (leaf_enc v TOLERANT e) (ec_header_ok_ec_ok e He) Hst Hvar srows Hl Hc Hrows row1 row2 inf1 inf2
              Hn1 Hn2 Hr1 Hr2 Hd1 Hd2 (msh2_of e) _ _ hf Hb Hf Hcr (leaf_enc_ST v e _ f mx Hrow) (leaf_enc_ST v e _ f mx Hrow)
              Hnt Hlen Hfs) as [s [Hp [Henc [Hn [Hv1 Hv2]]]]].
  exists s. split; [exact Hp|]. split; [exact Henc|]. split; [|auto].
  rewrite Hn. unfold known_name. right. change (upper MSH) with (unbs "MSH"). unfold MSH in Hl. now rewrite Hl.
Qed.

(* a valid delimiter set in C06's sense has the header properties *)
Lemma ec_valid_header p e : ec_valid p e = true -> ec_header_ok e /\ fsep_not_msh e.
Proof.
  unfold ec_valid. intros H. apply andb_prop in H. destruct H as [Hn Hf].
  assert (Hall : forall c, In c (ec_all e) -> is_alnum c = false /\ is_space c = false).
  { intros c Hc. pose proof (forallb_In _ _ _ Hf Hc) as G. cbn in G.
    apply andb_prop in G. destruct G as [G G2]. apply andb_prop in G. destruct G as [G1 _].
    split; now apply negb_true_iff. }
  split.
  - split; [now apply nodupb_NoDup|]. intros c Hc. exact (proj2 (Hall c Hc)).
  - unfold fsep_not_msh. apply bmem_notin. intros Hin.
    assert (is_alnum (fsep e) = false) as A by (apply Hall; unfold ec_all, ec_required; cbn; tauto).
    cbn in Hin. destruct Hin as [E|[E|[E|[]]]]; rewrite <- E in A; discriminate.
Qed.

(* ------------------------------------------------------------------ *)
(* table premises of the grouped message theorem                        *)

Section MsgChecks.
Variable t : tables.

(* every SEG row of a message / group structure is written by name *)
Definition seg_rows_named (r : sref) : bool :=
  match r with
  | SSeqIn _ rows _ => forallb (fun x => match x with
                                         | SByName _ _ _ _ => true
                                         | SIn SEG _ _ _ _ => false
                                         | SIn _ _ _ _ _ => true
                                         | SRowBad => false end) rows
  | _ => false
  end.
(* keys of the segment table of at most 3 characters: 3 characters, upper case, not a Z name, no white space *)
Definition seg_key_ok (n : str) : bool :=
  Nat.ltb 3 (length n) ||
  (Nat.eqb (length n) 3 && streqb (upper n) n && negb (valid_z_segment_name n) && forallb (fun c => negb (is_space c)) n).
Definition msg_tables_ok : bool :=
  forallb (fun p : str * sref => seg_rows_named (snd p)) (t_messages t) &&
  forallb (fun p : str * sref => seg_rows_named (snd p)) (t_groups t) &&
  forallb (fun p : str * sref => seg_key_ok (fst p)) (t_segments t).

Hypothesis Hok : msg_tables_ok = true.

Lemma seg_keys_sound n sr : slookup n (t_segments t) = Some sr -> length n <= 3 ->
  length n = 3 /\ upper n = n /\ valid_z_segment_name n = false /\ forallb (fun c => negb (is_space c)) n = true.
Proof.
  intros Hl Hlen. unfold msg_tables_ok in Hok. apply andb_prop in Hok. destruct Hok as [_ Hk].
  rewrite forallb_forall in Hk. specialize (Hk _ (slookup_in _ _ _ Hl)). cbn [fst] in Hk. unfold seg_key_ok in Hk.
  apply orb_prop in Hk. destruct Hk as [Hk|Hk]; [apply Nat.ltb_lt in Hk; lia|].
  do 3 (apply andb_prop in Hk; destruct Hk as [Hk ?H]).
  repeat split; [now apply Nat.eqb_eq|now apply streqb_eq|now apply negb_true_iff|assumption].
Qed.

Lemma declared_named pr n sr : seg_rows_named pr = true -> declared t pr SEG n sr -> slookup n (t_segments t) = Some sr.
Proof.
  intros Hr [rows [x [Hrows [Hin [Hk Href]]]]].
  destruct pr as [i|i|c cs oi|]; try discriminate. cbn [rows_of] in Hrows. injection Hrows as <-.
  cbn [seg_rows_named] in Hr. rewrite forallb_forall in Hr. specialize (Hr x Hin).
  destruct x as [k nm mn mx|k nm r mn mx|]; cbn [row_name_kind] in Hk; try discriminate.
  - injection Hk as -> ->. unfold Groups.row_ref in Href. cbn [row_view table_of] in Href.
    destruct (slookup n (t_segments t)) as [r|]; [|discriminate]. cbn [vc_ref] in Href. now injection Href as <-.
  - injection Hk as -> ->. discriminate.
Qed.

(* the reference of the structure that the Message constructor finds *)
Lemma new_message_root lvl e name m st : new_message lvl t e name = Ok m -> m_st m = Some st ->
  st_reference st = empty_seq \/ exists k, In (k, st_reference st) (t_messages t).
Proof.
  unfold new_message. intros H Hst.
  match type of H with bind ?r _ = _ => destruct r as [m1|] eqn:E1; cbn [bind] in H; [|discriminate] end.
  destruct (opt_is_none (m_name m1) && is_strict lvl); [discriminate|].
  repeat match type of H with bind ?r _ = _ => destruct r; cbn [bind] in H; [|discriminate] end.
  injection H as <-.
  destruct name as [n0|]; [|injection E1 as <-; discriminate].
  destruct (slookup (upper n0) (t_messages t)) as [r|] eqn:El.
  - destruct (parse_structure t r) as [st1|] eqn:Ep; cbn [bind] in E1; [|discriminate]. injection E1 as <-.
    cbn [m_st] in Hst. injection Hst as <-. right. exists (upper n0).
    rewrite (parse_structure_ref t r st1 Ep). now apply slookup_in.
  - destruct (valid_z_message_name (Some n0)); [|discriminate].
    destruct (parse_structure t empty_seq) as [st1|] eqn:Ep; cbn [bind] in E1; [|discriminate]. injection E1 as <-.
    cbn [m_st] in Hst. injection Hst as <-. left. exact (parse_structure_ref t _ st1 Ep).
Qed.

Lemma rows_named_sound root pr n sr :
  (root = empty_seq \/ exists k, In (k, root) (t_messages t)) ->
  pr_ok t root pr -> declared t pr SEG n sr -> slookup n (t_segments t) = Some sr.
Proof.
  intros Hroot Hpr Hd. unfold msg_tables_ok in Hok. apply andb_prop in Hok. destruct Hok as [Hmg _].
  apply andb_prop in Hmg. destruct Hmg as [Hm Hg]. rewrite forallb_forall in Hm, Hg.
  destruct Hpr as [->|[g [Hgl _]]].
  - destruct Hroot as [->|[k Hin]].
    + destruct Hd as [rows [x [Hrows [Hin _]]]]. cbn in Hrows. injection Hrows as <-. destruct Hin.
    + apply (declared_named root); [exact (Hm _ Hin)|exact Hd].
  - apply (declared_named pr); [exact (Hg _ (slookup_in _ _ _ Hgl))|exact Hd].
Qed.

End MsgChecks.

(* which shipped versions satisfy msg_tables_ok: all but 2.1, whose group table carries inline
   segment references *)
Lemma shipped_msg_tables_ok :
  map (fun p => msg_tables_ok (snd p)) all_tables =
  [false; true; true; true; true; true; true; true; true; true; true; true].
Proof. vm_compute. reflexivity. Qed.
