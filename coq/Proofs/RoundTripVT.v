(* Value trees (field -> repetitions -> components -> subcomponent texts), their ER7 rendering and
   canonicity ("no trailing empty entry at any level, leaves free of delimiters, empty or not
   blank"), and what splitting the rendered text gives back. *)
From Coq Require Import List Bool Arith Lia Init.Byte.
From HL7 Require Import Lib.Str Model.Ec Model.Result Model.Ref Model.Tree Model.Parser.
From HL7 Require Import Proofs.SplitJoin Proofs.LevelCodec Proofs.RoundTripStr Proofs.RoundTripCore.
Import ListNotations.
Open Scope bs_scope.

Definition vcomp := list str.      (* subcomponent texts *)
Definition vrep := list vcomp.     (* components of one repetition *)
Definition vfield := list vrep.    (* repetitions; [] = the field is absent *)

Lemma NoDup5 {A} (a b c d f : A) : NoDup [a; b; c; d; f] ->
  a <> b /\ a <> c /\ a <> d /\ b <> c /\ b <> d /\ c <> d.
Proof.
  intros H. repeat (apply NoDup_cons_iff in H; destruct H as [?H H]).
  cbn [In] in *. repeat split; intros E; subst; tauto.
Qed.

Section VT.
Variable e : ec.
Hypothesis Hec : ec_ok e.
(* what a non-empty leaf must satisfy besides being free of delimiters and not blank *)
Variable P : str -> Prop.

Definition render_comp (c : vcomp) : str := bjoin (ssep e) c.
Definition render_rep (r : vrep) : str := bjoin (csep e) (map render_comp r).
Definition render_field (f : vfield) : str := bjoin (rsep e) (map render_rep f).
Definition render_seg (name : str) (fs : list vfield) : str := bjoin (fsep e) (name :: map render_field fs).

Definition vleaf (s : str) : Prop := delim_free e s /\ (s = [] \/ (is_blank s = false /\ P s)).
Definition canon_comp (c : vcomp) : Prop := no_trail c /\ Forall vleaf c.
Definition canon_rep (r : vrep) : Prop := no_trail r /\ Forall canon_comp r.
Definition canon_field (f : vfield) : Prop := no_trail f /\ Forall canon_rep f.
Definition canon_fields (fs : list vfield) : Prop := no_trail fs /\ Forall canon_field fs.

Lemma seps_distinct :
  fsep e <> csep e /\ fsep e <> rsep e /\ fsep e <> ssep e /\
  csep e <> rsep e /\ csep e <> ssep e /\ rsep e <> ssep e.
Proof. destruct Hec as [H _]. now apply NoDup5 in H. Qed.

Lemma sep_not_cr c : In c [fsep e; csep e; rsep e; ssep e; esc e] -> CR <> c.
Proof. intros H E. destruct Hec as [_ Hs]. specialize (Hs c H). subst c. discriminate. Qed.

(* --- non-absent entries render to non-blank text --- *)

Lemma vleaf_nonblank s : vleaf s -> s <> [] -> is_blank s = false.
Proof. intros [_ [->|[H _]]] Hs; [exfalso; now apply Hs|exact H]. Qed.

Lemma comp_nonblank c : canon_comp c -> c <> [] -> is_blank (render_comp c) = false.
Proof.
  intros [Ht Hl] Hc. destruct (no_trail_cases c Ht) as [->|[c' [s [-> Hs]]]]; [exfalso; now apply Hc|].
  apply (not_blank_bjoin _ _ s); [apply in_or_app; right; now left|].
  apply vleaf_nonblank; [|exact Hs]. rewrite Forall_forall in Hl. apply Hl. apply in_or_app. right. now left.
Qed.

Lemma rep_nonblank r : canon_rep r -> r <> [] -> is_blank (render_rep r) = false.
Proof.
  intros [Ht Hl] Hr. destruct (no_trail_cases r Ht) as [->|[r' [c [-> Hc]]]]; [exfalso; now apply Hr|].
  apply (not_blank_bjoin _ _ (render_comp c)); [apply in_map, in_or_app; right; now left|].
  apply comp_nonblank; [|exact Hc]. rewrite Forall_forall in Hl. apply Hl. apply in_or_app. right. now left.
Qed.

Lemma field_nonblank f : canon_field f -> f <> [] -> is_blank (render_field f) = false.
Proof.
  intros [Ht Hl] Hf. destruct (no_trail_cases f Ht) as [->|[f' [r [-> Hr]]]]; [exfalso; now apply Hf|].
  apply (not_blank_bjoin _ _ (render_rep r)); [apply in_map, in_or_app; right; now left|].
  apply rep_nonblank; [|exact Hr]. rewrite Forall_forall in Hl. apply Hl. apply in_or_app. right. now left.
Qed.

(* mapping a rendering over a list without trailing absent entries *)
Lemma no_trail_map {A} (f : list A -> str) (Q : list A -> Prop) l :
  (forall x, Q x -> x <> [] -> f x <> []) -> Forall Q l -> no_trail l -> no_trail (map f l).
Proof.
  intros Hf HQ Ht. destruct (no_trail_cases l Ht) as [->|[l' [x [-> Hx]]]]; [apply no_trail_nil|].
  rewrite map_app. cbn [map]. apply no_trail_last. apply Hf; [|exact Hx].
  rewrite Forall_forall in HQ. apply HQ. apply in_or_app. right. now left.
Qed.

Lemma comps_no_trail r : canon_rep r -> no_trail (map render_comp r).
Proof.
  intros [Ht Hl]. apply (no_trail_map render_comp canon_comp); auto.
  intros c Hc Hn. apply not_blank_ne. now apply comp_nonblank.
Qed.
Lemma reps_no_trail f : canon_field f -> no_trail (map render_rep f).
Proof.
  intros [Ht Hl]. apply (no_trail_map render_rep canon_rep); auto.
  intros c Hc Hn. apply not_blank_ne. now apply rep_nonblank.
Qed.
Lemma fields_no_trail fs : canon_fields fs -> no_trail (map render_field fs).
Proof.
  intros [Ht Hl]. apply (no_trail_map render_field canon_field); auto.
  intros c Hc Hn. apply not_blank_ne. now apply field_nonblank.
Qed.

(* --- delimiter freeness of the rendered texts --- *)

Lemma comp_free d c : d <> ssep e -> (forall s, delim_free e s -> bmem d s = false) ->
  canon_comp c -> bmem d (render_comp c) = false.
Proof.
  intros Hd Hs [_ Hl]. apply bmem_bjoin; [exact Hd|].
  eapply Forall_impl; [|exact Hl]. intros s [Hf _]. now apply Hs.
Qed.

Lemma rep_free d r : d <> ssep e -> d <> csep e -> (forall s, delim_free e s -> bmem d s = false) ->
  canon_rep r -> bmem d (render_rep r) = false.
Proof.
  intros Hd1 Hd2 Hs [_ Hl]. apply bmem_bjoin; [exact Hd2|].
  rewrite Forall_map. eapply Forall_impl; [|exact Hl]. intros c Hc. now apply comp_free.
Qed.

Lemma field_free d f : d <> ssep e -> d <> csep e -> d <> rsep e ->
  (forall s, delim_free e s -> bmem d s = false) ->
  canon_field f -> bmem d (render_field f) = false.
Proof.
  intros Hd1 Hd2 Hd3 Hs [_ Hl]. apply bmem_bjoin; [exact Hd3|].
  rewrite Forall_map. eapply Forall_impl; [|exact Hl]. intros c Hc. now apply rep_free.
Qed.

Lemma df_fsep s : delim_free e s -> bmem (fsep e) s = false. Proof. now intros [H _]. Qed.
Lemma df_csep s : delim_free e s -> bmem (csep e) s = false. Proof. now intros [_ [H _]]. Qed.
Lemma df_rsep s : delim_free e s -> bmem (rsep e) s = false. Proof. now intros [_ [_ [H _]]]. Qed.
Lemma df_ssep s : delim_free e s -> bmem (ssep e) s = false. Proof. now intros [_ [_ [_ [H _]]]]. Qed.
Lemma df_cr s : delim_free e s -> bmem CR s = false. Proof. now intros [_ [_ [_ [_ H]]]]. Qed.

Lemma field_no_fsep f : canon_field f -> bmem (fsep e) (render_field f) = false.
Proof. destruct seps_distinct as [A [B [C _]]]. apply field_free; auto using df_fsep. Qed.

Lemma field_no_cr f : canon_field f -> bmem CR (render_field f) = false.
Proof.
  apply field_free; auto using df_cr; apply sep_not_cr; cbn; tauto.
Qed.

(* --- splitting gives the entries back --- *)

Definition or_one {A} (l : list (list A)) : list (list A) := match l with [] => [[]] | _ => l end.

Lemma split_comp c : canon_comp c -> bsplit (ssep e) (render_comp c) = or_one c.
Proof.
  intros [_ Hl]. apply bsplit_bjoin'. rewrite forallb_forall. intros s Hs.
  rewrite Forall_forall in Hl. apply nosep_of_bmem, df_ssep. now apply Hl.
Qed.

Lemma split_rep r : canon_rep r -> bsplit (csep e) (render_rep r) = or_one (map render_comp r).
Proof.
  intros [_ Hl]. apply bsplit_bjoin'. rewrite forallb_forall. intros s Hs.
  apply in_map_iff in Hs. destruct Hs as [c [<- Hc]].
  rewrite Forall_forall in Hl. destruct seps_distinct as [_ [_ [_ [_ [A _]]]]].
  apply nosep_of_bmem, comp_free; auto using df_csep.
Qed.

Lemma split_field f : canon_field f -> bsplit (rsep e) (render_field f) = or_one (map render_rep f).
Proof.
  intros [_ Hl]. apply bsplit_bjoin'. rewrite forallb_forall. intros s Hs.
  apply in_map_iff in Hs. destruct Hs as [c [<- Hc]].
  rewrite Forall_forall in Hl. destruct seps_distinct as [_ [_ [_ [A [_ B]]]]].
  apply nosep_of_bmem, rep_free; auto using df_rsep.
Qed.

Lemma Forall_or_one {A} (Q : list A -> Prop) l : Q [] -> Forall Q l -> Forall Q (or_one l).
Proof. intros H0 H. destruct l; [constructor; [exact H0|constructor]|exact H]. Qed.

(* --- boolean checkers, to exhibit canonical trees by computation --- *)
Variable Pb : str -> bool.
Hypothesis Pb_sound : forall s, Pb s = true -> P s.

Definition no_trailb {B} (l : list (list B)) : bool := match rev l with [] :: _ => false | _ => true end.
Definition delim_freeb (s : str) : bool :=
  negb (bmem (fsep e) s) && negb (bmem (csep e) s) && negb (bmem (rsep e) s) &&
  negb (bmem (ssep e) s) && negb (bmem CR s).
Definition vleafb (s : str) : bool := delim_freeb s && (nilb s || (negb (is_blank s) && Pb s)).
Definition canon_compb (c : vcomp) : bool := no_trailb c && forallb vleafb c.
Definition canon_repb (r : vrep) : bool := no_trailb r && forallb canon_compb r.
Definition canon_fieldb (f : vfield) : bool := no_trailb f && forallb canon_repb f.
Definition canon_fieldsb (fs : list vfield) : bool := no_trailb fs && forallb canon_fieldb fs.

Lemma no_trailb_sound {B} (l : list (list B)) : no_trailb l = true -> no_trail l.
Proof.
  unfold no_trailb. intros H l' E. subst l. rewrite rev_app_distr in H. cbn in H. discriminate.
Qed.

Lemma forallb_Forall {B} (f : B -> bool) (Q : B -> Prop) l :
  (forall x, f x = true -> Q x) -> forallb f l = true -> Forall Q l.
Proof.
  intros H. induction l as [|x l IH]; [constructor|]. cbn [forallb]. intros G.
  apply andb_prop in G. destruct G as [Gx Gl]. constructor; auto.
Qed.

Lemma vleafb_sound s : vleafb s = true -> vleaf s.
Proof.
  unfold vleafb, delim_freeb. intros H. apply andb_prop in H. destruct H as [Hd Hp].
  repeat (apply andb_prop in Hd; destruct Hd as [Hd ?Hd]).
  split; [repeat split; now apply negb_true_iff|].
  destruct s; [now left|right]. cbn [nilb orb] in Hp. apply andb_prop in Hp. destruct Hp as [Hb Hp].
  split; [now apply negb_true_iff|now apply Pb_sound].
Qed.

Lemma canon_compb_sound c : canon_compb c = true -> canon_comp c.
Proof.
  unfold canon_compb. intros H. apply andb_prop in H. destruct H as [Ht Hl].
  split; [now apply no_trailb_sound|]. revert Hl. apply forallb_Forall, vleafb_sound.
Qed.
Lemma canon_repb_sound r : canon_repb r = true -> canon_rep r.
Proof.
  unfold canon_repb. intros H. apply andb_prop in H. destruct H as [Ht Hl].
  split; [now apply no_trailb_sound|]. revert Hl. apply forallb_Forall, canon_compb_sound.
Qed.
Lemma canon_fieldb_sound f : canon_fieldb f = true -> canon_field f.
Proof.
  unfold canon_fieldb. intros H. apply andb_prop in H. destruct H as [Ht Hl].
  split; [now apply no_trailb_sound|]. revert Hl. apply forallb_Forall, canon_repb_sound.
Qed.
Lemma canon_fieldsb_sound fs : canon_fieldsb fs = true -> canon_fields fs.
Proof.
  unfold canon_fieldsb. intros H. apply andb_prop in H. destruct H as [Ht Hl].
  split; [now apply no_trailb_sound|]. revert Hl. apply forallb_Forall, canon_fieldb_sound.
Qed.

End VT.

(* canonicity is monotone in the leaf predicate *)
Lemma canon_fields_impl e (P Q : str -> Prop) fs :
  (forall s, P s -> Q s) -> canon_fields e P fs -> canon_fields e Q fs.
Proof.
  intros H [Ht Hl]. split; [exact Ht|]. eapply Forall_impl; [|exact Hl].
  intros f [Ht1 Hl1]. split; [exact Ht1|]. eapply Forall_impl; [|exact Hl1].
  intros r [Ht2 Hl2]. split; [exact Ht2|]. eapply Forall_impl; [|exact Hl2].
  intros c [Ht3 Hl3]. split; [exact Ht3|]. eapply Forall_impl; [|exact Hl3].
  intros s [Hd [->|[Hb Hp]]]; (split; [exact Hd|]); [now left|right; auto].
Qed.
