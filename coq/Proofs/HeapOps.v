(* Preservation of the working invariant K U (= Inv + frame) by the operations of Model/Heap.v,
   successful or raising: attachment (add / append / set_parent / set_parent_to_traversal),
   removal, insertion and replacement. *)
From Coq Require Import List Bool Arith Lia ZArith NArith Init.Byte.
From HL7 Require Import Lib.Str Model.Ec Model.Result Model.Ref Model.Tree Model.Parser Model.Encode Model.Heap.
From HL7 Require Import Proofs.HeapFacts Proofs.HeapInv.
Import ListNotations.

(* run one sub-computation whose specification instance is H *)
Ltac step_with H :=
  let s1 := fresh "s" in let r := fresh "r" in let x := fresh "x" in
  match type of H with
  | match ?m with _ => _ end => destruct m as [s1 [r|x]]
  end.

Lemma lvl_eqb_eq a b : lvl_eqb a b = true -> a = b.
Proof. destruct a, b; cbn; congruence. Qed.

Lemma acceptance_ok P C : acceptance_checks P C = Ok tt -> n_lvl P = n_lvl C /\ n_ver P = n_ver C.
Proof.
  unfold acceptance_checks.
  destruct (_ && _ && _); [discriminate|].
  destruct (lvl_eqb (n_lvl P) (n_lvl C)) eqn:L; cbn; [|discriminate].
  destruct (streqb_spec (n_ver P) (n_ver C)); cbn; [|discriminate].
  intros _. split; auto. now apply lvl_eqb_eq.
Qed.

Lemma oid_eqb_eq a b : oid_eqb a b = true -> a = Some b.
Proof. destruct a; cbn; [|discriminate]. intros H. apply Nat.eqb_eq in H. now subst. Qed.

(* ---------- traversal indexes ---------- *)

Lemma tidx_ok_list s l l' ti : tidx_ok s l ti -> (forall d, In d (members ti) -> ~ In d l') -> tidx_ok s l' ti.
Proof.
  intros (A & B & C) H. split; [|split]; auto. intros k l0 c H1 H2.
  destruct (B k l0 c H1 H2) as (B1 & B2 & B3). repeat split; auto.
  apply H. apply In_members. eauto.
Qed.

Lemma tidx_ok_removed s l ti k c : tidx_ok s l ti -> tidx_ok s l (tidx_removed k c ti).
Proof.
  intros (A & B & C). unfold tidx_removed. destruct (ihas k ti && memb c (iget k ti)); [|now split].
  destruct (remove1 c (iget k ti)) as [|a r] eqn:E.
  - split; [now apply keys_idel|split].
    + intros k0 l0 d H. apply In_idel in H. eauto.
    + intros k0 l0 H. apply In_idel in H. eauto.
  - assert (G : forall k0 l0, In (k0, l0) (iset k (a :: r) ti) ->
                 (k0 = k /\ l0 = remove1 c (iget k ti)) \/ In (k0, l0) ti).
    { intros k0 l0 H. apply In_iset_keys in H; auto. destruct H as [H|[H _]]; auto. inversion H; subst. left. now rewrite E. }
    split; [now apply keys_iset|split].
    + intros k0 l0 d H Hd. destruct (G _ _ H) as [[-> ->]|H']; [|eauto].
      apply In_remove1 in Hd.
      destruct (iget k ti) as [|b l1] eqn:Eg; [destruct Hd|].
      assert (Hb : In (k, b :: l1) ti).
      { clear - Eg. induction ti as [|[k' v'] ti IH]; cbn in *; [discriminate|].
        destruct (opt_eqb_spec k k') as [->|]; [left; congruence|right; auto]. }
      eapply B; eauto.
    + intros k0 l0 H. destruct (G _ _ H) as [[-> ->]|H']; [|eauto].
      apply NoDup_remove1.
      destruct (iget k ti) as [|b l1] eqn:Eg; [constructor|].
      assert (Hb : In (k, b :: l1) ti).
      { clear - Eg. induction ti as [|[k' v'] ti IH]; cbn in *; [discriminate|].
        destruct (opt_eqb_spec k k') as [->|]; [left; congruence|right; auto]. }
      eauto.
Qed.

Lemma iget_In_binding k m : iget k m <> [] -> In (k, iget k m) m.
Proof.
  induction m as [|[k' v'] m IH]; cbn; [congruence|].
  destruct (opt_eqb_spec k k') as [->|]; auto.
Qed.

(* after _remove_from_traversal_index(child) the child is in no traversal index of that element *)
Lemma tidx_removed_notin s l ti c :
  tidx_ok s l ti -> ~ In c (members (tidx_removed (n_name (getn s c)) c ti)).
Proof.
  intros (A & B & C). set (k := n_name (getn s c)). intros H. apply In_members in H. destruct H as (k0 & l0 & H & Hc).
  unfold tidx_removed in H.
  destruct (ihas k ti && memb c (iget k ti)) eqn:Eb.
  - apply andb_prop in Eb. destruct Eb as [_ Em]. apply memb_In in Em.
    assert (Hb : In (k, iget k ti) ti) by (apply iget_In_binding; intros E; rewrite E in Em; destruct Em).
    destruct (remove1 c (iget k ti)) as [|a r] eqn:E.
    + pose proof (idel_key k ti (k0, l0) A H) as Hk. cbn in Hk. apply In_idel in H.
      destruct (B k0 l0 c H Hc) as (Hn & _). unfold k in Hk. congruence.
    + apply In_iset_keys in H; auto. destruct H as [H|[H Hk]].
      * inversion H; subst. rewrite <- E in Hc. revert Hc. apply notin_remove1. eauto.
      * cbn in Hk. destruct (B k0 l0 c H Hc) as (Hn & _). unfold k in Hk. congruence.
  - (* c was not indexed under its own name, hence not indexed at all *)
    destruct (B k0 l0 c H Hc) as (Hn & _). fold k in Hn. subst k0.
    rewrite (iget_binding k l0 ti A H) in Eb.
    assert (Eh : ihas k ti = true).
    { clear - H. induction ti as [|[k' v'] ti IH]; cbn in *; [tauto|]. destruct H as [E|H].
      - inversion E; subst. now rewrite opt_eqb_refl.
      - rewrite (IH H). apply orb_true_r. }
    rewrite Eh in Eb. cbn in Eb. apply memb_false in Eb. tauto.
Qed.

Lemma tidx_ok_tappend s l ti c :
  tidx_ok s l ti -> ~ In c l -> c < s_next s -> ~ In c (members ti) ->
  tidx_ok s l (iset (n_name (getn s c)) (iget (n_name (getn s c)) ti ++ [c]) ti).
Proof.
  intros (A & B & C) Hl Hb Hm. set (k := n_name (getn s c)).
  assert (G : forall k0 l0, In (k0, l0) (iset k (iget k ti ++ [c]) ti) ->
               (k0 = k /\ l0 = iget k ti ++ [c]) \/ In (k0, l0) ti).
  { intros k0 l0 H. apply In_iset_keys in H; auto. destruct H as [H|[H _]]; auto. inversion H; subst. auto. }
  assert (Old : forall d, In d (iget k ti) -> n_name (getn s d) = k /\ ~ In d l /\ d < s_next s).
  { intros d Hd. assert (In (k, iget k ti) ti) by (apply iget_In_binding; intros E; rewrite E in Hd; destruct Hd). eauto. }
  split; [now apply keys_iset|split].
  - intros k0 l0 d H Hd. destruct (G _ _ H) as [[-> ->]|H']; [|eauto].
    apply in_app_or in Hd. destruct Hd as [Hd|[<-|[]]]; auto.
  - intros k0 l0 H. destruct (G _ _ H) as [[-> ->]|H']; [|eauto].
    apply NoDup_app_snoc_nat.
    + destruct (iget k ti) eqn:E; [constructor|]. rewrite <- E.
      apply (C k). apply iget_In_binding. congruence.
    + intros Hd. apply Hm. eapply In_iget_members; eauto.
Qed.

Section Ops.
Variable t : tables.

Lemma B_setn (B : nat -> Prop) s x N : (forall d, B d -> d < s_next s) -> forall d, B d -> d < s_next (setn s x N).
Proof. intros H d Hd. rewrite next_setn. auto. Qed.

Lemma cand_unfold U B s d : K U B s -> U d ->
  unlisted s d /\ d < s_next s /\ n_tparent (getn s d) = None /\ untraversed s d.
Proof. intros (_ & C & _) Hd. apply (C d Hd). Qed.

(* ---------- pointers ---------- *)

Definition ptr (s : store) (c p : nat) : Prop :=
  unlisted s c /\ c < s_next s /\ n_parent (getn s c) = Some p.

Lemma point_to_spec U B c p :
  spec (point_to c p) (fun s => K U B s /\ unlisted s c /\ c < s_next s)
       (fun _ s => K U B s /\ ptr s c p /\ n_tparent (getn s c) = None) (K U B).
Proof.
  apply spec_modify. intros s ((I & C & D) & Hu & Hb).
  set (N := with_tparent (with_parent (getn s c) (Some p)) None).
  assert (L : forall q, n_list (getn (setn s c N) q) = n_list (getn s q)) by (intros; now apply list_setn_same).
  split; [split; [|split]|].
  - apply Inv_set_parent; auto. split; [discriminate|]. apply (I_trav s I).
  - intros d Hd. apply cand_setn; auto. destruct (C d Hd) as (_ & _ & _ & X). apply X.
  - now apply B_setn.
  - split; [|now rewrite getn_setn_same]. repeat split.
    + intros q. rewrite L. apply Hu.
    + now rewrite next_setn.
    + now rewrite getn_setn_same.
Qed.

Lemma set_parent_raw_spec U B c x :
  spec (set_parent_raw c x) (fun s => K U B s /\ unlisted s c) (fun _ s => K U B s) (K U B).
Proof.
  apply spec_modify. intros s ((I & C & D) & Hu). split; [|split].
  - apply Inv_set_parent; auto. now apply (tp_ok_same s c).
  - intros d Hd. destruct (C d Hd) as (_ & _ & T & X). apply cand_setn; auto; [now intros ->|apply X].
  - now apply B_setn.
Qed.

Lemma set_tparent_none_spec U B c :
  spec (set_tparent_raw c None) (K U B) (fun _ s => K U B s) (K U B).
Proof.
  apply spec_modify. intros s (I & C & D). split; [|split].
  - apply Inv_setn_core; auto; [repeat split|]. split; [discriminate|]. apply (I_trav s I).
  - intros d Hd. destruct (C d Hd) as (_ & _ & _ & X). apply cand_setn; auto. apply X.
  - now apply B_setn.
Qed.

(* attribute updates never matter *)
Lemma K_setn_attr U B s x N :
  K U B s -> agree_core N (getn s x) -> n_tparent N = n_tparent (getn s x) ->
  tidx_ok s (n_list N) (n_tidx N) -> (forall d, U d -> ~ In d (members (n_tidx N))) -> K U B (setn s x N).
Proof.
  intros (I & C & D) A T X XU. split; [|split].
  - apply Inv_setn_core; auto. split; auto. intros q. rewrite T. apply (I_tbound s I).
  - intros d Hd. apply cand_setn; auto; [apply A|]. intros ->. rewrite T. now destruct (C x Hd) as (_ & _ & ? & _).
  - now apply B_setn.
Qed.
Lemma K_setn_attr' U B s x N :
  K U B s -> agree_core N (getn s x) -> n_tparent N = n_tparent (getn s x) -> n_tidx N = n_tidx (getn s x) ->
  K U B (setn s x N).
Proof.
  intros H A T X. pose proof H as (I & C & D). apply K_setn_attr; auto.
  - rewrite X. destruct A as (_ & -> & _). apply (I_trav s I).
  - intros d Hd. rewrite X. destruct (C d Hd) as (_ & _ & _ & Y). apply Y.
Qed.

Lemma set_last_spec U B p x : spec (set_last p x) (K U B) (fun _ s => K U B s) (K U B).
Proof. apply spec_modify. intros s H. apply K_setn_attr'; auto. repeat split. Qed.
Lemma set_dt_spec U B p x : spec (set_dt p x) (K U B) (fun _ s => K U B s) (K U B).
Proof. apply spec_modify. intros s H. apply K_setn_attr'; auto. repeat split. Qed.
Lemma set_st_spec U B p x : spec (set_st p x) (K U B) (fun _ s => K U B s) (K U B).
Proof. apply spec_modify. intros s H. apply K_setn_attr'; auto. repeat split. Qed.
Lemma set_val_spec U B p x y : spec (set_val p x y) (K U B) (fun _ s => K U B s) (K U B).
Proof. apply spec_modify. intros s H. apply K_setn_attr'; auto. repeat split. Qed.

(* ---------- the child containers ---------- *)

Lemma K_tidx U B s p ti :
  K U B s -> tidx_ok s (n_list (getn s p)) ti -> (forall d, U d -> ~ In d (members ti)) ->
  K U B (setn s p (with_children (getn s p) (n_list (getn s p)) (n_idx (getn s p)) ti)).
Proof. intros H X XU. apply K_setn_attr; auto. repeat split. Qed.

Lemma In_tidx_removed k c m d : In d (members (tidx_removed k c m)) -> In d (members m).
Proof.
  unfold tidx_removed. destruct (ihas k m && memb c (iget k m)); auto.
  destruct (remove1 c (iget k m)) as [|a l] eqn:E.
  - apply In_members_idel.
  - intros H. apply In_members_iset in H. destruct H as [H|H]; auto.
    rewrite <- E in H. apply In_remove1 in H. eapply In_iget_members; eauto.
Qed.

Lemma do_tappend_spec U B p c :
  spec (do_tappend p c)
       (fun s => K U B s /\ ~ U c /\ unlisted s c /\ c < s_next s /\ ~ In c (members (n_tidx (getn s p))))
       (fun _ s => K U B s) (K U B).
Proof.
  apply spec_modify. intros s (H & NU & Hu & Hc & Hm). pose proof H as (I & C & D). apply K_tidx; auto.
  - apply tidx_ok_tappend; auto. apply (I_trav s I).
  - intros d Hd Hin. apply In_members_iset in Hin. destruct Hin as [Hin|Hin].
    + apply in_app_or in Hin. destruct Hin as [Hin|[<-|[]]]; auto.
      destruct (C d Hd) as (_ & _ & _ & X). apply (X p). eapply In_iget_members; eauto.
    + destruct (C d Hd) as (_ & _ & _ & X). apply (X p Hin).
Qed.
Lemma do_rm_tidx_spec U B p c : spec (do_rm_tidx p c) (K U B) (fun _ s => K U B s) (K U B).
Proof.
  apply spec_modify. intros s H. pose proof H as (I & C & D). apply K_tidx; auto.
  - apply tidx_ok_removed. apply (I_trav s I).
  - intros d Hd Hin. apply In_tidx_removed in Hin. destruct (C d Hd) as (_ & _ & _ & X). apply (X p Hin).
Qed.

Lemma filter_name_app s k l c :
  filter (name_is s k) (l ++ [c]) = filter (name_is s k) l ++ (if name_is s k c then [c] else []).
Proof. rewrite filter_app. cbn. now destruct (name_is s k c). Qed.

Lemma K_set_children U B s p l' i' ti' :
  K U B s -> NoDup l' ->
  (forall c, In c l' -> n_parent (getn s c) = Some p /\ n_lvl (getn s c) = n_lvl (getn s p) /\
                        n_ver (getn s c) = n_ver (getn s p) /\ c < s_next s) ->
  (forall k, iget k i' = filter (name_is s k) l') ->
  tidx_ok s l' ti' ->
  (forall d, U d -> ~ In d l' /\ ~ In d (members ti')) ->
  K U B (setn s p (with_children (getn s p) l' i' ti')).
Proof.
  intros (I & C & D) ND Hc Hi Hti HU. split; [|split].
  - now apply Inv_set_children.
  - intros d Hd. destruct (HU d Hd). apply cand_set_children; auto.
  - now apply B_setn.
Qed.

Lemma do_append_spec U B p c :
  spec (do_append p c)
       (fun s => K U B s /\ ~ U c /\ ptr s c p /\ n_lvl (getn s p) = n_lvl (getn s c) /\ n_ver (getn s p) = n_ver (getn s c))
       (fun _ s => K U B s) (K U B).
Proof.
  apply spec_modify. intros s (HK & NU & (Hu & Hb & Hp) & Hl & Hv). pose proof HK as (I & C & D).
  apply K_set_children; auto.
  - apply NoDup_app_snoc_nat; [apply (I_nodup s I)|apply Hu].
  - intros d Hd. apply in_app_or in Hd. destruct Hd as [Hd|[<-|[]]]; [now apply old_member_ok|].
    repeat split; auto.
  - intros k. rewrite iget_iset, filter_name_app, <- (I_index s I). unfold name_is at 1.
    destruct (opt_eqb_spec k (n_name (getn s c))) as [->|N]; [|now rewrite app_nil_r]. reflexivity.
  - apply tidx_ok_list with (l := n_list (getn s p)); [apply tidx_ok_removed; apply (I_trav s I)|].
    intros d Hd Hin. apply in_app_or in Hin. destruct Hin as [Hin|[<-|[]]].
    + apply In_tidx_removed in Hd. apply In_members in Hd. destruct Hd as (k & l & A & A').
      destruct (I_trav s I p) as (_ & T & _). destruct (T k l d A A') as (_ & X & _). tauto.
    + revert Hd. apply (tidx_removed_notin s (n_list (getn s p))). apply (I_trav s I).
  - intros d Hd. destruct (C d Hd) as (Hud & _ & _ & X). split.
    + intros H. apply in_app_or in H. destruct H as [H|[<-|[]]]; auto. apply (Hud p H).
    + intros H. apply In_tidx_removed in H. apply (X p H).
Qed.

(* ---------- append / add ---------- *)

(* the child is a traversal child of p only if it is being promoted (its parent pointer is p) *)
Definition tfree (s : store) (c p : nat) : Prop :=
  n_parent (getn s c) = Some p \/ ~ In c (members (n_tidx (getn s p))).

Definition addable U (s : store) (c p : nat) : Prop :=
  ~ U c /\ unlisted s c /\ c < s_next s /\ tfree s c p.

Lemma append_attached_spec U B p c :
  spec (append_attached p c) (fun s => K U B s /\ addable U s c p) (fun _ s => K U B s) (K U B).
Proof.
  intros s (HK & NU & Hu & Hb & Hf). unfold append_attached. cbn [mbind node_of lift].
  destruct (acceptance_checks (getn s p) (getn s c)) as [[]|x] eqn:A; [|exact HK].
  destruct (acceptance_ok _ _ A) as [Hl Hv].
  destruct (oid_eqb (n_parent (getn s c)) p) eqn:Ep.
  - apply (do_append_spec U B p c s).
    refine (conj HK (conj NU (conj (conj Hu (conj Hb _)) (conj Hl Hv)))). now apply oid_eqb_eq.
  - destruct (oid_eqb (n_tparent (getn s c)) p); [|exact HK].
    apply (do_tappend_spec U B p c s). refine (conj HK (conj NU (conj Hu (conj Hb _)))).
    destruct Hf as [Hf|Hf]; auto. rewrite Hf in Ep. cbn in Ep. now rewrite Nat.eqb_refl in Ep.
Qed.

Lemma seg_counter_spec U B p c : spec (seg_counter p c) (K U B) (fun _ s => K U B s) (K U B).
Proof.
  intros s HK. unfold seg_counter. cbn [mbind node_of].
  destruct (n_cls (getn s p)); try exact HK.
  destruct (n_name (getn s c)); try exact HK.
  destruct (_ && _ && _); try exact HK.
  destruct (py_int_ok _); try exact HK.
  destruct (N.ltb _ _); try exact HK. now apply (set_last_spec U B p _ s).
Qed.

Lemma add_inner_spec U B p c :
  spec (add_inner t p c) (fun s => K U B s /\ addable U s c p) (fun _ s => K U B s) (K U B).
Proof.
  intros s (HK & HA). unfold add_inner. cbn [mbind node_of lift].
  destruct (class_checks t (getn s p) (getn s c)) as [[]|x]; [|exact HK].
  destruct (is_valid_child t (getn s p) (getn s c)) as [[]|x]; cbn [negb mbind node_of lift]; try exact HK.
  rewrite mbind_run.
  pose proof (append_attached_spec U B p c s (conj HK HA)) as H. step_with H; [|exact H].
  now apply (seg_counter_spec U B p c).
Qed.

Lemma append_spec U B p c :
  spec (append t p c) (fun s => K U B s /\ addable U s c p) (fun _ s => K U B s) (K U B).
Proof.
  intros s (HK & HA). pose proof HA as (NU & Hu & Hb & Hf). unfold append. cbn [mbind node_of lift].
  destruct (is_valid_child t (getn s p) (getn s c)) as [[]|x]; cbn [negb mbind node_of lift]; try exact HK.
  destruct (pointing (getn s c) p); cbn [negb mbind node_of lift].
  - now apply (append_attached_spec U B p c s).
  - rewrite mbind_run.
    pose proof (point_to_spec U B c p s (conj HK (conj Hu Hb))) as H. step_with H; [|exact H].
    destruct H as (HK1 & (Hu1 & Hb1 & Hp1) & _). apply (add_inner_spec U B p c).
    split; auto. repeat split; auto. now left.
Qed.

Lemma add_spec U B p c :
  spec (add t p c) (fun s => K U B s /\ addable U s c p) (fun _ s => K U B s) (K U B).
Proof.
  intros s (HK & HA). unfold add. cbn [mbind node_of lift].
  destruct (class_checks t (getn s p) (getn s c)) as [[]|x]; [|exact HK].
  rewrite mbind_run.
  pose proof (append_spec U B p c s (conj HK HA)) as H. step_with H; [|exact H].
  now apply (seg_counter_spec U B p c).
Qed.

Lemma cand_addable U s c p : ~ U c -> cand s c -> addable U s c p.
Proof. intros NU (A & B & _ & D). repeat split; auto. right. apply D. Qed.

Lemma set_parent_spec U B c x :
  spec (set_parent t c x) (fun s => K U B s /\ ~ U c /\ unlisted s c /\ c < s_next s) (fun _ s => K U B s) (K U B).
Proof.
  intros s (HK & NU & Hu & Hb). destruct x as [p|]; cbn [set_parent].
  - rewrite mbind_run.
    pose proof (point_to_spec U B c p s (conj HK (conj Hu Hb))) as H. step_with H; [|exact H].
    destruct H as (HK1 & (Hu1 & Hb1 & Hp1) & _). apply (add_spec U B p c).
    split; auto. repeat split; auto. now left.
  - now apply (set_parent_raw_spec U B c None s).
Qed.

(* Element.set_parent_to_traversal: an element with no parent pointer is not listed anywhere *)
Lemma to_traversal_spec U B fuel x :
  spec (to_traversal t fuel x) (fun s => K U B s /\ x < s_next s) (fun _ s => K U B s) (K U B).
Proof.
  revert x. induction fuel as [|f IH]; intros x s (HK & Hb); cbn [to_traversal]; [exact HK|].
  cbn [mbind node_of].
  destruct (n_tparent (getn s x)) as [q|] eqn:Et; [|now apply (set_tparent_none_spec U B x s)].
  destruct (n_parent (getn s x)) as [q'|] eqn:Ep; [now apply (set_tparent_none_spec U B x s)|].
  assert (NU : ~ U x). { intros Hx. destruct (cand_unfold _ _ _ _ HK Hx) as (_ & _ & T & _). congruence. }
  assert (Hu : unlisted s x) by (apply parent_none_unlisted; [apply HK|auto]).
  assert (Hq : q < s_next s) by (eapply (I_tbound s (K_Inv _ _ _ HK)); eauto).
  (* carry "q is allocated" through the two calls in the B component *)
  set (B' := fun d => B d \/ d = q).
  assert (HK' : K U B' s).
  { destruct HK as (I & C & D). split; [|split]; auto. intros d [Hd| ->]; auto. }
  rewrite mbind_run.
  pose proof (point_to_spec U B' x q s (conj HK' (conj Hu Hb))) as H. step_with H.
  2:{ eapply K_weaken; [| |exact H]; auto. intros d Hd. now left. }
  destruct H as (HK1 & (Hu1 & Hb1 & Hp1) & _).
  rewrite mbind_run.
  assert (HA : addable U s0 x q) by (repeat split; auto; now left).
  pose proof (add_spec U B' q x s0 (conj HK1 HA)) as H. step_with H.
  2:{ eapply K_weaken; [| |exact H]; auto. intros d Hd. now left. }
  assert (Hq1 : q < s_next s1) by (destruct H as (_ & _ & D); apply D; now right).
  assert (H1 : K U B s1). { eapply K_weaken; [| |exact H]; auto. intros d Hd. now left. }
  now apply IH.
Qed.

(* ---------- removal, insertion, replacement ---------- *)

Definition names (s : store) (nm : nat -> option str) : Prop := forall d, n_name (getn s d) = nm d.

Lemma names_setn s x N nm : names s nm -> n_name N = n_name (getn s x) -> names (setn s x N) nm.
Proof. intros H E d. rewrite getn_setn. destruct (Nat.eqb_spec d x) as [->|]; [rewrite E|]; apply H. Qed.
Lemma name_is_names s s' nm k c : names s nm -> names s' nm -> name_is s' k c = name_is s k c.
Proof. intros A A'. unfold name_is. now rewrite A, A'. Qed.

(* ElementList.remove: the child leaves the list and the by-name index together *)
Lemma remove_child_spec U B p c l0 nm tb :
  spec (remove_child p c)
       (fun s => K U B s /\ n_list (getn s p) = l0 /\ names s nm /\ oid_eqb (n_tparent (getn s c)) p = tb)
       (fun _ s => K U B s /\ n_list (getn s p) = (if tb then l0 else remove1 c l0) /\ names s nm) (K U B).
Proof.
  intros s (HK & Hl & Hn & Ht). unfold remove_child. cbn [mbind node_of]. rewrite Ht. destruct tb.
  - pose proof (do_rm_tidx_spec U B p c s HK) as H. unfold do_rm_tidx, modify in *.
    split; [exact H|]. split; [now rewrite getn_setn_same|]. now apply names_setn.
  - rewrite mbind_run. unfold do_rm_idx at 1, modify at 1. cbn [mbind node_of].
    set (P := getn s p). set (k := n_name (getn s c)).
    set (s1 := setn s p (with_children P (n_list P) (idx_removed k c (n_idx P)) (n_tidx P))).
    assert (E1 : n_list (getn s1 p) = n_list P) by (unfold s1; now rewrite getn_setn_same).
    pose proof HK as (I & C & D).
    (* the list edit and the index edit, taken together *)
    assert (Hfin : K U B (setn s p (with_children P (remove1 c (n_list P)) (idx_removed k c (n_idx P)) (n_tidx P)))).
    { apply K_set_children; auto.
      - apply NoDup_remove1. apply (I_nodup s I).
      - intros d Hd. apply In_remove1 in Hd. now apply old_member_ok.
      - intros k'. rewrite filter_remove1. unfold idx_removed.
        assert (G : iget k' (if ihas k (n_idx P) then iset k (remove1 c (iget k (n_idx P))) (n_idx P) else n_idx P)
                    = if opt_eqb k' k then remove1 c (iget k (n_idx P)) else iget k' (n_idx P)).
        { destruct (ihas k (n_idx P)) eqn:Eh; [apply iget_iset|].
          destruct (opt_eqb_spec k' k) as [E|]; auto. rewrite E. now rewrite (ihas_false_iget _ _ Eh). }
        rewrite G. unfold name_is at 1. fold k. fold P.
        destruct (opt_eqb_spec k' k) as [E|N]; [rewrite E|].
        + unfold P. now rewrite (I_index s I).
        + unfold P. apply (I_index s I).
      - apply tidx_ok_list with (l := n_list P); [apply (I_trav s I)|].
        intros d Hd Hin. apply In_remove1 in Hin. apply In_members in Hd. destruct Hd as (k0 & l1 & A & A').
        destruct (I_trav s I p) as (_ & T & _). destruct (T k0 l1 d A A') as (_ & X & _). tauto.
      - intros d Hd. destruct (C d Hd) as (Hu & _ & _ & X). split; [|apply X].
        intros Hin. apply In_remove1 in Hin. apply (Hu p Hin). }
    assert (Hn1 : forall N, n_name N = n_name P -> names (setn s1 p N) nm).
    { intros N HN. apply names_setn; [apply names_setn; auto|]. unfold s1. now rewrite getn_setn_same. }
    destruct (memb c (n_list (getn s1 p))) eqn:Em.
    + unfold do_rm_list, modify.
      assert (Q : seq_store (setn s p (with_children P (remove1 c (n_list P)) (idx_removed k c (n_idx P)) (n_tidx P)))
                            (setn s1 p (with_children (getn s1 p) (remove1 c (n_list (getn s1 p))) (n_idx (getn s1 p)) (n_tidx (getn s1 p))))).
      { split; [reflexivity|]. intros i. unfold s1. rewrite !getn_setn. rewrite Nat.eqb_refl.
        destruct (Nat.eqb i p); reflexivity. }
      split; [|split].
      * eapply K_ext; [exact Q|exact Hfin].
      * rewrite getn_setn_same. cbn [n_list with_children]. rewrite E1. unfold P. now rewrite Hl.
      * apply Hn1. unfold s1. now rewrite getn_setn_same.
    + (* list.remove raises ValueError: c is not a child, so the index edit was a no-op *)
      cbn [raise]. rewrite E1 in Em. apply memb_false in Em.
      assert (Same : remove1 c (n_list P) = n_list P) by now apply remove1_notin.
      rewrite Same in Hfin. exact Hfin.
Qed.

Lemma point_to_frame U B c p q l0 nm :
  spec (point_to c p) (fun s => K U B s /\ unlisted s c /\ c < s_next s /\ n_list (getn s q) = l0 /\ names s nm)
       (fun _ s => K U B s /\ ptr s c p /\ n_tparent (getn s c) = None /\ n_list (getn s q) = l0 /\ names s nm) (K U B).
Proof.
  apply spec_modify. intros s (HK & Hu & Hb & Hl & Hn).
  pose proof (point_to_spec U B c p s (conj HK (conj Hu Hb))) as H.
  unfold point_to, modify in H. cbv beta iota in H. destruct H as (H1 & H2 & H3).
  refine (conj H1 (conj H2 (conj H3 (conj _ _)))).
  - now rewrite list_setn_same.
  - now apply names_setn.
Qed.

Lemma filter_names s nm k l : names s nm -> filter (name_is s k) l = filter (fun d => opt_eqb k (nm d)) l.
Proof. intros H. apply filter_ext. intros d. unfold name_is. now rewrite H. Qed.

Lemma do_insert_spec U B p i c bi :
  spec (do_insert p i c bi)
       (fun s => K U B s /\ ~ U c /\ ptr s c p /\ ~ In c (members (n_tidx (getn s p))) /\
                 n_lvl (getn s p) = n_lvl (getn s c) /\ n_ver (getn s p) = n_ver (getn s c) /\
                 filter (name_is s (n_name (getn s c))) (insert_at i c (n_list (getn s p)))
                 = insert_at bi c (filter (name_is s (n_name (getn s c))) (n_list (getn s p))))
       (fun _ s => K U B s) (K U B).
Proof.
  apply spec_modify. intros s (HK & NU & (Hu & Hb & Hp) & Hm & Hl & Hv & Hins). pose proof HK as (I & C & D).
  apply K_set_children; auto.
  - apply NoDup_insert_at; [apply (I_nodup s I)|apply Hu].
  - intros d Hd. apply In_insert_at in Hd. destruct Hd as [->|Hd]; [|now apply old_member_ok].
    repeat split; auto.
  - intros k. rewrite iget_iset. destruct (opt_eqb_spec k (n_name (getn s c))) as [->|N].
    + rewrite (I_index s I). now rewrite Hins.
    + rewrite filter_insert_at_false; [apply (I_index s I)|].
      unfold name_is. destruct (opt_eqb_spec k (n_name (getn s c))); congruence.
  - apply tidx_ok_list with (l := n_list (getn s p)); [apply (I_trav s I)|].
    intros d Hd Hin. apply In_insert_at in Hin. destruct Hin as [->|Hin]; [tauto|].
    apply In_members in Hd. destruct Hd as (k0 & l1 & A & A').
    destruct (I_trav s I p) as (_ & T & _). destruct (T k0 l1 d A A') as (_ & X & _). tauto.
  - intros d Hd. destruct (C d Hd) as (Hud & _ & _ & X). split; [|apply X].
    intros H. apply In_insert_at in H. destruct H as [->|H]; auto. apply (Hud p H).
Qed.

Lemma insert_spec U B p i c bi l0 nm :
  spec (insert t p i c bi)
       (fun s => K U B s /\ ~ U c /\ cand s c /\ n_list (getn s p) = l0 /\ names s nm /\
                 filter (fun d => opt_eqb (nm c) (nm d)) (insert_at i c l0)
                 = insert_at bi c (filter (fun d => opt_eqb (nm c) (nm d)) l0))
       (fun _ s => K U B s) (K U B).
Proof.
  intros s (HK & NU & Hc & Hl & Hn & Hins). pose proof Hc as (Hu & Hb & Ht & Hut).
  unfold insert. cbn [mbind node_of]. rewrite mbind_run.
  set (U' := fun d => U d \/ d = c).
  assert (HK' : K U' B s).
  { destruct HK as (I & C & D). split; [|split]; auto. intros d [Hd| ->]; auto. }
  assert (W : forall s', K U' B s' -> K U B s') by (intros s'; apply K_weaken; unfold U'; auto).
  (* after the optional pointer assignment the child points at p through its parent pointer *)
  assert (Hstep : match (if negb (pointing (getn s c) p) then point_to c p else ret tt) s with
                  | (s', Ok _) => K U' B s' /\ ptr s' c p /\ n_list (getn s' p) = l0 /\ names s' nm
                  | (s', Err _) => K U B s'
                  end).
  { destruct (pointing (getn s c) p) eqn:Ep; cbn [negb].
    - cbn [ret]. refine (conj HK' (conj (conj Hu (conj Hb _)) (conj Hl Hn))).
      unfold pointing in Ep. rewrite Ht in Ep. cbn in Ep.
      rewrite orb_false_r in Ep. now apply oid_eqb_eq.
    - pose proof (point_to_frame U' B c p p l0 nm s (conj HK' (conj Hu (conj Hb (conj Hl Hn))))) as H.
      destruct (point_to c p s) as [s' [[]|x]]; [|now apply W]. tauto. }
  destruct ((if negb (pointing (getn s c) p) then point_to c p else ret tt) s) as [s1 [[]|x]]; [|exact Hstep].
  destruct Hstep as (HK1' & Hp1 & Hl1 & Hn1). pose proof (W _ HK1') as HK1. cbn [mbind node_of lift].
  destruct (is_valid_child t (getn s1 p) (getn s1 c)) as [[]|x]; cbn [negb mbind node_of lift]; try exact HK1.
  destruct (acceptance_checks (getn s1 p) (getn s1 c)) as [[]|x] eqn:A; [|exact HK1].
  destruct (acceptance_ok _ _ A) as [Hlv Hvr].
  apply (do_insert_spec U B p i c bi s1).
  destruct (cand_unfold U' B s1 c HK1' (or_intror eq_refl)) as (_ & _ & _ & X).
  refine (conj HK1 (conj NU (conj Hp1 (conj (X p) (conj Hlv (conj Hvr _)))))).
  rewrite Hl1, !(filter_names s1 nm) by auto. now rewrite Hn1.
Qed.

(* ElementList.replace_child: the new child takes the place of the old one in the list and, when it
   has the same name, in the by-name index *)
Lemma replace_child_spec U B p old new :
  spec (replace_child t p old new)
       (fun s => K U B s /\ ~ U new /\ cand s new /\
                 (In old (n_list (getn s p)) -> n_name (getn s old) = n_name (getn s new)))
       (fun _ s => K U B s) (K U B).
Proof.
  intros s (HK & NU & Hc & Hnm). unfold replace_child. cbn [mbind node_of].
  set (U' := fun d => U d \/ d = new).
  assert (HK' : K U' B s).
  { destruct HK as (I & C & D). split; [|split]; auto. intros d [Hd| ->]; auto. }
  assert (W : forall s', K U' B s' -> K U B s') by (intros s'; apply K_weaken; unfold U'; auto).
  set (nm := fun d => n_name (getn s d)).
  assert (Hn : names s nm) by (intros d; reflexivity).
  destruct (oid_eqb (n_tparent (getn s old)) p) eqn:Et.
  - rewrite mbind_run.
    pose proof (remove_child_spec U' B p old _ nm true s (conj HK' (conj eq_refl (conj Hn Et)))) as H.
    step_with H; [|now apply W]. destruct H as (H1 & _ & _).
    pose proof (cand_unfold U' B s0 new H1 (or_intror eq_refl)) as Hc1.
    apply (append_spec U B p new s0). split; [now apply W|]. now apply cand_addable.
  - cbn [mbind node_of].
    destruct (index_of old (n_list (getn s p))) as [li|] eqn:Eli; [|exact HK].
    destruct (ihas (n_name (getn s old)) (n_idx (getn s p))); cbn [negb]; [|exact HK].
    destruct (index_of old (iget (n_name (getn s old)) (n_idx (getn s p)))) as [bi|] eqn:Ebi; [|exact HK].
    specialize (Hnm (index_of_Some_In _ _ _ Eli)).
    rewrite mbind_run.
    pose proof (remove_child_spec U' B p old _ nm false s (conj HK' (conj eq_refl (conj Hn Et)))) as H.
    step_with H; [|now apply W]. destruct H as (H1 & Hl1 & Hn1).
    apply (insert_spec U B p li new bi (remove1 old (n_list (getn s p))) nm s0).
    pose proof (cand_unfold U' B s0 new H1 (or_intror eq_refl)) as Hc1.
    refine (conj (W _ H1) (conj NU (conj Hc1 (conj Hl1 (conj Hn1 _))))).
    (* the positional obligation *)
    pose proof (K_Inv _ _ _ HK) as I.
    rewrite (I_index s I), (filter_names s nm) in Ebi by auto.
    unfold nm at 1 3. rewrite <- Hnm. fold (nm old).
    rewrite filter_remove1. unfold nm at 3. rewrite opt_eqb_refl.
    apply filter_replace; auto.
    + apply (I_nodup s I).
    + destruct Hc as (Hu & _). apply Hu.
    + apply opt_eqb_refl.
    + unfold nm. rewrite Hnm. apply opt_eqb_refl.
Qed.

(* replacing the FIRST child of the list (SupportComplexDataType._set_value with a datatype object:
   old_child = self.children[0]) is in place whatever the names are *)
Lemma replace_child_head_spec U B p old new rest :
  spec (replace_child t p old new)
       (fun s => K U B s /\ ~ U new /\ cand s new /\ n_list (getn s p) = old :: rest)
       (fun _ s => K U B s) (K U B).
Proof.
  intros s (HK & NU & Hc & Hl). unfold replace_child. cbn [mbind node_of].
  set (U' := fun d => U d \/ d = new).
  assert (HK' : K U' B s).
  { destruct HK as (I & C & D). split; [|split]; auto. intros d [Hd| ->]; auto. }
  assert (W : forall s', K U' B s' -> K U B s') by (intros s'; apply K_weaken; unfold U'; auto).
  set (nm := fun d => n_name (getn s d)).
  assert (Hn : names s nm) by (intros d; reflexivity).
  destruct (oid_eqb (n_tparent (getn s old)) p) eqn:Et.
  - rewrite mbind_run.
    pose proof (remove_child_spec U' B p old _ nm true s (conj HK' (conj eq_refl (conj Hn Et)))) as H.
    step_with H; [|now apply W]. destruct H as (H1 & _ & _).
    pose proof (cand_unfold U' B s0 new H1 (or_intror eq_refl)) as Hc1.
    apply (append_spec U B p new s0). split; [now apply W|]. now apply cand_addable.
  - cbn [mbind node_of]. rewrite Hl. cbn [index_of]. rewrite Nat.eqb_refl.
    destruct (ihas (n_name (getn s old)) (n_idx (getn s p))); cbn [negb]; [|exact HK].
    pose proof (K_Inv _ _ _ HK) as I.
    rewrite (I_index s I), Hl. cbn [filter]. unfold name_is at 1. rewrite opt_eqb_refl. cbn [index_of]. rewrite Nat.eqb_refl.
    rewrite mbind_run.
    pose proof (remove_child_spec U' B p old _ nm false s (conj HK' (conj eq_refl (conj Hn Et)))) as H.
    step_with H; [|now apply W]. destruct H as (H1 & Hl1 & Hn1).
    apply (insert_spec U B p 0 new 0 (remove1 old (n_list (getn s p))) nm s0).
    pose proof (cand_unfold U' B s0 new H1 (or_intror eq_refl)) as Hc1.
    refine (conj (W _ H1) (conj NU (conj Hc1 (conj Hl1 (conj Hn1 _))))).
    rewrite Hl. cbn [remove1]. rewrite Nat.eqb_refl. cbn [insert_at filter]. now rewrite opt_eqb_refl.
Qed.

End Ops.
