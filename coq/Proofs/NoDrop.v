(* C03, parser side: nothing is dropped or reordered between the split text and the element tree.
   Every non-blank field text yields exactly its repetitions, in order; every accepted child list is
   appended unchanged.  All statements are for arbitrary text (no bound). *)
From Coq Require Import List Bool ZArith NArith Init.Byte Lia.
From HL7 Require Import Lib.Str Model.Ec Model.Result Model.Ref Model.Tree Model.Parser.
Import ListNotations.
Open Scope bs_scope.

Section NoDrop.
Variable t : tables.
Variable lvl : level.
Variable e : ec.
Variable leaf_enc : option str -> str -> result str.

(* ---- acceptance appends the children it is given, in order ---- *)
Lemma add_subs_appends kids : forall c c',
  add_subs t lvl c kids = Ok c' ->
  c_children c' = c_children c ++ kids /\ c_name c' = c_name c /\ c_dt c' = c_dt c.
Proof.
  induction kids as [|k rest IH]; intros c c' H; cbn [add_subs] in H.
  - injection H as <-. rewrite app_nil_r. auto.
  - repeat match type of H with
           | (if ?b then _ else _) = _ => destruct b; try discriminate
           | bind ?r _ = _ => destruct r as [v|]; cbn [bind] in H; try discriminate
           end.
    apply IH in H. cbn in H. destruct H as [H1 [H2 H3]]. rewrite H1, <- app_assoc. auto.
Qed.

Lemma add_comps_appends kids : forall f f',
  add_comps t lvl f kids = Ok f' ->
  f_children f' = f_children f ++ kids /\ f_name f' = f_name f /\ f_dt f' = f_dt f.
Proof.
  induction kids as [|k rest IH]; intros f f' H; cbn [add_comps] in H.
  - injection H as <-. rewrite app_nil_r. auto.
  - repeat match type of H with
           | (if ?b then _ else _) = _ => destruct b; try discriminate
           | bind ?r _ = _ => destruct r as [v|]; cbn [bind] in H; try discriminate
           end.
    apply IH in H. cbn in H. destruct H as [H1 [H2 H3]]. rewrite H1, <- app_assoc. auto.
Qed.

Lemma add_fields_appends kids : forall s s',
  add_fields t lvl s kids = Ok s' ->
  s_children s' = s_children s ++ kids /\ s_name s' = s_name s.
Proof.
  induction kids as [|k rest IH]; intros s s' H; cbn [add_fields] in H.
  - injection H as <-. rewrite app_nil_r. auto.
  - destruct (f_name k) as [kn|].
    + repeat match type of H with
             | (if ?b then _ else _) = _ => destruct b; try discriminate
             end;
      apply IH in H; cbn in H; destruct H as [H1 H2]; rewrite H1, <- app_assoc; auto.
    + destruct (is_strict lvl); try discriminate.
      apply IH in H. cbn in H. destruct H as [H1 H2]. rewrite H1, <- app_assoc. auto.
Qed.

(* ---- every repetition text becomes one field, in order ---- *)
Lemma parse_reps_length reps name ref fv fs :
  parse_reps t lvl e leaf_enc reps name ref fv = Ok fs -> length fs = length reps.
Proof.
  revert fs. induction reps as [|r rest IH]; intros fs H; cbn [parse_reps] in H.
  - now injection H as <-.
  - destruct (parse_field t lvl e leaf_enc r name ref fv) as [x|]; cbn [bind] in H; try discriminate.
    destruct (parse_reps t lvl e leaf_enc rest name ref fv) as [xs|]; cbn [bind] in H; try discriminate.
    injection H as <-. cbn. f_equal. now apply IH.
Qed.

(* how many Field objects the text of field number i must give *)
Definition expected_fields (prefix : str) (p : nat * str) : nat :=
  let name := name_idx prefix (fst p) in
  if negb (is_blank (snd p)) then
    if streqb (upper name) "MSH_2" then 1 else length (bsplit (rsep e) (snd p))
  else if streqb (upper name) "MSH_1" then 1 else 0.

Lemma parse_fields_aux_length prefix st fv l : forall fs,
  parse_fields_aux t lvl e leaf_enc prefix st fv l = Ok fs ->
  length fs = fold_right (fun p n => expected_fields prefix p + n) 0 l.
Proof.
  induction l as [|[i f] rest IH]; intros fs H; cbn [parse_fields_aux] in H.
  - now injection H as <-.
  - match type of H with bind ?r _ = _ => destruct r as [here|] eqn:Hh; cbn [bind] in H; try discriminate end.
    destruct (parse_fields_aux t lvl e leaf_enc prefix st fv rest) as [xs|]; cbn [bind] in H; try discriminate.
    injection H as <-. rewrite app_length, (IH xs eq_refl). cbn [fold_right]. f_equal.
    unfold expected_fields. cbn [fst snd].
    repeat match type of Hh with
           | (if ?b then _ else _) = _ => destruct b
           end;
      try (apply parse_reps_length in Hh; exact Hh).
    now injection Hh as <-.
Qed.

(* ---- the segment level: an accepted line yields exactly the expected fields, in text order ---- *)
Theorem parse_segment_keeps_all_fields text reference s :
  parse_segment t lvl e leaf_enc text reference = Ok s ->
  length (s_children s) =
  fold_right (fun p n => expected_fields (seg_name_of text) p + n) 0
             (indexed (bsplit (fsep e) (strip_cr (seg_rest_of text)))).
Proof.
  unfold parse_segment, parse_segment_in, parse_fields. intros H.
  destruct (mk_segment t (seg_name_of text) reference) as [s0|] eqn:H0; cbn [bind] in H; try discriminate.
  match type of H with bind ?r _ = _ => destruct r as [kids|] eqn:Hk; cbn [bind] in H; try discriminate end.
  apply add_fields_appends in H. destruct H as [H _]. rewrite H.
  assert (s_children s0 = []) as ->.
  { unfold mk_segment in H0.
    repeat match type of H0 with
           | (if ?b then _ else _) = _ => destruct b
           | bind ?r _ = _ => destruct r; cbn [bind] in H0; try discriminate
           | match ?x with _ => _ end = _ => destruct x; try discriminate
           end; try discriminate; injection H0 as <-; reflexivity. }
  cbn [app]. eapply parse_fields_aux_length. exact Hk.
Qed.


(* ================================================================================== *)
(* the non-blank leaf texts of an accepted line are exactly those of the text, in order *)

Definition nonblank (s : str) : bool := negb (is_blank s).
Definition keep_nb (l : list str) : list str := filter nonblank l.

(* tree side: the texts handed to the datatype factory *)
Definition comp_leaves (c : comp) : list str := keep_nb (map sc_value (c_children c)).
Definition field_leaves (f : field) : list str := flat_map comp_leaves (f_children f).
Definition seg_leaves (s : seg) : list str := flat_map field_leaves (s_children s).

(* text side: split all the way down *)
Definition comp_text_leaves (text : str) : list str := keep_nb (bsplit (ssep e) text).
Definition field_text_leaves (text : str) : list str := flat_map comp_text_leaves (bsplit (csep e) text).
Definition fieldpos_text_leaves (prefix : str) (p : nat * str) : list str :=
  let name := name_idx prefix (fst p) in
  if negb (is_blank (snd p)) then
    if streqb (upper name) "MSH_2" then keep_nb [snd p]
    else flat_map (fun r => if is_msh12 (Some name) then keep_nb [r] else field_text_leaves r)
                  (bsplit (rsep e) (snd p))       (* MSH-1 is never split further *)
  else if streqb (upper name) "MSH_1" then keep_nb [[fsep e]] else [].
Definition line_text_leaves (text : str) : list str :=
  flat_map (fieldpos_text_leaves (seg_name_of text))
           (indexed (bsplit (fsep e) (strip_cr (seg_rest_of text)))).

(* --- blank strings --- *)
Lemma lstrip_by_nil p (s : str) : lstrip_by p s = [] -> forallb p s = true.
Proof.
  induction s as [|c r IH]; cbn; auto. destruct (p c); [auto|discriminate].
Qed.
Lemma forallb_lstrip_nil p (s : str) : forallb p s = true -> lstrip_by p s = [].
Proof.
  induction s as [|c r IH]; cbn; auto. destruct (p c); cbn; [auto|discriminate].
Qed.
Lemma rstrip_by_nil_iff p (s : str) : rstrip_by p s = [] <-> forallb p s = true.
Proof.
  unfold rstrip_by. split; intros H.
  - assert (lstrip_by p (rev s) = []) as H1.
    { destruct (lstrip_by p (rev s)); auto. cbn in H. now destruct (rev l). }
    apply lstrip_by_nil in H1. rewrite forallb_forall in *. intros x Hx. apply H1. now apply in_rev in Hx.
  - rewrite forallb_lstrip_nil; auto. rewrite forallb_forall in *. intros x Hx. apply H. now apply in_rev.
Qed.
Lemma lstrip_suffix p (s : str) : exists pre, s = pre ++ lstrip_by p s /\ forallb p pre = true.
Proof.
  induction s as [|c r [pre [IH1 IH2]]]; [exists []; auto|]. cbn. destruct (p c) eqn:E.
  - exists (c :: pre). cbn. rewrite E, IH2. split; auto. now f_equal.
  - exists []. auto.
Qed.
Lemma is_blank_all_space (s : str) : is_blank s = true <-> forallb is_space s = true.
Proof.
  unfold is_blank, strip, strip_by. split.
  - intros H. destruct (rstrip_by is_space (lstrip_by is_space s)) eqn:E; try discriminate.
    apply rstrip_by_nil_iff in E. destruct (lstrip_suffix is_space s) as [pre [H1 H2]].
    rewrite H1, forallb_app, H2, E. reflexivity.
  - intros H. rewrite forallb_lstrip_nil; auto.
Qed.

(* every piece of a split of a blank string is blank *)
Lemma split_aux_all (p : byte -> bool) c : forall s cur,
  forallb p s = true -> forallb p cur = true ->
  forallb (forallb p) (split_aux beqb c cur s) = true.
Proof.
  induction s as [|x r IH]; intros cur Hs Hc; cbn.
  - rewrite andb_true_r. rewrite forallb_forall in *. intros y Hy. apply Hc. now apply in_rev.
  - cbn in Hs. apply andb_prop in Hs. destruct Hs as [Hx Hr]. destruct (beqb x c).
    + cbn. rewrite IH; auto. rewrite andb_true_r. rewrite forallb_forall in *. intros y Hy. apply Hc. now apply in_rev.
    + apply IH; auto. cbn. now rewrite Hx.
Qed.
Lemma blank_split_blank c s : is_blank s = true -> keep_nb (bsplit c s) = [].
Proof.
  intros H. apply is_blank_all_space in H. unfold keep_nb, bsplit, split.
  pose proof (split_aux_all is_space c s [] H eq_refl) as G.
  induction (split_aux beqb c [] s) as [|x l IH]; auto.
  cbn in G. apply andb_prop in G. destruct G as [Gx Gl]. cbn.
  unfold nonblank at 1. apply is_blank_all_space in Gx. rewrite Gx. cbn. auto.
Qed.
Lemma blank_field_text_leaves s : is_blank s = true -> field_text_leaves s = [].
Proof.
  intros H. apply is_blank_all_space in H. unfold field_text_leaves, bsplit, split.
  pose proof (split_aux_all is_space (csep e) s [] H eq_refl) as G.
  induction (split_aux beqb (csep e) [] s) as [|x l IH]; auto.
  cbn in G. apply andb_prop in G. destruct G as [Gx Gl]. cbn.
  unfold comp_text_leaves. rewrite blank_split_blank; [|now apply is_blank_all_space]. cbn. auto.
Qed.

(* --- subcomponents --- *)
Lemma mk_subcomponent_value nm dt v ref x :
  mk_subcomponent t lvl leaf_enc nm dt v ref = Ok x -> sc_value x = v.
Proof.
  unfold mk_subcomponent. intros H.
  destruct (_ && _) in H; try discriminate.
  match type of H with bind ?r _ = _ => destruct r as [[[? ?] ?]|]; cbn [bind] in H; try discriminate end.
  destruct v as [|b v']; [now injection H as <-|].
  match type of H with bind ?r _ = _ => destruct r; cbn [bind] in H; try discriminate end.
  now injection H as <-.
Qed.

Lemma parse_subcomponents_aux_leaves cdt st l : forall subs,
  parse_subcomponents_aux t lvl leaf_enc cdt st l = Ok subs ->
  keep_nb (map sc_value subs) = keep_nb (map snd l).
Proof.
  induction l as [|[i s] rest IH]; intros subs H; cbn [parse_subcomponents_aux] in H.
  - now injection H as <-.
  - destruct (base t cdt || opt_is_none cdt); cbn beta iota in H;
      [ | destruct (has_map st); cbn beta iota in H;
          [ destruct (ref_in st (name_idx (str_of_opt cdt) i)); cbn beta iota in H | ] ].
    all: match type of H with (if materialise ?a ?b then _ else _) = _ => destruct (materialise a b) eqn:M end;
      [ match type of H with bind ?r _ = _ => destruct r as [x|] eqn:Hx; cbn [bind] in H; try discriminate end;
        destruct (parse_subcomponents_aux t lvl leaf_enc cdt st rest) as [xs|]; cbn [bind] in H; try discriminate;
        injection H as <-; apply mk_subcomponent_value in Hx;
        cbn [map keep_nb filter snd]; rewrite Hx;
        unfold keep_nb in IH; rewrite (IH xs eq_refl); reflexivity
      | unfold materialise in M; apply orb_false_elim in M; destruct M as [M _];
        apply negb_false_iff in M; cbn [map snd]; unfold keep_nb at 2; cbn [filter]; unfold nonblank at 1; rewrite M; cbn [negb];
        now apply IH ].
Qed.

Lemma mk_component_no_children nm dt ref c :
  mk_component t lvl nm dt ref = Ok c -> c_children c = [].
Proof.
  unfold mk_component. intros H.
  match type of H with bind ?r _ = _ => destruct r as [[[? ?] ?]|]; cbn [bind] in H; try discriminate end.
  destruct (_ && _) in H; try discriminate. now injection H as <-.
Qed.

Lemma indexed_snd {A} (l : list A) : map snd (indexed l) = l.
Proof.
  unfold indexed. generalize 1. induction l as [|x r IH]; intros n; cbn; auto. now rewrite IH.
Qed.

Lemma parse_component_leaves text nm dt ref c :
  parse_component t lvl e leaf_enc text nm dt ref = Ok c -> comp_leaves c = comp_text_leaves text.
Proof.
  unfold parse_component. intros H.
  match type of H with bind ?r _ = _ => destruct r as [c0|] eqn:H0; cbn [bind] in H; try discriminate end.
  assert (c_children c0 = []) as Hc0.
  { destruct (mk_component t lvl nm dt ref) as [c1|[]] eqn:E; try discriminate;
      try (injection H0 as <-; eapply mk_component_no_children; eauto).
    destruct c1; try discriminate.
    destruct (is_strict lvl); try discriminate. eapply mk_component_no_children; eauto. }
  match type of H with bind ?r _ = _ => destruct r as [kids|] eqn:Hk; cbn [bind] in H; try discriminate end.
  apply add_subs_appends in H. destruct H as [H _].
  unfold comp_leaves. rewrite H.
  assert (c_children (if negb (is_strict lvl) && base t (c_dt c0) && Nat.ltb 1 (length kids)
                      then mk_comp (c_name c0) None (c_st c0) (c_children c0) else c0) = []) as ->.
  { destruct (_ && _); auto. }
  cbn [app]. unfold parse_subcomponents in Hk. apply parse_subcomponents_aux_leaves in Hk.
  rewrite Hk, indexed_snd. reflexivity.
Qed.

(* --- components --- *)
Lemma parse_components_aux_leaves fdt st l : forall comps,
  parse_components_aux t lvl e leaf_enc fdt st l = Ok comps ->
  flat_map comp_leaves comps = flat_map comp_text_leaves (map snd l).
Proof.
  induction l as [|[i s] rest IH]; intros comps H; cbn [parse_components_aux] in H.
  - now injection H as <-.
  - destruct (base t fdt); cbn beta iota in H;
      [ | destruct (opt_is_none fdt || is_varies fdt); cbn beta iota in H ].
    all: match type of H with (if ?b then _ else _) = _ => destruct b eqn:M end;
      [ match type of H with bind ?r _ = _ => destruct r as [x|] eqn:Hx; cbn [bind] in H; try discriminate end;
        destruct (parse_components_aux t lvl e leaf_enc fdt st rest) as [xs|]; cbn [bind] in H; try discriminate;
        injection H as <-; apply parse_component_leaves in Hx;
        cbn [map flat_map snd]; rewrite Hx, (IH xs eq_refl); reflexivity
      | apply orb_false_elim in M; destruct M as [M _]; apply orb_false_elim in M; destruct M as [M _];
        apply negb_false_iff in M; cbn [map flat_map snd];
        unfold comp_text_leaves at 1; rewrite (blank_split_blank _ _ M); cbn [app]; now apply IH ].
Qed.

Lemma mk_field_no_children nm dt ref f : mk_field t lvl nm dt ref = Ok f -> f_children f = [].
Proof.
  unfold mk_field. intros H.
  destruct (_ && _ && _) in H; try discriminate.
  destruct nm.
  - repeat match type of H with
           | bind ?r _ = _ => destruct r as [[? ?]|]; cbn [bind] in H; try discriminate
           | (if ?b then _ else _) = _ => destruct b; try discriminate
           | match ?x with _ => _ end = _ => destruct x; try discriminate
           end; now injection H as <-.
  - match type of H with bind ?r _ = _ => destruct r as [[? ?]|]; cbn [bind] in H; try discriminate end.
    now injection H as <-.
Qed.

Lemma parse_field_leaves text name ref fv f :
  parse_field t lvl e leaf_enc text name ref fv = Ok f ->
  field_leaves f = if is_msh12 name then keep_nb [text] else field_text_leaves text.
Proof.
  unfold parse_field. intros H.
  match type of H with bind ?r _ = _ => destruct r as [f0|] eqn:H0; cbn [bind] in H; try discriminate end.
  assert (f_children f0 = []) as Hf0.
  { destruct (mk_field t lvl name None ref) as [f1|[]] eqn:E; try discriminate;
      try (injection H0 as <-; eapply mk_field_no_children; eauto).
    destruct c; try discriminate.
    destruct fv; eapply mk_field_no_children; eauto. }
  destruct (is_msh12 name).
  - match type of H with bind ?r _ = _ => destruct r as [s|] eqn:Hs; cbn [bind] in H; try discriminate end.
    match type of H with bind ?r _ = _ => destruct r as [c0|] eqn:Hc0; cbn [bind] in H; try discriminate end.
    match type of H with bind ?r _ = _ => destruct r as [c|] eqn:Hc; cbn [bind] in H; try discriminate end.
    apply add_comps_appends in H. destruct H as [H _].
    apply add_subs_appends in Hc. destruct Hc as [Hc _].
    apply mk_component_no_children in Hc0. apply mk_subcomponent_value in Hs.
    unfold field_leaves. rewrite H, Hf0. cbn [app flat_map]. unfold comp_leaves. rewrite Hc, Hc0.
    cbn [app map]. rewrite Hs, app_nil_r. reflexivity.
  - match type of H with bind ?r _ = _ => destruct r as [kids|] eqn:Hk; cbn [bind] in H; try discriminate end.
    apply add_comps_appends in H. destruct H as [H _].
    unfold field_leaves. rewrite H.
    assert (f_children (if negb (is_strict lvl) && base t (f_dt f0) && Nat.ltb 1 (length kids)
                        then mk_field_rec (f_name f0) None (f_st f0) (f_children f0) else f0) = []) as ->.
    { destruct (_ && _); auto. }
    cbn [app]. unfold parse_components in Hk. apply parse_components_aux_leaves in Hk.
    rewrite Hk, indexed_snd. reflexivity.
Qed.

(* --- fields and the segment --- *)
Lemma parse_reps_leaves reps name ref fv : forall fs,
  parse_reps t lvl e leaf_enc reps name ref fv = Ok fs ->
  flat_map field_leaves fs =
  flat_map (fun r => if is_msh12 name then keep_nb [r] else field_text_leaves r) reps.
Proof.
  induction reps as [|r rest IH]; intros fs H; cbn [parse_reps] in H.
  - now injection H as <-.
  - destruct (parse_field t lvl e leaf_enc r name ref fv) as [x|] eqn:Hx; cbn [bind] in H; try discriminate.
    destruct (parse_reps t lvl e leaf_enc rest name ref fv) as [xs|]; cbn [bind] in H; try discriminate.
    injection H as <-. apply parse_field_leaves in Hx. cbn [flat_map]. rewrite Hx, (IH xs eq_refl). reflexivity.
Qed.

Lemma is_msh12_name prefix i :
  is_msh12 (Some (name_idx prefix i)) =
  streqb (upper (name_idx prefix i)) "MSH_1" || streqb (upper (name_idx prefix i)) "MSH_2".
Proof. reflexivity. Qed.


Lemma parse_fields_aux_leaves prefix st fv l : forall fs,
  parse_fields_aux t lvl e leaf_enc prefix st fv l = Ok fs ->
  flat_map field_leaves fs = flat_map (fieldpos_text_leaves prefix) l.
Proof.
  induction l as [|[i f] rest IH]; intros fs H; cbn [parse_fields_aux] in H.
  - now injection H as <-.
  - match type of H with bind ?r _ = _ => destruct r as [here|] eqn:Hh; cbn [bind] in H; try discriminate end.
    destruct (parse_fields_aux t lvl e leaf_enc prefix st fv rest) as [xs|]; cbn [bind] in H; try discriminate.
    injection H as <-. rewrite flat_map_app, (IH xs eq_refl). cbn [flat_map]. f_equal.
    unfold fieldpos_text_leaves. cbn [fst snd].
    destruct (negb (is_blank f)).
    + destruct (streqb (upper (name_idx prefix i)) "MSH_2") eqn:E2.
      * apply parse_reps_leaves in Hh. rewrite Hh. cbn [flat_map].
        rewrite is_msh12_name, E2, orb_true_r, app_nil_r. reflexivity.
      * apply parse_reps_leaves in Hh. exact Hh.
    + destruct (streqb (upper (name_idx prefix i)) "MSH_1") eqn:E1.
      * apply parse_reps_leaves in Hh. rewrite Hh. cbn [flat_map].
        rewrite is_msh12_name, E1, app_nil_r. reflexivity.
      * now injection Hh as <-.
Qed.

Lemma mk_segment_no_children name reference s0 : mk_segment t name reference = Ok s0 -> s_children s0 = [].
Proof.
  unfold mk_segment. intros H0.
  repeat match type of H0 with
         | (if ?b then _ else _) = _ => destruct b
         | bind ?r _ = _ => destruct r; cbn [bind] in H0; try discriminate
         | match ?x with _ => _ end = _ => destruct x; try discriminate
         end; try discriminate; injection H0 as <-; reflexivity.
Qed.

(* C03, parser side: the non-blank leaf texts held by the tree of an accepted segment line are
   exactly the non-blank leaf texts of the line, in the same order - for every line, every table,
   every delimiter set, both validation levels. *)
Theorem parse_segment_keeps_leaves text reference s :
  parse_segment t lvl e leaf_enc text reference = Ok s -> seg_leaves s = line_text_leaves text.
Proof.
  unfold parse_segment, parse_segment_in, parse_fields. intros H.
  destruct (mk_segment t (seg_name_of text) reference) as [s0|] eqn:H0; cbn [bind] in H; try discriminate.
  match type of H with bind ?r _ = _ => destruct r as [kids|] eqn:Hk; cbn [bind] in H; try discriminate end.
  apply add_fields_appends in H. destruct H as [H _].
  unfold seg_leaves. rewrite H, (mk_segment_no_children _ _ _ H0). cbn [app].
  unfold line_text_leaves. eapply parse_fields_aux_leaves. exact Hk.
Qed.

End NoDrop.
