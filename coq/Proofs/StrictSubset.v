(* C05: the STRICT-only branches of child acceptance and of textual leaf construction only REFUSE:
   whatever they accept, TOLERANT accepts with the same result. *)
From Coq Require Import List Bool ZArith NArith Init.Byte Lia.
From HL7 Require Import Lib.Str Model.Ec Model.Result Model.Ref Model.Tree Model.Parser Model.Leaf.
Import ListNotations.
Open Scope bs_scope.

Section Subset.
Variable t : tables.

Lemma card_ok_tolerant {A} (nm : A -> option str) st k have : card_ok TOLERANT nm st k have = true.
Proof. reflexivity. Qed.

Lemma valid_child_complex_subset pn pdt pst kn kdt :
  valid_child_complex t STRICT pn pdt pst kn kdt = Ok true ->
  valid_child_complex t TOLERANT pn pdt pst kn kdt = Ok true.
Proof.
  unfold valid_child_complex. cbn [is_strict]. rewrite ?andb_true_r, ?andb_false_r.
  repeat match goal with
         | |- context [if ?b then _ else _] => destruct b; try (intros; discriminate); auto
         | |- context [match ?o with Some _ => _ | None => _ end] => destruct o; auto
         end.
Qed.

Lemma add_subs_subset kids : forall c c',
  add_subs t STRICT c kids = Ok c' -> add_subs t TOLERANT c kids = Ok c'.
Proof.
  induction kids as [|k rest IH]; intros c c' H; cbn [add_subs] in *; auto.
  repeat match type of H with
         | (if ?b then _ else _) = _ => destruct b eqn:?; try discriminate
         end.
  destruct (valid_child_complex t STRICT (c_name c) (c_dt c) (c_st c) (sc_name k) (sc_dt k)) as [[|]|] eqn:V;
    cbn [bind negb] in H; try discriminate.
  rewrite (valid_child_complex_subset _ _ _ _ _ V). cbn [bind negb].
  destruct (card_ok STRICT sc_name (c_st c) (sc_name k) (c_children c)); cbn [negb] in H; try discriminate.
  rewrite card_ok_tolerant. cbn [negb]. now apply IH.
Qed.

Lemma add_comps_subset kids : forall f f',
  add_comps t STRICT f kids = Ok f' -> add_comps t TOLERANT f kids = Ok f'.
Proof.
  induction kids as [|k rest IH]; intros f f' H; cbn [add_comps] in *; auto.
  repeat match type of H with
         | (if ?b then _ else _) = _ => destruct b eqn:?; try discriminate
         end.
  destruct (valid_child_complex t STRICT (f_name f) (f_dt f) (f_st f) (c_name k) (c_dt k)) as [[|]|] eqn:V;
    cbn [bind negb] in H; try discriminate.
  rewrite (valid_child_complex_subset _ _ _ _ _ V). cbn [bind negb].
  destruct (card_ok STRICT c_name (f_st f) (c_name k) (f_children f)); cbn [negb] in H; try discriminate.
  rewrite card_ok_tolerant. cbn [negb]. now apply IH.
Qed.

Lemma add_fields_subset kids : forall s s',
  add_fields t STRICT s kids = Ok s' -> add_fields t TOLERANT s kids = Ok s'.
Proof.
  induction kids as [|k rest IH]; intros s s' H; cbn [add_fields] in *; auto.
  destruct (f_name k) as [kn|]; cbn [is_strict] in *; try discriminate.
  repeat match type of H with
         | (if ?b then _ else _) = _ => destruct b eqn:?; try discriminate
         end; rewrite ?card_ok_tolerant; cbn [negb]; now apply IH.
Qed.

(* textual leaves: STRICT only adds the MaxLengthReached refusal *)
Lemma leaf_enc_subset v e dt s x :
  leaf_enc v STRICT e dt s = Ok x -> leaf_enc v TOLERANT e dt s = Ok x.
Proof.
  unfold leaf_enc. destruct dt as [d|]; auto. destruct (dt_row v d) as [[k mx]|]; auto.
  destruct k; cbn [is_strict andb]; auto; destruct (too_long mx s); auto; discriminate.
Qed.

End Subset.
