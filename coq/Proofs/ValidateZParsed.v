(* C04 / C15, Z messages through the REAL parse path: every Z message that Model/Message.parse_message
   returns (either find_groups mode, both levels, every shipped version) has only segments as children,
   each carrying the segment table's entry of its name (`table_seg`) - the empty structure of a Z message
   opens no group and hands no reference to any segment - so Message.validate() reports exactly the
   concatenation of what Segment.validate() reports for each of its segments (Proofs/ValidateZ.v
   z_message_segmentwise).  Table premise: no shipped message table has a Z name as a key
   (`no_z_message_keys`, one kernel-evaluated check), besides those of Proofs/ValidateTotalMsgTables.v. *)
From Coq Require Import List Bool Arith ZArith NArith Lia Init.Byte.
From HL7 Require Import Lib.Str Model.Ec Model.Result Model.Header Model.Ref Model.Tree Model.Parser Model.Encode
     Model.Leaf Model.MsgTree Model.Groups Model.Message Model.Validate Model.Wf.
From HL7 Require Import Gen.Params Gen.Tables.
From HL7 Require Import Proofs.RoundTripStr Proofs.RoundTripSeg Proofs.RoundTripTables Proofs.NoCrash Proofs.NoCrashTables
     Proofs.GroupsFacts Proofs.GroupsMirror Proofs.NoCrashGroupedCore Proofs.NoCrashGrouped
     Proofs.ValidateTotal Proofs.ValidateTotalTables Proofs.ValidateTotalMsg Proofs.ValidateTotalMsgTables
     Proofs.ValidateFacts Proofs.ValidateZ.
From HL7 Require Proofs.RoundTripMsg Proofs.RoundTripMsgTables Proofs.ConfigMsgFacts.
Import ListNotations.
Open Scope bs_scope.
Open Scope res_scope.

(* ---------- the table premise: no message table declares a Z message name ---------- *)
Definition no_z_message_keys (t : tables) : bool :=
  forallb (fun p => negb (Validate.valid_z_message_name (fst p))) (t_messages t).

Lemma all_no_z_message_keys : forallb (fun p => no_z_message_keys (snd p)) all_tables = true.
Proof. vm_cast_no_check (@eq_refl bool true). Qed.

(* the two transcriptions of _valid_z_message_name (Model/Groups.v on option str, Model/Validate.v on str) agree *)
Lemma valid_z_message_name_agree n : Groups.valid_z_message_name (Some n) = Validate.valid_z_message_name n.
Proof.
  destruct n as [|z1 [|a [|b [|u [|z2 [|c [|d [|nl [|x r]]]]]]]]]; try reflexivity;
    cbn [Groups.valid_z_message_name Validate.valid_z_message_name]; unfold Groups.is_z, Groups.az09, is_zZ, az09;
    rewrite ?andb_true_r, ?andb_false_r; reflexivity.
Qed.

(* Message('Zxx_Zxx'): the structure is the one of the empty reference *)
Lemma new_message_z_root lvl t e name m mn st :
  no_z_message_keys t = true ->
  Message.new_message lvl t e name = Ok m -> m_name m = Some mn -> Validate.valid_z_message_name mn = true ->
  m_st m = Some st -> st_reference st = empty_seq.
Proof.
  intros Hnz H HN HZ Hst. unfold Message.new_message in H.
  match type of H with bind ?r _ = _ => destruct r as [m1|] eqn:E1; cbn [bind] in H; [|discriminate] end.
  destruct (opt_is_none (m_name m1) && is_strict lvl); [discriminate|].
  repeat match type of H with bind ?r _ = _ => destruct r; cbn [bind] in H; [|discriminate] end.
  injection H as <-.
  destruct name as [n0|]; [|injection E1 as <-; discriminate].
  destruct (slookup (upper n0) (t_messages t)) as [r|] eqn:El.
  - exfalso. destruct (parse_structure t r) as [st1|] eqn:Ep; cbn [bind] in E1; [|discriminate]. injection E1 as <-.
    cbn [m_name] in HN. injection HN as <-.
    unfold no_z_message_keys in Hnz. rewrite forallb_forall in Hnz.
    specialize (Hnz _ (slookup_in _ _ _ El)). cbn [fst] in Hnz. rewrite HZ in Hnz. discriminate.
  - destruct (Groups.valid_z_message_name (Some n0)); [|discriminate].
    destruct (parse_structure t empty_seq) as [st1|] eqn:Ep; cbn [bind] in E1; [|discriminate]. injection E1 as <-.
    cbn [m_st] in Hst. injection Hst as <-. exact (Proofs.RoundTripMsg.parse_structure_ref t _ st1 Ep).
Qed.

(* under the empty reference the invariant of a parsed tree (Proofs/ValidateTotalMsg.v nok) leaves only
   segments, each carrying its table entry *)
Lemma nok_empty_segment t k : nok t empty_seq k -> exists s, k = NSeg s /\ table_seg t s.
Proof.
  intros H. inversion H as [pr s Hs|pr g r st kids Hd _ _ _]; subst.
  - exists s. split; [reflexivity|]. unfold table_seg. destruct (seg_is_z s) eqn:Z; [now left|right].
    exact (proj2 Hs Z).
  - exfalso. destruct Hd as (rows & x & Hr & Hin & _). cbn in Hr. injection Hr as <-. destruct Hin.
Qed.

Lemma noks_empty_segments t kids : Forall (nok t empty_seq) kids ->
  exists segs, kids = map NSeg segs /\ forall s, In s segs -> table_seg t s.
Proof.
  induction 1 as [|k kids Hk _ IH]; [exists []; split; [reflexivity|intros s []]|].
  destruct (nok_empty_segment t k Hk) as [s [-> Hs]]. destruct IH as [segs [-> HT]].
  exists (s :: segs). split; [reflexivity|]. intros s' [<-|Hin]; [exact Hs | now apply HT].
Qed.

(* ---------- every Z message parse_message returns ---------- *)
Theorem parsed_z_message_children dflt lvl fg text t m mn :
  parse_message tables_of dflt lvl fg text = Ok (t, m) ->
  m_name m = Some mn -> Validate.valid_z_message_name mn = true ->
  exists segs, m_children m = map NSeg segs /\ forall s, In s segs -> table_seg t s.
Proof.
  intros H HN HZ.
  destruct (Proofs.ConfigMsgFacts.parse_message_parts _ _ _ _ _ _ H)
    as (e & structure & version & v & m0 & kids & Hinfo & Ev & Ht & Em & -> & Em0 & Hk).
  cbn [m_name m_children] in *.
  destruct (shipped_vt_premises v t Ht) as (Hst & Hvar & Hgf & Hgc & Hgs).
  pose proof (lookup_forallb (fun _ x => grp_tables_ok x) all_tables v t all_grp_tables_ok Ht) as H6. cbv beta in H6.
  assert (Hkeys : seg_keys_ok t = true) by (unfold grp_tables_ok in H6; apply andb_prop in H6; tauto).
  pose proof (lookup_forallb (fun _ x => msg_tables_ok x) all_tables v t all_msg_tables_ok Ht) as H7. cbv beta in H7.
  unfold msg_tables_ok in H7. apply andb_prop in H7. destruct H7 as [H7 Hnoz]. apply andb_prop in H7. destruct H7 as [Hmsgs Hgok].
  pose proof (lookup_forallb (fun _ x => no_z_message_keys x) all_tables v t all_no_z_message_keys Ht) as Hnzm. cbv beta in Hnzm.
  assert (Hshape : exists st, m_st m0 = Some st /\ st_reference st = empty_seq).
  { assert (Hs : m_name m0 = None \/ exists st, m_st m0 = Some st /\ parse_structure t (st_reference st) = Ok st).
    { destruct Em as [E0|E0]; exact (new_message_shape lvl t e _ m0 E0). }
    destruct Hs as [Hn|(st & Est & _)]; [congruence|]. exists st. split; [exact Est|].
    destruct Em as [E0|E0]; exact (new_message_z_root lvl t e _ m0 mn st Hnzm E0 HN HZ Est). }
  destruct Hshape as (st & Est & Eroot).
  apply noks_empty_segments. rewrite <- Eroot.
  destruct Hk as [Hk|(st' & Est' & _ & Hk)].
  - exact (sp_inv anyx _ _ kids (flat_nok t Hst Hvar Hgf Hgc Hgs lvl e (leaf_enc v lvl e) (st_reference st)
                                  (pieces (lstrip text))) Hk).
  - rewrite Est in Est'. injection Est' as <-.
    assert (Hroot : st_reference st = empty_seq \/ exists k, In (k, st_reference st) (t_messages t)) by now left.
    destruct (root_gref t _ H6 Hroot) as [Hg Hd].
    assert (Hclean : cleanb t (st_reference st) = true) by (rewrite Eroot; reflexivity).
    exact (grouped_nok t Hst Hvar Hgf Hgc Hgs Hkeys Hnoz lvl e (leaf_enc v lvl e) (st_reference st) (lstrip text) kids
             Hg Hd Hgok Hclean Hk).
Qed.

(* Message.validate() of a parsed Z message = Segment.validate() of each of its segments, concatenated
   (lvl', e': the level and the delimiters the validator reads) *)
Theorem parsed_z_message_segmentwise dflt lvl fg text t m mn lvl' e' :
  parse_message tables_of dflt lvl fg text = Ok (t, m) ->
  m_name m = Some mn -> Validate.valid_z_message_name mn = true ->
  exists segs, m_children m = map NSeg segs /\ (forall s, In s segs -> table_seg t s) /\
               validate_message_log t lvl' e' m = seq_res (map (validate_seg_log t e') segs).
Proof.
  intros H HN HZ. destruct (parsed_z_message_children dflt lvl fg text t m mn H HN HZ) as [segs [HC HT]].
  exists segs. split; [exact HC|]. split; [exact HT|].
  exact (z_message_segmentwise t lvl' e' m mn segs HN HZ HC HT).
Qed.
Print Assumptions parsed_z_message_segmentwise.
