(* Facts about Model/Datatypes.v, part 1: finite case analysis over bytes, the regex matcher,
   strptime on exact-length input (the only way hl7apy calls it). *)
From Coq Require Import List Bool Arith NArith ZArith Lia Init.Byte Strings.Byte.
From HL7 Require Import Lib.Str Model.Ec Model.Result Model.Escape Model.Datatypes Gen.Params.
Import ListNotations.

(* ------------------------------------------------------------------ *)
(* A. every byte; statements about one or two bytes are decided by evaluation *)

Definition all_bytes : list byte :=
  map (fun n => match Byte.of_N (N.of_nat n) with Some b => b | None => x00 end) (seq 0 256).

Lemma beqb_eq a b : beqb a b = true -> a = b.
Proof. destruct (beqb_spec a b); congruence. Qed.

Lemma all_bytes_complete b : In b all_bytes.
Proof.
  assert (H : existsb (beqb b) all_bytes = true) by (destruct b; vm_compute; reflexivity).
  apply existsb_exists in H. destruct H as [x [Hx E]]. apply beqb_eq in E. now subst.
Qed.

Lemma forall1_bytes (f : byte -> bool) : forallb f all_bytes = true -> forall a, f a = true.
Proof. intros H a. rewrite forallb_forall in H. apply H, all_bytes_complete. Qed.

Lemma forall2_bytes (f : byte -> byte -> bool) :
  forallb (fun a => forallb (f a) all_bytes) all_bytes = true -> forall a b, f a b = true.
Proof.
  intros H a b. rewrite forallb_forall in H. specialize (H a (all_bytes_complete a)).
  rewrite forallb_forall in H. apply H, all_bytes_complete.
Qed.

Ltac brute1 :=
  match goal with |- forall a : byte, @?P a = true => apply (forall1_bytes P); vm_compute; reflexivity end.
Ltac brute2 :=
  match goal with |- forall a b : byte, @?P a b = true => apply (forall2_bytes P); vm_compute; reflexivity end.

Lemma eqb_true_eq a b : Bool.eqb a b = true -> a = b.
Proof. destruct a, b; simpl; congruence. Qed.
Lemma implb_true a b : implb a b = true -> a = true -> b = true.
Proof. destruct a, b; simpl; congruence. Qed.

(* ------------------------------------------------------------------ *)
(* B. the matcher                                                        *)

Lemma skipn_skipn {A} (x y : nat) (l : list A) : skipn x (skipn y l) = skipn (x + y) l.
Proof.
  revert l. induction y as [|y IH]; intros l.
  - now rewrite Nat.add_0_r.
  - rewrite Nat.add_succ_r. destruct l as [|a l]; [now rewrite !skipn_nil|]. cbn. apply IH.
Qed.

(* a text t is matched in full by one alternative of g *)
Definition matched (g : group) (t : str) : bool :=
  existsb (fun a => (length a =? length t) && alt_match a t) g.

Lemma alt_match_take a : forall s, alt_match a s = true ->
  alt_match a (take (length a) s) = true /\ length (take (length a) s) = length a.
Proof.
  induction a as [|p a IH]; intros s H; [split; reflexivity|].
  destruct s as [|c s]; [discriminate|]. cbn in H. apply andb_prop in H. destruct H as [Hp Ha].
  destruct (IH _ Ha) as [H1 H2]. unfold take in *. cbn. rewrite Hp, H1, H2. split; reflexivity.
Qed.

Lemma first_some_Some {A B} (f : A -> option B) l y :
  first_some f l = Some y -> exists x, In x l /\ f x = Some y.
Proof.
  induction l as [|x l IH]; [discriminate|]. cbn. destruct (f x) eqn:E.
  - intros H. injection H as <-. exists x. split; [now left|exact E].
  - intros H. destruct (IH H) as [x' [Hi Hf]]. exists x'. split; [now right|exact Hf].
Qed.

Lemma cands_In g s t : In t (cands g s) ->
  exists a, In a g /\ alt_match a s = true /\ t = take (length a) s.
Proof.
  unfold cands. rewrite in_flat_map. intros [a [Ha Ht]]. exists a. split; auto.
  destruct (alt_match a s); [|destruct Ht]. destruct Ht as [<-|[]]. split; reflexivity.
Qed.

Lemma matched_of_alt g a s : In a g -> alt_match a s = true -> matched g (take (length a) s) = true.
Proof.
  intros Hi Hm. unfold matched. apply existsb_exists. exists a. split; auto.
  destruct (alt_match_take a s Hm) as [H1 H2]. rewrite H1, H2, Nat.eqb_refl. reflexivity.
Qed.

(* soundness: a successful match decomposes the text into pieces, one per group *)
Lemma rmatch_sound gs : forall s ts rest, rmatch gs s = Some (ts, rest) ->
  s = concat ts ++ rest /\ Forall2 (fun g t => matched g t = true) gs ts.
Proof.
  induction gs as [|g gs IH]; intros s ts rest H.
  - cbn in H. injection H as <- <-. split; [reflexivity|constructor].
  - cbn in H. apply first_some_Some in H. destruct H as [t [Ht Hk]].
    destruct (rmatch gs (drop (length t) s)) as [[ts' rest']|] eqn:E; [|discriminate].
    injection Hk as <- <-. destruct (IH _ _ _ E) as [Hs Hf].
    apply cands_In in Ht. destruct Ht as [a [Ha [Hm ->]]].
    destruct (alt_match_take a s Hm) as [_ Hlen]. rewrite Hlen in Hs.
    split.
    + cbn. rewrite <- app_assoc, <- Hs. unfold take, drop. now rewrite firstn_skipn.
    + constructor; auto. now apply matched_of_alt.
Qed.

Lemma matched_len g t : matched g t = true -> exists a, In a g /\ length t = length a /\ alt_match a t = true.
Proof.
  unfold matched. rewrite existsb_exists. intros [a [Ha H]]. apply andb_prop in H. destruct H as [H1 H2].
  apply Nat.eqb_eq in H1. exists a. auto.
Qed.

(* every alternative of g has between 1 and w characters *)
Definition bounded (g : group) (w : nat) : Prop := forall a, In a g -> 1 <= length a <= w.
(* when the full-width text matches, the FIRST candidate is that text *)
Definition head_ok (g : group) (w : nat) : Prop :=
  forall t r, length t = w -> matched g t = true -> exists tl, cands g (t ++ r) = t :: tl.

Fixpoint slices (ws : list nat) (s : str) : list str :=
  match ws with [] => [] | w :: ws' => take w s :: slices ws' (drop w s) end.

Lemma list_sum_cons w ws : list_sum (w :: ws) = w + list_sum ws.
Proof. reflexivity. Qed.

Lemma concat_len_le ts ws :
  Forall2 (fun (t : str) w => length t <= w) ts ws -> length (concat ts) <= list_sum ws.
Proof. induction 1; [cbn; lia|]. cbn [concat]. rewrite app_length, list_sum_cons. lia. Qed.

Lemma lengths_exact ts ws :
  Forall2 (fun (t : str) w => length t <= w) ts ws -> length (concat ts) = list_sum ws ->
  Forall2 (fun (t : str) w => length t = w) ts ws.
Proof.
  induction 1 as [|t w ts ws Ht Hf IH]; intros Hs; [constructor|].
  pose proof (concat_len_le _ _ Hf). cbn [concat] in Hs. rewrite app_length, list_sum_cons in Hs.
  constructor; [lia|]. apply IH. lia.
Qed.

Lemma slices_concat ts ws rest :
  Forall2 (fun (t : str) w => length t = w) ts ws -> slices ws (concat ts ++ rest) = ts.
Proof.
  induction 1 as [|t w ts ws Ht Hf IH]; [reflexivity|].
  cbn. rewrite <- app_assoc. unfold take, drop. subst w.
  rewrite firstn_app, Nat.sub_diag, firstn_all. cbn. rewrite app_nil_r.
  rewrite skipn_app, Nat.sub_diag, skipn_all. cbn. f_equal. apply IH.
Qed.

Lemma matched_bounded g w t : bounded g w -> matched g t = true -> 1 <= length t <= w.
Proof. intros Hb H. destruct (matched_len _ _ H) as [a [Ha [Hl _]]]. rewrite Hl. now apply Hb. Qed.

(* exact-length soundness: if the widths add up to the length, every piece has full width *)
Lemma rmatch_sound_exact gs ws s ts :
  Forall2 bounded gs ws -> rmatch gs s = Some (ts, []) -> length s = list_sum ws ->
  ts = slices ws s /\ Forall2 (fun g t => matched g t = true) gs ts.
Proof.
  intros Hb H Hl. destruct (rmatch_sound _ _ _ _ H) as [Hs Hm]. split; auto.
  assert (Hle : Forall2 (fun (t : str) w => length t <= w) ts ws).
  { clear - Hb Hm. revert ws Hb. induction Hm as [|g t gs ts Hg Hm IH]; intros ws Hb; inversion Hb; subst; constructor.
    - eapply matched_bounded; eauto.
    - now apply IH. }
  rewrite app_nil_r in Hs. subst s. symmetry. rewrite <- (app_nil_r (concat ts)).
  apply slices_concat. now apply lengths_exact.
Qed.

(* completeness with a continuation *)
Lemma rmatch_complete_app gs tail : forall ws s ts2 rest,
  Forall2 head_ok gs ws -> list_sum ws <= length s ->
  Forall2 (fun g t => matched g t = true) gs (slices ws s) ->
  rmatch tail (drop (list_sum ws) s) = Some (ts2, rest) ->
  rmatch (gs ++ tail) s = Some (slices ws s ++ ts2, rest).
Proof.
  induction gs as [|g gs IH]; intros ws s ts2 rest Hh Hl Hm Ht.
  - inversion Hh; subst. cbn in *. exact Ht.
  - inversion Hh as [|g' w gs' ws' Hg Hgs]; subst. cbn [slices] in Hm. inversion Hm as [|? ? ? ? Hm1 Hm2]; subst.
    rewrite list_sum_cons in Hl, Ht.
    assert (Hw : length (take w s) = w) by (unfold take; rewrite firstn_length; lia).
    destruct (Hg (take w s) (drop w s) Hw Hm1) as [tl Hc].
    unfold take, drop in Hc. rewrite firstn_skipn in Hc.
    cbn [app rmatch]. rewrite Hc. cbn [first_some]. fold (take w s). rewrite Hw.
    rewrite (IH ws' (drop w s) ts2 rest); auto.
    + unfold drop. rewrite skipn_length. lia.
    + unfold drop in *. rewrite skipn_skipn, Nat.add_comm. exact Ht.
Qed.

Lemma rmatch_complete gs ws s :
  Forall2 head_ok gs ws -> length s = list_sum ws ->
  Forall2 (fun g t => matched g t = true) gs (slices ws s) ->
  rmatch gs s = Some (slices ws s, []).
Proof.
  intros Hh Hl Hm.
  pose proof (rmatch_complete_app gs [] ws s [] [] Hh) as H. rewrite !app_nil_r in H. apply H; auto; [lia|].
  cbn. unfold drop. rewrite <- Hl, skipn_all. reflexivity.
Qed.

Fixpoint forallb2 {A B} (f : A -> B -> bool) (l : list A) (m : list B) : bool :=
  match l, m with
  | [], [] => true
  | x :: l', y :: m' => f x y && forallb2 f l' m'
  | _, _ => false
  end.
Lemma forallb2_Forall2 {A B} (f : A -> B -> bool) l m :
  forallb2 f l m = true <-> Forall2 (fun x y => f x y = true) l m.
Proof.
  revert m. induction l as [|x l IH]; intros [|y m]; cbn; split; intros H; try discriminate; try constructor;
    try (inversion H; fail).
  - apply andb_prop in H. tauto.
  - apply andb_prop in H. apply IH. tauto.
  - inversion H; subst. apply andb_true_intro. split; auto. now apply IH.
Qed.

(* the exact-length characterisation of a successful, complete match *)
Theorem rmatch_exact gs ws s :
  Forall2 bounded gs ws -> Forall2 head_ok gs ws -> length s = list_sum ws ->
  (match rmatch gs s with Some (ts, []) => Some ts | _ => None end) =
  (if forallb2 matched gs (slices ws s) then Some (slices ws s) else None).
Proof.
  intros Hb Hh Hl. destruct (forallb2 matched gs (slices ws s)) eqn:E.
  - apply forallb2_Forall2 in E. now rewrite (rmatch_complete _ _ _ Hh Hl E).
  - destruct (rmatch gs s) as [[ts [|c r]]|] eqn:R; auto.
    destruct (rmatch_sound_exact _ _ _ _ Hb R Hl) as [-> Hm].
    apply forallb2_Forall2 in Hm. congruence.
Qed.

(* ------------------------------------------------------------------ *)
(* C. the groups of the directives hl7apy uses                          *)

Definition width (t : dtag) : nat := match t with TY => 4 | Tdot => 1 | Tf => 6 | _ => 2 end.
Definition plain_tag (t : dtag) : bool := match t with Tdot | Tf => false | _ => true end.

Lemma bounded_tag t : bounded (group_of t) (width t).
Proof.
  intros a Ha. destruct t; cbn in Ha;
    repeat (destruct Ha as [<-|Ha]; [cbn; lia|]); destruct Ha.
Qed.

Lemma cands2 g x y r : (forall a, In a g -> length a <= 2) -> cands g (x :: y :: r) = cands g [x; y].
Proof.
  intros Hb. unfold cands. induction g as [|a g IH]; [reflexivity|].
  cbn [flat_map]. rewrite IH by (intros; apply Hb; now right). f_equal.
  assert (length a <= 2) as Ha by (apply Hb; now left).
  destruct a as [|p [|q [|z a]]]; cbn in Ha; try lia; cbn; try reflexivity;
    destruct (p x); cbn; try reflexivity; destruct (q y); reflexivity.
Qed.

Definition headb (g : group) (x y : byte) : bool :=
  implb (matched g [x; y]) (match cands g [x; y] with t :: _ => streqb t [x; y] | [] => false end).

Lemma head2 g : (forall a, In a g -> length a <= 2) -> (forall x y, headb g x y = true) -> head_ok g 2.
Proof.
  intros Hb Hh t r Hl Hm. destruct t as [|x [|y [|z t]]]; try discriminate.
  cbn [app]. rewrite cands2 by exact Hb. specialize (Hh x y). unfold headb in Hh. rewrite Hm in Hh. cbn in Hh.
  destruct (cands g [x; y]) as [|t tl]; [discriminate|]. apply streqb_eq in Hh. subst t. now exists tl.
Qed.

Lemma le2_of_bounded t : plain_tag t = true -> t <> TY -> forall a, In a (group_of t) -> length a <= 2.
Proof. intros Hp Hn a Ha. pose proof (bounded_tag t a Ha). destruct t; cbn in *; try congruence; lia. Qed.

Lemma headb_m : forall x y, headb re_m x y = true. Proof. brute2. Qed.
Lemma headb_d : forall x y, headb re_d x y = true. Proof. brute2. Qed.
Lemma headb_H : forall x y, headb re_H x y = true. Proof. brute2. Qed.
Lemma headb_M : forall x y, headb re_M x y = true. Proof. brute2. Qed.
Lemma headb_S : forall x y, headb re_S x y = true. Proof. brute2. Qed.

Lemma head_Y : head_ok re_Y 4.
Proof.
  intros t r Hl Hm. destruct t as [|a [|b [|c [|d [|e t]]]]]; try discriminate.
  unfold matched in Hm. cbn in Hm. rewrite orb_false_r in Hm.
  unfold cands. cbn. rewrite Hm. now exists [].
Qed.

Lemma head_tag t : plain_tag t = true -> head_ok (group_of t) (width t).
Proof.
  intros Hp. destruct t; try discriminate; cbn [group_of width].
  - exact head_Y.
  - apply head2; [apply (le2_of_bounded Tm); [auto|discriminate]|exact headb_m].
  - apply head2; [apply (le2_of_bounded Td); [auto|discriminate]|exact headb_d].
  - apply head2; [apply (le2_of_bounded TH); [auto|discriminate]|exact headb_H].
  - apply head2; [apply (le2_of_bounded TMi); [auto|discriminate]|exact headb_M].
  - apply head2; [apply (le2_of_bounded TS); [auto|discriminate]|exact headb_S].
Qed.

Lemma bounded_fmt f : Forall2 bounded (map group_of f) (map width f).
Proof. induction f; cbn; constructor; auto using bounded_tag. Qed.
Lemma head_fmt f : forallb plain_tag f = true -> Forall2 head_ok (map group_of f) (map width f).
Proof.
  induction f as [|t f IH]; cbn; intros H; constructor; apply andb_prop in H; destruct H; auto using head_tag.
Qed.

Definition fmt_len (f : list dtag) : nat := list_sum (map width f).

(* strptime on input of exactly the format's width, formats without a fraction *)
Theorem strptime_exact f s :
  forallb plain_tag f = true -> length s = fmt_len f ->
  strptime s f =
    if forallb2 matched (map group_of f) (slices (map width f) s)
    then (let v := set_fields dtv0 f (slices (map width f) s) in
          if dtv_valid v then Ok v else Err PyValueError)
    else Err PyValueError.
Proof.
  intros Hp Hl. pose proof (rmatch_exact _ _ s (bounded_fmt f) (head_fmt f Hp) Hl) as H.
  unfold strptime. destruct (rmatch (map group_of f) s) as [[ts [|c r]]|];
    destruct (forallb2 matched (map group_of f) (slices (map width f) s)); try discriminate; try reflexivity.
  injection H as ->. reflexivity.
Qed.

(* ---- the fraction: ... \.(?P<f>[0-9]{1,6}) with hl7apy's test that the point is where it
   should be *)

Definition dot_free (g : group) : bool := forallb (fun a => forallb (fun p : byte -> bool => negb (p c_dot)) a) g.

Lemma alt_no_dot a : forallb (fun p : byte -> bool => negb (p c_dot)) a = true ->
  forall t, alt_match a t = true -> length t = length a -> bmem c_dot t = false.
Proof.
  induction a as [|p a IH]; intros Ha t Hm Hl.
  - destruct t; [reflexivity|discriminate].
  - destruct t as [|c t]; [discriminate|]. cbn in Ha, Hm, Hl.
    apply andb_prop in Ha. destruct Ha as [Hp Ha]. apply andb_prop in Hm. destruct Hm as [Hc Hm].
    unfold bmem, mem. cbn. fold (mem beqb c_dot t). fold (bmem c_dot t).
    rewrite (IH Ha t Hm) by lia. rewrite orb_false_r.
    destruct (beqb_spec c c_dot) as [->|]; auto. rewrite Hc in Hp. discriminate.
Qed.

Lemma matched_no_dot g t : dot_free g = true -> matched g t = true -> bmem c_dot t = false.
Proof.
  intros Hd Hm. destruct (matched_len _ _ Hm) as [a [Ha [Hl Hma]]].
  unfold dot_free in Hd. rewrite forallb_forall in Hd. eapply alt_no_dot; eauto.
Qed.

Lemma bmem_app c x y : bmem c (x ++ y) = bmem c x || bmem c y.
Proof. unfold bmem, mem. now rewrite existsb_app. Qed.

Lemma concat_no_dot gs ts : forallb dot_free gs = true ->
  Forall2 (fun g t => matched g t = true) gs ts -> bmem c_dot (concat ts) = false.
Proof.
  intros Hd Hm. induction Hm as [|g t gs ts Hg Hm IH]; [reflexivity|].
  cbn in Hd. apply andb_prop in Hd. destruct Hd as [H1 H2]. cbn [concat]. rewrite bmem_app, (matched_no_dot _ _ H1 Hg).
  now apply IH.
Qed.

Lemma nth_error_In_bmem (s : str) k c : nth_error s k = Some c -> bmem c s = true.
Proof.
  intros H. apply nth_error_In in H. unfold bmem, mem. apply existsb_exists. exists c. split; auto. apply beqb_refl.
Qed.

(* the unique point of x ++ "." ++ y, x and y free of points, is at |x| *)
Lemma unique_dot x y k : bmem c_dot x = false -> bmem c_dot y = false ->
  nth_error (x ++ c_dot :: y) k = Some c_dot -> k = length x.
Proof.
  intros Hx Hy H. destruct (Nat.lt_trichotomy k (length x)) as [L|[E|G]]; auto.
  - rewrite nth_error_app1 in H by lia. apply nth_error_In_bmem in H. congruence.
  - rewrite nth_error_app2 in H by lia. destruct (k - length x) as [|j] eqn:J; [lia|].
    cbn in H. apply nth_error_In_bmem in H. congruence.
Qed.

Lemma matched_dot t : matched re_dot t = true -> t = [c_dot].
Proof.
  intros H. destruct t as [|c [|d t]]; try discriminate. unfold matched in H. cbn in H.
  rewrite orb_false_r, andb_true_r in H. apply beqb_eq in H. now subst.
Qed.

Lemma matched_f t : matched re_f t = true -> all_dig t = true /\ 1 <= length t <= 6.
Proof.
  intros H. destruct (matched_len _ _ H) as [a [Ha [Hl Hm]]]. cbn in Ha.
  assert (Hd : forall (a : alt) t, Forall (fun p => p = dg) a -> alt_match a t = true -> length t = length a -> all_dig t = true).
  { clear. induction a as [|p a IH]; intros t Hf Hm Hl; destruct t as [|c t]; try discriminate; auto.
    inversion Hf as [|? ? Hp0 Hf0]; subst. cbn in Hm. apply andb_prop in Hm. destruct Hm as [Hc1 Hc2]. cbn. unfold dg in Hc1. rewrite Hc1.
    apply IH; auto. }
  repeat (destruct Ha as [<-|Ha]; [split; [apply (Hd _ t) in Hm; auto; repeat constructor|cbn in Hl; lia]|]).
  destruct Ha.
Qed.

Lemma Forall2_app_inv_l' {A B} (R : A -> B -> Prop) l1 l2 m :
  Forall2 R (l1 ++ l2) m -> exists m1 m2, m = m1 ++ m2 /\ Forall2 R l1 m1 /\ Forall2 R l2 m2.
Proof. intros H. apply Forall2_app_inv_l in H. destruct H as [m1 [m2 [H1 [H2 ->]]]]. eauto. Qed.

Lemma rmatch_frac_sound gs ws s ts :
  Forall2 bounded gs ws -> forallb dot_free gs = true ->
  rmatch (gs ++ [re_dot; re_f]) s = Some (ts, []) ->
  nth_error s (list_sum ws) = Some c_dot ->
  exists fr, ts = slices ws s ++ [[c_dot]; fr] /\ s = take (list_sum ws) s ++ c_dot :: fr /\
             Forall2 (fun g t => matched g t = true) gs (slices ws s) /\
             all_dig fr = true /\ 1 <= length fr <= 6.
Proof.
  intros Hb Hd H Hn. destruct (rmatch_sound _ _ _ _ H) as [Hs Hm]. rewrite app_nil_r in Hs.
  apply Forall2_app_inv_l' in Hm. destruct Hm as [ts1 [ts2 [-> [Hm1 Hm2]]]].
  revert Hs Hn H.
  inversion Hm2 as [|g1 td l1 l2 Hdot Hm3]; subst. inversion Hm3 as [|g2 fr l3 l4 Hf Hm4]; subst.
  inversion Hm4; subst. intros Hs Hn H. apply matched_dot in Hdot. subst td. destruct (matched_f _ Hf) as [Hfd Hfl].
  rewrite concat_app in Hs. cbn in Hs. rewrite app_nil_r in Hs.
  assert (Hnd : bmem c_dot (concat ts1) = false) by (eapply concat_no_dot; eauto).
  assert (Hfn : bmem c_dot fr = false).
  { clear - Hfd. induction fr as [|c fr IH]; [reflexivity|]. cbn in Hfd. apply andb_prop in Hfd. destruct Hfd as [Hc Hr].
    unfold bmem, mem. cbn. fold (mem beqb c_dot fr). fold (bmem c_dot fr). rewrite (IH Hr), orb_false_r.
    destruct (beqb_spec c c_dot) as [->|]; first [reflexivity | vm_compute in Hc; discriminate]. }
  rewrite Hs in Hn. apply unique_dot in Hn; auto.
  assert (Hle : Forall2 (fun (t : str) w => length t <= w) ts1 ws).
  { clear - Hb Hm1. revert ws Hb. induction Hm1; intros ws Hb; inversion Hb; subst; constructor; auto.
    eapply matched_bounded; eauto. }
  assert (Hex : Forall2 (fun (t : str) w => length t = w) ts1 ws) by (apply lengths_exact; auto).
  assert (Hsl : slices ws s = ts1) by (rewrite Hs; apply slices_concat; auto).
  exists fr. rewrite Hsl. repeat split; auto; try lia.
  rewrite Hs at 2. unfold take. rewrite Hn, firstn_app, Nat.sub_diag, firstn_all. cbn. rewrite app_nil_r. exact Hs.
Qed.

Lemma rmatch_dot_f fr : all_dig fr = true -> 1 <= length fr <= 4 ->
  rmatch [re_dot; re_f] (c_dot :: fr) = Some ([[c_dot]; fr], []).
Proof.
  intros Hd Hl. destruct fr as [|a [|b [|c [|d [|e fr]]]]]; cbn in Hl; try lia; cbn in Hd;
    repeat (apply andb_prop in Hd; destruct Hd as [? Hd]);
    cbn; unfold dg; repeat match goal with H : is_digit _ = true |- _ => rewrite H; clear H end; reflexivity.
Qed.

(* strptime for HHMMSS.f-style formats: f0 plain, then the point and 1-4 digits *)
Theorem strptime_frac f0 s :
  forallb plain_tag f0 = true -> forallb dot_free (map group_of f0) = true ->
  nth_error s (fmt_len f0) = Some c_dot -> fmt_len f0 + 2 <= length s <= fmt_len f0 + 5 ->
  let p := fmt_len f0 in
  let ts := slices (map width f0) s ++ [[c_dot]; drop (p + 1) s] in
  strptime s (f0 ++ [Tdot; Tf]) =
    if forallb2 matched (map group_of f0) (slices (map width f0) s) && all_dig (drop (p + 1) s)
    then (let v := set_fields dtv0 (f0 ++ [Tdot; Tf]) ts in if dtv_valid v then Ok v else Err PyValueError)
    else Err PyValueError.
Proof.
  intros Hp Hd Hn Hl p ts.
  assert (Hsplit : s = take p s ++ c_dot :: drop (p + 1) s).
  { unfold take, drop. rewrite <- (firstn_skipn p s) at 1. f_equal.
    rewrite <- (firstn_skipn p s) in Hn. rewrite nth_error_app2 in Hn by (rewrite firstn_length; lia).
    rewrite firstn_length, Nat.min_l, Nat.sub_diag in Hn by (unfold p; lia).
    rewrite Nat.add_comm. rewrite <- skipn_skipn. destruct (skipn p s) as [|c r]; [discriminate|].
    cbn in Hn. injection Hn as ->. reflexivity. }
  assert (Hfl : length (drop (p + 1) s) = length s - (p + 1)) by (unfold drop; apply skipn_length).
  unfold strptime. rewrite map_app. cbn [map group_of].
  destruct (forallb2 matched (map group_of f0) (slices (map width f0) s) && all_dig (drop (p + 1) s)) eqn:E.
  - apply andb_prop in E. destruct E as [E1 E2]. apply forallb2_Forall2 in E1.
    rewrite (rmatch_complete_app (map group_of f0) [re_dot; re_f] (map width f0) s [[c_dot]; drop (p + 1) s] []);
      auto using head_fmt.
    + fold (fmt_len f0). fold p. lia.
    + fold (fmt_len f0). fold p.
      assert (drop p s = c_dot :: drop (p + 1) s) as ->.
      { rewrite Hsplit at 1. unfold drop, take. rewrite skipn_app, firstn_length, Nat.min_l by (unfold p; lia).
        rewrite Nat.sub_diag, skipn_all2 by (rewrite firstn_length; lia). reflexivity. }
      apply rmatch_dot_f; auto. fold p in Hl. lia.
  - destruct (rmatch (map group_of f0 ++ [re_dot; re_f]) s) as [[ts' [|c r]]|] eqn:R; auto.
    exfalso. destruct (rmatch_frac_sound _ _ _ _ (bounded_fmt f0) Hd R Hn) as [fr [_ [Hs [Hm [Hfd _]]]]].
    fold (fmt_len f0) in Hs. fold p in Hs.
    assert (fr = drop (p + 1) s) as ->.
    { rewrite Hs. unfold drop, take. rewrite skipn_app, firstn_length, Nat.min_l by (unfold p; lia).
      rewrite skipn_all2 by (rewrite firstn_length; lia).
      replace (p + 1 - p) with 1 by lia. reflexivity. }
    apply forallb2_Forall2 in Hm. rewrite Hm, Hfd in E. discriminate.
Qed.
