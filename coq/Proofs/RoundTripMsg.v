(* The message level of C01: parse_message followed by to_er7 on a message made of an MSH line and
   segment lines joined by CR (Model/Message.v, TOLERANT).  Generic in how each line round-trips:
   the segment theorems of RoundTripSeg.v / RoundTripZ.v / RoundTripMsh.v supply that. *)
From Coq Require Import List Bool Arith ZArith NArith Lia Init.Byte.
From HL7 Require Import Lib.Str Model.Ec Model.Result Model.Header Model.Ref Model.Tree Model.Parser Model.Encode
  Model.Leaf Model.MsgTree Model.Groups Model.Message.
From HL7 Require Import Proofs.PiecesFacts Proofs.SplitJoin Proofs.LevelCodec Proofs.RoundTripStr Proofs.RoundTripCore
  Proofs.RoundTripMsh Proofs.RoundTripTables Proofs.GroupsFacts Proofs.GroupsMirror Proofs.GroupsEnc Proofs.NoDrop
  Proofs.EncodeLeaves.
Import ListNotations.
Open Scope bs_scope.
Open Scope res_scope.

(* ------------------------------------------------------------------ *)
(* the header                                                           *)

Lemma first_line_free l : bmem CR l = false -> first_line l = l.
Proof.
  induction l as [|c l IH]; [reflexivity|]. unfold bmem, mem. cbn [existsb]. intros H.
  apply orb_false_elim in H. destruct H as [Hc Hl]. cbn [first_line]. rewrite Hc. f_equal. now apply IH.
Qed.

Lemma first_line_app l rest : bmem CR l = false -> first_line (l ++ CR :: rest) = l.
Proof.
  induction l as [|c l IH]; intros H.
  - reflexivity.
  - unfold bmem, mem in H. cbn [existsb] in H. apply orb_false_elim in H. destruct H as [Hc Hl].
    cbn [app first_line]. rewrite Hc. f_equal. now apply IH.
Qed.

Lemma first_line_join l ls : bmem CR l = false -> first_line (bjoin CR (l :: ls)) = l.
Proof.
  intros H. destruct ls as [|l2 ls]; [now apply first_line_free|].
  change (bjoin CR (l :: l2 :: ls)) with (l ++ CR :: bjoin CR (l2 :: ls)). now apply first_line_app.
Qed.

Lemma NoDup_nodupb (l : list byte) : NoDup l -> nodupb beqb l = true.
Proof.
  induction 1 as [|x l Hx _ IH]; [reflexivity|]. cbn [nodupb]. rewrite IH, andb_true_r.
  apply negb_true_iff. apply bmem_notin. exact Hx.
Qed.

(* the delimiter set as the header spells it *)
Definition ec_header_ok (e : ec) : Prop :=
  NoDup (ec_all e) /\ forall c, In c (ec_all e) -> is_space c = false.
(* the field separator is none of the letters M, S, H *)
Definition fsep_not_msh (e : ec) : Prop := bmem (fsep e) MSH = false.

Lemma ec_header_ok_ec_ok e : ec_header_ok e -> ec_ok e.
Proof.
  intros [Hn Hs]. split.
  - unfold ec_all, ec_required in Hn.
    assert (N5 : NoDup [fsep e; csep e; ssep e; rsep e; esc e]) by exact (NoDup_app_l _ _ Hn).
    assert (P : Permutation.Permutation [fsep e; csep e; ssep e; rsep e; esc e] [fsep e; csep e; rsep e; ssep e; esc e]).
    { do 2 constructor. apply Permutation.perm_swap. }
    exact (Permutation.Permutation_NoDup P N5).
  - intros c Hc. apply Hs. unfold ec_all, ec_required. apply in_or_app. left. cbn [In] in *. tauto.
Qed.

Section Header.
Variable e : ec.
Hypothesis He : ec_header_ok e.
Hypothesis Hfm : fsep_not_msh e.

(* the MSH line: MSH, MSH-2 = the delimiters, then the header fields hf (MSH-3 ...) *)
Variable hf : list str.
Hypothesis Hhf : Forall (fun f => bmem (fsep e) f = false /\ bmem CR f = false) hf.
(* a truncation character is only accepted when MSH-12 says 2.7 or later *)
Hypothesis Htr : forall tr, tsep e = Some tr -> exists vf, nth_error hf 9 = Some vf /\ ge_27 vf = true.

Definition msh_line : str := bjoin (fsep e) (MSH :: msh2_of e :: hf).
Definition msh_fields : list str := MSH :: msh2_of e :: hf.

Lemma msh2_clean : is_blank (msh2_of e) = false /\ bmem (fsep e) (msh2_of e) = false /\ bmem CR (msh2_of e) = false.
Proof. destruct He as [Hn Hs]. now apply msh2_props. Qed.

Lemma msh_line_no_cr : bmem CR msh_line = false.
Proof.
  unfold msh_line. apply bmem_bjoin.
  - intros E. destruct He as [_ Hs].
    assert (is_space (fsep e) = false) as X by (apply Hs; unfold ec_all, ec_required; cbn; tauto).
    rewrite <- E in X. discriminate.
  - constructor; [reflexivity|]. constructor; [exact (proj2 (proj2 msh2_clean))|].
    eapply Forall_impl; [|exact Hhf]. intros f [_ H]. exact H.
Qed.

Lemma msh_line_fields : bsplit (fsep e) msh_line = msh_fields.
Proof.
  unfold msh_line, msh_fields. apply bsplit_bjoin; [discriminate|].
  cbn [forallb].
  assert (F : is_space (fsep e) = false) by (destruct He as [_ Hs]; apply Hs; unfold ec_all, ec_required; cbn; tauto).
  assert (nosep beqb (fsep e) MSH = true) as -> by (apply nosep_of_bmem; exact Hfm).
  rewrite (nosep_of_bmem _ _ (proj1 (proj2 msh2_clean))). cbn [andb].
  rewrite forallb_forall. intros f Hf. rewrite Forall_forall in Hhf. apply nosep_of_bmem. exact (proj1 (Hhf f Hf)).
Qed.

Lemma msh2_nodup : nodupb beqb (msh2_of e) = true /\ existsb is_space (msh2_of e) = false.
Proof.
  destruct He as [Hn Hs]. split.
  - apply NoDup_nodupb. unfold ec_all, ec_required in Hn. cbn [app] in Hn. inversion Hn as [|? ? _ Hn']; subst.
    unfold msh2_of.
    assert (P : Permutation.Permutation (csep e :: ssep e :: rsep e :: esc e :: match tsep e with Some t => [t] | None => [] end)
                                        ([csep e; rsep e; esc e; ssep e] ++ match tsep e with Some t => [t] | None => [] end)).
    { cbn [app]. constructor.
      apply Permutation.perm_trans with (rsep e :: ssep e :: esc e :: match tsep e with Some t => [t] | None => [] end).
      - apply Permutation.perm_swap.
      - constructor. apply Permutation.perm_swap. }
    exact (Permutation.Permutation_NoDup P Hn').
  - destruct (existsb is_space (msh2_of e)) eqn:E; [|reflexivity]. apply existsb_exists in E. destruct E as [c [Hc Hsp]].
    assert (In c (ec_all e)) as Hin.
    { unfold msh2_of in Hc. unfold ec_all, ec_required. destruct (tsep e); cbn [app In] in *; tauto. }
    rewrite (Hs c Hin) in Hsp. discriminate.
Qed.

Lemma split_msh_header rest :
  split_msh (bjoin CR (msh_line :: rest)) = Ok (msh_fields, e).
Proof.
  unfold split_msh.
  assert (F : is_space (fsep e) = false) by (destruct He as [_ Hs]; apply Hs; unfold ec_all, ec_required; cbn; tauto).
  assert (Hsep : msh_field_sep (bjoin CR (msh_line :: rest)) = Some (fsep e)).
  { assert (E : exists tl, bjoin CR (msh_line :: rest) = "M"%byte :: "S"%byte :: "H"%byte :: fsep e :: tl).
    { unfold msh_line. destruct rest as [|r rest]; cbn [bjoin join MSH unbs app]; eexists; reflexivity. }
    destruct E as [tl ->]. cbn [msh_field_sep]. rewrite !beqb_refl, F. reflexivity. }
  rewrite Hsep, (first_line_join _ _ msh_line_no_cr), msh_line_fields.
  unfold msh_fields. unfold nth_str. change (nth_error (MSH :: msh2_of e :: hf) 1) with (Some (msh2_of e)).
  cbn [bind]. destruct msh2_nodup as [N S]. rewrite N, S. cbn [negb].
  change (nth_error (MSH :: msh2_of e :: hf) 11) with (nth_error hf 9).
  unfold msh2_of in *. destruct e as [f c r es s ts]. cbn [Ec.csep Ec.rsep Ec.esc Ec.ssep Ec.tsep Ec.fsep] in *.
  destruct ts as [tr|]; cbn [app]; [|reflexivity].
  destruct (Htr tr eq_refl) as [vf [Hv Hg]]. now rewrite Hv, Hg.
Qed.

End Header.

(* ------------------------------------------------------------------ *)
(* lines                                                                *)

(* pieces_lines: Proofs/PiecesFacts.v (the lines must be stripped: parse_segments strips the piece first) *)

Section Flat.
Variable t : tables.
Variable e : ec.
Variable leaf : option str -> str -> result str.

Lemma parse_flat_all : forall lines segs,
  Forall2 (fun l s => parse_segment t TOLERANT e leaf (strip l) None = Ok s) lines segs ->
  parse_flat t TOLERANT e leaf lines = Ok (map NSeg segs).
Proof.
  induction 1 as [|l s lines segs H _ IH]; [reflexivity|].
  cbn [parse_flat map]. unfold seg_of_piece. now rewrite H, IH.
Qed.

(* a segment name the message accepts under TOLERANT *)
Definition known_name (sn : str) : Prop :=
  valid_z_segment_name (upper sn) = true \/ opt_is_some (slookup (upper sn) (t_segments t)) = true.

Lemma find_child_check_known pname st sn : known_name sn ->
  find_child_check t TOLERANT true pname st sn = Ok tt.
Proof.
  intros H. unfold find_child_check.
  destruct (match st with Some s => has_map st && _ | None => false end); [reflexivity|].
  destruct H as [H|H]; rewrite H; [reflexivity|].
  destruct (valid_z_segment_name (upper sn)); reflexivity.
Qed.

Lemma add_all_segs : forall segs m,
  Forall (fun s => known_name (s_name s)) segs ->
  add_all TOLERANT t m (map NSeg segs) = Ok (mk_message (m_name m) (m_st m) (m_children m ++ map NSeg segs)).
Proof.
  induction segs as [|s segs IH]; intros m H.
  - cbn [map add_all]. rewrite app_nil_r. now destruct m.
  - inversion H as [|? ? Hs Hr]; subst. cbn [map add_all node_str_name node_name].
    unfold child_acceptance. rewrite (find_child_check_known _ _ _ Hs). cbn [bind].
    unfold child_card_ok. cbn [is_strict negb bind].
    rewrite (IH _ Hr). cbn [m_name m_st m_children]. now rewrite <- app_assoc.
Qed.

End Flat.

(* ------------------------------------------------------------------ *)
(* the whole message, find_groups = false                               *)

Lemma new_message_children lvl t e name m : new_message lvl t e name = Ok m -> m_children m = [].
Proof.
  unfold new_message. intros H.
  match type of H with bind ?r _ = _ => destruct r as [m1|] eqn:E1; cbn [bind] in H; [|discriminate] end.
  destruct (opt_is_none (m_name m1) && is_strict lvl); [discriminate|].
  repeat match type of H with bind ?r _ = _ => destruct r; cbn [bind] in H; [|discriminate] end.
  injection H as <-.
  destruct name as [n0|]; [|now injection E1 as <-].
  destruct (slookup (upper n0) (t_messages t)).
  - destruct (parse_structure t s); cbn [bind] in E1; [|discriminate]. now injection E1 as <-.
  - destruct (valid_z_message_name (Some n0)); [|discriminate].
    destruct (parse_structure t empty_seq); cbn [bind] in E1; [|discriminate]. now injection E1 as <-.
Qed.

Section MsgFlat.
Variable lib : str -> option tables.
Variable dflt : str.
Variable t : tables.
Variable e : ec.
Hypothesis He : ec_header_ok e.
Hypothesis Hfm : fsep_not_msh e.
Variable hf : list str.
Hypothesis Hhf : Forall (fun f => bmem (fsep e) f = false /\ bmem CR f = false) hf.
Hypothesis Htr : forall tr, tsep e = Some tr -> exists vf, nth_error hf 9 = Some vf /\ ge_27 vf = true.

(* what get_message_info reads from the header: MSH-9 and MSH-12 *)
Definition hdr_structure : option str :=
  match nth_error hf 6 with Some f => message_structure_of e (strip f) | None => None end.
Definition hdr_version : option str :=
  match nth_error hf 9 with Some f => nth_error (bsplit (csep e) (strip f)) 0 | None => None end.
Definition msg_version : str := match hdr_version with Some v => v | None => dflt end.

Lemma get_message_info_header rest :
  get_message_info (bjoin CR (msh_line e hf :: rest)) = Ok (e, hdr_structure, hdr_version).
Proof.
  unfold get_message_info. rewrite (split_msh_header e He Hfm hf Hhf Htr rest). cbn [bind].
  unfold msh_fields, hdr_structure, hdr_version.
  change (nth_error (MSH :: msh2_of e :: hf) 8) with (nth_error hf 6).
  change (nth_error (MSH :: msh2_of e :: hf) 11) with (nth_error hf 9). reflexivity.
Qed.

Hypothesis Hlib : lib msg_version = Some t.
(* the truncation character is only read back by to_er7 for versions from 2.7 on *)
Hypothesis Htv : forall tr, tsep e = Some tr -> ge_27 (t_version t) = true.

Notation leaf := (leaf_enc msg_version TOLERANT e).

Definition genc (s : seg) : str := match enc_segment t e s false with Ok x => x | Err _ => [] end.

Theorem message_flat_roundtrip (lines : list str) (s0 : seg) (segs : list seg) (m0 : message) :
  (* the Message constructor accepts the header *)
  (match new_message TOLERANT t e hdr_structure with
   | Err (HL7 EInvalidName) => new_message TOLERANT t e None
   | r => r end) = Ok m0 ->
  (* every line is a non-empty, CR-free text without surrounding white space that parses to a
     segment with an acceptable name, which encodes back to the line *)
  Forall (fun l => l <> [] /\ bmem CR l = false /\ strip l = l) lines ->
  strip (msh_line e hf) = msh_line e hf ->
  Forall2 (fun l s => parse_segment t TOLERANT e leaf l None = Ok s /\ enc_segment t e s false = Ok l /\
                      known_name t (s_name s)) (msh_line e hf :: lines) (s0 :: segs) ->
  s_name s0 = MSH -> field_value s0 (unbs "MSH_1") = Some [fsep e] -> field_value s0 (unbs "MSH_2") = Some (msh2_of e) ->
  let text := bjoin CR (msh_line e hf :: lines) in
  exists m, parse_message lib dflt TOLERANT false text = Ok (t, m) /\ enc_message t TOLERANT m = Ok text.
Proof.
  intros Hnew Hlines Hstrip0 Hrt Hn0 Hv1 Hv2 text.
  assert (Hl0 : msh_line e hf <> [] /\ bmem CR (msh_line e hf) = false /\ strip (msh_line e hf) = msh_line e hf).
  { split; [|split; [apply (msh_line_no_cr e He hf Hhf)|exact Hstrip0]].
    unfold msh_line. cbn [bjoin join MSH unbs app]. destruct hf; discriminate. }
  assert (Hall : Forall (fun l => l <> [] /\ bmem CR l = false /\ strip l = l) (msh_line e hf :: lines)) by (constructor; assumption).
  assert (Hlstrip : lstrip text = text).
  { assert (E : exists tl, text = "M"%byte :: tl).
    { subst text. unfold msh_line. destruct lines; cbn [bjoin join MSH unbs app]; eexists; reflexivity. }
    destruct E as [tl E]. rewrite E. reflexivity. }
  assert (Hch0 : m_children m0 = []).
  { destruct (new_message TOLERANT t e hdr_structure) as [m1|ex] eqn:E1.
    - injection Hnew as <-. exact (new_message_children _ _ _ _ _ E1).
    - destruct ex as [c| | |]; try discriminate. destruct c; try discriminate. exact (new_message_children _ _ _ _ _ Hnew). }
  set (m := mk_message (m_name m0) (m_st m0) (map NSeg (s0 :: segs))).
  exists m. split.
  - unfold parse_message. rewrite Hlstrip. subst text. rewrite get_message_info_header. cbn [bind].
    fold msg_version. rewrite Hlib. cbn [bind]. rewrite Hnew. cbn [bind].
    assert (Hflat : parse_segments_flat t TOLERANT e leaf (bjoin CR (msh_line e hf :: lines)) = Ok (map NSeg (s0 :: segs))).
    { unfold parse_segments_flat. rewrite pieces_lines; [|discriminate|].
      - apply parse_flat_all. clear -Hrt Hall. revert Hall. induction Hrt as [|l s ls ss [Hp _] _ IH]; intros Hall; [constructor|].
        inversion Hall as [|? ? [_ [_ Hs]] Hr]; subst. constructor; [now rewrite Hs|now apply IH].
      - exact Hall. }
    assert (Hkids : (match m_st m0 with Some st => parse_segments_flat t TOLERANT e leaf (bjoin CR (msh_line e hf :: lines))
                                    | None => parse_segments_flat t TOLERANT e leaf (bjoin CR (msh_line e hf :: lines)) end)
                    = Ok (map NSeg (s0 :: segs))) by (destruct (m_st m0); exact Hflat).
    cbv beta iota.
    rewrite Hkids. cbn [bind].
    rewrite (add_all_segs t (s0 :: segs) m0).
    + rewrite Hch0. cbn [app bind]. reflexivity.
    + clear -Hrt. induction Hrt as [|l s ls ss [_ [_ Hk]] _ IH]; constructor; assumption.
  - unfold enc_message. subst m. cbn [m_children m_st].
    assert (Hec : message_ec (t_version t) (mk_message (m_name m0) (m_st m0) (map NSeg (s0 :: segs))) = Ok e).
    { unfold message_ec. cbn [m_children map first_msh]. rewrite Hn0.
      change (streqb MSH (unbs "MSH")) with true. cbv iota. rewrite Hv1, Hv2.
      unfold msh2_of. destruct e as [f c r es s ts]. cbn [Ec.csep Ec.rsep Ec.esc Ec.ssep Ec.tsep Ec.fsep] in *.
      destruct ts as [tr|]; cbn [app length Nat.eqb].
      - rewrite (Htv tr eq_refl). reflexivity.
      - now rewrite andb_false_r. }
    rewrite Hec. cbn [bind].
    assert (Hmap : map genc (s0 :: segs) = msh_line e hf :: lines).
    { clear -Hrt. induction Hrt as [|l s ls ss [_ [Henc _]] _ IH]; [reflexivity|].
      cbn [map]. f_equal; [unfold genc; now rewrite Henc|exact IH]. }
    rewrite (enc_children_flat t e genc (m_st m0) (s0 :: segs)).
    + now rewrite Hmap.
    + clear -Hrt. induction Hrt as [|l s ls ss [_ [Henc _]] _ IH]; constructor; [|assumption].
      unfold genc. now rewrite Henc.
Qed.

End MsgFlat.

(* ------------------------------------------------------------------ *)
(* the name of a parsed segment                                         *)

Lemma mk_segment_name t name reference s0 : mk_segment t name reference = Ok s0 -> s_name s0 = upper name.
Proof.
  unfold mk_segment. intros H0.
  repeat match type of H0 with
         | (if ?b then _ else _) = _ => destruct b
         | bind ?r _ = _ => destruct r; cbn [bind] in H0; try discriminate
         | match ?x with _ => _ end = _ => destruct x; try discriminate
         end; try discriminate; injection H0 as <-; reflexivity.
Qed.

Lemma parse_segment_name t lvl e leaf text reference s :
  parse_segment t lvl e leaf text reference = Ok s -> s_name s = upper (seg_name_of text).
Proof.
  unfold parse_segment, parse_segment_in. intros H.
  destruct (mk_segment t (seg_name_of text) reference) as [s0|] eqn:H0; cbn [bind] in H; try discriminate.
  match type of H with bind ?r _ = _ => destruct r as [kids|] eqn:Hk; cbn [bind] in H; try discriminate end.
  apply NoDrop.add_fields_appends in H. destruct H as [_ H]. rewrite H. now apply mk_segment_name in H0.
Qed.

(* ------------------------------------------------------------------ *)
(* find_groups = true: every segment of the grouped parse is the segment of the flat parse   *)

(* a Segment object remembers the reference it was built with *)
Lemma parse_structure_ref t r st : parse_structure t r = Ok st -> st_reference st = r.
Proof.
  unfold parse_structure. destruct (view_of t r) as [i|c cs i|]; try discriminate.
  - intros H. now injection H as <-.
  - destruct (parse_children cs [] [] [] [] []) as [[[[o b] l] rp]|]; [|discriminate]. intros H. now injection H as <-.
Qed.

Lemma valid_z_upper n : valid_z_segment_name (upper n) = valid_z_segment_name n.
Proof. unfold valid_z_segment_name. now rewrite upper_idem, upper_length. Qed.

(* the segment's own structure reference: the table entry of its name, or the empty structure of
   a Z-segment *)
Definition own_ref_ok (t : tables) (s : seg) : Prop :=
  (valid_z_segment_name (s_name s) = true /\ st_reference (s_st s) = empty_seq) \/
  (valid_z_segment_name (s_name s) = false /\ slookup (s_name s) (t_segments t) = Some (st_reference (s_st s))).

Lemma mk_segment_st t name reference s0 : mk_segment t name reference = Ok s0 ->
  s_name s0 = upper name /\
  match reference with
  | Some sr => st_reference (s_st s0) = sr
  | None => own_ref_ok t s0
  end.
Proof.
  intros H. pose proof (mk_segment_name t name reference s0 H) as Hn. split; [exact Hn|].
  unfold own_ref_ok. rewrite Hn, valid_z_upper.
  unfold mk_segment in H. destruct (valid_z_segment_name name) eqn:Ez.
  - destruct (parse_structure t (match reference with Some r => r | None => empty_seq end)) as [st|] eqn:Ep; cbn [bind] in H; [|discriminate].
    injection H as <-. cbn [s_st]. apply parse_structure_ref in Ep. destruct reference; [exact Ep|left; auto].
  - destruct (structure_for t SEG (upper name) reference) as [st|] eqn:Es; cbn [bind] in H; [|discriminate].
    assert (Hst : s_st s0 = st).
    { repeat match type of H with
             | (if ?b then _ else _) = _ => destruct b
             | match ?x with _ => _ end = _ => destruct x; try discriminate
             end; try discriminate; injection H as <-; reflexivity. }
    rewrite Hst. unfold structure_for in Es. destruct reference as [sr|].
    + now apply parse_structure_ref in Es.
    + right. split; [reflexivity|]. unfold load_reference in Es. cbn [table_of] in Es.
      destruct (slookup (upper name) (t_segments t)) as [r|]; [|discriminate]. apply parse_structure_ref in Es. now rewrite Es.
Qed.

Lemma parse_segment_st t e leaf text reference s :
  parse_segment t TOLERANT e leaf text reference = Ok s ->
  s_name s = upper (seg_name_of text) /\
  match reference with
  | Some sr => st_reference (s_st s) = sr
  | None => own_ref_ok t s
  end.
Proof.
  unfold parse_segment, parse_segment_in. intros H.
  destruct (mk_segment t (seg_name_of text) reference) as [s0|] eqn:H0; cbn [bind] in H; try discriminate.
  match type of H with bind ?r _ = _ => destruct r as [kids|] eqn:Hk; cbn [bind] in H; try discriminate end.
  apply EncodeLeaves.add_fields_full in H. destruct H as [Hn [Hst _]].
  destruct (mk_segment_st t _ _ _ H0) as [A B]. split; [congruence|].
  unfold own_ref_ok in *. rewrite Hn, Hst. exact B.
Qed.

(* building the segment with its own table reference, or with none, is the same *)
Lemma mk_segment_own t name sr :
  (valid_z_segment_name name = true /\ sr = empty_seq) \/
  (valid_z_segment_name name = false /\ slookup (upper name) (t_segments t) = Some sr) ->
  mk_segment t name (Some sr) = mk_segment t name None.
Proof.
  intros [[Hz ->]|[Hz Hl]]; unfold mk_segment; rewrite Hz; [reflexivity|].
  unfold structure_for, load_reference. cbn [table_of]. now rewrite Hl.
Qed.

Lemma parse_segment_own t e leaf text sr s :
  parse_segment t TOLERANT e leaf text (Some sr) = Ok s -> own_ref_ok t s ->
  parse_segment t TOLERANT e leaf text None = Ok s.
Proof.
  intros H Ho. destruct (parse_segment_st t e leaf text (Some sr) s H) as [Hn Hr].
  unfold parse_segment in *. rewrite <- (mk_segment_own t (seg_name_of text) sr); [exact H|].
  unfold own_ref_ok in Ho. rewrite Hn, valid_z_upper, Hr in Ho. exact Ho.
Qed.

(* the first three characters survive stripping when they are not white space *)
Lemma lstrip_by_app_keep {A} (p : A -> bool) (x y : list A) : lstrip_by p x <> [] -> lstrip_by p (x ++ y) = lstrip_by p x ++ y.
Proof.
  induction x as [|c x IH]; intros H; [now elim H|]. cbn [app lstrip_by] in *. destruct (p c); [now apply IH|reflexivity].
Qed.

Lemma rstrip_by_app_keep (p : byte -> bool) (a b : str) : a <> [] -> forallb (fun c => negb (p c)) a = true ->
  rstrip_by p (a ++ b) = a ++ rstrip_by p b.
Proof.
  intros Ha Hp. unfold rstrip_by. rewrite rev_app_distr.
  assert (Hra : lstrip_by p (rev a) = rev a).
  { apply lstrip_by_id'. destruct (rev a) as [|c r] eqn:E; [exact I|].
    rewrite forallb_forall in Hp. assert (In c a) by (apply in_rev; rewrite E; now left).
    specialize (Hp c H). now apply negb_true_iff in Hp. }
  destruct (lstrip_by p (rev b)) as [|c r] eqn:Eb.
  - assert (Hall : forallb p (rev b) = true) by now apply lstrip_by_nil_iff.
    rewrite (lstrip_by_app_all _ p (rev b) (rev a) Hall), Hra. cbn [rev]. now rewrite rev_involutive, app_nil_r.
  - rewrite lstrip_by_app_keep by (rewrite Eb; discriminate). rewrite Eb, rev_app_distr, rev_involutive. reflexivity.
Qed.

Lemma take3_strip (i N : str) : take 3 i = N -> length N = 3 -> forallb (fun c => negb (is_space c)) N = true ->
  take 3 (strip i) = N.
Proof.
  intros Ht Hl Hs.
  assert (Ei : i = N ++ drop 3 i) by (rewrite <- Ht; unfold take, drop; now rewrite firstn_skipn).
  rewrite Ei. unfold strip, strip_by.
  assert (Hn : N <> []) by (intros ->; discriminate).
  assert (L : lstrip_by is_space (N ++ drop 3 i) = N ++ drop 3 i).
  { apply lstrip_by_id'. destruct N as [|c N']; [congruence|]. cbn [app]. cbn [forallb] in Hs.
    apply andb_prop in Hs. now apply negb_true_iff, (proj1 Hs). }
  rewrite L, (rstrip_by_app_keep is_space N _ Hn Hs). rewrite <- Hl. apply take_app.
Qed.

Section Grouped.
Variable t : tables.
Variable e : ec.
Variable leaf : option str -> str -> result str.
Variable root : sref.

Notation mk := (seg_of_piece t TOLERANT e leaf).

(* table facts (decided by computation in Proofs/RoundTripMsgTables.v / Oblig/C08_v2_X.v) *)
Hypothesis Htab : groups_by_name t root.
Hypothesis Hdist : forall ex, chain t root ex -> NoDup (map fst ex).
(* segment rows of message and group structures name the segment table's entry *)
Definition pr_ok (pr : sref) : Prop := pr = root \/ exists g, good t g pr.
Hypothesis Hrows : forall pr n sr, pr_ok pr -> declared t pr SEG n sr -> slookup n (t_segments t) = Some sr.
(* keys of the segment table of at most three characters: upper case, no white space, not Z names *)
Hypothesis Hkeys : forall n sr, slookup n (t_segments t) = Some sr -> length n <= 3 ->
  length n = 3 /\ upper n = n /\ valid_z_segment_name n = false /\ forallb (fun c => negb (is_space c)) n = true.

Lemma leaf_own_placed a sr i pr : pr_ok pr -> mk i (Some sr) = Ok a -> declared t pr SEG (take 3 i) sr -> own_ref_ok t a.
Proof.
  intros Hpr Hm Hd. pose proof (Hrows pr _ sr Hpr Hd) as Hl.
  assert (L3 : length (take 3 i) <= 3) by (unfold take; apply firstn_le_length).
  destruct (Hkeys _ sr Hl L3) as [H3 [Hup [Hz Hs]]].
  unfold seg_of_piece in Hm. destruct (parse_segment_st t e leaf (strip i) (Some sr) a Hm) as [Hn Hr].
  unfold seg_name_of in Hn. rewrite (take3_strip i (take 3 i) eq_refl H3 Hs), Hup in Hn.
  right. rewrite Hn, Hr. split; assumption.
Qed.

Lemma leaves_own : forall x pr, pr_ok pr ->
  sound_tree t str seg (take 3) mk pr x -> seg_all seg (unplaced_ok t str seg (take 3) mk root) x ->
  Forall (own_ref_ok t) (gflatten_tree x).
Proof.
  induction x as [a r | n r st cs IH] using gtree_ind'; intros pr Hpr Hs Hu.
  - cbn [gflatten_tree]. constructor; [|constructor]. destruct r as [sr|].
    + cbn [sound_tree] in Hs. destruct Hs as [i [Hm Hd]]. exact (leaf_own_placed a sr i pr Hpr Hm Hd).
    + cbn [seg_all] in Hu. destruct (Hu eq_refl) as [x' [Hm _]]. unfold seg_of_piece in Hm.
      exact (proj2 (parse_segment_st t e leaf (strip x') None a Hm)).
  - rewrite gflatten_tree_GG. apply sound_tree_GG in Hs. destruct Hs as [[_ Hgood] [_ Hcs]].
    apply seg_all_GG in Hu. unfold gflatten.
    assert (Hr : pr_ok r) by (right; exists n; exact Hgood).
    clear -IH Hcs Hu Hr. induction IH as [|y cs Hy _ IHcs]; [constructor|].
    inversion Hcs; subst. inversion Hu; subst. cbn [flat_map]. apply Forall_app. split; [now apply (Hy r)|now apply IHcs].
Qed.

(* every segment of the grouped parse is the flat parse of its own piece *)
Theorem grouped_segments_are_flat text f :
  parse_segments_grouped_trees t TOLERANT e leaf root text = Ok f ->
  Forall2 (fun l s => parse_segment t TOLERANT e leaf l None = Ok s) (pieces text) (gflatten f).
Proof.
  intros H. pose proof (pieces_stripped text) as Hstrip. unfold parse_segments_grouped_trees in H.
  pose proof (find_groups_sound t str seg (take 3) mk s_name (group_acceptance t TOLERANT) root Htab _ _ H) as Hs.
  pose proof (find_groups_unplaced t str seg (take 3) mk s_name (group_acceptance t TOLERANT) root Htab Hdist _ _ H) as Hu.
  destruct (find_groups_order t str seg (take 3) mk s_name (group_acceptance t TOLERANT) root _ _ H) as [_ Ho].
  assert (Hown : Forall (own_ref_ok t) (gflatten f)).
  { unfold gflatten. clear -Hs Hu Hrows Hkeys. induction f as [|x f IH]; [constructor|].
    inversion Hs; subst. inversion Hu; subst. cbn [flat_map]. apply Forall_app. split; [|now apply IH].
    apply (leaves_own x root); auto. now left. }
  clear -Ho Hown Hstrip. induction Ho as [|l a ls as' [sr Hm] _ IH]; [constructor|].
  inversion Hown; subst. inversion Hstrip as [|? ? Hl Hls]; subst. constructor; [|now apply IH].
  unfold seg_of_piece in Hm. rewrite Hl in Hm. destruct sr as [sr|]; [|exact Hm].
  now apply (parse_segment_own t e leaf l sr a).
Qed.

End Grouped.

(* ------------------------------------------------------------------ *)
(* the first tree of the forest: a segment placed at top level stays the first child         *)

Section FirstTree.
Variable t : tables.
Variable X A : Type.
Variable raw : X -> str.
Variable mkseg : X -> option sref -> result A.
Variable nm : A -> str.
Variable acceptance : str * sref * structure -> list str -> str -> result unit.
Variable root : sref.

Notation gstate := (gstate A).
Notation add_child := (add_child A nm acceptance).
Notation open_group := (open_group t A nm acceptance).
Notation open_groups := (open_groups t A nm acceptance).
Notation reopen_group := (reopen_group t A nm acceptance).
Notation place := (place X A mkseg nm acceptance).
Notation after_found := (after_found t X A raw mkseg nm acceptance root).
Notation attempts := (attempts t X A raw mkseg nm acceptance root).
Notation step := (step t X A raw mkseg nm acceptance root).
Notation run := (run t X A raw mkseg nm acceptance root).

Variable a0 : A.
Variable r0 : option sref.
Definition hd_leaf (f : gforest A) : Prop := exists rest, f = GS a0 r0 :: rest.

Lemma append_at_hd p x f : hd_leaf f -> hd_leaf (append_at p x f).
Proof.
  intros [rest ->]. destruct p as [|i p]; cbn [append_at].
  - exists (rest ++ [x]). reflexivity.
  - destruct i as [|i]; cbn [update_nth]; eexists; reflexivity.
Qed.

Lemma add_child_hd s x s' : hd_leaf (g_forest s) -> add_child s x = Ok s' -> hd_leaf (g_forest s').
Proof. intros Hf H. destruct (add_child_eq _ _ _ _ _ _ H) as (_ & _ & ->). now apply append_at_hd. Qed.

Lemma open_group_hd s n r s' : hd_leaf (g_forest s) -> open_group s n r = Ok s' -> hd_leaf (g_forest s').
Proof.
  intros Hf H. unfold Groups.open_group in H. inv_bind H. inv_bind H. inv_bind H. injection H as <-.
  cbn [g_forest]. exact (add_child_hd s _ _ Hf Ha1).
Qed.

Lemma open_groups_hd ps : forall s s', hd_leaf (g_forest s) -> open_groups s ps = Ok s' -> hd_leaf (g_forest s').
Proof.
  induction ps as [|[[n|] r] ps IH]; intros s s' Hf H; cbn [Groups.open_groups] in H.
  - now injection H as <-.
  - inv_bind H. apply (IH a s'); [|exact H]. now apply (open_group_hd s n r).
  - discriminate.
Qed.

Lemma after_found_hd x sr s s' : hd_leaf (g_forest s) -> after_found x sr s = Ok s' -> hd_leaf (g_forest s').
Proof.
  intros Hf H. unfold Groups.after_found in H. inv_bind H. rename a into c. inv_bind H. rename a into top.
  inv_bind H. rename a into s2.
  assert (H2 : hd_leaf (g_forest s2)).
  { destruct c as [[[[n r] st] cs]|].
    - destruct (negb (opt_eqb (fst top) (Some n))).
      + destruct (index_of (Some n, r) (g_stack s) 0); [|discriminate]. exact (open_groups_hd _ s s2 Hf Ha1).
      + destruct (smem (raw x) (map (child_name nm) cs)).
        * destruct (repetitions_of st (raw x)) as [[mn mx]|]; [|discriminate]. destruct (mx =? 1)%Z.
          -- unfold Groups.reopen_group in Ha1. inv_bind Ha1. destruct a as [[[[n' r'] st'] cs']|]; [|discriminate].
             now apply (open_group_hd _ n' r' s2) in Ha1.
          -- now injection Ha1 as <-.
        * now injection Ha1 as <-.
    - destruct (opt_is_some (fst top)).
      + destruct (index_of (None, root) (g_stack s) 0); [|discriminate]. exact (open_groups_hd _ s s2 Hf Ha1).
      + now injection Ha1 as <-. }
  unfold Groups.place in H. inv_bind H. exact (add_child_hd s2 _ s' H2 H).
Qed.

Lemma attempts_hd n x : forall s s', hd_leaf (g_forest s) -> attempts n x s = Ok (Some s') -> hd_leaf (g_forest s').
Proof.
  induction n as [|n IH]; intros s s' Hf H; cbn [Groups.attempts] in H; [discriminate|].
  apply bind_ok in H. destruct H as (top & Htop & H). apply bind_ok in H. destruct H as (found & Hfound & H).
  destruct found as [[sr extra]|].
  - apply bind_ok in H. destruct H as (s1 & Hs1 & H). injection H as <-.
    exact (after_found_hd x sr (mk_gstate _ (g_path s) (g_forest s)) _ Hf Hs1).
  - destruct (g_path s); now apply IH in H.
Qed.

Lemma step_hd s x s' : hd_leaf (g_forest s) -> step s x = Ok s' -> hd_leaf (g_forest s').
Proof.
  unfold Groups.step. intros Hf H. inv_bind H. destruct a as [s1|].
  - injection H as <-. exact (attempts_hd _ x s s1 Hf Ha).
  - unfold Groups.place in H. inv_bind H. exact (add_child_hd s _ s' Hf H).
Qed.

Lemma run_hd xs : forall s s', hd_leaf (g_forest s) -> run xs s = Ok s' -> hd_leaf (g_forest s').
Proof.
  induction xs as [|x xs IH]; intros s s' Hf H; cbn [Groups.run] in H.
  - now injection H as <-.
  - inv_bind H. apply (IH a s'); [|exact H]. exact (step_hd s x a Hf Ha).
Qed.

End FirstTree.

(* ------------------------------------------------------------------ *)
(* the whole message, find_groups = true                                *)

Lemma add_all_full lvl t : forall kids m m', add_all lvl t m kids = Ok m' ->
  m' = mk_message (m_name m) (m_st m) (m_children m ++ kids).
Proof.
  induction kids as [|k kids IH]; intros m m' H; cbn [add_all] in H.
  - injection H as <-. rewrite app_nil_r. now destruct m.
  - match type of H with bind ?r _ = _ => destruct r; cbn [bind] in H; [|discriminate] end.
    apply IH in H. cbn [m_name m_st m_children] in H. now rewrite <- app_assoc in H.
Qed.

Lemma Forall2_fun {A B} (R : A -> B -> Prop) : (forall a b b', R a b -> R a b' -> b = b') ->
  forall l m m', Forall2 R l m -> Forall2 R l m' -> m = m'.
Proof.
  intros HR. induction l as [|a l IH]; intros m m' H H'; inversion H; inversion H'; subst; [reflexivity|].
  f_equal; [eapply HR; eauto|eapply IH; eauto].
Qed.

(* the first item: found directly under the message reference, or not found at all *)
Lemma first_step_leaf t (X A : Type) raw (mkseg : X -> option sref -> result A) nm acceptance root x0 s1 :
  match search t search_fuel (raw x0) root with
  | Ok None => True | Ok (Some (_, [])) => True | _ => False end ->
  step t X A raw mkseg nm acceptance root (init_state A root) x0 = Ok s1 ->
  exists a r, g_forest s1 = [GS a r].
Proof.
  intros Hs H. unfold Groups.step, init_state in H. cbn [g_stack length Groups.attempts] in H.
  unfold last_entry in H. cbn [rev app bind snd] in H.
  destruct (search t search_fuel (raw x0) root) as [[[sr [|? ?]]|]|]; try contradiction; cbn [bind g_path] in H.
  - cbn [map app] in H. unfold Groups.after_found, cur_group in H. cbn [g_path bind g_stack] in H.
    unfold last_entry in H. cbn [rev app bind fst opt_is_some opt_is_none negb] in H.
    unfold Groups.place in H. destruct (mkseg x0 (Some sr)) as [a|]; cbn [bind] in H; [|discriminate].
    unfold Groups.add_child, cur_group in H. cbn [g_path bind g_forest append_at app g_stack] in H.
    injection H as <-. exists a, (Some sr). reflexivity.
  - unfold Groups.place in H. destruct (mkseg x0 None) as [a|]; cbn [bind] in H; [|discriminate].
    unfold Groups.add_child, cur_group in H. cbn [g_path bind g_forest append_at app g_stack] in H.
    injection H as <-. exists a, None. reflexivity.
Qed.

Section MsgGroups.
Variable lib : str -> option tables.
Variable dflt : str.
Variable t : tables.
Variable e : ec.
Hypothesis He : ec_header_ok e.
Hypothesis Hfm : fsep_not_msh e.
Variable hf : list str.
Hypothesis Hhf : Forall (fun f => bmem (fsep e) f = false /\ bmem CR f = false) hf.
Hypothesis Htr : forall tr, tsep e = Some tr -> exists vf, nth_error hf 9 = Some vf /\ ge_27 vf = true.
Hypothesis Hlib : lib (msg_version dflt e hf) = Some t.
Hypothesis Htv : forall tr, tsep e = Some tr -> ge_27 (t_version t) = true.

Notation leaf := (leaf_enc (msg_version dflt e hf) TOLERANT e).

Theorem message_groups_roundtrip (lines : list str) (s0 : seg) (segs : list seg) (m0 : message) :
  (match new_message TOLERANT t e (hdr_structure e hf) with
   | Err (HL7 EInvalidName) => new_message TOLERANT t e None
   | r => r end) = Ok m0 ->
  Forall (fun l => l <> [] /\ bmem CR l = false /\ strip l = l) lines ->
  strip (msh_line e hf) = msh_line e hf ->
  Forall2 (fun l s => parse_segment t TOLERANT e leaf l None = Ok s /\ enc_segment t e s false = Ok l /\
                      known_name t (s_name s)) (msh_line e hf :: lines) (s0 :: segs) ->
  s_name s0 = MSH -> field_value s0 (unbs "MSH_1") = Some [fsep e] -> field_value s0 (unbs "MSH_2") = Some (msh2_of e) ->
  (* table facts about the message structure found for MSH-9, when there is one *)
  (forall st, m_st m0 = Some st ->
     let root := st_reference st in
     groups_by_name t root /\ (forall ex, chain t root ex -> NoDup (map fst ex)) /\
     (forall pr n sr, pr_ok t root pr -> declared t pr SEG n sr -> slookup n (t_segments t) = Some sr) /\
     (* MSH is a direct child of the message (or unknown to it) *)
     match search t search_fuel MSH root with Ok None => True | Ok (Some (_, [])) => True | _ => False end) ->
  (forall n sr, slookup n (t_segments t) = Some sr -> length n <= 3 ->
     length n = 3 /\ upper n = n /\ valid_z_segment_name n = false /\ forallb (fun c => negb (is_space c)) n = true) ->
  let text := bjoin CR (msh_line e hf :: lines) in
  forall m, parse_message lib dflt TOLERANT true text = Ok (t, m) -> enc_message t TOLERANT m = Ok text.
Proof.
  intros Hnew Hlines Hstrip0 Hrt Hn0 Hv1 Hv2 Hroot Hkeys text m Hparse.
  destruct (message_flat_roundtrip lib dflt t e He Hfm hf Hhf Htr Hlib Htv lines s0 segs m0 Hnew Hlines Hstrip0 Hrt Hn0 Hv1 Hv2)
    as [mf [Hpf Hef]]. fold text in Hpf, Hef.
  (* common prefix of parse_message *)
  assert (Hl0 : msh_line e hf <> [] /\ bmem CR (msh_line e hf) = false /\ strip (msh_line e hf) = msh_line e hf).
  { split; [|split; [apply (msh_line_no_cr e He hf Hhf)|exact Hstrip0]].
    unfold msh_line. cbn [bjoin join MSH unbs app]. destruct hf; discriminate. }
  assert (Hall : Forall (fun l => l <> [] /\ bmem CR l = false /\ strip l = l) (msh_line e hf :: lines)) by (constructor; assumption).
  assert (Hpieces : pieces text = msh_line e hf :: lines).
  { subst text. apply pieces_lines; [discriminate|exact Hall]. }
  assert (Hlstrip : lstrip text = text).
  { assert (E : exists tl, text = "M"%byte :: tl).
    { subst text. unfold msh_line. destruct lines; cbn [bjoin join MSH unbs app]; eexists; reflexivity. }
    destruct E as [tl E]. rewrite E. reflexivity. }
  unfold parse_message in Hparse, Hpf. rewrite Hlstrip in Hparse, Hpf. subst text.
  rewrite (get_message_info_header e He Hfm hf Hhf Htr lines) in Hparse, Hpf. cbn [bind] in Hparse, Hpf.
  fold (msg_version dflt e hf) in Hparse, Hpf. rewrite Hlib in Hparse, Hpf. cbn [bind] in Hparse, Hpf.
  rewrite Hnew in Hparse, Hpf. cbn [bind] in Hparse, Hpf.
  destruct (m_st m0) as [st|] eqn:Est.
  2:{ rewrite Hpf in Hparse. injection Hparse as <-. exact Hef. }
  destruct (parse_segments_grouped t TOLERANT e leaf (st_reference st) (bjoin CR (msh_line e hf :: lines))) as [nodes|ex] eqn:Eg.
  2:{ destruct ex as [c|?|[]|?]; try discriminate; try (destruct c; discriminate).
      rewrite Hpf in Hparse. injection Hparse as <-. exact Hef. }
  (* the group search succeeded *)
  cbn [bind] in Hparse.
  destruct (add_all TOLERANT t m0 nodes) as [m'|] eqn:Ea; cbn [bind] in Hparse; [|discriminate].
  injection Hparse as <-. apply add_all_full in Ea. subst m'.
  assert (Hch0 : m_children m0 = []).
  { destruct (new_message TOLERANT t e (hdr_structure e hf)) as [m1|ex] eqn:E1.
    - injection Hnew as <-. exact (new_message_children _ _ _ _ _ E1).
    - destruct ex as [c| | |]; try discriminate. destruct c; try discriminate. exact (new_message_children _ _ _ _ _ Hnew). }
  rewrite Hch0. cbn [app].
  unfold parse_segments_grouped in Eg.
  destruct (parse_segments_grouped_trees t TOLERANT e leaf (st_reference st) (bjoin CR (msh_line e hf :: lines))) as [f|] eqn:Ef;
    cbn [bind] in Eg; [|discriminate]. injection Eg as <-.
  destruct (Hroot st eq_refl) as [Htab [Hdist [Hrows Hsearch]]].
  (* the segments are those of the flat parse *)
  pose proof (grouped_segments_are_flat t e leaf (st_reference st) Htab Hdist Hrows Hkeys (bjoin CR (msh_line e hf :: lines)) f) as Hflat.
  rewrite Hpieces in Hflat.
  assert (Hstr : Forall (fun l => strip l = l) (msh_line e hf :: lines)).
  { eapply Forall_impl; [|exact Hall]. intros l [_ [_ H]]. exact H. }
  specialize (Hflat Ef).
  assert (Hsegs : gflatten f = s0 :: segs).
  { eapply (Forall2_fun (fun l s => parse_segment t TOLERANT e leaf l None = Ok s)); [|exact Hflat|].
    - intros l a1 a2 H1 H2. congruence.
    - clear -Hrt. induction Hrt as [|l s ls ss [Hp _] _ IH]; constructor; assumption. }
  (* the first tree is the MSH segment *)
  assert (Hhd : exists r rest, f = GS s0 r :: rest).
  { unfold parse_segments_grouped_trees, find_groups in Ef. rewrite Hpieces in Ef. cbn [Groups.run] in Ef.
    apply bind_ok in Ef. destruct Ef as (sfin & Hrun & Ef). injection Ef as <-.
    apply bind_ok in Hrun. destruct Hrun as (s1 & Hstep & Hrun).
    assert (Hs' : match search t search_fuel (take 3 (msh_line e hf)) (st_reference st) with
                  | Ok None => True | Ok (Some (_, [])) => True | _ => False end).
    { assert (E3 : take 3 (msh_line e hf) = MSH).
      { unfold msh_line. destruct hf; reflexivity. }
      rewrite E3. exact Hsearch. }
    destruct (first_step_leaf t str seg (take 3) _ _ _ _ _ s1 Hs' Hstep) as [a [r Hf1]].
    destruct (run_hd t str seg (take 3) (seg_of_piece t TOLERANT e leaf) s_name (group_acceptance t TOLERANT) (st_reference st) a r lines s1 sfin) as [rest Hrest].
    - exists []. exact Hf1.
    - exact Hrun.
    - rewrite Hrest in Hsegs. cbn [gflatten flat_map gflatten_tree app] in Hsegs. injection Hsegs as -> _.
      exists r, rest. exact Hrest. }
  destruct Hhd as [r [rest Hf]].
  unfold enc_message. cbn [m_children m_st].
  assert (Hec : message_ec (t_version t) (mk_message (m_name m0) (m_st m0) (map node_of f)) = Ok e).
  { unfold message_ec. rewrite Hf. cbn [m_children map node_of first_msh]. rewrite Hn0.
    change (streqb MSH (unbs "MSH")) with true. cbv iota. rewrite Hv1, Hv2.
    unfold msh2_of. destruct e as [fs c rr es s ts]. cbn [Ec.csep Ec.rsep Ec.esc Ec.ssep Ec.tsep Ec.fsep] in *.
    destruct ts as [tr|]; cbn [app length Nat.eqb].
    - rewrite (Htv tr eq_refl). reflexivity.
    - now rewrite andb_false_r. }
  rewrite Hec. cbn [bind].
  assert (Hg : Forall (fun s => enc_segment t e s false = Ok (genc t e s)) (gflatten f)).
  { rewrite Hsegs. clear -Hrt. induction Hrt as [|l s ls ss [_ [Henc _]] _ IH]; constructor; [|assumption].
    unfold genc. now rewrite Henc. }
  rewrite (enc_children_tolerant t e (genc t e) (m_st m0) f Hg).
  rewrite (enc_ne_forest seg (genc t e) f).
  - rewrite Hsegs. f_equal. f_equal. clear -Hrt. induction Hrt as [|l s ls ss [_ [Henc _]] _ IH]; [reflexivity|].
    cbn [map]. f_equal; [unfold genc; now rewrite Henc|exact IH].
  - unfold parse_segments_grouped_trees in Ef. exact (proj1 (find_groups_order _ _ _ _ _ _ _ _ _ _ Ef)).
Qed.

End MsgGroups.
