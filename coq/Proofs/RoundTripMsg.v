(* The message level of C01: parse_message followed by to_er7 on a message made of an MSH line and
   segment lines joined by CR (Model/Message.v, TOLERANT).  Generic in how each line round-trips:
   the segment theorems of RoundTripSeg.v / RoundTripZ.v / RoundTripMsh.v supply that. *)
From Coq Require Import List Bool Arith ZArith NArith Lia Init.Byte.
From HL7 Require Import Lib.Str Model.Ec Model.Result Model.Header Model.Ref Model.Tree Model.Parser Model.Encode
  Model.Leaf Model.MsgTree Model.Groups Model.Message.
From HL7 Require Import Proofs.SplitJoin Proofs.LevelCodec Proofs.RoundTripStr Proofs.RoundTripCore
  Proofs.RoundTripMsh Proofs.RoundTripTables Proofs.GroupsFacts Proofs.GroupsEnc Proofs.NoDrop.
Import ListNotations.
Open Scope bs_scope.
Open Scope res_scope.

(* ------------------------------------------------------------------ *)
(* the header                                                           *)

Lemma first_line_free l : bmem CR l = false -> first_line l = l.
Proof.
  induction l as [|c l IH]; [reflexivity|]. unfold bmem, mem. cbn [existsb]. intros H.
  apply orb_false_elim in H. destruct H as [Hc Hl]. cbn [first_line]. rewrite Hc. f_equal. now apply IH.
Qed.

Lemma first_line_app l rest : bmem CR l = false -> first_line (l ++ CR :: rest) = l.
Proof.
  induction l as [|c l IH]; intros H.
  - reflexivity.
  - unfold bmem, mem in H. cbn [existsb] in H. apply orb_false_elim in H. destruct H as [Hc Hl].
    cbn [app first_line]. rewrite Hc. f_equal. now apply IH.
Qed.

Lemma first_line_join l ls : bmem CR l = false -> first_line (bjoin CR (l :: ls)) = l.
Proof.
  intros H. destruct ls as [|l2 ls]; [now apply first_line_free|].
  change (bjoin CR (l :: l2 :: ls)) with (l ++ CR :: bjoin CR (l2 :: ls)). now apply first_line_app.
Qed.

Lemma NoDup_nodupb (l : list byte) : NoDup l -> nodupb beqb l = true.
Proof.
  induction 1 as [|x l Hx _ IH]; [reflexivity|]. cbn [nodupb]. rewrite IH, andb_true_r.
  apply negb_true_iff. apply bmem_notin. exact Hx.
Qed.

(* the delimiter set as the header spells it *)
Definition ec_header_ok (e : ec) : Prop :=
  NoDup (ec_all e) /\ forall c, In c (ec_all e) -> is_space c = false.
(* the field separator is none of the letters M, S, H *)
Definition fsep_not_msh (e : ec) : Prop := bmem (fsep e) MSH = false.

Lemma ec_header_ok_ec_ok e : ec_header_ok e -> ec_ok e.
Proof.
  intros [Hn Hs]. split.
  - unfold ec_all, ec_required in Hn.
    assert (N5 : NoDup [fsep e; csep e; ssep e; rsep e; esc e]) by exact (NoDup_app_l _ _ Hn).
    assert (P : Permutation.Permutation [fsep e; csep e; ssep e; rsep e; esc e] [fsep e; csep e; rsep e; ssep e; esc e]).
    { do 2 constructor. apply Permutation.perm_swap. }
    exact (Permutation.Permutation_NoDup P N5).
  - intros c Hc. apply Hs. unfold ec_all, ec_required. apply in_or_app. left. cbn [In] in *. tauto.
Qed.

Section Header.
Variable e : ec.
Hypothesis He : ec_header_ok e.
Hypothesis Hfm : fsep_not_msh e.

(* the MSH line: MSH, MSH-2 = the delimiters, then the header fields hf (MSH-3 ...) *)
Variable hf : list str.
Hypothesis Hhf : Forall (fun f => bmem (fsep e) f = false /\ bmem CR f = false) hf.
(* a truncation character is only accepted when MSH-12 says 2.7 or later *)
Hypothesis Htr : forall tr, tsep e = Some tr -> exists vf, nth_error hf 9 = Some vf /\ ge_27 vf = true.

Definition msh_line : str := bjoin (fsep e) (MSH :: msh2_of e :: hf).
Definition msh_fields : list str := MSH :: msh2_of e :: hf.

Lemma msh2_clean : is_blank (msh2_of e) = false /\ bmem (fsep e) (msh2_of e) = false /\ bmem CR (msh2_of e) = false.
Proof. destruct He as [Hn Hs]. now apply msh2_props. Qed.

Lemma msh_line_no_cr : bmem CR msh_line = false.
Proof.
  unfold msh_line. apply bmem_bjoin.
  - intros E. destruct He as [_ Hs].
    assert (is_space (fsep e) = false) as X by (apply Hs; unfold ec_all, ec_required; cbn; tauto).
    rewrite <- E in X. discriminate.
  - constructor; [reflexivity|]. constructor; [exact (proj2 (proj2 msh2_clean))|].
    eapply Forall_impl; [|exact Hhf]. intros f [_ H]. exact H.
Qed.

Lemma msh_line_fields : bsplit (fsep e) msh_line = msh_fields.
Proof.
  unfold msh_line, msh_fields. apply bsplit_bjoin; [discriminate|].
  cbn [forallb].
  assert (F : is_space (fsep e) = false) by (destruct He as [_ Hs]; apply Hs; unfold ec_all, ec_required; cbn; tauto).
  assert (nosep beqb (fsep e) MSH = true) as -> by (apply nosep_of_bmem; exact Hfm).
  rewrite (nosep_of_bmem _ _ (proj1 (proj2 msh2_clean))). cbn [andb].
  rewrite forallb_forall. intros f Hf. rewrite Forall_forall in Hhf. apply nosep_of_bmem. exact (proj1 (Hhf f Hf)).
Qed.

Lemma msh2_nodup : nodupb beqb (msh2_of e) = true /\ existsb is_space (msh2_of e) = false.
Proof.
  destruct He as [Hn Hs]. split.
  - apply NoDup_nodupb. unfold ec_all, ec_required in Hn. cbn [app] in Hn. inversion Hn as [|? ? _ Hn']; subst.
    unfold msh2_of.
    assert (P : Permutation.Permutation (csep e :: ssep e :: rsep e :: esc e :: match tsep e with Some t => [t] | None => [] end)
                                        ([csep e; rsep e; esc e; ssep e] ++ match tsep e with Some t => [t] | None => [] end)).
    { cbn [app]. constructor.
      apply Permutation.perm_trans with (rsep e :: ssep e :: esc e :: match tsep e with Some t => [t] | None => [] end).
      - apply Permutation.perm_swap.
      - constructor. apply Permutation.perm_swap. }
    exact (Permutation.Permutation_NoDup P Hn').
  - destruct (existsb is_space (msh2_of e)) eqn:E; [|reflexivity]. apply existsb_exists in E. destruct E as [c [Hc Hsp]].
    assert (In c (ec_all e)) as Hin.
    { unfold msh2_of in Hc. unfold ec_all, ec_required. destruct (tsep e); cbn [app In] in *; tauto. }
    rewrite (Hs c Hin) in Hsp. discriminate.
Qed.

Lemma split_msh_header rest :
  split_msh (bjoin CR (msh_line :: rest)) = Ok (msh_fields, e).
Proof.
  unfold split_msh.
  assert (F : is_space (fsep e) = false) by (destruct He as [_ Hs]; apply Hs; unfold ec_all, ec_required; cbn; tauto).
  assert (Hsep : msh_field_sep (bjoin CR (msh_line :: rest)) = Some (fsep e)).
  { assert (E : exists tl, bjoin CR (msh_line :: rest) = "M"%byte :: "S"%byte :: "H"%byte :: fsep e :: tl).
    { unfold msh_line. destruct rest as [|r rest]; cbn [bjoin join MSH unbs app]; eexists; reflexivity. }
    destruct E as [tl ->]. cbn [msh_field_sep]. rewrite !beqb_refl, F. reflexivity. }
  rewrite Hsep, (first_line_join _ _ msh_line_no_cr), msh_line_fields.
  unfold msh_fields. unfold nth_str. change (nth_error (MSH :: msh2_of e :: hf) 1) with (Some (msh2_of e)).
  cbn [bind]. destruct msh2_nodup as [N S]. rewrite N, S. cbn [negb].
  change (nth_error (MSH :: msh2_of e :: hf) 11) with (nth_error hf 9).
  unfold msh2_of in *. destruct e as [f c r es s ts]. cbn [Ec.csep Ec.rsep Ec.esc Ec.ssep Ec.tsep Ec.fsep] in *.
  destruct ts as [tr|]; cbn [app]; [|reflexivity].
  destruct (Htr tr eq_refl) as [vf [Hv Hg]]. now rewrite Hv, Hg.
Qed.

End Header.

(* ------------------------------------------------------------------ *)
(* lines                                                                *)

Lemma pieces_lines lines : lines <> [] ->
  Forall (fun l => l <> [] /\ bmem CR l = false) lines -> pieces (bjoin CR lines) = lines.
Proof.
  intros Hne H. unfold pieces. rewrite bsplit_bjoin; [|exact Hne|].
  - clear Hne. induction H as [|l ls [Hl _] _ IH]; [reflexivity|]. cbn [filter]. destruct l; [congruence|]. now rewrite IH.
  - rewrite forallb_forall. rewrite Forall_forall in H. intros l Hl. apply nosep_of_bmem. exact (proj2 (H l Hl)).
Qed.

Section Flat.
Variable t : tables.
Variable e : ec.
Variable leaf : option str -> str -> result str.

Lemma parse_flat_all : forall lines segs,
  Forall2 (fun l s => parse_segment t TOLERANT e leaf (strip l) None = Ok s) lines segs ->
  parse_flat t TOLERANT e leaf lines = Ok (map NSeg segs).
Proof.
  induction 1 as [|l s lines segs H _ IH]; [reflexivity|].
  cbn [parse_flat map]. unfold seg_of_piece. now rewrite H, IH.
Qed.

(* a segment name the message accepts under TOLERANT *)
Definition known_name (sn : str) : Prop :=
  valid_z_segment_name (upper sn) = true \/ opt_is_some (slookup (upper sn) (t_segments t)) = true.

Lemma find_child_check_known pname st sn : known_name sn ->
  find_child_check t TOLERANT true pname st sn = Ok tt.
Proof.
  intros H. unfold find_child_check.
  destruct (match st with Some s => has_map st && _ | None => false end); [reflexivity|].
  destruct H as [H|H]; rewrite H; [reflexivity|].
  destruct (valid_z_segment_name (upper sn)); reflexivity.
Qed.

Lemma add_all_segs : forall segs m,
  Forall (fun s => known_name (s_name s)) segs ->
  add_all TOLERANT t m (map NSeg segs) = Ok (mk_message (m_name m) (m_st m) (m_children m ++ map NSeg segs)).
Proof.
  induction segs as [|s segs IH]; intros m H.
  - cbn [map add_all]. rewrite app_nil_r. now destruct m.
  - inversion H as [|? ? Hs Hr]; subst. cbn [map add_all node_str_name node_name].
    unfold child_admission. rewrite (find_child_check_known _ _ _ Hs). cbn [bind].
    unfold child_card_ok. cbn [is_strict negb bind].
    rewrite (IH _ Hr). cbn [m_name m_st m_children]. now rewrite <- app_assoc.
Qed.

End Flat.

(* ------------------------------------------------------------------ *)
(* the whole message, find_groups = false                               *)

Lemma new_message_children lvl t e name m : new_message lvl t e name = Ok m -> m_children m = [].
Proof.
  unfold new_message. intros H.
  match type of H with bind ?r _ = _ => destruct r as [m1|] eqn:E1; cbn [bind] in H; [|discriminate] end.
  destruct (opt_is_none (m_name m1) && is_strict lvl); [discriminate|].
  repeat match type of H with bind ?r _ = _ => destruct r; cbn [bind] in H; [|discriminate] end.
  injection H as <-.
  destruct name as [n0|]; [|now injection E1 as <-].
  destruct (slookup (upper n0) (t_messages t)).
  - destruct (parse_structure t s); cbn [bind] in E1; [|discriminate]. now injection E1 as <-.
  - destruct (valid_z_message_name (Some n0)); [|discriminate].
    destruct (parse_structure t empty_seq); cbn [bind] in E1; [|discriminate]. now injection E1 as <-.
Qed.

Section MsgFlat.
Variable lib : str -> option tables.
Variable dflt : str.
Variable t : tables.
Variable e : ec.
Hypothesis He : ec_header_ok e.
Hypothesis Hfm : fsep_not_msh e.
Variable hf : list str.
Hypothesis Hhf : Forall (fun f => bmem (fsep e) f = false /\ bmem CR f = false) hf.
Hypothesis Htr : forall tr, tsep e = Some tr -> exists vf, nth_error hf 9 = Some vf /\ ge_27 vf = true.

(* what get_message_info reads from the header: MSH-9 and MSH-12 *)
Definition hdr_structure : option str :=
  match nth_error hf 6 with Some f => message_structure_of e (strip f) | None => None end.
Definition hdr_version : option str :=
  match nth_error hf 9 with Some f => nth_error (bsplit (csep e) (strip f)) 0 | None => None end.
Definition msg_version : str := match hdr_version with Some v => v | None => dflt end.

Lemma get_message_info_header rest :
  get_message_info (bjoin CR (msh_line e hf :: rest)) = Ok (e, hdr_structure, hdr_version).
Proof.
  unfold get_message_info. rewrite (split_msh_header e He Hfm hf Hhf Htr rest). cbn [bind].
  unfold msh_fields, hdr_structure, hdr_version.
  change (nth_error (MSH :: msh2_of e :: hf) 8) with (nth_error hf 6).
  change (nth_error (MSH :: msh2_of e :: hf) 11) with (nth_error hf 9). reflexivity.
Qed.

Hypothesis Hlib : lib msg_version = Some t.
(* the truncation character is only read back by to_er7 for versions from 2.7 on *)
Hypothesis Htv : forall tr, tsep e = Some tr -> ge_27 (t_version t) = true.

Notation leaf := (leaf_enc msg_version TOLERANT e).

Definition genc (s : seg) : str := match enc_segment t e s false with Ok x => x | Err _ => [] end.

Theorem message_flat_roundtrip (lines : list str) (s0 : seg) (segs : list seg) (m0 : message) :
  (* the Message constructor accepts the header *)
  (match new_message TOLERANT t e hdr_structure with
   | Err (HL7 EInvalidName) => new_message TOLERANT t e None
   | r => r end) = Ok m0 ->
  (* every line is a non-empty, CR-free text without surrounding white space that parses to a
     segment with an admissible name, which encodes back to the line *)
  Forall (fun l => l <> [] /\ bmem CR l = false /\ strip l = l) lines ->
  strip (msh_line e hf) = msh_line e hf ->
  Forall2 (fun l s => parse_segment t TOLERANT e leaf l None = Ok s /\ enc_segment t e s false = Ok l /\
                      known_name t (s_name s)) (msh_line e hf :: lines) (s0 :: segs) ->
  s_name s0 = MSH -> field_value s0 (unbs "MSH_1") = Some [fsep e] -> field_value s0 (unbs "MSH_2") = Some (msh2_of e) ->
  let text := bjoin CR (msh_line e hf :: lines) in
  exists m, parse_message lib dflt TOLERANT false text = Ok (t, m) /\ enc_message t TOLERANT m = Ok text.
Proof.
  intros Hnew Hlines Hstrip0 Hrt Hn0 Hv1 Hv2 text.
  assert (Hl0 : msh_line e hf <> [] /\ bmem CR (msh_line e hf) = false /\ strip (msh_line e hf) = msh_line e hf).
  { split; [|split; [apply (msh_line_no_cr e He hf Hhf)|exact Hstrip0]].
    unfold msh_line. cbn [bjoin join MSH unbs app]. destruct hf; discriminate. }
  assert (Hall : Forall (fun l => l <> [] /\ bmem CR l = false /\ strip l = l) (msh_line e hf :: lines)) by (constructor; assumption).
  assert (Hlstrip : lstrip text = text).
  { assert (E : exists tl, text = "M"%byte :: tl).
    { subst text. unfold msh_line. destruct lines; cbn [bjoin join MSH unbs app]; eexists; reflexivity. }
    destruct E as [tl E]. rewrite E. reflexivity. }
  assert (Hch0 : m_children m0 = []).
  { destruct (new_message TOLERANT t e hdr_structure) as [m1|ex] eqn:E1.
    - injection Hnew as <-. exact (new_message_children _ _ _ _ _ E1).
    - destruct ex as [c| | |]; try discriminate. destruct c; try discriminate. exact (new_message_children _ _ _ _ _ Hnew). }
  set (m := mk_message (m_name m0) (m_st m0) (map NSeg (s0 :: segs))).
  exists m. split.
  - unfold parse_message. rewrite Hlstrip. subst text. rewrite get_message_info_header. cbn [bind].
    fold msg_version. rewrite Hlib. cbn [bind]. rewrite Hnew. cbn [bind].
    assert (Hflat : parse_segments_flat t TOLERANT e leaf (bjoin CR (msh_line e hf :: lines)) = Ok (map NSeg (s0 :: segs))).
    { unfold parse_segments_flat. rewrite pieces_lines; [|discriminate|].
      - apply parse_flat_all. clear -Hrt Hall. revert Hall. induction Hrt as [|l s ls ss [Hp _] _ IH]; intros Hall; [constructor|].
        inversion Hall as [|? ? [_ [_ Hs]] Hr]; subst. constructor; [now rewrite Hs|now apply IH].
      - eapply Forall_impl; [|exact Hall]. intros l [A [B _]]. now split. }
    assert (Hkids : (match m_st m0 with Some st => parse_segments_flat t TOLERANT e leaf (bjoin CR (msh_line e hf :: lines))
                                    | None => parse_segments_flat t TOLERANT e leaf (bjoin CR (msh_line e hf :: lines)) end)
                    = Ok (map NSeg (s0 :: segs))) by (destruct (m_st m0); exact Hflat).
    cbv beta iota.
    rewrite Hkids. cbn [bind].
    rewrite (add_all_segs t (s0 :: segs) m0).
    + rewrite Hch0. cbn [app bind]. reflexivity.
    + clear -Hrt. induction Hrt as [|l s ls ss [_ [_ Hk]] _ IH]; constructor; assumption.
  - unfold enc_message. subst m. cbn [m_children m_st].
    assert (Hec : message_ec (t_version t) (mk_message (m_name m0) (m_st m0) (map NSeg (s0 :: segs))) = Ok e).
    { unfold message_ec. cbn [m_children map first_msh]. rewrite Hn0.
      change (streqb MSH (unbs "MSH")) with true. cbv iota. rewrite Hv1, Hv2.
      unfold msh2_of. destruct e as [f c r es s ts]. cbn [Ec.csep Ec.rsep Ec.esc Ec.ssep Ec.tsep Ec.fsep] in *.
      destruct ts as [tr|]; cbn [app length Nat.eqb].
      - rewrite (Htv tr eq_refl). reflexivity.
      - now rewrite andb_false_r. }
    rewrite Hec. cbn [bind].
    assert (Hmap : map genc (s0 :: segs) = msh_line e hf :: lines).
    { clear -Hrt. induction Hrt as [|l s ls ss [_ [Henc _]] _ IH]; [reflexivity|].
      cbn [map]. f_equal; [unfold genc; now rewrite Henc|exact IH]. }
    rewrite (enc_children_flat t e genc (m_st m0) (s0 :: segs)).
    + now rewrite Hmap.
    + clear -Hrt. induction Hrt as [|l s ls ss [_ [Henc _]] _ IH]; constructor; [|assumption].
      unfold genc. now rewrite Henc.
Qed.

End MsgFlat.

(* ------------------------------------------------------------------ *)
(* the name of a parsed segment                                         *)

Lemma mk_segment_name t name reference s0 : mk_segment t name reference = Ok s0 -> s_name s0 = upper name.
Proof.
  unfold mk_segment. intros H0.
  repeat match type of H0 with
         | (if ?b then _ else _) = _ => destruct b
         | bind ?r _ = _ => destruct r; cbn [bind] in H0; try discriminate
         | match ?x with _ => _ end = _ => destruct x; try discriminate
         end; try discriminate; injection H0 as <-; reflexivity.
Qed.

Lemma parse_segment_name t lvl e leaf text reference s :
  parse_segment t lvl e leaf text reference = Ok s -> s_name s = upper (seg_name_of text).
Proof.
  unfold parse_segment, parse_segment_in. intros H.
  destruct (mk_segment t (seg_name_of text) reference) as [s0|] eqn:H0; cbn [bind] in H; try discriminate.
  match type of H with bind ?r _ = _ => destruct r as [kids|] eqn:Hk; cbn [bind] in H; try discriminate end.
  apply NoDrop.add_fields_appends in H. destruct H as [_ H]. rewrite H. now apply mk_segment_name in H0.
Qed.
