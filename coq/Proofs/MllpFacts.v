(* Facts about Model/Mllp.v: the reader (chunk independence, k0 independence, where a frame ends),
   the frame recogniser (what it extracts from a well-formed frame, when it fails), routing. *)
From Coq Require Import List Bool Arith NArith Init.Byte Lia.
From HL7 Require Import Lib.Str Model.Result Model.Header Model.Mllp Gen.Params.
Import ListNotations.
Open Scope bs_scope.

(* ------------------------------------------------------------------ *)
(* the protocol bytes (facts about the generated parameters)            *)

Lemma SB_EB : beqb SB EB = false.   Proof. reflexivity. Qed.
Lemma EB_SB : beqb EB SB = false.   Proof. reflexivity. Qed.
Lemma EB_MCR : beqb EB MCR = false. Proof. reflexivity. Qed.
Lemma MCR_EB : beqb MCR EB = false. Proof. reflexivity. Qed.
Lemma SB_MCR : beqb SB MCR = false. Proof. reflexivity. Qed.
Lemma MCR_SB : beqb MCR SB = false. Proof. reflexivity. Qed.
Lemma MCR_is_CR : MCR = CR.         Proof. reflexivity. Qed.
Lemma ascii_SB : is_ascii SB = true.   Proof. reflexivity. Qed.
Lemma ascii_EB : is_ascii EB = true.   Proof. reflexivity. Qed.
Lemma ascii_MCR : is_ascii MCR = true. Proof. reflexivity. Qed.

Lemma beqb_eq a b : beqb a b = true -> a = b.
Proof. destruct (beqb_spec a b); congruence. Qed.
Lemma beqb_neq a b : a <> b -> beqb a b = false.
Proof. destruct (beqb_spec a b); congruence. Qed.

Global Opaque SB EB MCR.

(* ------------------------------------------------------------------ *)
(* the reader                                                           *)

Lemma at_end_cons2 c e r : at_end (c :: e :: r) = beqb e EB && beqb c MCR.
Proof. reflexivity. Qed.
Lemma at_end_one c : at_end [c] = false.
Proof. reflexivity. Qed.
Lemma at_end_nil : at_end [] = false.
Proof. reflexivity. Qed.

Lemma read_loop_at_end acc rest : at_end acc = true -> read_loop acc rest = rev acc.
Proof. intros E. destruct rest as [|c r]; cbn [read_loop]; [reflexivity|now rewrite E]. Qed.

Lemma read_loop_nil acc : read_loop acc [] = rev acc.
Proof. reflexivity. Qed.

Lemma read_loop_step acc c r : at_end acc = false -> read_loop acc (c :: r) = read_loop (c :: acc) r.
Proof. intros E. cbn [read_loop]. now rewrite E. Qed.

(* the line is what was there plus a prefix of what followed *)
Lemma read_loop_prefix : forall rest acc, exists t u, rest = t ++ u /\ read_loop acc rest = rev acc ++ t.
Proof.
  induction rest as [|c r IH]; intros acc.
  - exists [], []. split; [reflexivity|]. cbn [read_loop]. now rewrite app_nil_r.
  - cbn [read_loop]. destruct (at_end acc).
    + exists [], (c :: r). split; [reflexivity|]. now rewrite app_nil_r.
    + destruct (IH (c :: acc)) as (t & u & E & R). exists (c :: t), u. split.
      * cbn. now rewrite E.
      * rewrite R. cbn [rev]. now rewrite <- app_assoc.
Qed.

(* --- the byte-fed machine --- *)

Lemma step0_stays acc s : at_end acc = true -> fold_left step s (mk_rstate 0 acc) = mk_rstate 0 acc.
Proof.
  intros E. induction s as [|c r IH]; [reflexivity|].
  cbn [fold_left]. unfold step at 2. cbn [first_left rline]. now rewrite E.
Qed.

Lemma fold0_read_loop : forall s acc,
  rev (rline (fold_left step s (mk_rstate 0 acc))) = read_loop acc s.
Proof.
  induction s as [|c r IH]; intros acc; [reflexivity|].
  cbn [fold_left read_loop]. unfold step at 2. cbn [first_left rline].
  destruct (at_end acc) eqn:E.
  - now rewrite step0_stays.
  - apply IH.
Qed.

Lemma foldk_read_loop : forall s k acc,
  rev (rline (fold_left step s (mk_rstate k acc))) = read_loop (rev (take k s) ++ acc) (drop k s).
Proof.
  unfold take, drop. induction s as [|c r IH]; intros k acc.
  - rewrite firstn_nil, skipn_nil. reflexivity.
  - destruct k as [|k].
    + cbn [firstn skipn rev app]. apply fold0_read_loop.
    + cbn [fold_left]. unfold step at 2. cbn [first_left rline].
      rewrite IH. cbn [firstn skipn rev]. now rewrite <- app_assoc.
Qed.

Lemma feed_chunks_concat : forall chunks st,
  feed_chunks st chunks = fold_left step (concat chunks) st.
Proof.
  unfold feed_chunks, feed_chunk. induction chunks as [|ch cs IH]; intros st; [reflexivity|].
  cbn [fold_left concat]. now rewrite fold_left_app, IH.
Qed.

Lemma bstarts_SB_cons c r : bstarts [SB] (c :: r) = beqb SB c.
Proof. unfold bstarts. cbn [starts_with]. now rewrite andb_true_r. Qed.
Lemma bstarts_SB_nil : bstarts [SB] [] = false.
Proof. reflexivity. Qed.

Lemma bstarts_SB_app x t : x <> [] -> bstarts [SB] (x ++ t) = bstarts [SB] x.
Proof. destruct x as [|c r]; [congruence|]. intros _. cbn [app]. now rewrite !bstarts_SB_cons. Qed.

(* the chunk-fed reader is the reading applied to the concatenation of the chunks *)
Lemma read_chunks_read_line k0 chunks : 1 <= k0 -> read_chunks k0 chunks = read_line k0 (concat chunks).
Proof.
  intros K. unfold read_chunks, read_line. rewrite feed_chunks_concat, foldk_read_loop.
  rewrite app_nil_r. set (s := concat chunks).
  destruct (read_loop_prefix (drop k0 s) (rev (take k0 s))) as (t & u & _ & R).
  rewrite R, rev_involutive.
  destruct (take k0 s) as [|c r] eqn:T.
  - (* nothing received: the stream is empty *)
    assert (s = []) as ->.
    { destruct s as [|c r]; [reflexivity|]. destruct k0; [lia|]. discriminate T. }
    unfold drop in R. rewrite skipn_nil in R. cbn in R. subst t. reflexivity.
  - rewrite bstarts_SB_app by congruence. reflexivity.
Qed.

(* the size of the first recv does not matter *)
Lemma read_line_k0 k0 s : 1 <= k0 <= 3 -> read_line k0 s = read_line 1 s.
Proof.
  intros K. unfold read_line, take, drop.
  destruct s as [|c r]; [now rewrite !firstn_nil|].
  assert (k0 = 1 \/ k0 = 2 \/ k0 = 3) as [-> | [-> | ->]] by lia; [reflexivity| |].
  - destruct r as [|d r]; [reflexivity|].
    cbn [firstn skipn rev app]. rewrite !bstarts_SB_cons.
    destruct (beqb SB c); [|reflexivity].
    now rewrite (read_loop_step [c]) by apply at_end_one.
  - destruct r as [|d r]; [reflexivity|].
    destruct r as [|e r].
    + cbn [firstn skipn rev app]. rewrite !bstarts_SB_cons.
      destruct (beqb SB c); [|reflexivity].
      now rewrite (read_loop_step [c]) by apply at_end_one.
    + cbn [firstn skipn rev app]. rewrite !bstarts_SB_cons.
      destruct (beqb SB c) eqn:E; [|reflexivity].
      apply beqb_eq in E. subst c.
      rewrite (read_loop_step [SB]) by apply at_end_one.
      rewrite (read_loop_step [d; SB]); [reflexivity|].
      rewrite at_end_cons2, SB_EB. reflexivity.
Qed.

Lemma read_chunks_k0 k0 chunks : 1 <= k0 <= 3 -> read_chunks k0 chunks = read_line 1 (concat chunks).
Proof. intros K. rewrite read_chunks_read_line by lia. now apply read_line_k0. Qed.

(* --- where the line ends --- *)

(* the loop runs through x without stopping *)
Fixpoint quiet (acc x : str) : bool :=
  match x with
  | [] => true
  | c :: r => negb (at_end acc) && quiet (c :: acc) r
  end.

Lemma read_loop_quiet : forall x acc rest,
  quiet acc x = true -> read_loop acc (x ++ rest) = read_loop (rev x ++ acc) rest.
Proof.
  induction x as [|c r IH]; intros acc rest Q; [reflexivity|].
  cbn [quiet] in Q. apply andb_prop in Q. destruct Q as [Q1 Q2].
  apply negb_true_iff in Q1. cbn [app]. rewrite read_loop_step by exact Q1.
  rewrite IH by exact Q2. cbn [rev]. now rewrite <- app_assoc.
Qed.

Lemma has_end_seq_cons2 e c r : has_end_seq (e :: c :: r) = (beqb e EB && beqb c MCR) || has_end_seq (c :: r).
Proof. reflexivity. Qed.

Lemma quiet_frame : forall b a acc',
  at_end (a :: acc') = false -> has_end_seq (a :: b) = false ->
  quiet (a :: acc') (b ++ [EB; MCR]) = true.
Proof.
  induction b as [|x b IH]; intros a acc' A Hs.
  - cbn [app quiet]. rewrite A, at_end_cons2, EB_MCR, andb_false_r. reflexivity.
  - cbn [app quiet]. rewrite A. cbn [negb andb].
    rewrite has_end_seq_cons2 in Hs. apply orb_false_elim in Hs. destruct Hs as [H1 H2].
    apply IH; [|exact H2]. now rewrite at_end_cons2.
Qed.

Lemma has_end_seq_SB b : has_end_seq (SB :: b) = has_end_seq b.
Proof. destruct b as [|c r]; [reflexivity|]. now rewrite has_end_seq_cons2, SB_EB. Qed.

(* a frame SB b EB CR whose body has no EB CR inside is read completely and nothing after it *)
Lemma read_line_frame b extra :
  has_end_seq b = false ->
  read_line 1 (SB :: b ++ [EB; MCR] ++ extra) = Some (SB :: b ++ [EB; MCR]).
Proof.
  intros Hb. unfold read_line, take, drop. cbn [firstn skipn rev app].
  rewrite bstarts_SB_cons, beqb_refl. f_equal.
  change (b ++ EB :: MCR :: extra) with (b ++ [EB; MCR] ++ extra). rewrite app_assoc.
  rewrite read_loop_quiet.
  - rewrite read_loop_at_end.
    + rewrite rev_app_distr, rev_involutive. reflexivity.
    + rewrite rev_app_distr. cbn [rev app]. rewrite at_end_cons2, !beqb_refl. reflexivity.
  - apply quiet_frame; [apply at_end_one|]. now rewrite has_end_seq_SB.
Qed.

Lemma has_end_seq_app_l : forall x y, has_end_seq (x ++ y) = false -> has_end_seq x = false.
Proof.
  induction x as [|e x IH]; intros y Hs; [reflexivity|].
  destruct x as [|c x]; [reflexivity|].
  cbn [app] in Hs. rewrite has_end_seq_cons2 in *. apply orb_false_elim in Hs. destruct Hs as [H1 H2].
  rewrite H1. cbn [orb]. apply (IH y). exact H2.
Qed.

Lemma has_end_seq_absent : forall s, bmem EB s = false -> has_end_seq s = false.
Proof.
  induction s as [|e s IH]; intros Hm; [reflexivity|].
  unfold bmem in *. cbn [mem existsb] in Hm. apply orb_false_elim in Hm. destruct Hm as [H1 H2].
  destruct s as [|c s]; [reflexivity|].
  rewrite has_end_seq_cons2, H1. cbn [andb orb]. now apply IH.
Qed.

Lemma bmem_app_false c x y : bmem c (x ++ y) = false <-> bmem c x = false /\ bmem c y = false.
Proof. unfold bmem, mem. rewrite existsb_app. apply orb_false_iff. Qed.

(* the usual wire contract: no EB byte in the payload *)
Lemma has_end_seq_payload p : bmem EB p = false -> has_end_seq (p ++ [MCR]) = false.
Proof.
  intros Hp. apply has_end_seq_absent. apply bmem_app_false. split; [exact Hp|].
  unfold bmem. cbn [mem existsb]. now rewrite MCR_EB.
Qed.

(* ------------------------------------------------------------------ *)
(* the recogniser                                                       *)

Lemma bstarts_end_seq_2 e c r : bstarts end_seq (e :: c :: r) = beqb EB e && beqb MCR c.
Proof. unfold bstarts, end_seq. cbn [starts_with]. now rewrite andb_true_r. Qed.
Lemma bstarts_end_seq_1 e : bstarts end_seq [e] = false.
Proof. unfold bstarts, end_seq. cbn [starts_with]. now rewrite andb_false_r. Qed.

Lemma beqb_comm a b : beqb a b = beqb b a.
Proof. destruct (beqb_spec a b), (beqb_spec b a); congruence. Qed.

(* whatever is extracted is a body *)
Lemma extract_body_ok : forall rest rpre b, extract_body rpre rest = Some b -> body_ok b = true.
Proof.
  induction rest as [|c r IH]; intros rpre b E; [discriminate|].
  cbn [extract_body] in E. destruct (extract_body (c :: rpre) r) as [b'|] eqn:E'.
  - injection E as <-. eapply IH; eauto.
  - destruct (bstarts end_seq (c :: r) && body_ok (rev rpre)) eqn:C; [|discriminate].
    injection E as <-. now apply andb_prop in C.
Qed.

(* ... and it is followed by EB CR; it extends the text before the scan position *)
Lemma extract_body_shape : forall rest rpre b,
  extract_body rpre rest = Some b -> exists t u, rest = t ++ EB :: MCR :: u /\ b = rev rpre ++ t.
Proof.
  induction rest as [|c r IH]; intros rpre b E; [discriminate|].
  cbn [extract_body] in E. destruct (extract_body (c :: rpre) r) as [b'|] eqn:E'.
  - injection E as <-. destruct (IH _ _ E') as (t & u & -> & ->).
    exists (c :: t), u. split; [reflexivity|]. cbn [rev]. now rewrite <- app_assoc.
  - destruct (bstarts end_seq (c :: r) && body_ok (rev rpre)) eqn:C; [|discriminate].
    injection E as <-. apply andb_prop in C. destruct C as [C _].
    destruct r as [|d r]; [now rewrite bstarts_end_seq_1 in C|].
    rewrite bstarts_end_seq_2 in C. apply andb_prop in C. destruct C as [C1 C2].
    apply beqb_eq in C1, C2. subst c d. exists [], r. split; [reflexivity|]. now rewrite app_nil_r.
Qed.

(* the rightmost EB CR wins: when the text ends with EB CR and what precedes is a body, that is it *)
Lemma extract_body_last : forall a rpre,
  body_ok (rev rpre ++ a) = true -> extract_body rpre (a ++ [EB; MCR]) = Some (rev rpre ++ a).
Proof.
  induction a as [|x a IH]; intros rpre B.
  - rewrite app_nil_r in *. cbn [app extract_body].
    rewrite bstarts_end_seq_1, bstarts_end_seq_2, !beqb_refl, B. reflexivity.
  - cbn [app extract_body]. rewrite IH.
    + cbn [rev]. now rewrite <- app_assoc.
    + cbn [rev]. now rewrite <- app_assoc.
Qed.

(* no EB CR, no match *)
Lemma extract_body_none : forall rest rpre, has_end_seq rest = false -> extract_body rpre rest = None.
Proof.
  induction rest as [|e r IH]; intros rpre Hs; [reflexivity|].
  cbn [extract_body]. destruct r as [|c r].
  - cbn [extract_body]. now rewrite bstarts_end_seq_1.
  - rewrite has_end_seq_cons2 in Hs. apply orb_false_elim in Hs. destruct Hs as [H1 H2].
    rewrite (IH _ H2). rewrite bstarts_end_seq_2, (beqb_comm EB e), (beqb_comm MCR c), H1. reflexivity.
Qed.

(* exactly one EB CR, at the end: the recogniser decides body_ok of what precedes *)
Lemma extract_body_exact : forall b rpre,
  has_end_seq b = false ->
  extract_body rpre (b ++ [EB; MCR]) =
  if body_ok (rev rpre ++ b) then Some (rev rpre ++ b) else None.
Proof.
  induction b as [|x b IH]; intros rpre Hs.
  - rewrite app_nil_r. cbn [app extract_body].
    rewrite bstarts_end_seq_1, bstarts_end_seq_2, !beqb_refl. reflexivity.
  - cbn [app extract_body]. rewrite IH.
    + cbn [rev]. rewrite <- app_assoc. cbn [app].
      destruct (body_ok (rev rpre ++ x :: b)); [reflexivity|].
      assert (bstarts end_seq (x :: b ++ [EB; MCR]) = false) as ->; [|reflexivity].
      destruct b as [|y b].
      * cbn [app]. rewrite bstarts_end_seq_2, MCR_EB, andb_false_r. reflexivity.
      * cbn [app]. rewrite bstarts_end_seq_2, (beqb_comm EB x), (beqb_comm MCR y).
        rewrite has_end_seq_cons2 in Hs. now apply orb_false_elim in Hs.
    + destruct b as [|y b]; [reflexivity|]. rewrite has_end_seq_cons2 in Hs.
      now apply orb_false_elim in Hs.
Qed.

(* --- bodies --- *)

Lemma split_aux_snoc c : forall s cur,
  split_aux beqb c cur (s ++ [c]) = split_aux beqb c cur s ++ [[]].
Proof.
  induction s as [|x s IH]; intros cur.
  - cbn [app split_aux]. rewrite beqb_refl. reflexivity.
  - cbn [app split_aux]. destruct (beqb x c); rewrite IH; reflexivity.
Qed.

Lemma split_aux_nonnil c : forall s cur, split_aux beqb c cur s <> [].
Proof. induction s as [|x s IH]; intros cur; cbn [split_aux]; [discriminate|]. destruct (beqb x c); [discriminate|apply IH]. Qed.

Lemma bsplit_snoc c s : bsplit c (s ++ [c]) = bsplit c s ++ [[]].
Proof. apply split_aux_snoc. Qed.
Lemma bsplit_nonnil c s : bsplit c s <> [].
Proof. apply split_aux_nonnil. Qed.

Lemma drop_last_empty_snoc l : drop_last_empty (l ++ [[]]) = l.
Proof. unfold drop_last_empty. rewrite rev_app_distr. cbn [rev app]. apply rev_involutive. Qed.

(* the body "payload + CR" is accepted exactly when the payload has no empty line *)
Lemma body_ok_payload_cr p : body_ok (p ++ [MCR]) = payload_ok p.
Proof.
  unfold body_ok, payload_ok. destruct (p ++ [MCR]) as [|x r] eqn:E.
  - now destruct p.
  - rewrite <- E, bsplit_snoc, drop_last_empty_snoc.
    destruct (bsplit MCR p) eqn:S; [|reflexivity]. now apply bsplit_nonnil in S.
Qed.

(* ... and so is the payload alone (a frame without the CR before EB) *)
Lemma body_ok_payload p : payload_ok p = true -> body_ok p = true.
Proof.
  unfold body_ok, payload_ok. intros P. destruct p as [|c r]; [discriminate P|].
  remember (bsplit MCR (c :: r)) as parts eqn:Hparts.
  assert (drop_last_empty parts = parts) as ->.
  { unfold drop_last_empty. destruct (@rev str parts) as [|[|x y] r'] eqn:R; try reflexivity.
    exfalso. assert (parts = rev r' ++ [[]]) as E.
    { rewrite <- (rev_involutive parts). unfold str in R. rewrite R. reflexivity. }
    rewrite E, forallb_app in P. cbn in P. now rewrite andb_false_r in P. }
  destruct parts eqn:S; [|exact P]. symmetry in Hparts. now apply bsplit_nonnil in Hparts.
Qed.

(* extraction from a to_mllp-shaped frame *)
Lemma extract_frame b : body_ok b = true -> extract (SB :: b ++ [EB; MCR]) = Some b.
Proof. intros B. unfold extract. rewrite beqb_refl. now apply (extract_body_last b []). Qed.

Lemma extract_frame_exact b :
  has_end_seq b = false -> extract (SB :: b ++ [EB; MCR]) = if body_ok b then Some b else None.
Proof. intros Hs. unfold extract. rewrite beqb_refl. now apply (extract_body_exact b []). Qed.

Lemma extract_some_body_ok s b : extract s = Some b -> body_ok b = true.
Proof.
  unfold extract. destruct s as [|c r]; [discriminate|]. destruct (beqb c SB); [|discriminate].
  apply extract_body_ok.
Qed.

Lemma has_end_seq_tail c t : has_end_seq (c :: t) = false -> has_end_seq t = false.
Proof. destruct t as [|d t]; [reflexivity|]. rewrite has_end_seq_cons2. intros Hs. now apply orb_false_elim in Hs. Qed.

Lemma extract_none s : has_end_seq s = false -> extract s = None.
Proof.
  unfold extract. destruct s as [|c r]; [reflexivity|]. intros Hs. destruct (beqb c SB); [|reflexivity].
  apply extract_body_none. now apply has_end_seq_tail in Hs.
Qed.

Lemma has_end_seq_snoc_EB : forall b, has_end_seq b = false -> has_end_seq (b ++ [EB]) = false.
Proof.
  induction b as [|e b IH]; intros Hs; [reflexivity|].
  destruct b as [|c b].
  - cbn [app]. rewrite has_end_seq_cons2, EB_MCR, andb_false_r. reflexivity.
  - cbn [app] in *. rewrite has_end_seq_cons2 in *. apply orb_false_elim in Hs. destruct Hs as [H1 H2].
    rewrite H1. cbn [orb]. now apply IH.
Qed.

(* ------------------------------------------------------------------ *)
(* decoding                                                             *)

Lemma decodable_frame b : decodable (SB :: b ++ [EB; MCR]) = decodable b.
Proof.
  unfold decodable. cbn [forallb]. rewrite forallb_app. cbn [forallb].
  now rewrite ascii_SB, ascii_EB, ascii_MCR, !andb_true_r.
Qed.

Lemma decodable_app x y : decodable (x ++ y) = decodable x && decodable y.
Proof. apply forallb_app. Qed.

Lemma never_utf8_not_ascii x : never_utf8 x = true -> is_ascii x = false.
Proof. destruct x; vm_compute; congruence. Qed.

Lemma not_decodable_in x s : In x s -> is_ascii x = false -> decodable s = false.
Proof.
  intros I A. unfold decodable. destruct (forallb is_ascii s) eqn:F; [|reflexivity].
  rewrite forallb_forall in F. rewrite (F _ I) in A. discriminate.
Qed.

(* ------------------------------------------------------------------ *)
(* one connection                                                       *)

Section Serve.
Variable H : Type.
Variable handlers : list (str * H).
Variable hb : H -> option exn -> str -> result str.
Notation serve := (serve handlers hb).
Notation route := (route handlers hb).

Lemma serve_is_stream k0 chunks : 1 <= k0 <= 3 ->
  serve k0 chunks = serve_stream handlers hb 1 (concat chunks).
Proof. intros K. unfold Mllp.serve, serve_stream. now rewrite read_chunks_k0. Qed.

(* a complete frame (anything may follow it) *)
Lemma serve_frame k0 chunks b extra :
  1 <= k0 <= 3 -> concat chunks = SB :: b ++ [EB; MCR] ++ extra -> has_end_seq b = false ->
  serve k0 chunks = if decodable b && body_ok b then route b else no_handler.
Proof.
  intros K C Hs. rewrite serve_is_stream, C by exact K. unfold serve_stream.
  rewrite read_line_frame by exact Hs. cbn [serve_line].
  rewrite decodable_frame, extract_frame_exact by exact Hs.
  destruct (decodable b); [|reflexivity]. destruct (body_ok b); reflexivity.
Qed.

(* no start block *)
Lemma serve_no_sb k0 chunks : 1 <= k0 <= 3 -> bstarts [SB] (concat chunks) = false -> serve k0 chunks = no_handler.
Proof.
  intros K B. rewrite serve_is_stream by exact K. unfold serve_stream, read_line, take.
  destruct (concat chunks) as [|c r]; [reflexivity|].
  cbn [firstn]. rewrite bstarts_SB_cons in *. now rewrite B.
Qed.

(* no EB CR anywhere (in particular: every proper prefix of a frame) *)
Lemma serve_no_end k0 chunks : 1 <= k0 <= 3 -> has_end_seq (concat chunks) = false -> serve k0 chunks = no_handler.
Proof.
  intros K Hs. rewrite serve_is_stream by exact K. unfold serve_stream, read_line, take, drop.
  destruct (concat chunks) as [|c r]; [reflexivity|].
  cbn [firstn skipn rev app]. rewrite bstarts_SB_cons. destruct (beqb SB c); [|reflexivity].
  destruct (read_loop_prefix r [c]) as (t & u & -> & R). rewrite R. cbn [rev app serve_line].
  change (c :: t ++ u) with ((c :: t) ++ u) in Hs. apply has_end_seq_app_l in Hs.
  rewrite (extract_none _ Hs). now destruct (decodable (c :: t)).
Qed.

(* the line cannot be decoded *)
Lemma serve_undecodable k0 chunks line : 1 <= k0 <= 3 ->
  read_line 1 (concat chunks) = Some line -> decodable line = false -> serve k0 chunks = no_handler.
Proof.
  intros K R D. rewrite serve_is_stream by exact K. unfold serve_stream. rewrite R. cbn [serve_line].
  now rewrite D.
Qed.

(* the connection is always closed *)
Lemma route_fallback_closed msg cs e : closed (route_fallback handlers hb msg cs e) = true.
Proof.
  unfold route_fallback. destruct (slookup err_key handlers); [|reflexivity]. now destruct (hb _ _ msg).
Qed.

Lemma route_closed msg : closed (route msg) = true.
Proof.
  unfold Mllp.route. destruct (route_first handlers hb msg) as [cs [r|e]]; [reflexivity|].
  apply route_fallback_closed.
Qed.

Lemma serve_line_closed l : closed (serve_line handlers hb l) = true.
Proof.
  destruct l as [l|]; [|reflexivity]. cbn [serve_line]. destruct (decodable l); [|reflexivity].
  destruct (extract l); [apply route_closed|reflexivity].
Qed.

Lemma serve_closed k0 chunks : closed (serve k0 chunks) = true.
Proof. apply serve_line_closed. Qed.

(* --- routing --- *)

Lemma route_registered msg k h r :
  get_message_type msg = Ok (Some k) -> slookup k handlers = Some h -> hb h None msg = Ok r ->
  route msg = mk_outcome [CallH k h msg] (Some r) true.
Proof. intros G L B. unfold Mllp.route, route_first, lookup_type. now rewrite G, L, B. Qed.

Lemma route_unsupported msg mt he r :
  get_message_type msg = Ok mt -> lookup_type handlers mt = None ->
  slookup err_key handlers = Some he -> hb he (Some (HL7 EUnsupportedMessageType)) msg = Ok r ->
  route msg = mk_outcome [CallErr he (HL7 EUnsupportedMessageType) msg] (Some r) true.
Proof. intros G L E B. unfold Mllp.route, route_first, route_fallback. now rewrite G, L, E, B. Qed.

Lemma route_invalid msg he r :
  get_message_type msg = Err (HL7 EParserError) ->
  slookup err_key handlers = Some he -> hb he (Some (HL7 EInvalidHL7Message)) msg = Ok r ->
  route msg = mk_outcome [CallErr he (HL7 EInvalidHL7Message) msg] (Some r) true.
Proof. intros G E B. unfold Mllp.route, route_first, route_fallback. now rewrite G, E, B. Qed.

Lemma route_unsupported_no_err msg mt :
  get_message_type msg = Ok mt -> lookup_type handlers mt = None ->
  slookup err_key handlers = None -> route msg = no_handler.
Proof. intros G L E. unfold Mllp.route, route_first, route_fallback. now rewrite G, L, E. Qed.

Lemma route_first_err msg e : get_message_type msg = Err e -> exists e', route_first handlers hb msg = ([], Err e').
Proof.
  intros G. unfold route_first. rewrite G. destruct e as [c| | |]; try (eexists; reflexivity).
  destruct c; eexists; reflexivity.
Qed.

Lemma route_failed_no_err msg e :
  get_message_type msg = Err e -> slookup err_key handlers = None -> route msg = no_handler.
Proof.
  intros G E. unfold Mllp.route. destruct (route_first_err _ _ G) as (e' & ->).
  unfold route_fallback. now rewrite E.
Qed.

(* with handlers that do not raise: at most one invocation, and a reply exactly when there is one *)
Lemma route_at_most_one msg :
  (forall h e p, is_ok (hb h e p) = true) ->
  (exists c r, route msg = mk_outcome [c] (Some r) true) \/ route msg = no_handler.
Proof.
  intros NR.
  assert (forall h e p, exists r, hb h e p = Ok r) as NR'.
  { intros h e p. specialize (NR h e p). destruct (hb h e p) as [r|]; [now exists r|discriminate]. }
  assert (forall e', (exists c r, route_fallback handlers hb msg [] e' = mk_outcome [c] (Some r) true) \/
                     route_fallback handlers hb msg [] e' = no_handler) as X.
  { intros e'. unfold route_fallback. destruct (slookup err_key handlers) as [he|]; [|now right].
    destruct (NR' he (Some e') msg) as (r & ->). left. now exists (CallErr he e' msg), r. }
  unfold Mllp.route. destruct (get_message_type msg) as [mt|e] eqn:G.
  - unfold route_first. rewrite G. destruct (lookup_type handlers mt) as [[k h]|].
    + destruct (NR' h None msg) as (r & ->). left. now exists (CallH k h msg), r.
    + apply X.
  - destruct (route_first_err _ _ G) as (e' & ->). apply X.
Qed.

End Serve.

(* a payload that does not begin with MSH and a non-blank separator is "not HL7" *)
Lemma not_msh_parser_error msg : msh_field_sep msg = None -> get_message_type msg = Err (HL7 EParserError).
Proof. intros M. unfold get_message_type, split_msh. now rewrite M. Qed.

(* proper prefixes of a frame contain no end sequence *)
Lemma frame_prefix_no_end p stream rest :
  has_end_seq (p ++ [MCR]) = false -> rest <> [] -> stream ++ rest = to_mllp p ->
  has_end_seq stream = false.
Proof.
  intros Hs Nr E.
  destruct (exists_last Nr) as (rest' & x & ->).
  unfold to_mllp in E.
  change ([SB] ++ p ++ [MCR] ++ [EB] ++ [MCR]) with (SB :: (p ++ [MCR] ++ [EB] ++ [MCR])) in E.
  assert (SB :: p ++ [MCR] ++ [EB] ++ [MCR] = (SB :: (p ++ [MCR]) ++ [EB]) ++ [MCR]) as E2.
  { cbn [app]. now rewrite <- !app_assoc. }
  rewrite E2, app_assoc in E. apply app_inj_tail in E. destruct E as [E _].
  apply has_end_seq_app_l with (y := rest'). rewrite E.
  rewrite has_end_seq_SB. now apply has_end_seq_snoc_EB.
Qed.

(* ------------------------------------------------------------------ *)
(* frames made by to_mllp                                               *)

Lemma to_mllp_shape p extra : to_mllp p ++ extra = SB :: (p ++ [MCR]) ++ [EB; MCR] ++ extra.
Proof. unfold to_mllp. cbn [app]. now rewrite <- !app_assoc. Qed.

Lemma to_mllp_shape0 p : to_mllp p = SB :: (p ++ [MCR]) ++ [EB; MCR].
Proof. rewrite <- (app_nil_r (to_mllp p)), to_mllp_shape. now rewrite !app_nil_r. Qed.

Lemma decodable_payload_cr p : decodable (p ++ [MCR]) = decodable p.
Proof. rewrite decodable_app. unfold decodable at 2. cbn [forallb]. now rewrite ascii_MCR, !andb_true_r. Qed.

Lemma serve_mllp H (handlers : list (str * H)) hb k0 chunks p extra :
  1 <= k0 <= 3 -> concat chunks = to_mllp p ++ extra ->
  payload_ok p = true -> has_end_seq (p ++ [MCR]) = false -> decodable p = true ->
  serve handlers hb k0 chunks = route handlers hb (p ++ [MCR]).
Proof.
  intros K C P Hs D. rewrite to_mllp_shape in C.
  rewrite (serve_frame _ _ _ _ _ _ _ K C Hs).
  now rewrite decodable_payload_cr, D, body_ok_payload_cr, P.
Qed.
