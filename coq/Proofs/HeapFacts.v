(* Basic facts about the containers and primitives of Model/Heap.v: index maps, list edits,
   the function heap, and the Hoare-style rules for the state-and-error monad in which effects
   before a raise persist. *)
From Coq Require Import List Bool Arith Lia ZArith NArith Init.Byte.
From HL7 Require Import Lib.Str Model.Ec Model.Result Model.Ref Model.Tree Model.Parser Model.Encode Model.Heap.
Import ListNotations.

(* ---------- option str keys ---------- *)

Lemma opt_eqb_spec a b : reflect (a = b) (opt_eqb a b).
Proof.
  destruct a as [x|], b as [y|]; cbn; try (constructor; congruence).
  destruct (streqb_spec x y); constructor; congruence.
Qed.
Lemma opt_eqb_refl a : opt_eqb a a = true.
Proof. destruct (opt_eqb_spec a a); congruence. Qed.
Lemma opt_eqb_sym a b : opt_eqb a b = opt_eqb b a.
Proof. destruct (opt_eqb_spec a b), (opt_eqb_spec b a); congruence. Qed.

(* ---------- index maps ---------- *)

Lemma iget_iset_same k v m : iget k (iset k v m) = v.
Proof.
  induction m as [|[k' v'] m IH]; cbn.
  - now rewrite opt_eqb_refl.
  - destruct (opt_eqb k k') eqn:E; cbn; rewrite E; auto.
Qed.
Lemma iget_iset_other k k' v m : k' <> k -> iget k' (iset k v m) = iget k' m.
Proof.
  intros N. induction m as [|[k0 v0] m IH]; cbn.
  - destruct (opt_eqb_spec k' k); congruence.
  - destruct (opt_eqb_spec k k0) as [->|N0]; cbn.
    + destruct (opt_eqb_spec k' k0); congruence.
    + destruct (opt_eqb k' k0); auto.
Qed.
Lemma iget_iset k k' v m : iget k' (iset k v m) = if opt_eqb k' k then v else iget k' m.
Proof.
  destruct (opt_eqb_spec k' k) as [->|N]; [apply iget_iset_same|now apply iget_iset_other].
Qed.
Lemma ihas_false_iget k m : ihas k m = false -> iget k m = [].
Proof.
  induction m as [|[k' v'] m IH]; cbn; auto.
  destruct (opt_eqb k k'); cbn; [discriminate|auto].
Qed.

(* all members of an index map, whatever the key *)
Definition members (m : imap) : list nat := flat_map snd m.
Lemma In_iget_members k m c : In c (iget k m) -> In c (members m).
Proof.
  induction m as [|[k' v'] m IH]; cbn; auto.
  destruct (opt_eqb k k'); intros H; apply in_or_app; auto.
Qed.
Lemma In_members_iset k v m c : In c (members (iset k v m)) -> In c v \/ In c (members m).
Proof.
  induction m as [|[k' v'] m IH]; cbn.
  - rewrite app_nil_r. auto.
  - destruct (opt_eqb k k'); cbn; intros H; apply in_app_or in H.
    + destruct H; auto. right. apply in_or_app. auto.
    + destruct H as [H|H]; [right; apply in_or_app; auto|].
      destruct (IH H); auto. right. apply in_or_app. auto.
Qed.
Lemma In_members_idel k m c : In c (members (idel k m)) -> In c (members m).
Proof.
  induction m as [|[k' v'] m IH]; cbn; auto.
  destruct (opt_eqb k k'); cbn; intros H.
  - apply in_or_app. auto.
  - apply in_app_or in H. apply in_or_app. destruct H; auto.
Qed.

(* bindings *)
Lemma keys_iset k v m : NoDup (map fst m) -> NoDup (map fst (iset k v m)).
Proof.
  induction m as [|[k' v'] m IH]; cbn; intros D.
  - constructor; auto.
  - inversion D; subst. destruct (opt_eqb_spec k k') as [->|N]; cbn; [constructor; auto|].
    constructor; auto. intros H. apply H1.
    clear - H N. induction m as [|[k0 v0] m IH]; cbn in *.
    + destruct H as [H|[]]. congruence.
    + destruct (opt_eqb_spec k k0) as [->|N0]; cbn in H; destruct H; auto.
Qed.
Lemma In_iset_keys k v m kv : NoDup (map fst m) -> In kv (iset k v m) -> kv = (k, v) \/ (In kv m /\ fst kv <> k).
Proof.
  induction m as [|[k' v'] m IH]; cbn; intros D.
  - intros [<-|[]]. auto.
  - inversion D; subst. destruct (opt_eqb_spec k k') as [->|N]; cbn.
    + intros [<-|H]; auto. right. split; auto. intros E. apply H1. destruct kv as [a b]. cbn in E. subst a.
      change k' with (fst (k', b)). now apply in_map.
    + intros [<-|H]; auto. destruct (IH H2 H) as [->|[A B]]; auto.
Qed.
Lemma iget_binding k l m : NoDup (map fst m) -> In (k, l) m -> iget k m = l.
Proof.
  induction m as [|[k' v'] m IH]; cbn; [tauto|]. intros D [E|H].
  - inversion E; subst. now rewrite opt_eqb_refl.
  - inversion D; subst. destruct (opt_eqb_spec k k') as [->|N]; auto.
    exfalso. apply H2. change k' with (fst (k', l)). now apply in_map.
Qed.
Lemma In_idel k m kv : In kv (idel k m) -> In kv m.
Proof.
  induction m as [|[k' v'] m IH]; cbn; auto.
  destruct (opt_eqb k k'); cbn; intros H; auto. destruct H; auto.
Qed.
Lemma idel_key k m kv : NoDup (map fst m) -> In kv (idel k m) -> fst kv <> k.
Proof.
  induction m as [|[k' v'] m IH]; cbn; [tauto|]. intros D. inversion D; subst.
  destruct (opt_eqb_spec k k') as [->|N]; cbn.
  - intros H E. apply H1. rewrite <- E. now apply in_map.
  - intros [<-|H]; cbn; auto.
Qed.
Lemma keys_idel k m : NoDup (map fst m) -> NoDup (map fst (idel k m)).
Proof.
  induction m as [|[k' v'] m IH]; cbn; auto. intros D. inversion D; subst.
  destruct (opt_eqb k k'); cbn; auto. constructor; auto.
  intros H. apply H1. apply in_map_iff in H. destruct H as [kv [E H]]. apply In_idel in H.
  rewrite <- E. now apply in_map.
Qed.
Lemma In_members m c : In c (members m) <-> exists k l, In (k, l) m /\ In c l.
Proof.
  unfold members. rewrite in_flat_map. split.
  - intros [[k l] [A B]]. eauto.
  - intros (k & l & A & B). exists (k, l). auto.
Qed.

(* ---------- list edits ---------- *)

Lemma memb_In c l : memb c l = true <-> In c l.
Proof.
  unfold memb. rewrite existsb_exists. split.
  - intros [x [Hx E]]. apply Nat.eqb_eq in E. now subst.
  - intros H. exists c. split; auto. apply Nat.eqb_refl.
Qed.
Lemma memb_false c l : memb c l = false <-> ~ In c l.
Proof. rewrite <- memb_In. destruct (memb c l); split; congruence. Qed.

Lemma In_remove1 x c l : In x (remove1 c l) -> In x l.
Proof.
  induction l as [|a l IH]; cbn; auto.
  destruct (Nat.eqb c a); cbn; tauto.
Qed.
Lemma NoDup_remove1 c l : NoDup l -> NoDup (remove1 c l).
Proof.
  induction 1 as [|a l Ha Hl IH]; cbn; [constructor|].
  destruct (Nat.eqb c a); auto. constructor; auto. intro H. apply Ha. eapply In_remove1; eauto.
Qed.
Lemma notin_remove1 c l : NoDup l -> ~ In c (remove1 c l).
Proof.
  induction 1 as [|a l Ha Hl IH]; cbn; auto.
  destruct (Nat.eqb_spec c a) as [->|N]; auto. cbn. intros [E|H]; [congruence|auto].
Qed.
Lemma remove1_notin c l : ~ In c l -> remove1 c l = l.
Proof.
  induction l as [|a l IH]; cbn; auto. intros N.
  destruct (Nat.eqb_spec c a) as [->|Ne]; [tauto|]. f_equal. apply IH. tauto.
Qed.
Lemma In_remove1_other x c l : x <> c -> In x l -> In x (remove1 c l).
Proof.
  intros N. induction l as [|a l IH]; cbn; auto.
  destruct (Nat.eqb_spec c a) as [->|Ne]; cbn; intros [E|H]; auto; congruence.
Qed.
Lemma filter_remove1 (f : nat -> bool) c l :
  filter f (remove1 c l) = if f c then remove1 c (filter f l) else filter f l.
Proof.
  induction l as [|a l IH]; cbn; [now destruct (f c)|].
  destruct (Nat.eqb_spec c a) as [->|N].
  - destruct (f a) eqn:Fa; cbn; [now rewrite Nat.eqb_refl|reflexivity].
  - cbn. destruct (f a) eqn:Fa; cbn.
    + rewrite IH. destruct (f c); auto. destruct (Nat.eqb_spec c a); [congruence|reflexivity].
    + rewrite IH. reflexivity.
Qed.

Lemma In_insert_at x i c l : In x (insert_at i c l) <-> x = c \/ In x l.
Proof.
  revert i. induction l as [|a l IH]; intros [|i]; cbn.
  - intuition congruence.
  - intuition congruence.
  - intuition congruence.
  - specialize (IH i). intuition congruence.
Qed.
Lemma NoDup_insert_at i c l : NoDup l -> ~ In c l -> NoDup (insert_at i c l).
Proof.
  revert i. induction l as [|a l IH]; intros [|i] D N; cbn.
  - constructor; auto.
  - constructor; auto.
  - constructor; auto.
  - inversion D; subst. constructor.
    + rewrite In_insert_at. cbn in N. intuition congruence.
    + apply IH; auto. cbn in N. tauto.
Qed.
Lemma filter_insert_at_false (f : nat -> bool) i c l : f c = false -> filter f (insert_at i c l) = filter f l.
Proof.
  intros F. revert i. induction l as [|a l IH]; intros [|i]; cbn; rewrite ?F; auto.
  rewrite IH. reflexivity.
Qed.

Lemma index_of_In c l : In c l -> exists i, index_of c l = Some i.
Proof.
  induction l as [|a l IH]; cbn; [tauto|]. intros H.
  destruct (Nat.eqb_spec c a) as [->|N]; [eauto|].
  destruct H as [E|H]; [congruence|]. destruct (IH H) as [i Hi]. rewrite Hi. cbn. eauto.
Qed.
Lemma index_of_Some_In c l i : index_of c l = Some i -> In c l.
Proof.
  revert i. induction l as [|a l IH]; cbn; [discriminate|]. intros i.
  destruct (Nat.eqb_spec c a) as [->|N]; auto.
  destruct (index_of c l) eqn:E; cbn; [|discriminate]. intros _. right. eapply IH; eauto.
Qed.

(* replacing `old` by `c` at the same place: the by-name view is edited at the by-name place *)
Lemma filter_replace (f : nat -> bool) old c l li bi :
  NoDup l -> ~ In c l -> f old = true -> f c = true ->
  index_of old l = Some li -> index_of old (filter f l) = Some bi ->
  filter f (insert_at li c (remove1 old l)) = insert_at bi c (remove1 old (filter f l)).
Proof.
  intros D N Fo Fc. revert li bi. induction l as [|a l IH]; cbn; [discriminate|]. intros li bi.
  destruct (Nat.eqb_spec old a) as [->|Ne].
  - intros [= <-]. rewrite Fo. cbn. rewrite Nat.eqb_refl. intros [= <-]. cbn. rewrite Fc. reflexivity.
  - destruct (index_of old l) as [j|] eqn:Ej; cbn; [|discriminate]. intros [= <-].
    inversion D; subst. cbn in N.
    destruct (f a) eqn:Fa; cbn.
    + destruct (Nat.eqb_spec old a); [congruence|].
      destruct (index_of old (filter f l)) as [b|] eqn:Eb; cbn; [|discriminate]. intros [= <-].
      cbn. rewrite Fa. f_equal. apply IH; auto.
    + intros Hb. rewrite Fa. apply IH; auto.
Qed.

(* ---------- the function heap ---------- *)

Lemma getn_setn_same s i n : getn (setn s i n) i = n.
Proof. unfold getn, setn, upd. cbn. now rewrite Nat.eqb_refl. Qed.
Lemma getn_setn_other s i n j : j <> i -> getn (setn s i n) j = getn s j.
Proof. unfold getn, setn, upd. cbn. intros H. destruct (Nat.eqb_spec j i); congruence. Qed.
Lemma getn_setn s i n j : getn (setn s i n) j = if Nat.eqb j i then n else getn s j.
Proof. unfold getn, setn, upd. cbn. reflexivity. Qed.
Lemma next_setn s i n : s_next (setn s i n) = s_next s.
Proof. reflexivity. Qed.

(* ---------- Hoare-style rules ---------- *)

(* spec m P Q E: from a state satisfying P, m either returns a with Q a, or raises leaving E *)
Definition spec {A} (m : M A) (P : store -> Prop) (Q : A -> store -> Prop) (E : store -> Prop) : Prop :=
  forall s, P s -> match m s with (s', Ok a) => Q a s' | (s', Err _) => E s' end.

Lemma spec_ret {A} (a : A) (P : store -> Prop) E : spec (ret a) P (fun b s => b = a /\ P s) E.
Proof. intros s H. cbn. auto. Qed.
Lemma spec_raise {A} x (P : store -> Prop) (Q : A -> store -> Prop) : spec (raise x) P Q P.
Proof. intros s H. cbn. auto. Qed.
Lemma spec_bind {A B} (m : M A) (f : A -> M B) P Q R E :
  spec m P Q E -> (forall a, spec (f a) (Q a) R E) -> spec (mbind m f) P R E.
Proof.
  intros Hm Hf s HP. unfold mbind. specialize (Hm s HP). destruct (m s) as [s' [a|x]]; auto.
  apply (Hf a s' Hm).
Qed.
Lemma spec_conseq {A} (m : M A) (P P' : store -> Prop) (Q Q' : A -> store -> Prop) (E E' : store -> Prop) :
  spec m P Q E -> (forall s, P' s -> P s) -> (forall a s, Q a s -> Q' a s) -> (forall s, E s -> E' s) ->
  spec m P' Q' E'.
Proof.
  intros H HP HQ HE s Hs. specialize (H s (HP s Hs)). destruct (m s) as [s' [a|x]]; auto.
Qed.
Lemma spec_lift {A} (r : result A) (P : store -> Prop) :
  spec (lift r) P (fun a s => r = Ok a /\ P s) P.
Proof. intros s H. unfold lift. destruct r; auto. Qed.
Lemma spec_node_of i (P : store -> Prop) :
  spec (node_of i) P (fun n s => n = getn s i /\ P s) P.
Proof. intros s H. cbn. auto. Qed.
Lemma spec_modify (f : store -> store) (P : store -> Prop) (Q : unit -> store -> Prop) E :
  (forall s, P s -> Q tt (f s)) -> spec (modify f) P Q E.
Proof. intros H s Hs. cbn. auto. Qed.
Lemma spec_pre_false {A} (m : M A) (P : store -> Prop) Q E : (forall s, P s -> False) -> spec m P Q E.
Proof. intros H s Hs. destruct (H s Hs). Qed.
(* the precondition may be established from pure facts *)
Lemma spec_intro {A} (m : M A) (X : Prop) (P : store -> Prop) Q E :
  (X -> spec m P Q E) -> spec m (fun s => X /\ P s) Q E.
Proof. intros H s [x Hs]. apply (H x s Hs). Qed.
Lemma spec_catch {A} (m : M A) p (h : M A) P Q E E' :
  spec m P Q E' -> spec h E' Q E -> (forall s, E' s -> E s) -> spec (mcatch m p h) P Q E.
Proof.
  intros Hm Hh HE s Hs. unfold mcatch. specialize (Hm s Hs). destruct (m s) as [s' [a|x]]; auto.
  destruct (p x); auto. apply (Hh s' Hm).
Qed.

Lemma mbind_run {A B} (m : M A) (f : A -> M B) s :
  mbind m f s = match m s with (s', Ok a) => f a s' | (s', Err x) => (s', Err x) end.
Proof. reflexivity. Qed.

Lemma NoDup_app_snoc_nat (l : list nat) c : NoDup l -> ~ In c l -> NoDup (l ++ [c]).
Proof.
  induction l as [|a l IH]; cbn; intros D N.
  - constructor; [intros []|constructor].
  - inversion D; subst. constructor.
    + intro Hin. apply in_app_or in Hin. destruct Hin as [Hin|[Hin|[]]]; [contradiction|]. apply N. now left.
    + apply IH; auto.
Qed.

Lemma py_nth_In {A} (l : list A) i c : py_nth l i = Some c -> In c l.
Proof.
  unfold py_nth. destruct (0 <=? i)%Z; [apply nth_error_In|].
  destruct (0 <=? Z.of_nat (length l) + i)%Z; [apply nth_error_In|discriminate].
Qed.
