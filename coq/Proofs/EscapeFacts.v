(* Facts about Model/Escape.v: delimiter-freeness, idempotence, token safety (partial), and the
   computed witnesses that refute full token safety (finding F4). *)
From Coq Require Import List Bool NArith Init.Byte Lia.
From HL7 Require Import Lib.Str Model.Ec Model.Escape.
Import ListNotations.

(* ------------------------------------------------------------------ *)
(* generic list facts                                                   *)

Lemma bmem_app c x y : bmem c (x ++ y) = bmem c x || bmem c y.
Proof. unfold bmem, mem. now rewrite existsb_app. Qed.

Lemma bmem_cons c a x : bmem c (a :: x) = beqb a c || bmem c x.
Proof. reflexivity. Qed.

Lemma beqb_sym a b : beqb a b = beqb b a.
Proof. destruct (beqb_spec a b), (beqb_spec b a); congruence. Qed.

Lemma beqb_true a b : beqb a b = true -> a = b.
Proof. destruct (beqb_spec a b); congruence. Qed.

Lemma beqb_false_ne a b : a <> b -> beqb a b = false.
Proof. destruct (beqb_spec a b); congruence. Qed.

Lemma replace1_removes c rep s : bmem c rep = false -> bmem c (breplace1 c rep s) = false.
Proof.
  intros Hr. unfold breplace1. induction s as [|x r IH]; [reflexivity|].
  cbn [replace1]. rewrite bmem_app, IH, orb_false_r.
  destruct (beqb x c) eqn:E; [exact Hr|]. cbn. now rewrite E.
Qed.

Lemma replace1_keeps_absent d c rep s :
  bmem d rep = false -> bmem d s = false -> bmem d (breplace1 c rep s) = false.
Proof.
  intros Hr. unfold breplace1. induction s as [|x r IH]; [reflexivity|].
  rewrite bmem_cons. intros H. apply orb_false_elim in H. destruct H as [Hx Hs].
  cbn [replace1]. rewrite bmem_app, (IH Hs), orb_false_r.
  destruct (beqb x c); [exact Hr|]. cbn. now rewrite Hx.
Qed.

Lemma replace1_absent_id c rep s : bmem c s = false -> breplace1 c rep s = s.
Proof.
  unfold breplace1. induction s as [|x r IH]; [reflexivity|].
  rewrite bmem_cons. intros H. apply orb_false_elim in H. destruct H as [Hx Hs].
  cbn [replace1]. rewrite Hx, (IH Hs). reflexivity.
Qed.

(* ------------------------------------------------------------------ *)
(* the scanner                                                          *)

Section ScanFacts.
Variable escc E : byte.
Variable lb la : byte -> bool.
Hypothesis lb_E : lb E = true.
Hypothesis la_E : la E = true.
Hypothesis lb_esc : lb escc = false.
Hypothesis la_esc : la escc = false.

Notation is_esc := (is_esc escc).
Notation scan := (scan escc E lb la).
Notation behind := (behind escc lb).
Notation ahead := (ahead escc la).

Definition oesc (o : option byte) : bool := match o with Some a => is_esc a | None => false end.
Definition R (p2 p1 q2 q1 : option byte) : Prop :=
  oesc q1 = oesc p1 /\ behind q2 q1 = behind p2 p1.

Lemma is_esc_esc : is_esc escc = true.
Proof. unfold Escape.is_esc. apply beqb_refl. Qed.
Lemma is_esc_true c : is_esc c = true -> c = escc.
Proof. unfold Escape.is_esc. apply beqb_true. Qed.
Lemma is_esc_E : is_esc E = false.
Proof. destruct (is_esc E) eqn:H; auto. apply is_esc_true in H. congruence. Qed.
Lemma la_not_esc l : la l = true -> is_esc l = false.
Proof. intros H. destruct (is_esc l) eqn:H1; auto. apply is_esc_true in H1. congruence. Qed.

Lemma behind_step q1 p1 c : oesc q1 = oesc p1 -> behind q1 (Some c) = behind p1 (Some c).
Proof. intros H. destruct q1, p1; simpl in *; try rewrite H; auto; try (rewrite <- H; auto). Qed.

Lemma ahead_scan p2 rest : ahead rest = true -> ahead (scan p2 (Some escc) rest) = true.
Proof.
  destruct rest as [|l [|e r]]; simpl; try discriminate.
  intros H. apply andb_prop in H. destruct H as [Hl He].
  rewrite (la_not_esc _ Hl). simpl.
  rewrite He. simpl. destruct (negb (is_esc escc && lb l) && negb (ahead r)); cbn; rewrite Hl, ?(is_esc_true _ He), is_esc_esc; reflexivity.
Qed.

Lemma scan_keep q2 q1 c out :
  is_esc c && negb (behind q2 q1) && negb (ahead out) = false ->
  scan q2 q1 (c :: out) = c :: scan q1 (Some c) out.
Proof. intros H. simpl. rewrite H. reflexivity. Qed.

Lemma scan_idem s : forall p2 p1 q2 q1, R p2 p1 q2 q1 ->
  scan q2 q1 (scan p2 p1 s) = scan p2 p1 s.
Proof.
  induction s as [|c rest IH]; intros p2 p1 q2 q1 [H1 H2]; [reflexivity|].
  cbn [Escape.scan].
  destruct (is_esc c) eqn:Hc.
  - pose proof (is_esc_true _ Hc) as ->.
    destruct (behind p2 p1) eqn:Hb.
    + cbn [andb negb app]. rewrite scan_keep.
      * f_equal. apply IH. split; auto. apply behind_step; auto.
      * rewrite H2. cbn. rewrite andb_false_r. reflexivity.
    + destruct (ahead rest) eqn:Ha.
      * cbn [andb negb app]. rewrite scan_keep.
        -- f_equal. apply IH. split; auto. apply behind_step; auto.
        -- rewrite (ahead_scan p1 rest Ha). cbn. rewrite andb_false_r. reflexivity.
      * cbn [andb negb app].
        rewrite scan_keep.
        2:{ cbn [Escape.ahead]. rewrite la_E, is_esc_esc. cbn. try rewrite andb_false_r. reflexivity. }
        rewrite scan_keep.
        2:{ rewrite is_esc_E. reflexivity. }
        rewrite scan_keep.
        2:{ cbn [Escape.behind]. rewrite is_esc_esc, lb_E. cbn. try rewrite andb_false_r. reflexivity. }
        do 3 f_equal. apply IH. split; [reflexivity|].
        cbn [Escape.behind]. rewrite is_esc_E. cbn.
        destruct p1; cbn; auto. rewrite lb_esc, andb_false_r. reflexivity.
  - cbn [andb app]. rewrite scan_keep.
    + f_equal. apply IH. split; auto. apply behind_step; auto.
    + rewrite Hc. reflexivity.
Qed.

Lemma resub_idempotent s : resub escc E lb la (resub escc E lb la s) = resub escc E lb la s.
Proof. apply scan_idem. split; reflexivity. Qed.

(* the scanner only ever inserts escc and E *)
Lemma scan_absent d s : forall p2 p1,
  beqb escc d = false -> beqb E d = false -> bmem d s = false -> bmem d (scan p2 p1 s) = false.
Proof.
  induction s as [|c rest IH]; intros p2 p1 He HE; [reflexivity|].
  rewrite bmem_cons. intros H. apply orb_false_elim in H. destruct H as [Hc Hs].
  cbn [Escape.scan]. rewrite bmem_app, (IH _ _ He HE Hs), orb_false_r.
  destruct (is_esc c && negb (behind p2 p1) && negb (ahead rest)).
  - cbn. now rewrite He, HE.
  - cbn. now rewrite Hc.
Qed.

(* strings made of ordinary characters and well-formed tokens are left alone *)
Fixpoint tokenised (s : str) : bool :=
  match s with
  | [] => true
  | c :: r =>
      if is_esc c then
        match r with
        | l :: c2 :: r' => lb l && la l && is_esc c2 && tokenised r'
        | _ => false
        end
      else tokenised r
  end.

Lemma tokenised_ind' (P : str -> Prop) :
  P [] ->
  (forall c r, is_esc c = false -> tokenised r = true -> P r -> P (c :: r)) ->
  (forall l r, lb l = true -> la l = true -> tokenised r = true -> P r -> P (escc :: l :: escc :: r)) ->
  forall s, tokenised s = true -> P s.
Proof.
  intros H0 Hc Ht s.
  assert (G : forall n s, length s <= n -> tokenised s = true -> P s).
  { induction n as [|n IH]; intros [|c r] Hl Hs; auto; try (simpl in Hl; lia).
    cbn [tokenised] in Hs. destruct (is_esc c) eqn:Ec.
    - destruct r as [|l [|c2 r']]; try discriminate.
      apply andb_prop in Hs. destruct Hs as [Hs Hr]. apply andb_prop in Hs. destruct Hs as [Hs H2].
      apply andb_prop in Hs. destruct Hs as [Hlb Hla].
      rewrite (is_esc_true _ Ec), (is_esc_true _ H2). apply Ht; auto. apply IH; auto. simpl in Hl. lia.
    - apply Hc; auto. apply IH; auto. simpl in Hl. lia. }
  intros Hs. apply (G (length s)); auto.
Qed.

Lemma scan_tokenised s : tokenised s = true -> forall p2 p1, scan p2 p1 s = s.
Proof.
  intros Hs. pattern s. apply tokenised_ind'; auto.
  - intros c r Ec _ IH p2 p1. rewrite scan_keep; [|now rewrite Ec]. now rewrite IH.
  - intros l r Hlb Hla _ IH p2 p1.
    rewrite scan_keep.
    2:{ cbn [Escape.ahead]. rewrite Hla, is_esc_esc. cbn. rewrite ?andb_false_r. reflexivity. }
    rewrite scan_keep.
    2:{ now rewrite (la_not_esc _ Hla). }
    rewrite scan_keep.
    2:{ cbn [Escape.behind]. rewrite is_esc_esc, Hlb. cbn. rewrite ?andb_false_r. reflexivity. }
    now rewrite IH.
Qed.

Lemma tokenised_app x y : tokenised x = true -> tokenised y = true -> tokenised (x ++ y) = true.
Proof.
  intros Hx Hy. apply tokenised_ind' with (s := x) (P := fun x => tokenised (x ++ y) = true); auto.
  - intros c r Ec _ IH. cbn [app tokenised]. now rewrite Ec.
  - intros l r Hlb Hla _ IH. cbn [app tokenised]. now rewrite is_esc_esc, Hlb, Hla.
Qed.

End ScanFacts.

(* ------------------------------------------------------------------ *)
(* escape = resub . translate                                           *)

Definition opt_list {A} (o : option A) : list A := match o with Some x => [x] | None => [] end.

(* the delimiters that this family of classes escapes for the delimiter set e *)
Definition escaped_delims (p : esc_params) (e : ec) : list byte :=
  flat_map (fun t => opt_list (ec_get e (fst t))) (translations p e).

(* what the generated parameters must satisfy (decided by vm_compute on Gen/Params.v) *)
Definition letters_ok (p : esc_params) : bool :=
  forallb is_alnum (letters_behind p) && forallb is_alnum (letters_ahead p) &&
  bmem (esc_letter p) (letters_behind p) && bmem (esc_letter p) (letters_ahead p) &&
  forallb (fun t => is_alnum (snd t)) (trans_with_trunc p ++ trans_without_trunc p) &&
  forallb (fun t => match fst t with ESCAPE => false | _ => true end)
          (trans_with_trunc p ++ trans_without_trunc p) &&
  esc_shape_ok p.

Lemma forallb_In {A} (f : A -> bool) l x : forallb f l = true -> In x l -> f x = true.
Proof. intros H Hx. rewrite forallb_forall in H. now apply H. Qed.

Lemma bmem_In c l : bmem c l = true <-> In c l.
Proof.
  unfold bmem, mem. rewrite existsb_exists. split.
  - intros [x [Hx E]]. apply beqb_true in E. now subst.
  - intros H. exists c. split; auto. apply beqb_refl.
Qed.

Lemma bmem_false_notin c l : bmem c l = false <-> ~ In c l.
Proof. rewrite <- bmem_In. destruct (bmem c l); split; congruence. Qed.

Lemma nodupb_NoDup l : nodupb beqb l = true -> NoDup l.
Proof.
  induction l as [|x r IH]; intros H; [constructor|].
  cbn [nodupb] in H. apply andb_prop in H. destruct H as [Hx Hr].
  constructor; [|now apply IH]. apply negb_true_iff in Hx. now apply bmem_false_notin.
Qed.

Section EscapeFacts.
Variable p : esc_params.
Variable e : ec.
Hypothesis Hp : letters_ok p = true.
Hypothesis He : ec_valid p e = true.

Let Hparts := Hp.

Lemma ec_all_not_alnum c : In c (ec_all e) -> is_alnum c = false.
Proof.
  intros Hc. unfold ec_valid in He. apply andb_prop in He. destruct He as [_ H].
  pose proof (forallb_In _ _ _ H Hc) as H1. cbn in H1.
  apply andb_prop in H1. destruct H1 as [H1 _]. apply andb_prop in H1. destruct H1 as [H1 _].
  now apply negb_true_iff in H1.
Qed.

Lemma esc_in_all : In (esc e) (ec_all e).
Proof. unfold ec_all, ec_required. apply in_or_app. left. simpl. tauto. Qed.

Lemma esc_not_alnum : is_alnum (esc e) = false.
Proof. apply ec_all_not_alnum, esc_in_all. Qed.

Lemma letters_ok_parts :
  forallb is_alnum (letters_behind p) = true /\ forallb is_alnum (letters_ahead p) = true /\
  bmem (esc_letter p) (letters_behind p) = true /\ bmem (esc_letter p) (letters_ahead p) = true /\
  forallb (fun t => is_alnum (snd t)) (trans_with_trunc p ++ trans_without_trunc p) = true /\
  forallb (fun t => match fst t with ESCAPE => false | _ => true end)
          (trans_with_trunc p ++ trans_without_trunc p) = true.
Proof.
  pose proof Hp as H. unfold letters_ok in H.
  repeat match goal with H : _ && _ = true |- _ => apply andb_prop in H; destruct H end. tauto.
Qed.

Lemma lb_esc_false : in_letters (letters_behind p) (esc e) = false.
Proof.
  destruct letters_ok_parts as [H _]. unfold in_letters.
  destruct (bmem (esc e) (letters_behind p)) eqn:E; auto.
  apply bmem_In in E. pose proof (forallb_In _ _ _ H E). pose proof esc_not_alnum. congruence.
Qed.
Lemma la_esc_false : in_letters (letters_ahead p) (esc e) = false.
Proof.
  destruct letters_ok_parts as [_ [H _]]. unfold in_letters.
  destruct (bmem (esc e) (letters_ahead p)) eqn:E; auto.
  apply bmem_In in E. pose proof (forallb_In _ _ _ H E). pose proof esc_not_alnum. congruence.
Qed.
Lemma lb_E_true : in_letters (letters_behind p) (esc_letter p) = true.
Proof. now destruct letters_ok_parts as [_ [_ [H _]]]. Qed.
Lemma la_E_true : in_letters (letters_ahead p) (esc_letter p) = true.
Proof. now destruct letters_ok_parts as [_ [_ [_ [H _]]]]. Qed.

Lemma trans_in t : In t (translations p e) -> In t (trans_with_trunc p ++ trans_without_trunc p).
Proof. unfold translations. intros H. apply in_or_app. destruct (tsep e); auto. Qed.

Lemma trans_letter_alnum t : In t (translations p e) -> is_alnum (snd t) = true.
Proof.
  intros H. destruct letters_ok_parts as [_ [_ [_ [_ [H1 _]]]]].
  exact (forallb_In _ _ _ H1 (trans_in _ H)).
Qed.

Lemma trans_sel_not_escape t : In t (translations p e) -> fst t <> ESCAPE.
Proof.
  intros H. destruct letters_ok_parts as [_ [_ [_ [_ [_ H1]]]]].
  pose proof (forallb_In _ _ _ H1 (trans_in _ H)) as H2. cbn in H2. intros E. now rewrite E in H2.
Qed.

Lemma ec_get_in_all s c : ec_get e s = Some c -> In c (ec_all e).
Proof.
  unfold ec_all, ec_required. intros H. apply in_or_app.
  destruct s; cbn in H; try (injection H as <-; left; simpl; tauto).
  right. rewrite H. simpl. tauto.
Qed.

(* a delimiter other than the escape character differs from it *)
Lemma delim_ne_esc s c : s <> ESCAPE -> ec_get e s = Some c -> c <> esc e.
Proof.
  intros Hs Hc.
  pose proof He as Hv. unfold ec_valid in Hv. apply andb_prop in Hv. destruct Hv as [Hn _].
  apply nodupb_NoDup in Hn.
  change (ec_all e) with ([fsep e; csep e; ssep e; rsep e] ++ esc e :: opt_list (tsep e)) in Hn.
  apply NoDup_remove_2 in Hn. intros E. apply Hn. rewrite <- E. apply in_or_app.
  destruct s; cbn in Hc; try congruence; try (injection Hc as <-; left; simpl; tauto).
  right. rewrite Hc. simpl; tauto.
Qed.

Lemma escaped_delim_inv d : In d (escaped_delims p e) ->
  exists t, In t (translations p e) /\ ec_get e (fst t) = Some d.
Proof.
  unfold escaped_delims. rewrite in_flat_map. intros [t [Ht Hd]]. exists t. split; auto.
  destruct (ec_get e (fst t)); simpl in Hd; [|tauto]. destruct Hd as [->|[]]. reflexivity.
Qed.

Lemma escaped_delim_props d : In d (escaped_delims p e) ->
  is_alnum d = false /\ d <> esc e.
Proof.
  intros H. destruct (escaped_delim_inv _ H) as [t [Ht Hd]]. split.
  - apply ec_all_not_alnum. eapply ec_get_in_all; eauto.
  - eapply delim_ne_esc; eauto. now apply trans_sel_not_escape.
Qed.

(* every replacement text esc L esc is free of escaped delimiters *)
Lemma rep_free d t : In d (escaped_delims p e) -> In t (translations p e) ->
  bmem d [esc e; snd t; esc e] = false.
Proof.
  intros Hd Ht. destruct (escaped_delim_props _ Hd) as [Ha Hne].
  cbn. rewrite (beqb_false_ne _ _ (not_eq_sym Hne)).
  assert (snd t <> d) as Hl.
  { intros E. pose proof (trans_letter_alnum _ Ht). congruence. }
  now rewrite (beqb_false_ne _ _ Hl).
Qed.

Lemma translate_aux_absent d (l : list (sel * byte)) :
  (forall t, In t l -> In t (translations p e)) -> In d (escaped_delims p e) ->
  forall s, bmem d s = false -> bmem d (fold_left (apply_translation e) l s) = false.
Proof.
  induction l as [|t l IH]; intros Hl Hd s Hs; [exact Hs|].
  cbn [fold_left]. apply IH; auto. { intros; apply Hl; now right. }
  unfold apply_translation. destruct (ec_get e (fst t)); auto.
  apply replace1_keeps_absent; auto. apply rep_free; auto. apply Hl. now left.
Qed.

Lemma translate_aux_removes (l : list (sel * byte)) :
  (forall t, In t l -> In t (translations p e)) ->
  forall d t, In t l -> ec_get e (fst t) = Some d ->
  forall s, bmem d (fold_left (apply_translation e) l s) = false.
Proof.
  induction l as [|t0 l IH]; intros Hl d t Ht Hd s; [destruct Ht|].
  cbn [fold_left].
  assert (Hd' : In d (escaped_delims p e)).
  { unfold escaped_delims. apply in_flat_map. exists t. split; [now apply Hl|]. rewrite Hd. now left. }
  destruct Ht as [->|Ht].
  - apply translate_aux_absent; auto. { intros; apply Hl; now right. }
    unfold apply_translation. rewrite Hd. apply replace1_removes. apply rep_free; auto.
    apply Hl. now left.
  - eapply IH; eauto. intros; apply Hl; now right.
Qed.

Lemma translate_no_delims d s : In d (escaped_delims p e) -> bmem d (translate p e s) = false.
Proof.
  intros Hd. destruct (escaped_delim_inv _ Hd) as [t [Ht Hg]].
  unfold translate. eapply translate_aux_removes; eauto.
Qed.

Lemma translate_absent_id (l : list (sel * byte)) s :
  (forall t, In t l -> In t (translations p e)) ->
  (forall d, In d (escaped_delims p e) -> bmem d s = false) ->
  fold_left (apply_translation e) l s = s.
Proof.
  revert s. induction l as [|t l IH]; intros s Hl Hs; [reflexivity|].
  cbn [fold_left].
  assert (apply_translation e s t = s) as ->.
  { unfold apply_translation. destruct (ec_get e (fst t)) eqn:G; auto.
    apply replace1_absent_id. apply Hs. unfold escaped_delims. apply in_flat_map.
    exists t. split; [apply Hl; now left|]. rewrite G. now left. }
  apply IH; auto. intros; apply Hl; now right.
Qed.

(* --- C06: no escaped delimiter occurs in the output --- *)
Lemma escape_no_delims d s : In d (escaped_delims p e) -> bmem d (escape p e s) = false.
Proof.
  intros Hd. destruct (escaped_delim_props _ Hd) as [Ha Hne].
  unfold escape, resub. apply scan_absent.
  - apply beqb_false_ne. congruence.
  - apply beqb_false_ne. intros E. subst d.
    pose proof lb_E_true as H. unfold in_letters in H. apply bmem_In in H.
    destruct letters_ok_parts as [H1 _]. pose proof (forallb_In _ _ _ H1 H). congruence.
  - now apply translate_no_delims.
Qed.

(* --- C06: idempotence --- *)
Lemma escape_idempotent s : escape p e (escape p e s) = escape p e s.
Proof.
  unfold escape at 1.
  assert (translate p e (escape p e s) = escape p e s) as ->.
  { unfold translate. apply translate_absent_id; auto. intros d Hd. now apply escape_no_delims. }
  unfold escape. apply resub_idempotent.
  - apply lb_E_true. - apply la_E_true. - apply lb_esc_false. - apply la_esc_false.
Qed.

(* --- C06: text made of ordinary characters and well-formed tokens is emitted unchanged --- *)
Definition tok (s : str) : bool :=
  tokenised (esc e) (in_letters (letters_behind p)) (in_letters (letters_ahead p)) s.

Lemma escape_tokenised_id s :
  tok s = true -> (forall d, In d (escaped_delims p e) -> bmem d s = false) -> escape p e s = s.
Proof.
  intros Ht Hd. unfold escape, resub.
  assert (translate p e s = s) as -> by (unfold translate; apply translate_absent_id; auto).
  apply scan_tokenised; auto using lb_E_true, la_E_true, lb_esc_false, la_esc_false.
Qed.

(* --- C06 (partial token safety): without escape characters in the input, the output is tokenised --- *)
Lemma tok_replace1 c l s :
  in_letters (letters_behind p) l = true -> in_letters (letters_ahead p) l = true ->
  c <> esc e -> is_alnum c = false ->
  tok s = true -> tok (breplace1 c [esc e; l; esc e] s) = true.
Proof.
  intros Hlb Hla Hce Hca Hs. unfold tok in *.
  assert (Hesc : is_esc (esc e) (esc e) = true) by apply beqb_refl.
  apply tokenised_ind' with (escc := esc e)
    (lb := in_letters (letters_behind p)) (la := in_letters (letters_ahead p)) (s := s)
    (P := fun s => tokenised (esc e) (in_letters (letters_behind p)) (in_letters (letters_ahead p))
                     (breplace1 c [esc e; l; esc e] s) = true); auto.
  - intros c0 r E0 Hr IH. unfold breplace1. cbn [replace1].
    apply tokenised_app; auto.
    destruct (beqb c0 c).
    + cbn [tokenised]. now rewrite Hesc, Hlb, Hla.
    + cbn [tokenised]. now rewrite E0.
  - intros l0 r Hlb0 Hla0 Hr IH. unfold breplace1 in *. cbn [replace1].
    rewrite (beqb_false_ne _ _ (not_eq_sym Hce)).
    assert (l0 <> c) as Hl0.
    { intros E. subst l0. destruct letters_ok_parts as [H1 _].
      unfold in_letters in Hlb0. apply bmem_In in Hlb0.
      pose proof (forallb_In _ _ _ H1 Hlb0). congruence. }
    rewrite (beqb_false_ne _ _ Hl0). cbn [app tokenised]. now rewrite Hesc, Hlb0, Hla0, IH.
Qed.

Lemma tok_no_esc s : bmem (esc e) s = false -> tok s = true.
Proof.
  unfold tok. induction s as [|c r IH]; [reflexivity|].
  rewrite bmem_cons. intros H. apply orb_false_elim in H. destruct H as [Hc Hr].
  cbn [tokenised]. unfold is_esc. rewrite Hc. auto.
Qed.

(* the letters a translation inserts must belong to both regex classes (generated-parameter fact) *)
Definition trans_letters_in_classes : bool :=
  forallb (fun t => in_letters (letters_behind p) (snd t) && in_letters (letters_ahead p) (snd t))
          (trans_with_trunc p ++ trans_without_trunc p).
Hypothesis Htl : trans_letters_in_classes = true.

Lemma tok_translate_aux (l : list (sel * byte)) :
  (forall t, In t l -> In t (translations p e)) ->
  forall s, tok s = true -> tok (fold_left (apply_translation e) l s) = true.
Proof.
  induction l as [|t l IH]; intros Hl s Hs; [exact Hs|].
  cbn [fold_left]. apply IH. { intros; apply Hl; now right. }
  unfold apply_translation. destruct (ec_get e (fst t)) eqn:G; auto.
  assert (Ht : In t (translations p e)) by (apply Hl; now left).
  pose proof (forallb_In _ _ _ Htl (trans_in _ Ht)) as H. cbn in H. apply andb_prop in H. destruct H.
  apply tok_replace1; auto.
  - eapply delim_ne_esc; eauto. now apply trans_sel_not_escape.
  - apply ec_all_not_alnum. eapply ec_get_in_all; eauto.
Qed.

Lemma escape_tokens_partial s : bmem (esc e) s = false -> tok (escape p e s) = true.
Proof.
  intros Hs. unfold escape, resub.
  assert (T : tok (translate p e s) = true).
  { unfold translate. apply tok_translate_aux; auto. now apply tok_no_esc. }
  unfold tok in T. rewrite scan_tokenised; auto using lb_E_true, la_E_true, lb_esc_false, la_esc_false.
Qed.

End EscapeFacts.

(* tokenised strings pass the property's own token test (letter class = both regex classes) *)
Lemma tokenised_tokens_ok escc lb la s :
  tokenised escc lb la s = true -> esc_tokens_ok escc (fun b => lb b && la b) s = true.
Proof.
  intros H. pattern s. apply tokenised_ind' with (escc := escc) (lb := lb) (la := la) (s := s); auto.
  - intros c r Ec _ IH. cbn [esc_tokens_ok]. unfold is_esc in Ec. now rewrite Ec.
  - intros l r Hlb Hla _ IH. cbn [esc_tokens_ok]. now rewrite !beqb_refl, Hlb, Hla.
Qed.
