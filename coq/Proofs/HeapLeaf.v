(* C11, second sentence, the last step: what  element.value = text  may touch.  Apart from the
   element itself and the elements it allocates, every element keeps its shape (class, name, both
   parent pointers, child list and indexes); data type changes may reach the old children. *)
From Coq Require Import List Bool Arith Lia ZArith NArith Init.Byte.
From HL7 Require Import Lib.Str Model.Ec Model.Result Model.Ref Model.Tree Model.Parser Model.Encode Model.Heap Model.HeapSpec.
From HL7 Require Import Proofs.HeapFacts Proofs.HeapInv Proofs.HeapOps Proofs.HeapAlloc Proofs.HeapSteps Proofs.HeapAtomic
                        Proofs.HeapRefine.
Import ListNotations.

Definition shape (N : node) :=
  (n_cls N, n_name N, n_parent N, n_tparent N, n_list N, n_idx N, n_tidx N).

Lemma shape_fields N M : shape N = shape M ->
  n_cls N = n_cls M /\ n_name N = n_name M /\ n_parent N = n_parent M /\ n_tparent N = n_tparent M /\
  n_list N = n_list M /\ n_idx N = n_idx M /\ n_tidx N = n_tidx M.
Proof. unfold shape. intros H. inversion H. repeat split; auto. Qed.

(* what the element itself keeps *)
Definition ident (N : node) := (n_cls N, n_name N, n_lvl N, n_ver N, n_parent N, n_tparent N).
Lemma ident_fields N M : ident N = ident M ->
  n_cls N = n_cls M /\ n_name N = n_name M /\ n_lvl N = n_lvl M /\ n_ver N = n_ver M /\
  n_parent N = n_parent M /\ n_tparent N = n_tparent M.
Proof. unfold ident. intros H. inversion H. repeat split; auto. Qed.
Lemma shape_ident N M : shape N = shape M -> n_lvl N = n_lvl M -> n_ver N = n_ver M -> ident N = ident M.
Proof. intros H A B. apply shape_fields in H. unfold ident. destruct H as (-> & -> & -> & -> & _). now rewrite A, B. Qed.

(* below the mark n every element keeps its identity and, except el, its shape; nothing is deallocated *)
Definition keeps (n el : nat) (s s' : store) : Prop :=
  s_next s <= s_next s' /\
  forall y, y < n -> ident (getn s' y) = ident (getn s y) /\ (y <> el -> shape (getn s' y) = shape (getn s y)).

Lemma keeps_refl n el s : keeps n el s s.
Proof. split; auto. Qed.
Lemma keeps_trans n el s1 s2 s3 : keeps n el s1 s2 -> keeps n el s2 s3 -> keeps n el s1 s3.
Proof.
  intros [A B] [C D]. split; [lia|]. intros y H1. destruct (B y H1) as [B1 B2]. destruct (D y H1) as [D1 D2].
  split; [congruence|]. intros H2. rewrite D2, B2; auto.
Qed.

(* a computation that, started with at least n elements allocated, keeps the shapes below n (el
   excepted) whatever its outcome, and whose normal result satisfies Q *)
Definition frm {A} (n el : nat) (Q : A -> Prop) (m : M A) : Prop :=
  forall s, n <= s_next s ->
    keeps n el s (fst (m s)) /\ match snd (m s) with Ok a => Q a | Err _ => True end.

Definition anyr {A} : A -> Prop := fun _ => True.

Section Rules.
Variables n el : nat.

Lemma frm_ret {A} (Q : A -> Prop) a : Q a -> frm n el Q (ret a).
Proof. intros H s _. split; [apply keeps_refl|exact H]. Qed.
Lemma frm_raise {A} (Q : A -> Prop) x : frm n el Q (@raise A x).
Proof. intros s _. split; [apply keeps_refl|exact I]. Qed.
Lemma frm_lift {A} (r : result A) : frm n el anyr (lift r).
Proof. intros s _. split; [apply keeps_refl|]. unfold lift. cbn. destruct r; exact I. Qed.
Lemma frm_node_of i : frm n el anyr (node_of i).
Proof. intros s _. split; [apply keeps_refl|exact I]. Qed.
Lemma frm_weaken {A} (Q R : A -> Prop) m : (forall a, Q a -> R a) -> frm n el Q m -> frm n el R m.
Proof. intros H Hm s Hs. destruct (Hm s Hs) as [A1 A2]. split; auto. destruct (snd (m s)); auto. Qed.
Lemma frm_any {A} (Q : A -> Prop) m : frm n el Q m -> frm n el anyr m.
Proof. apply frm_weaken. intros; exact I. Qed.
Lemma frm_bind {A B} (Q : A -> Prop) (R : B -> Prop) (m : M A) (f : A -> M B) :
  frm n el Q m -> (forall a, Q a -> frm n el R (f a)) -> frm n el R (mbind m f).
Proof.
  intros Hm Hf s Hs. unfold mbind. destruct (Hm s Hs) as [A1 A2].
  destruct (m s) as [s1 [a|x]]; cbn [fst snd] in *; [|split; auto].
  assert (Hs1 : n <= s_next s1) by (destruct A1; lia).
  destruct (Hf a A2 s1 Hs1) as [B1 B2]. split; [eapply keeps_trans; eauto|exact B2].
Qed.
Lemma frm_seq {A B} (R : B -> Prop) (m : M A) (k : M B) :
  frm n el anyr m -> frm n el R k -> frm n el R (mbind m (fun _ => k)).
Proof. intros Hm Hk. eapply frm_bind; [exact Hm|]. intros; exact Hk. Qed.
Lemma frm_catch {A} (Q : A -> Prop) (m : M A) p (h : M A) : frm n el Q m -> frm n el Q h -> frm n el Q (mcatch m p h).
Proof.
  intros Hm Hh s Hs. unfold mcatch. destruct (Hm s Hs) as [A1 A2].
  destruct (m s) as [s1 [a|x]]; cbn [fst snd] in *; [split; auto|].
  destruct (p x); cbn [fst snd]; [|split; auto].
  assert (Hs1 : n <= s_next s1) by (destruct A1; lia).
  destruct (Hh s1 Hs1) as [B1 B2]. split; [eapply keeps_trans; eauto|exact B2].
Qed.

(* the element that may change, or one allocated after the mark *)
Definition okid (i : nat) : Prop := i = el \/ n <= i.

Lemma frm_modify (f : store -> store) i :
  (forall s, s_next (f s) = s_next s /\ forall y, y <> i -> getn (f s) y = getn s y) ->
  n <= i \/ (i = el /\ forall s, ident (getn (f s) i) = ident (getn s i)) \/
  (forall s, shape (getn (f s) i) = shape (getn s i) /\ ident (getn (f s) i) = ident (getn s i)) ->
  frm n el anyr (modify f).
Proof.
  intros Hf Hi s Hs. unfold modify. cbn [fst snd]. split; [|exact I]. destruct (Hf s) as [A B].
  split; [lia|]. intros y H1. destruct (Nat.eq_dec y i) as [->|N]; [|now rewrite B].
  destruct Hi as [Hi|[[-> Hi]|Hi]]; [lia|split; [apply Hi|congruence]|split; [apply Hi|intros _; apply Hi]].
Qed.

Lemma setn_frame s i N : s_next (setn s i N) = s_next s /\ forall y, y <> i -> getn (setn s i N) y = getn s y.
Proof. split; [reflexivity|]. intros y Hy. now apply getn_setn_other. Qed.

Lemma frm_set_dt i d : frm n el anyr (set_dt i d).
Proof. apply frm_modify with (i := i); [intros s; apply setn_frame|right; right; intros s; now rewrite getn_setn_same]. Qed.
Lemma frm_set_st i d : frm n el anyr (set_st i d).
Proof. apply frm_modify with (i := i); [intros s; apply setn_frame|right; right; intros s; now rewrite getn_setn_same]. Qed.
Lemma frm_set_val i v enc : frm n el anyr (set_val i v enc).
Proof. apply frm_modify with (i := i); [intros s; apply setn_frame|right; right; intros s; now rewrite getn_setn_same]. Qed.
Lemma frm_set_last i v : frm n el anyr (set_last i v).
Proof. apply frm_modify with (i := i); [intros s; apply setn_frame|right; right; intros s; now rewrite getn_setn_same]. Qed.

Lemma frm_point_to c p : n <= c -> frm n el anyr (point_to c p).
Proof. intros H. apply frm_modify with (i := c); [intros s; apply setn_frame|now left]. Qed.
Lemma okid_modify i : okid i -> forall f : store -> node,
  (forall s, ident (f s) = ident (getn s i)) -> frm n el anyr (modify (fun s => setn s i (f s))).
Proof.
  intros H f Hf. apply frm_modify with (i := i); [intros s; apply setn_frame|].
  destruct H as [->|H]; [right; left; split; auto; intros s; now rewrite getn_setn_same|now left].
Qed.
Lemma frm_do_append p c : okid p -> frm n el anyr (do_append p c).
Proof. intros H. apply (okid_modify p H). reflexivity. Qed.
Lemma frm_do_tappend p c : okid p -> frm n el anyr (do_tappend p c).
Proof. intros H. apply (okid_modify p H). reflexivity. Qed.
Lemma frm_do_reset p : okid p -> frm n el anyr (do_reset_children p).
Proof. intros H. apply (okid_modify p H). reflexivity. Qed.

Lemma frm_alloc nd : frm n el (fun c => n <= c) (alloc nd).
Proof.
  intros s Hs. rewrite alloc_run. cbn [fst snd]. split; [|exact Hs]. split; [cbn; lia|].
  intros y H1. rewrite getn_alloc. destruct (Nat.eqb_spec y (s_next s)); [lia|auto].
Qed.

End Rules.

Section Leaf.
Variable t : tables.
Variable e : ec.
Variable le : level -> option str -> str -> result str.
Variables n el : nat.

Ltac fstep := first [apply frm_node_of | apply frm_lift | apply frm_raise | apply frm_ret; exact I].

Lemma frm_append_attached p c : okid n el p -> frm n el anyr (append_attached p c).
Proof.
  intros H. unfold append_attached.
  eapply frm_bind; [apply frm_node_of|]. intros P _. eapply frm_bind; [apply frm_node_of|]. intros C _.
  apply frm_seq; [apply frm_lift|].
  destruct (oid_eqb _ _); [now apply frm_do_append|]. destruct (oid_eqb _ _); [now apply frm_do_tappend|].
  apply frm_ret. exact I.
Qed.

Lemma frm_seg_counter p c : frm n el anyr (seg_counter p c).
Proof.
  unfold seg_counter.
  eapply frm_bind; [apply frm_node_of|]. intros P _. eapply frm_bind; [apply frm_node_of|]. intros C _.
  destruct (n_cls P); try (apply frm_ret; exact I). destruct (n_name C); [|apply frm_ret; exact I].
  destruct (_ && _ && _); [|apply frm_ret; exact I]. destruct (py_int_ok _); [|apply frm_raise].
  destruct (N.ltb _ _); [apply frm_set_last|apply frm_ret; exact I].
Qed.

Lemma frm_add_inner p c : okid n el p -> frm n el anyr (add_inner t p c).
Proof.
  intros H. unfold add_inner.
  eapply frm_bind; [apply frm_node_of|]. intros P _. eapply frm_bind; [apply frm_node_of|]. intros C _.
  apply frm_seq; [apply frm_lift|]. eapply frm_bind; [apply frm_lift|]. intros v _.
  destruct (negb v); [apply frm_raise|]. apply frm_seq; [now apply frm_append_attached|apply frm_seg_counter].
Qed.

Lemma frm_append p c : okid n el p -> n <= c -> frm n el anyr (append t p c).
Proof.
  intros Hp Hc. unfold append.
  eapply frm_bind; [apply frm_node_of|]. intros P _. eapply frm_bind; [apply frm_node_of|]. intros C _.
  eapply frm_bind; [apply frm_lift|]. intros v _.
  destruct (negb v); [apply frm_raise|]. destruct (negb _).
  - apply frm_seq; [now apply frm_point_to|now apply frm_add_inner].
  - now apply frm_append_attached.
Qed.

Lemma frm_add p c : okid n el p -> n <= c -> frm n el anyr (add t p c).
Proof.
  intros Hp Hc. unfold add.
  eapply frm_bind; [apply frm_node_of|]. intros P _. eapply frm_bind; [apply frm_node_of|]. intros C _.
  apply frm_seq; [apply frm_lift|]. apply frm_seq; [now apply frm_append|apply frm_seg_counter].
Qed.

Lemma frm_add_all p ids : okid n el p -> Forall (fun c => n <= c) ids -> frm n el anyr (add_all t p ids).
Proof.
  intros Hp. induction ids as [|c ids IH]; intros H; cbn [add_all]; [apply frm_ret; exact I|].
  inversion H; subst. apply frm_seq; [now apply frm_add|now apply IH].
Qed.

(* allocation of parsed subtrees *)
Lemma frm_alloc_kids {A} (f : option nat -> A -> M nat) parent l :
  (forall par x, frm n el (fun c => n <= c) (f par x)) -> n <= parent -> frm n el anyr (alloc_kids f parent l).
Proof.
  intros Hf Hp. induction l as [|x l IH]; cbn [alloc_kids]; [apply frm_ret; exact I|].
  eapply frm_bind; [apply Hf|]. intros i Hi. apply frm_seq; [apply frm_do_append; now right|exact IH].
Qed.

Lemma frm_alloc_sub lvl par x : frm n el (fun c => n <= c) (alloc_sub t lvl par x).
Proof. unfold alloc_sub. apply frm_alloc. Qed.

Lemma frm_alloc_comp lvl par x : frm n el (fun c => n <= c) (alloc_comp t lvl par x).
Proof.
  unfold alloc_comp. eapply frm_bind; [apply frm_alloc|]. intros i Hi.
  apply frm_seq; [apply frm_alloc_kids; [intros; apply frm_alloc_sub|exact Hi]|now apply frm_ret].
Qed.

Lemma frm_alloc_all {A} (f : A -> M nat) l :
  (forall x, frm n el (fun c => n <= c) (f x)) -> frm n el (Forall (fun c => n <= c)) (alloc_all f l).
Proof.
  intros Hf. induction l as [|x l IH]; cbn [alloc_all]; [apply frm_ret; constructor|].
  eapply frm_bind; [apply Hf|]. intros i Hi. eapply frm_bind; [exact IH|]. intros ids Hids.
  apply frm_ret. now constructor.
Qed.

Lemma alloc_all_length {A} (f : A -> M nat) l : forall s s' ids,
  alloc_all f l s = (s', Ok ids) -> length ids = length l.
Proof.
  induction l as [|x l IH]; intros s s' ids; cbn [alloc_all].
  - cbn [ret]. intros [= _ <-]. reflexivity.
  - rewrite mbind_run. destruct (f x s) as [s1 [i|y]]; [|discriminate]. rewrite mbind_run.
    specialize (IH s1). destruct (alloc_all f l s1) as [s2 [is|y]]; [|discriminate].
    cbn [ret]. intros [= _ <-]. cbn. f_equal. eapply IH. reflexivity.
Qed.

(* data type changes reach other elements but only their dt / structure attributes *)
Lemma frm_restructure X x dt : frm n el anyr (restructure t X x dt).
Proof.
  unfold restructure. destruct (_ && _ && _ && _ && _); [|apply frm_ret; exact I].
  destruct dt as [d|]; [|apply frm_raise]. destruct (negb _); [apply frm_raise|].
  destruct (n_st X) as [st|]; [|apply frm_raise]. eapply frm_bind; [apply frm_lift|]. intros st' _. apply frm_set_st.
Qed.

Lemma frm_set_datatype fuel : forall x dt, frm n el anyr (set_datatype t fuel x dt).
Proof.
  induction fuel as [|f IH]; intros x dt; cbn [set_datatype]; [apply frm_raise|].
  eapply frm_bind; [apply frm_node_of|]. intros X _. destruct (n_cls X).
  - apply frm_raise.
  - destruct (_ && _ && _); [apply frm_raise|]. apply frm_seq; [apply frm_restructure|].
    eapply frm_bind; [apply frm_node_of|]. intros X' _. destruct (n_list X') as [|c0 r]; [apply frm_set_dt|].
    destruct (base _ _); [|apply frm_raise]. apply frm_seq; [apply frm_set_dt|].
    destruct (base _ dt); [apply IH|apply frm_ret; exact I].
  - destruct (_ && _ && _); [apply frm_raise|]. apply frm_seq; [apply frm_restructure|].
    eapply frm_bind; [apply frm_node_of|]. intros X' _. destruct (n_list X') as [|c0 r]; [apply frm_set_dt|].
    destruct (base _ _); [|apply frm_raise]. apply frm_seq; [apply frm_set_dt|].
    destruct (base _ dt); [apply IH|apply frm_ret; exact I].
  - destruct (_ && _); [apply frm_raise|]. destruct (_ && _ && _); [apply frm_raise|].
    destruct (negb _); [apply frm_raise|]. apply frm_seq; [|apply frm_set_dt].
    destruct (n_parent X) as [q|]; [|apply frm_ret; exact I].
    eapply frm_bind; [apply frm_node_of|]. intros Q _. destruct (_ && _); [apply IH|apply frm_ret; exact I].
Qed.

(* the attachment of a parsed child: ElementList.set up to the final promotion *)
Lemma frm_alloc_field lvl par x : frm n el (fun c => n <= c) (alloc_field t lvl par x).
Proof.
  unfold alloc_field. eapply frm_bind; [apply frm_alloc|]. intros i Hi.
  apply frm_seq; [apply frm_alloc_kids; [intros; apply frm_alloc_comp|exact Hi]|now apply frm_ret].
Qed.

Lemma frm_parse_child p cn cr txt : frm n el (fun c => n <= c) (parse_child t e le p cn cr txt).
Proof.
  unfold parse_child. eapply frm_bind; [apply frm_node_of|]. intros P _. destruct (n_cls P).
  - eapply frm_bind; [apply frm_lift|]. intros x _. apply frm_alloc_field.
  - eapply frm_bind; [apply frm_lift|]. intros dt _. eapply frm_bind; [apply frm_lift|]. intros x _. apply frm_alloc_comp.
  - eapply frm_bind; [apply frm_lift|]. intros dt _. eapply frm_bind; [apply frm_lift|]. intros x _. apply frm_alloc_sub.
  - apply frm_raise.
Qed.

Lemma frm_remove_child p c : okid n el p -> frm n el anyr (remove_child p c).
Proof.
  intros H. unfold remove_child. eapply frm_bind; [apply frm_node_of|]. intros C _.
  destruct (oid_eqb _ _); [apply (okid_modify n el p H); reflexivity|].
  apply frm_seq; [apply (okid_modify n el p H); reflexivity|].
  eapply frm_bind; [apply frm_node_of|]. intros P _.
  destruct (memb _ _); [apply (okid_modify n el p H); reflexivity|apply frm_raise].
Qed.

Lemma frm_insert p idx c bi : okid n el p -> n <= c -> frm n el anyr (insert t p idx c bi).
Proof.
  intros Hp Hc. unfold insert. eapply frm_bind; [apply frm_node_of|]. intros C0 _.
  apply frm_seq; [destruct (negb _); [now apply frm_point_to|apply frm_ret; exact I]|].
  eapply frm_bind; [apply frm_node_of|]. intros P _. eapply frm_bind; [apply frm_node_of|]. intros C _.
  eapply frm_bind; [apply frm_lift|]. intros v _. destruct (negb v); [apply frm_raise|].
  apply frm_seq; [apply frm_lift|]. apply (okid_modify n el p Hp). reflexivity.
Qed.

Lemma frm_replace_child p old new : okid n el p -> n <= new -> frm n el anyr (replace_child t p old new).
Proof.
  intros Hp Hc. unfold replace_child. eapply frm_bind; [apply frm_node_of|]. intros O _.
  destruct (oid_eqb _ _); [apply frm_seq; [now apply frm_remove_child|now apply frm_append]|].
  eapply frm_bind; [apply frm_node_of|]. intros P _.
  destruct (index_of _ _); [|apply frm_raise]. destruct (negb _); [apply frm_raise|].
  destruct (index_of _ _); [|apply frm_raise].
  apply frm_seq; [now apply frm_remove_child|now apply frm_insert].
Qed.

End Leaf.

(* ---------- the element after  element.value = text ---------- *)

Section LeafValue.
Variable t : tables.
Variable e : ec.
Variable le : level -> option str -> str -> result str.

(* add_all lists the fresh children in order *)
Lemma add_all_list B x ids : forall U s s',
  K (Uplus U ids) B s -> NoDup ids -> (forall i, In i ids -> ~ U i) ->
  add_all t x ids s = (s', Ok tt) -> n_list (getn s' x) = n_list (getn s x) ++ ids.
Proof.
  induction ids as [|c ids IH]; intros U s s' HK ND Hn; cbn [add_all].
  - cbn [ret]. intros [= <-]. now rewrite app_nil_r.
  - rewrite mbind_run. apply NoDup_cons_iff in ND as [Nc ND'].
    assert (Hc : cand s c) by (destruct HK as (_ & C & _); apply C; right; now left).
    assert (NUc : ~ Uplus U ids c) by (intros [Hu|Hi]; [apply (Hn c); auto; now left|contradiction]).
    assert (HK' : K (Uplus U ids) B s).
    { eapply K_weaken; [| |exact HK]; auto. intros d [Hd|Hd]; [now left|right; now right]. }
    pose proof (add_spec t (Uplus U ids) B x c s (conj HK' (cand_addable _ s c x NUc Hc))) as H.
    pose proof (add_ok t x c s) as E.
    destruct (add t x c s) as [s1 [[]|y]]; [|discriminate].
    specialize (E s1 eq_refl). intros H2.
    rewrite (IH U s1 s' H ND' (fun i Hi => Hn i (or_intror Hi)) H2).
    destruct E as (E & _). rewrite E.
    assert (L : listing_add s x c = true).
    { unfold listing_add. destruct Hc as (_ & _ & -> & _). cbn. apply orb_true_r. }
    rewrite L. now rewrite <- app_assoc.
Qed.

(* Field.value = text / Component.value = text: (data type adjustment;) parse; children = the new ones *)
Lemma rebuild_leaf {A} (f : A -> M nat) (kids : list A) (m0 : M unit) el s s' :
  (forall x, frm (s_next s) el (fun c => s_next s <= c) (f x)) ->
  (forall U B x, spec (f x) (K U B) (fresh_post U B) (K U B)) ->
  frm (s_next s) el anyr m0 ->
  (forall U B, spec m0 (K U B) (fun _ s => K U B s) (K U B)) ->
  Inv s -> el < s_next s ->
  (m0 ;; let! ids := alloc_all f kids in do_reset_children el ;; add_all t el ids)%heap s = (s', Ok tt) ->
  keeps (s_next s) el s s' /\ length (n_list (getn s' el)) = length kids /\
  forall c, In c (n_list (getn s' el)) -> s_next s <= c.
Proof.
  intros Ff Sf F0 S0 I Hel. set (n := s_next s) in *.
  rewrite mbind_run. pose proof (F0 s (le_n _)) as [K0 _]. pose proof (S0 Unone Unone s (K_none s I)) as H0.
  destruct (m0 s) as [s1 [[]|y]]; [|discriminate]. cbn [fst] in K0.
  assert (N1 : n <= s_next s1) by (destruct K0; lia).
  rewrite mbind_run.
  pose proof (frm_alloc_all n el f kids Ff s1 N1) as [K1 Q1].
  pose proof (alloc_all_spec f kids Sf Unone Unone s1 H0) as H1.
  pose proof (alloc_all_length f kids s1) as Len.
  destruct (alloc_all f kids s1) as [s2 [ids|y]]; [|discriminate]. cbn [fst snd] in K1, Q1.
  destruct H1 as (H1 & ND & Hn). specialize (Len s2 ids eq_refl).
  assert (N2 : n <= s_next s2) by (destruct K1; lia).
  rewrite mbind_run.
  pose proof (frm_do_reset n el el (or_introl eq_refl) s2 N2) as [K2 _].
  pose proof (do_reset_children_spec (Uplus Unone ids) Unone el s2 H1) as H2.
  unfold do_reset_children, modify in K2, H2 |- *. cbn [fst] in K2. cbv beta iota in H2.
  set (s3 := setn s2 el _) in *.
  assert (N3 : n <= s_next s3) by (destruct K2; lia).
  pose proof (frm_add_all t n el el ids (or_introl eq_refl) Q1 s3 N3) as [K3 _].
  intros H. rewrite H in K3. cbn [fst] in K3.
  pose proof (add_all_list Unone el ids Unone s3 s' H2 ND Hn H) as L.
  assert (L3 : n_list (getn s3 el) = []) by (unfold s3; now rewrite getn_setn_same).
  rewrite L3 in L. cbn [app] in L. rewrite L.
  split; [|split].
  - eapply keeps_trans; [exact K0|]. eapply keeps_trans; [exact K1|]. eapply keeps_trans; eauto.
  - exact Len.
  - intros c Hc. rewrite Forall_forall in Q1. now apply Q1.
Qed.

Definition leaf_written (n : nat) (s' : store) (el : nat) (text : str) : Prop :=
  let X := getn s' el in
  match n_cls X with
  | CSub => n_value X = text
  | CField => exists dt st kids,
                parse_components t (n_lvl X) e (le (n_lvl X)) text dt st = Ok kids /\
                length (n_list X) = length kids /\ forall c, In c (n_list X) -> n <= c
  | CComp => exists dt st kids,
                parse_subcomponents t (n_lvl X) e (le (n_lvl X)) text dt st = Ok kids /\
                length (n_list X) = length kids /\ forall c, In c (n_list X) -> n <= c
  | CSeg => False
  end.

Lemma to_traversal_settled fuel x s : n_tparent (getn s x) = None ->
  to_traversal t (S fuel) x s = (setn s x (with_tparent (getn s x) None), Ok tt).
Proof. intros H. cbn [to_traversal mbind node_of]. rewrite H. reflexivity. Qed.

Lemma set_value_leaf el text s s' :
  Inv s -> el < s_next s -> n_tparent (getn s el) = None ->
  set_value t e le el text s = (s', Ok tt) ->
  keeps (s_next s) el s s' /\ leaf_written (s_next s) s' el text.
Proof.
  intros I Hel Ht. unfold set_value. cbn [mbind node_of].
  assert (SubC : forall v enc, (set_val el v enc ;; to_traversal t FUEL el)%heap s = (s', Ok tt) ->
            keeps (s_next s) el s s' /\ n_cls (getn s' el) = n_cls (getn s el) /\ n_value (getn s' el) = v).
  { intros v enc. rewrite mbind_run. unfold set_val at 1, modify at 1.
    set (s1 := setn s el (with_value (getn s el) v enc)).
    assert (Ht1 : n_tparent (getn s1 el) = None) by (unfold s1; rewrite getn_setn_same; exact Ht).
    unfold FUEL. rewrite (to_traversal_settled _ el s1 Ht1).
    assert (G1 : getn s1 el = with_value (getn s el) v enc) by (unfold s1; now rewrite getn_setn_same).
    assert (G1' : forall y, y <> el -> getn s1 y = getn s y) by (intros y Hy; unfold s1; now rewrite getn_setn_other).
    assert (N1 : s_next s1 = s_next s) by reflexivity.
    clearbody s1. intros H. injection H as <-. rewrite getn_setn_same, G1. cbn. split; [|auto].
    split; [cbn; lia|]. intros y Hy. rewrite getn_setn. destruct (Nat.eqb_spec y el) as [Ey|Ny]; [subst y|].
    - unfold ident. cbn. rewrite Ht. split; [reflexivity|congruence].
    - rewrite G1' by auto. auto. }
  destruct (n_cls (getn s el)) eqn:Ecls.
  - discriminate.
  - cbn [mbind lift]. destruct (parse_components _ _ _ _ _ _ _) as [kids|ex] eqn:Ep; [|discriminate]. cbn [mbind].
    intros H.
    apply (rebuild_leaf (alloc_comp t (n_lvl (getn s el)) None) kids) in H; auto.
    + destruct H as (Kp & Len & Fr). split; [exact Kp|].
      destruct Kp as [_ Kp]. destruct (Kp el Hel) as [Id _]. apply ident_fields in Id.
      destruct Id as (Ic & _ & Il & _). unfold leaf_written. cbv zeta. rewrite Ic, Ecls, Il. exists (n_dt (getn s el)), (n_st (getn s el)), kids. auto.
    + intros x. apply frm_alloc_comp.
    + intros U B x. apply alloc_comp_spec.
    + destruct (_ && _ && _); [apply frm_set_datatype|apply frm_ret; exact Logic.I].
    + intros U B. destruct (_ && _ && _); [apply set_datatype_spec|intros s0 H0; exact H0].
  - cbn [mbind lift]. destruct (parse_subcomponents _ _ _ _ _ _ _) as [kids|ex] eqn:Ep; [|discriminate]. cbn [mbind].
    intros H.
    apply (rebuild_leaf (alloc_sub t (n_lvl (getn s el)) None) kids) in H; auto.
    + destruct H as (Kp & Len & Fr). split; [exact Kp|].
      destruct Kp as [_ Kp]. destruct (Kp el Hel) as [Id _]. apply ident_fields in Id.
      destruct Id as (Ic & _ & Il & _). unfold leaf_written. cbv zeta. rewrite Ic, Ecls, Il. exists (n_dt (getn s el)), (n_st (getn s el)), kids. auto.
    + intros x. apply frm_alloc_sub.
    + intros U B x. apply alloc_sub_spec.
    + destruct (_ && _ && _); [apply frm_set_datatype|apply frm_ret; exact Logic.I].
    + intros U B. destruct (_ && _ && _); [apply set_datatype_spec|intros s0 H0; exact H0].
  - assert (Fin : forall v enc, (set_val el v enc ;; to_traversal t FUEL el)%heap s = (s', Ok tt) ->
              keeps (s_next s) el s s' /\ leaf_written (s_next s) s' el v).
    { intros v enc H. destruct (SubC v enc H) as (A & B & C). split; [exact A|].
      unfold leaf_written. cbv zeta. rewrite B. exact C. }
    destruct text as [|b text]; [apply Fin|].
    cbn [mbind lift]. destruct (le _ _ _) as [enc|ex]; [|discriminate]. cbn [mbind]. apply Fin.
Qed.

End LeafValue.
