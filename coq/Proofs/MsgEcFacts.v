(* Facts about Model/MsgEc.v: check_encoding_chars, Message._set/_get_encoding_chars, the MSH
   header text, inheritance of encoding_chars along the parent chain. *)
From Coq Require Import List Bool Arith NArith Init.Byte Lia.
From HL7 Require Import Lib.Str Model.Ec Model.Result Model.Header Model.MsgEc.
Import ListNotations.
Open Scope bs_scope.
Open Scope res_scope.
Local Arguments ge_27 : simpl never.

(* ------------------------------------------------------------------ *)
(* duplicates, by counting                                              *)

Section Count.
Variable A : Type.
Variable eqb : A -> A -> bool.
Hypothesis eqb_spec : forall x y, reflect (x = y) (eqb x y).

Lemma eqb_rfl x : eqb x x = true.
Proof. destruct (eqb_spec x x); congruence. Qed.

Lemma count_app x (a b : list A) : count_occ_b eqb x (a ++ b) = count_occ_b eqb x a + count_occ_b eqb x b.
Proof. induction a as [|y a IH]; cbn [count_occ_b app]; [reflexivity|]. rewrite IH. lia. Qed.

Lemma mem_count x (l : list A) : mem eqb x l = true <-> 1 <= count_occ_b eqb x l.
Proof.
  induction l as [|y l IH]; cbn [mem existsb count_occ_b].
  - split; [discriminate|lia].
  - change (existsb (fun y0 => eqb y0 x) l) with (mem eqb x l).
    destruct (eqb y x); cbn; [split; [lia|reflexivity]|exact IH].
Qed.

Lemma mem_false_count x (l : list A) : mem eqb x l = false -> count_occ_b eqb x l = 0.
Proof.
  intros H. destruct (count_occ_b eqb x l) eqn:E; [reflexivity|].
  assert (mem eqb x l = true) by (apply mem_count; lia). congruence.
Qed.

Lemma nodupb_count (l : list A) : nodupb eqb l = true -> forall x, count_occ_b eqb x l <= 1.
Proof.
  induction l as [|a l IH]; cbn [nodupb count_occ_b]; intros H x; [lia|].
  apply andb_prop in H. destruct H as [Hm Hn]. apply negb_true_iff in Hm.
  specialize (IH Hn x). destruct (eqb_spec a x) as [->|N]; [|lia].
  rewrite (mem_false_count _ _ Hm). lia.
Qed.

Lemma count_nodupb (l : list A) : (forall x, count_occ_b eqb x l <= 1) -> nodupb eqb l = true.
Proof.
  induction l as [|a l IH]; cbn [nodupb]; intros H; [reflexivity|].
  apply andb_true_intro. split.
  - apply negb_true_iff. destruct (mem eqb a l) eqn:E; [|reflexivity].
    apply mem_count in E. specialize (H a). cbn [count_occ_b] in H. rewrite eqb_rfl in H. lia.
  - apply IH. intros x. specialize (H x). cbn [count_occ_b] in H. lia.
Qed.

Lemma nodupb_sub (l l' : list A) :
  (forall x, count_occ_b eqb x l' <= count_occ_b eqb x l) -> nodupb eqb l = true -> nodupb eqb l' = true.
Proof.
  intros Hc Hn. apply count_nodupb. intros x. pose proof (nodupb_count _ Hn x). specialize (Hc x). lia.
Qed.

Lemma nodupb_twice_false (l : list A) x : 2 <= count_occ_b eqb x l -> nodupb eqb l = false.
Proof.
  intros H. destruct (nodupb eqb l) eqn:E; [|reflexivity].
  pose proof (nodupb_count _ E x). lia.
Qed.

Lemma nosep_mem c (x : list A) : nosep eqb c x = negb (mem eqb c x).
Proof.
  unfold nosep, mem. induction x as [|y x IH]; cbn [forallb existsb]; [reflexivity|].
  rewrite IH. now rewrite negb_orb.
Qed.
End Count.

Arguments count_app {A}. Arguments mem_count {A}. Arguments nodupb_count {A}. Arguments count_nodupb {A}.
Arguments nodupb_sub {A}. Arguments nodupb_twice_false {A}. Arguments nosep_mem {A}.
Arguments mem_false_count {A}.

(* nodupb over single-character strings is nodupb over the characters *)
Lemma count_single x (l : list byte) :
  count_occ_b streqb [x] (map (fun b => [b]) l) = count_occ_b beqb x l.
Proof.
  induction l as [|a l IH]; cbn [map count_occ_b]; [reflexivity|]. rewrite IH.
  cbn [streqb leqb]. unfold streqb. cbn [leqb]. now rewrite andb_true_r.
Qed.

Lemma count_single_other (y : str) (l : list byte) :
  (forall b, y <> [b]) -> count_occ_b streqb y (map (fun b => [b]) l) = 0.
Proof.
  intros H. induction l as [|a l IH]; cbn [map count_occ_b]; [reflexivity|]. rewrite IH.
  destruct (streqb_spec [a] y) as [E|N]; [|reflexivity]. exfalso. exact (H a (eq_sym E)).
Qed.

Lemma nodupb_single (l : list byte) :
  nodupb streqb (map (fun b => [b]) l) = nodupb beqb l.
Proof.
  destruct (nodupb beqb l) eqn:E.
  - apply (count_nodupb streqb streqb_spec). intros y.
    destruct y as [|b [|c y']].
    + rewrite count_single_other; [lia|discriminate].
    + rewrite count_single. exact (nodupb_count beqb beqb_spec _ E b).
    + rewrite count_single_other; [lia|discriminate].
  - destruct (nodupb streqb (map (fun b => [b]) l)) eqn:F; [|reflexivity].
    assert (nodupb beqb l = true); [|congruence].
    apply (count_nodupb beqb beqb_spec). intros b. rewrite <- count_single.
    exact (nodupb_count streqb streqb_spec _ F [b]).
Qed.

(* ------------------------------------------------------------------ *)
(* valid sets                                                            *)

(* "valid set of distinct encoding characters": the five required ones and the truncation
   character (when supplied) pairwise distinct *)
Definition ec_wf (e : ec) : bool := nodupb beqb (ec_all e).

(* what the message keeps: TRUNCATION only from v2.7 *)
Definition norm_ec (v : str) (e : ec) : ec :=
  mk_ec (fsep e) (csep e) (rsep e) (esc e) (ssep e) (if ge_27 v then tsep e else None).

(* the texts _set_encoding_chars stores *)
Definition trunc_part (v : str) (e : ec) : str :=
  match (if ge_27 v then tsep e else None) with Some t => [t] | None => [] end.
Definition msh2_of (v : str) (e : ec) : str := [csep e; rsep e; esc e; ssep e] ++ trunc_part v e.

Lemma checked_values_of_ec e :
  checked_values (ecd_of_ec e) = map (fun b => [b]) (ec_all e).
Proof. unfold checked_values, ec_all. destruct e as [f c r es s [t|]]; reflexivity. Qed.

Lemma check_of_ec e : check_encoding_chars (ecd_of_ec e) = if ec_wf e then Ok tt else Err (HL7 EInvalidEncodingChars).
Proof.
  unfold check_encoding_chars. rewrite checked_values_of_ec, nodupb_single. fold (ec_wf e).
  assert (forallb (present (ecd_of_ec e)) required_sels = true) as ->
    by (destruct e as [f c r es s [t|]]; reflexivity).
  cbn [negb]. destruct (ec_wf e); reflexivity.
Qed.

Lemma set_of_ec v e : ec_wf e = true ->
  set_encoding_chars v (ecd_of_ec e) = Ok ([fsep e], msh2_of v e).
Proof.
  intros H. unfold set_encoding_chars. rewrite check_of_ec, H. cbn [bind].
  unfold msh2_of, trunc_part. destruct e as [f c r es s [t|]]; cbn; destruct (ge_27 v); reflexivity.
Qed.

Lemma set_of_ec_invalid v e : ec_wf e = false ->
  set_encoding_chars v (ecd_of_ec e) = Err (HL7 EInvalidEncodingChars).
Proof. intros H. unfold set_encoding_chars. now rewrite check_of_ec, H. Qed.

Lemma get_of_set v e :
  get_encoding_chars v [fsep e] (msh2_of v e) = Ok (ecd_of_ec (norm_ec v e)).
Proof.
  unfold get_encoding_chars, msh2_of, trunc_part, norm_ec.
  destruct e as [f c r es s [t|]]; cbn; destruct (ge_27 v); reflexivity.
Qed.

Lemma get_set v e f1 f2 : ec_wf e = true ->
  set_encoding_chars v (ecd_of_ec e) = Ok (f1, f2) ->
  get_encoding_chars v f1 f2 = Ok (ecd_of_ec (norm_ec v e)).
Proof. intros H S. rewrite set_of_ec in S by exact H. inversion S. apply get_of_set. Qed.

(* ------------------------------------------------------------------ *)
(* rejection                                                             *)

Lemma check_missing d s : In s required_sels -> dget d s = None ->
  check_encoding_chars d = Err (HL7 EInvalidEncodingChars).
Proof.
  intros Hin Hs. unfold check_encoding_chars.
  assert (forallb (present d) required_sels = false) as ->; [|reflexivity].
  destruct (forallb (present d) required_sels) eqn:E; [|reflexivity].
  rewrite forallb_forall in E. specialize (E s Hin). unfold present in E. rewrite Hs in E. discriminate.
Qed.

Lemma check_duplicate d s1 s2 x : s1 <> s2 -> dget d s1 = Some x -> dget d s2 = Some x ->
  check_encoding_chars d = Err (HL7 EInvalidEncodingChars).
Proof.
  intros Hne H1 H2. unfold check_encoding_chars.
  destruct (negb (forallb (present d) required_sels)); [reflexivity|].
  assert (nodupb streqb (checked_values d) = false) as ->; [|reflexivity].
  apply (nodupb_twice_false streqb streqb_spec) with (x := x).
  unfold checked_values, checked_sels, required_sels. cbn [app flat_map].
  rewrite !(count_app streqb).
  destruct s1, s2; try congruence; rewrite H1, H2;
    cbn [count_occ_b]; rewrite streqb_refl; lia.
Qed.

Lemma check_err_is_invalid d : check_encoding_chars d = Ok tt \/
  check_encoding_chars d = Err (HL7 EInvalidEncodingChars).
Proof.
  unfold check_encoding_chars. destruct (negb _); [now right|]. destruct (negb _); [now right|now left].
Qed.

Lemma set_rejects d v : check_encoding_chars d = Err (HL7 EInvalidEncodingChars) ->
  set_encoding_chars v d = Err (HL7 EInvalidEncodingChars).
Proof. intros H. unfold set_encoding_chars. now rewrite H. Qed.

Lemma new_message_rejects d v ts : check_encoding_chars d = Err (HL7 EInvalidEncodingChars) ->
  new_message v d ts = Err (HL7 EInvalidEncodingChars).
Proof. intros H. unfold new_message. now rewrite (set_rejects _ _ H). Qed.

Lemma set_default_rejects d : check_encoding_chars d = Err (HL7 EInvalidEncodingChars) ->
  set_default_encoding_chars d = Err (HL7 EInvalidEncodingChars).
Proof. intros H. unfold set_default_encoding_chars. now rewrite H. Qed.

(* a dict that passes the check never makes _set_encoding_chars crash (no KeyError) *)
Lemma set_total d v : check_encoding_chars d = Ok tt -> exists p, set_encoding_chars v d = Ok p.
Proof.
  intros H. unfold set_encoding_chars. rewrite H. cbn [bind].
  unfold check_encoding_chars in H.
  destruct (forallb (present d) required_sels) eqn:E; [|discriminate].
  cbn in E. unfold present, dkey in *.
  destruct d as [[f|] [c|] [s|] [r|] [e|] t]; cbn in E; try discriminate.
  cbn. destruct (ge_27 v); cbn; [|eauto]. destruct t; cbn; eauto.
Qed.

(* ------------------------------------------------------------------ *)
(* header text                                                           *)

Lemma joins_single (c : byte) (l : list str) : bjoins [c] l = bjoin c l.
Proof.
  unfold bjoins, bjoin. induction l as [|x [|y r] IH]; [reflexivity|reflexivity|].
  cbn [joins join] in *. now rewrite IH.
Qed.

Definition header_text (v : str) (e : ec) (rest : list str) : str :=
  bjoin (fsep e) (("MSH" : str) :: msh2_of v e :: rest).

Lemma msh_to_er7_of_set v e rest :
  msh_to_er7 (mk_msg v [fsep e] (msh2_of v e) rest) = Ok (header_text v e rest).
Proof.
  unfold msh_to_er7, msg_encoding_chars. cbn [m_version m_msh1 m_msh2 m_rest].
  rewrite get_of_set. cbn [bind]. unfold dkey. cbn [dget ecd_of_ec norm_ec dFIELD fsep bind].
  now rewrite joins_single.
Qed.

Lemma header_text_eq v e rest :
  header_text v e rest =
  ("MSH" : str) ++ fsep e :: [csep e; rsep e; esc e; ssep e] ++ trunc_part v e ++
  concat (map (fun x => fsep e :: x) rest).
Proof.
  unfold header_text, msh2_of, bjoin.
  assert (G : forall (x : str) l, join (fsep e) (x :: l) = x ++ concat (map (fun y => fsep e :: y) l)).
  { intros x l. revert x. induction l as [|y l IH]; intros x.
    - cbn. now rewrite app_nil_r.
    - change (join (fsep e) (x :: y :: l)) with (x ++ fsep e :: join (fsep e) (y :: l)).
      rewrite IH. reflexivity. }
  change (join (fsep e) ((("MSH" : bs) : str) :: ([csep e; rsep e; esc e; ssep e] ++ trunc_part v e) :: rest))
    with ((("MSH" : bs) : str) ++ fsep e :: join (fsep e) (([csep e; rsep e; esc e; ssep e] ++ trunc_part v e) :: rest)).
  rewrite G. now rewrite <- !app_assoc.
Qed.

Lemma new_message_of_ec v e ts : ec_wf e = true ->
  new_message v (ecd_of_ec e) ts =
  Ok (mk_msg v [fsep e] (msh2_of v e) [[]; []; []; []; ts; []; []; []; []; v]).
Proof. intros H. unfold new_message. now rewrite set_of_ec by exact H. Qed.

(* ------------------------------------------------------------------ *)
(* inheritance                                                           *)

Lemma elem_inherits dflt dflt27 e :
  elem_encoding_chars dflt dflt27 e = elem_encoding_chars dflt dflt27 (root_of e).
Proof. induction e as [m|v|v p IH]; cbn [elem_encoding_chars root_of]; auto. Qed.

Lemma descendants_root : forall t p e, In e (descendants p t) -> root_of e = root_of p.
Proof.
  fix IH 1. intros [v kids] p e H. cbn [descendants] in H. destruct H as [<-|H]; [reflexivity|].
  change (root_of p) with (root_of (EChild v p)).
  generalize dependent (EChild v p). intros me H.
  induction kids as [|k ks IHks]; cbn [flat_map] in H; [contradiction|].
  apply in_app_or in H. destruct H as [H|H]; [exact (IH k me e H)|exact (IHks H)].
Qed.

Lemma message_descendants_root m kids e : In e (message_descendants m kids) -> root_of e = EMessage m.
Proof.
  unfold message_descendants. intros H. apply in_flat_map in H. destruct H as [t [_ H]].
  exact (descendants_root t (EMessage m) e H).
Qed.

(* ------------------------------------------------------------------ *)
(* every character of the header text is accounted for                   *)

Lemma header_chars v e rest b : In b (header_text v e rest) ->
  In b ("MSH" : str) \/ In b (ec_all (norm_ec v e)) \/ exists x, In x rest /\ In b x.
Proof.
  rewrite header_text_eq. intros H.
  apply in_app_or in H. destruct H as [H|H]; [now left|].
  right.
  assert (EA : forall c, In c (fsep e :: [csep e; rsep e; esc e; ssep e] ++ trunc_part v e) ->
               In c (ec_all (norm_ec v e))).
  { intros c Hc. unfold ec_all, ec_required, norm_ec, trunc_part in *.
    cbn [fsep csep rsep esc ssep tsep] in *.
    destruct (if ge_27 v then tsep e else None); cbn in *; intuition. }
  destruct H as [<-|H]; [left; apply EA; now left|].
  rewrite app_assoc in H. apply in_app_or in H. destruct H as [H|H]; [left; apply EA; now right|].
  apply in_concat in H. destruct H as [y [Hy Hb]]. apply in_map_iff in Hy. destruct Hy as [x [<- Hx]].
  destruct Hb as [<-|Hb]; [left; apply EA; now left|]. right. eauto.
Qed.
