(* C18, message level, computed instances over the generated v2.5 tables: a profile of ADT_A01 that
   retypes EVN-1 (top-level segment) and PR1-1 inside the repeating PROCEDURE group (inline group).
   - find_groups=True: the profile speaks (EVN-1 is NM, PR1-1 is ST in both group instances);
   - find_groups=False: the segments are built on the standard tables (EVN-1 stays ID): the threading
     clause of the property is refuted for that mode (parser.py:155 ignores `references`). *)
From Coq Require Import List Bool ZArith NArith Init.Byte.
From HL7 Require Import Lib.Str Model.Ec Model.Result Model.Header Model.Ref Model.Tree Model.Parser Model.Leaf
                        Model.MsgTree Model.Groups Model.Message Model.MessageProf Proofs.GroupsFacts Proofs.ProfileMsg
                        Gen.Params.
From HL7 Require Gen.Tables_v2_5.
Import ListNotations.
Open Scope bs_scope.

Definition w_tables : tables := Gen.Tables_v2_5.tables.
Definition w_lib (v : str) : option tables := if streqb v "2.5" then Some w_tables else None.

Definition w_evn : sref :=
  SSeqIn false [ SIn FIE "EVN_1" (SLeaf (mk_info (Some (unbs "NM")) (Some (unbs "EVENT_TYPE_CODE")) (Some (unbs "HL70003")) (-1)%Z)) 0%Z 1%Z;
                 SByName FIE "EVN_2" 1%Z 1%Z ] None.
Definition w_pr1 : sref :=
  SSeqIn false [ SIn FIE "PR1_1" (SLeaf (mk_info (Some (unbs "ST")) (Some (unbs "SET_ID_PR1")) None (-1)%Z)) 1%Z 1%Z;
                 SByName FIE "PR1_2" 0%Z 1%Z; SByName FIE "PR1_3" 1%Z 1%Z ] None.
Definition w_procedure : sref :=
  SSeqIn false [ SIn SEG "PR1" w_pr1 1%Z 1%Z; SByName SEG "ROL" 0%Z (-1)%Z ] None.
Definition w_root : sref :=
  SSeqIn false [ SByName SEG "MSH" 1%Z 1%Z; SIn SEG "EVN" w_evn 1%Z 1%Z; SByName SEG "PID" 1%Z 1%Z;
                 SByName SEG "PV1" 1%Z 1%Z; SIn GRP "ADT_A01_PROCEDURE" w_procedure 0%Z (-1)%Z ] None.
Definition w_profile : profile := [("ADT_A01" : str, PRef w_root)].

Definition w_text : str :=
  "MSH|^~\&|A|B|C|D|2011||ADT^A01^ADT_A01|1|P|2.5" ++ [x0d] ++ "EVN|1|2020" ++ [x0d] ++ "PID|1||X||N" ++ [x0d] ++
  "PV1|1|I" ++ [x0d] ++ "PR1|1||C" ++ [x0d] ++ "PR1|2||D".

Definition w_result (fg : bool) : result (tables * message) :=
  parse_message_prof w_lib "2.5" TOLERANT fg (Some w_profile) w_text.

(* datatypes of the first field of every segment named `name`, in document order *)
Definition first_field_dts (name : str) (r : result (tables * message)) : list (option bs) :=
  match r with
  | Ok (_, m) => flat_map (fun s => if streqb (s_name s) name
                                    then match s_children s with f :: _ => [option_map BS (f_dt f)] | [] => [] end
                                    else []) (flatten (m_children m))
  | Err _ => []
  end.

Lemma profile_speaks_grouped :
  first_field_dts "EVN" (w_result true) = [Some "NM"] /\
  first_field_dts "PR1" (w_result true) = [Some "ST"; Some "ST"] /\
  match w_result true with Ok (_, m) => BS (dump_message m) | Err _ => "" end
  = "ADT_A01:MSH EVN PID PV1 (ADT_A01_PROCEDURE PR1) (ADT_A01_PROCEDURE PR1)".
Proof. vm_compute. repeat split. Qed.

(* without the profile the same text gives the standard datatypes *)
Lemma standard_datatypes :
  first_field_dts "EVN" (parse_message_prof w_lib "2.5" TOLERANT true None w_text) = [Some "ID"] /\
  first_field_dts "PR1" (parse_message_prof w_lib "2.5" TOLERANT true None w_text) = [Some "SI"; Some "SI"].
Proof. vm_compute. split; reflexivity. Qed.

(* find_groups=False: the profile is not used for the segments *)
Lemma profile_silent_flat :
  first_field_dts "EVN" (w_result false) = [Some "ID"] /\
  first_field_dts "PR1" (w_result false) = [Some "SI"; Some "SI"].
Proof. vm_compute. split; reflexivity. Qed.

(* the inline group of the profile is named consistently: the hypothesis of the grouped theorem holds *)
Lemma w_groups_ok : profile_groups_ok w_tables 12 w_root = true.
Proof. vm_compute. reflexivity. Qed.

(* ---- the refutation ---- *)
Lemma w_result_eq fg :
  w_result fg = parse_message_prof_gen w_lib "2.5" TOLERANT leaf_enc fg (Some w_profile) w_text.
Proof. reflexivity. Qed.

(* some top-level EVN segment of the result does not carry the reference the profile declares for EVN *)
Definition flat_violation (r : result (tables * message)) : bool :=
  match r with
  | Ok (_, m) => existsb (fun nd => match nd with
                                    | NSeg s => streqb (s_name s) "EVN" && negb (sref_eqb (st_reference (s_st s)) w_evn)
                                    | NGrp _ _ _ => false
                                    end) (m_children m)
  | Err _ => false
  end.

Lemma w_violation : flat_violation (w_result false) = true.
Proof. vm_compute. reflexivity. Qed.

Lemma flat_violation_spec r : flat_violation r = true ->
  exists t m s, r = Ok (t, m) /\ In (NSeg s) (m_children m) /\ s_name s = "EVN" /\ st_reference (s_st s) <> w_evn.
Proof.
  destruct r as [[t m]|]; [|discriminate]. cbn [flat_violation]. intros H.
  apply existsb_exists in H. destruct H as ([s|? ? ?] & Hin & Hs); [|discriminate].
  apply andb_prop in Hs. destruct Hs as [Hn Hne]. exists t, m, s. split; [reflexivity|]. split; [exact Hin|].
  split; [now apply streqb_eq|]. intros Heq. rewrite Heq in Hne.
  assert (Hrefl : sref_eqb w_evn w_evn = true) by (vm_compute; reflexivity).
  rewrite Hrefl in Hne. discriminate.
Qed.

Lemma w_declared t : declared t w_root SEG "EVN" w_evn.
Proof.
  exists [ SByName SEG "MSH" 1%Z 1%Z; SIn SEG "EVN" w_evn 1%Z 1%Z; SByName SEG "PID" 1%Z 1%Z;
           SByName SEG "PV1" 1%Z 1%Z; SIn GRP "ADT_A01_PROCEDURE" w_procedure 0%Z (-1)%Z ],
         (SIn SEG "EVN" w_evn 1%Z 1%Z).
  split; [reflexivity|]. split; [right; left; reflexivity|]. split; reflexivity.
Qed.

Lemma w_info : get_message_info (lstrip w_text) = Ok (default_ec, Some (unbs "ADT_A01"), Some (unbs "2.5")).
Proof. vm_compute. reflexivity. Qed.

Theorem flat_nodes_refuted : ~ flat_nodes_take_profile_subreference.
Proof.
  intros H. destruct (flat_violation_spec _ w_violation) as (t & m & s & E & Hin & Hn & Hne).
  rewrite w_result_eq in E. apply Hne.
  apply (parse_structure_reference t).
  apply (H w_lib "2.5" TOLERANT leaf_enc w_profile w_text default_ec "ADT_A01" (Some (unbs "2.5")) w_root t m s w_evn
           w_info eq_refl E Hin).
  rewrite Hn. apply w_declared.
Qed.

(* ---- the premise of the restating theorem holds for every message structure of the version ---- *)
Lemma restating_premise_v2_5 :
  forallb (fun p : str * sref =>
             match parse_structure w_tables (snd p) with
             | Ok st => is_ok (msh_acceptance w_tables STRICT (fst p) st) && is_ok (msh_acceptance w_tables TOLERANT (fst p) st)
             | Err _ => true
             end) (t_messages w_tables) = true.
Proof. vm_compute. reflexivity. Qed.
