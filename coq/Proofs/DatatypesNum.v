(* Facts about Model/Datatypes.v, part 3: SI and NM. *)
From Coq Require Import List Bool Arith NArith ZArith Lia Init.Byte Strings.Byte.
From HL7 Require Import Lib.Str Model.Ec Model.Result Model.Escape Model.Datatypes Gen.Params
  Proofs.DatatypesFacts Proofs.DatatypesDate.
Import ListNotations.

(* ------------------------------------------------------------------ *)
(* one-byte facts                                                       *)
Definition si_deco (c : byte) : bool := is_space_int c || is_c c_plus c || is_c c_minus c || is_c c_us c.
Definition nm_deco (c : byte) : bool :=
  is_space c || is_c c_us c || negb (is_digit c || is_c c_dot c || is_c c_plus c || is_c c_minus c).

Lemma digit_plain : forall c, implb (is_digit c)
  (negb (is_space_int c) && negb (is_space c) && negb (is_c c_plus c) && negb (is_c c_minus c) &&
   negb (is_c c_us c) && negb (is_c c_dot c) && negb (is_e c) && beqb (blower c) c) = true.
Proof. brute1. Qed.

Lemma digit_facts c : is_digit c = true ->
  is_space_int c = false /\ is_space c = false /\ is_c c_plus c = false /\ is_c c_minus c = false /\
  is_c c_us c = false /\ is_c c_dot c = false /\ is_e c = false /\ blower c = c.
Proof.
  intros H. pose proof (implb_true _ _ (digit_plain c) H) as F.
  repeat (apply andb_prop in F; destruct F as [F ?]).
  repeat match goal with H : negb _ = true |- _ => apply negb_true_iff in H end.
  repeat split; auto. now apply beqb_eq.
Qed.

(* ------------------------------------------------------------------ *)
(* stripping                                                            *)
Lemma lstrip_by_id {A} (p : A -> bool) s : match s with c :: _ => p c = false | [] => True end -> lstrip_by p s = s.
Proof. destruct s as [|c s]; intros H; [reflexivity|]. cbn. now rewrite H. Qed.

Lemma strip_by_id (p : byte -> bool) s : forallb (fun c => negb (p c)) s = true -> strip_by p s = s.
Proof.
  intros H. unfold strip_by, rstrip_by.
  assert (L : lstrip_by p s = s).
  { apply lstrip_by_id. destruct s as [|c s]; auto. cbn in H. apply andb_prop in H. destruct H as [H _].
    now apply negb_true_iff in H. }
  rewrite L. rewrite lstrip_by_id; [apply rev_involutive|].
  destruct (rev s) as [|c r] eqn:E; auto.
  rewrite forallb_forall in H. assert (In c s) as Hc by (apply in_rev; rewrite E; now left).
  specialize (H c Hc). now apply negb_true_iff in H.
Qed.

Lemma forallb_impl {A} (p q : A -> bool) s : (forall c, p c = true -> q c = true) -> forallb p s = true -> forallb q s = true.
Proof. intros Hpq H. rewrite forallb_forall in *. auto. Qed.

Lemma filter_id {A} (p : A -> bool) s : forallb p s = true -> filter p s = s.
Proof.
  induction s as [|c s IH]; [reflexivity|]. cbn. intros H. apply andb_prop in H. destruct H as [Hc Hs].
  now rewrite Hc, IH.
Qed.

(* ------------------------------------------------------------------ *)
(* SI                                                                   *)

Lemma int_body_digits s : all_dig s = true -> int_body_ok false s = true.
Proof.
  induction s as [|c s IH]; [reflexivity|]. cbn. intros H. apply andb_prop in H. destruct H as [Hc Hs].
  rewrite Hc. now apply IH.
Qed.

Lemma int_body_no_us s : forall pu, int_body_ok pu s = true -> forallb (fun c => negb (is_c c_us c)) s = true ->
  all_dig s = true.
Proof.
  induction s as [|c s IH]; intros pu H Hn; [reflexivity|]. cbn in *. apply andb_prop in Hn. destruct Hn as [Hc Hn].
  destruct (is_digit c); [cbn; eapply IH; eauto|]. apply negb_true_iff in Hc. rewrite Hc in H. discriminate.
Qed.

Lemma take_sign_plain s : match s with c :: _ => is_c c_minus c = false /\ is_c c_plus c = false | [] => True end ->
  take_sign s = (false, s).
Proof. destruct s as [|c s]; [reflexivity|]. intros [H1 H2]. cbn. now rewrite H1, H2. Qed.

(* completeness: every digit string is accepted, as the number it denotes *)
Lemma int_parse_spec s : spec_SI s = true -> int_parse s = Some (canon_digits s).
Proof.
  unfold spec_SI. intros H. apply andb_prop in H. destruct H as [Hn Hd].
  assert (Hall : forall c, In c s -> is_digit c = true) by (unfold all_dig in Hd; rewrite forallb_forall in Hd; auto).
  unfold int_parse.
  rewrite strip_by_id.
  2:{ apply forallb_forall. intros c Hc. destruct (digit_facts c (Hall c Hc)) as [E _]. cbv beta. apply negb_true_iff. exact E. }
  rewrite take_sign_plain.
  2:{ destruct s as [|c s]; auto. destruct (digit_facts c (Hall c (or_introl eq_refl))) as [_ [_ [E1 [E2 _]]]]. auto. }
  assert (int_lex s = true) as ->.
  { unfold int_lex. destruct s as [|c s]; [discriminate|]. rewrite (Hall c (or_introl eq_refl)). cbn [andb].
    now apply int_body_digits. }
  cbn [andb]. rewrite (filter_id is_digit s Hd). reflexivity.
Qed.

Lemma si_deco_false c : si_deco c = false ->
  is_space_int c = false /\ is_c c_plus c = false /\ is_c c_minus c = false /\ is_c c_us c = false.
Proof.
  unfold si_deco. intros H. apply orb_false_elim in H. destruct H as [H H4].
  apply orb_false_elim in H. destruct H as [H H3]. apply orb_false_elim in H. destruct H as [H1 H2]. auto.
Qed.

(* soundness: whatever else is accepted contains a blank, a sign or an underscore *)
Lemma int_parse_sound s o : int_parse s = Some o -> spec_SI s = true \/ existsb si_deco s = true.
Proof.
  intros H. destruct (existsb si_deco s) eqn:E; [now right|left].
  assert (Hn : forall c, In c s -> si_deco c = false).
  { intros c Hc. destruct (si_deco c) eqn:D; auto. assert (existsb si_deco s = true) by (apply existsb_exists; eauto). congruence. }
  unfold int_parse in H. rewrite strip_by_id in H.
  2:{ apply forallb_forall. intros c Hc. destruct (si_deco_false c (Hn c Hc)) as [E0 _]. cbv beta.
      apply negb_true_iff. exact E0. }
  rewrite take_sign_plain in H.
  2:{ destruct s as [|c s]; auto. destruct (si_deco_false c (Hn c (or_introl eq_refl))) as [_ [E1 [E2 _]]]. auto. }
  destruct (int_lex s) eqn:L; [|discriminate]. unfold int_lex in L. destruct s as [|c s]; [discriminate|].
  apply andb_prop in L. destruct L as [Lc Lb]. unfold spec_SI. cbn [nilb negb andb].
  eapply int_body_no_us; eauto. apply forallb_forall. intros x Hx. destruct (si_deco_false x (Hn x Hx)) as [_ [_ [_ E4]]]. cbv beta. apply negb_true_iff. exact E4.
Qed.

Lemma impl_SI_spec strict ml s : spec_SI s = true ->
  impl_SI strict ml s =
  if strict && too_long ml (canon_digits s) then Err (HL7 EMaxLengthReached) else Ok (canon_digits s).
Proof.
  intros H. unfold impl_SI. rewrite (int_parse_spec s H). destruct s; [discriminate|reflexivity].
Qed.

Lemma canon_plain s : plain_SI s = true -> canon_digits s = s.
Proof.
  unfold plain_SI, spec_SI, no_lead0, canon_digits, lstrip0. intros H. apply andb_prop in H. destruct H as [_ H].
  destruct s as [|c [|d s]]; try discriminate.
  - cbn. destruct (is_c c_0 c) eqn:E; [apply beqb_eq in E; now subst|reflexivity].
  - apply negb_true_iff in H. cbn [lstrip_by]. now rewrite H.
Qed.

Lemma digits_val_0 s : digits_val (c_0 :: s) = digits_val s.
Proof. reflexivity. Qed.

Lemma canon_same_number s : all_dig s = true -> digits_val (canon_digits s) = digits_val s.
Proof.
  unfold canon_digits, lstrip0. induction s as [|c s IH]; intros H; [reflexivity|].
  cbn in H. apply andb_prop in H. destruct H as [Hc Hs]. cbn [lstrip_by].
  destruct (is_c c_0 c) eqn:E; [|reflexivity]. apply beqb_eq in E. subst c. rewrite digits_val_0. now apply IH.
Qed.

(* ------------------------------------------------------------------ *)
(* maximum length (BaseDataType.__init__, on the formatted value)       *)

Lemma impl_NM_parsed strict ml s d : s <> [] -> decimal_parse s = Some d ->
  impl_NM strict ml s =
  if strict && too_long ml (decimal_str d) then Err (HL7 EMaxLengthReached) else Ok (decimal_str d).
Proof. intros Hs Hd. unfold impl_NM. rewrite Hd. destruct s; [congruence|reflexivity]. Qed.

Lemma impl_SI_parsed strict ml s o : s <> [] -> int_parse s = Some o ->
  impl_SI strict ml s = if strict && too_long ml o then Err (HL7 EMaxLengthReached) else Ok o.
Proof. intros Hs Hd. unfold impl_SI. rewrite Hd. destruct s; [congruence|reflexivity]. Qed.

Lemma impl_NM_accepted_short ml s t : s <> [] -> impl_NM true ml s = Ok t -> too_long ml t = false.
Proof.
  intros Hs. unfold impl_NM. destruct s as [|c s]; [congruence|]. cbn [nilb].
  - destruct (decimal_parse (c :: s)) as [d|]; [|discriminate]. cbn [andb]. destruct (too_long ml (decimal_str d)) eqn:E; [discriminate|].
    intros H. injection H as <-. exact E.
Qed.
Lemma impl_SI_accepted_short ml s t : s <> [] -> impl_SI true ml s = Ok t -> too_long ml t = false.
Proof.
  intros Hs. unfold impl_SI. destruct s as [|c s]; [congruence|]. cbn [nilb].
  - destruct (int_parse (c :: s)) as [s0|]; [|discriminate]. cbn [andb]. destruct (too_long ml s0) eqn:E; [discriminate|].
    intros H. injection H as <-. exact E.
Qed.

(* ------------------------------------------------------------------ *)
(* the levels                                                            *)
Lemma impl_NM_levels ml s :
  match impl_NM false ml s with
  | Ok t => impl_NM true ml s = Ok t \/ impl_NM true ml s = Err (HL7 EMaxLengthReached)
  | Err x => x = PyValueError /\ impl_NM true ml s = Err PyValueError
  end.
Proof.
  unfold impl_NM. cbn [andb]. destruct (nilb s); [destruct (too_long ml none_text); auto|].
  destruct (decimal_parse s); [|auto]. destruct (too_long ml (decimal_str d)); auto.
Qed.
Lemma impl_SI_levels ml s :
  match impl_SI false ml s with
  | Ok t => impl_SI true ml s = Ok t \/ impl_SI true ml s = Err (HL7 EMaxLengthReached)
  | Err x => x = PyValueError /\ impl_SI true ml s = Err PyValueError
  end.
Proof.
  unfold impl_SI. cbn [andb]. destruct (nilb s); [destruct (too_long ml none_text); auto|].
  destruct (int_parse s) as [s0|]; [|auto]. destruct (too_long ml s0); auto.
Qed.

(* ------------------------------------------------------------------ *)
(* datatype_factory                                                      *)

(* the only exceptions of a datatype: ValueError, and under STRICT MaxLengthReached for a value
   that TOLERANT builds *)
Definition kind_safe (k : dtkind) : Prop :=
  forall strict ml s x, impl_kind k strict ml s = Err x ->
    (x = PyValueError /\ impl_kind k true ml s = Err PyValueError) \/
    (strict = true /\ x = HL7 EMaxLengthReached /\ exists t, impl_kind k false ml s = Ok t).

Lemma kind_safe_DT : kind_safe KDT.
Proof. intros strict ml s x H. cbn in *. pose proof (DT_only_valueerror _ _ H). subst. left. split; [reflexivity|exact H]. Qed.
Lemma kind_safe_TM : kind_safe KTM.
Proof. intros strict ml s x H. cbn in *. pose proof (TM_only_valueerror _ _ H). subst. left. split; [reflexivity|exact H]. Qed.
Lemma kind_safe_NM : kind_safe KNM.
Proof.
  intros strict ml s x H. cbn in *. pose proof (impl_NM_levels ml s) as L. destruct strict.
  - destruct (impl_NM false ml s) as [t|y] eqn:E.
    + destruct L as [L|L]; rewrite L in H; [discriminate|]. injection H as <-. right. eauto.
    + destruct L as [-> L]. rewrite L in H. injection H as <-. auto.
  - rewrite H in L. destruct L as [-> L]. auto.
Qed.
Lemma kind_safe_SI : kind_safe KSI.
Proof.
  intros strict ml s x H. cbn in *. pose proof (impl_SI_levels ml s) as L. destruct strict.
  - destruct (impl_SI false ml s) as [t|y] eqn:E.
    + destruct L as [L|L]; rewrite L in H; [discriminate|]. injection H as <-. right. eauto.
    + destruct L as [-> L]. rewrite L in H. injection H as <-. auto.
  - rewrite H in L. destruct L as [-> L]. auto.
Qed.

(* every version has an ST class of a known escape family (decided on the generated table) *)
Definition st_family (rows : list (str * dtkind * option Z)) : option esc_params :=
  match row_lookup "ST"%bs rows with
  | Some (KTextual f, _) => nth_error esc_families f
  | _ => None
  end.
Definition table_has_st : bool :=
  forallb (fun vr : str * list (str * dtkind * option Z) =>
             match st_family (snd vr) with Some _ => true | None => false end) base_datatype_table.

Lemma slookup_In {B} (k : str) (l : list (str * B)) v : slookup k l = Some v -> exists k', In (k', v) l.
Proof.
  unfold slookup. induction l as [|[k' v'] l IH]; [discriminate|]. cbn.
  destruct (leqb beqb k k').
  - intros H. injection H as <-. exists k'. now left.
  - intros H. destruct (IH H) as [k2 Hk]. exists k2. now right.
Qed.

Lemma st_fallback_family rows e s p : st_family rows = Some p -> st_fallback rows e s = Ok (escape p e s).
Proof.
  unfold st_family, st_fallback. destruct (row_lookup _ rows) as [[k ml]|]; [|discriminate].
  destruct k; try discriminate. intros ->. reflexivity.
Qed.

(* TOLERANT never rejects; what STRICT rejects with ValueError is kept as ST text *)
Theorem factory_tolerant v rows name k ml e s :
  table_has_st = true -> kind_safe k ->
  slookup v base_datatype_table = Some rows -> row_lookup name rows = Some (k, ml) ->
  (exists t, impl_kind k false ml s = Ok t /\ factory v TOLERANT name e s = Ok (false, t)) \/
  (exists p, st_family rows = Some p /\
             factory v STRICT name e s = Err PyValueError /\
             factory v TOLERANT name e s = Ok (true, escape p e s)).
Proof.
  intros Hst Hk Hv Hn. unfold factory. rewrite Hv, Hn. cbn [is_strict].
  destruct (impl_kind k false ml s) as [t|x] eqn:E.
  - left. eauto.
  - right. destruct (Hk false ml s x E) as [[-> Hs]|[Hc _]]; [|discriminate].
    destruct (slookup_In _ _ _ Hv) as [v' Hin]. unfold table_has_st in Hst. rewrite forallb_forall in Hst.
    specialize (Hst _ Hin). cbn [snd] in Hst. destruct (st_family rows) as [p|] eqn:F; [|discriminate].
    exists p. rewrite Hs, (st_fallback_family rows e s p F). auto.
Qed.

(* a value STRICT accepts is built in the same way under TOLERANT *)
Theorem factory_strict_ok v name e s t fb :
  factory v STRICT name e s = Ok (fb, t) -> fb = false /\ factory v TOLERANT name e s = Ok (false, t).
Proof.
  unfold factory. destruct (slookup v base_datatype_table) as [rows|]; [|discriminate].
  destruct (row_lookup name rows) as [[k ml]|]; [|discriminate]. cbn [is_strict].
  destruct (impl_kind k true ml s) as [t'|x] eqn:E.
  - intros H. injection H as <- <-. split; auto.
    assert (impl_kind k false ml s = Ok t') as ->; [|reflexivity].
    destruct k; cbn in *; auto.
    + pose proof (impl_NM_levels ml s) as L. destruct (impl_NM false ml s) as [u|y].
      * destruct L as [L|L]; congruence.
      * destruct L as [_ L]. congruence.
    + pose proof (impl_SI_levels ml s) as L. destruct (impl_SI false ml s) as [u|y].
      * destruct L as [L|L]; congruence.
      * destruct L as [_ L]. congruence.
  - destruct x; discriminate.
Qed.
