(* Facts about Model/Datatypes.v, part 3: SI and NM. *)
From Coq Require Import List Bool Arith NArith ZArith Lia Init.Byte Strings.Byte.
From HL7 Require Import Lib.Str Model.Ec Model.Result Model.Escape Model.Datatypes Gen.Params
  Proofs.DatatypesFacts Proofs.DatatypesDate.
Import ListNotations.

(* ------------------------------------------------------------------ *)
(* one-byte facts                                                       *)
Definition si_deco (c : byte) : bool := is_space_int c || is_c c_plus c || is_c c_minus c || is_c c_us c.
Definition nm_deco (c : byte) : bool :=
  is_space c || is_c c_us c || negb (is_digit c || is_c c_dot c || is_c c_plus c || is_c c_minus c).

Lemma digit_plain : forall c, implb (is_digit c)
  (negb (is_space_int c) && negb (is_space c) && negb (is_c c_plus c) && negb (is_c c_minus c) &&
   negb (is_c c_us c) && negb (is_c c_dot c) && negb (is_e c) && beqb (blower c) c) = true.
Proof. brute1. Qed.

Lemma digit_facts c : is_digit c = true ->
  is_space_int c = false /\ is_space c = false /\ is_c c_plus c = false /\ is_c c_minus c = false /\
  is_c c_us c = false /\ is_c c_dot c = false /\ is_e c = false /\ blower c = c.
Proof.
  intros H. pose proof (implb_true _ _ (digit_plain c) H) as F.
  repeat (apply andb_prop in F; destruct F as [F ?]).
  repeat match goal with H : negb _ = true |- _ => apply negb_true_iff in H end.
  repeat split; auto. now apply beqb_eq.
Qed.

(* ------------------------------------------------------------------ *)
(* stripping                                                            *)
Lemma lstrip_by_id {A} (p : A -> bool) s : match s with c :: _ => p c = false | [] => True end -> lstrip_by p s = s.
Proof. destruct s as [|c s]; intros H; [reflexivity|]. cbn. now rewrite H. Qed.

Lemma strip_by_id (p : byte -> bool) s : forallb (fun c => negb (p c)) s = true -> strip_by p s = s.
Proof.
  intros H. unfold strip_by, rstrip_by.
  assert (L : lstrip_by p s = s).
  { apply lstrip_by_id. destruct s as [|c s]; auto. cbn in H. apply andb_prop in H. destruct H as [H _].
    now apply negb_true_iff in H. }
  rewrite L. rewrite lstrip_by_id; [apply rev_involutive|].
  destruct (rev s) as [|c r] eqn:E; auto.
  rewrite forallb_forall in H. assert (In c s) as Hc by (apply in_rev; rewrite E; now left).
  specialize (H c Hc). now apply negb_true_iff in H.
Qed.

Lemma forallb_impl {A} (p q : A -> bool) s : (forall c, p c = true -> q c = true) -> forallb p s = true -> forallb q s = true.
Proof. intros Hpq H. rewrite forallb_forall in *. auto. Qed.

Lemma filter_id {A} (p : A -> bool) s : forallb p s = true -> filter p s = s.
Proof.
  induction s as [|c s IH]; [reflexivity|]. cbn. intros H. apply andb_prop in H. destruct H as [Hc Hs].
  now rewrite Hc, IH.
Qed.

(* ------------------------------------------------------------------ *)
(* SI                                                                   *)

Lemma int_body_digits s : all_dig s = true -> int_body_ok false s = true.
Proof.
  induction s as [|c s IH]; [reflexivity|]. cbn. intros H. apply andb_prop in H. destruct H as [Hc Hs].
  rewrite Hc. now apply IH.
Qed.

Lemma int_body_no_us s : forall pu, int_body_ok pu s = true -> forallb (fun c => negb (is_c c_us c)) s = true ->
  all_dig s = true.
Proof.
  induction s as [|c s IH]; intros pu H Hn; [reflexivity|]. cbn in *. apply andb_prop in Hn. destruct Hn as [Hc Hn].
  destruct (is_digit c); [cbn; eapply IH; eauto|]. apply negb_true_iff in Hc. rewrite Hc in H. discriminate.
Qed.

Lemma take_sign_plain s : match s with c :: _ => is_c c_minus c = false /\ is_c c_plus c = false | [] => True end ->
  take_sign s = (false, s).
Proof. destruct s as [|c s]; [reflexivity|]. intros [H1 H2]. cbn. now rewrite H1, H2. Qed.

(* completeness: every digit string is accepted, as the number it denotes *)
Lemma int_parse_spec s : spec_SI s = true -> int_parse s = Some (canon_digits s).
Proof.
  unfold spec_SI. intros H. apply andb_prop in H. destruct H as [Hn Hd].
  assert (Hall : forall c, In c s -> is_digit c = true) by (unfold all_dig in Hd; rewrite forallb_forall in Hd; auto).
  unfold int_parse.
  rewrite strip_by_id.
  2:{ apply forallb_forall. intros c Hc. destruct (digit_facts c (Hall c Hc)) as [E _]. cbv beta. apply negb_true_iff. exact E. }
  rewrite take_sign_plain.
  2:{ destruct s as [|c s]; auto. destruct (digit_facts c (Hall c (or_introl eq_refl))) as [_ [_ [E1 [E2 _]]]]. auto. }
  assert (int_lex s = true) as ->.
  { unfold int_lex. destruct s as [|c s]; [discriminate|]. rewrite (Hall c (or_introl eq_refl)). cbn [andb].
    now apply int_body_digits. }
  cbn [andb]. rewrite (filter_id is_digit s Hd). reflexivity.
Qed.

Lemma si_deco_false c : si_deco c = false ->
  is_space_int c = false /\ is_c c_plus c = false /\ is_c c_minus c = false /\ is_c c_us c = false.
Proof.
  unfold si_deco. intros H. apply orb_false_elim in H. destruct H as [H H4].
  apply orb_false_elim in H. destruct H as [H H3]. apply orb_false_elim in H. destruct H as [H1 H2]. auto.
Qed.

(* soundness: whatever else is accepted contains a blank, a sign or an underscore *)
Lemma int_parse_sound s o : int_parse s = Some o -> spec_SI s = true \/ existsb si_deco s = true.
Proof.
  intros H. destruct (existsb si_deco s) eqn:E; [now right|left].
  assert (Hn : forall c, In c s -> si_deco c = false).
  { intros c Hc. destruct (si_deco c) eqn:D; auto. assert (existsb si_deco s = true) by (apply existsb_exists; eauto). congruence. }
  unfold int_parse in H. rewrite strip_by_id in H.
  2:{ apply forallb_forall. intros c Hc. destruct (si_deco_false c (Hn c Hc)) as [E0 _]. cbv beta.
      apply negb_true_iff. exact E0. }
  rewrite take_sign_plain in H.
  2:{ destruct s as [|c s]; auto. destruct (si_deco_false c (Hn c (or_introl eq_refl))) as [_ [E1 [E2 _]]]. auto. }
  destruct (int_lex s) eqn:L; [|discriminate]. unfold int_lex in L. destruct s as [|c s]; [discriminate|].
  apply andb_prop in L. destruct L as [Lc Lb]. unfold spec_SI. cbn [nilb negb andb].
  eapply int_body_no_us; eauto. apply forallb_forall. intros x Hx. destruct (si_deco_false x (Hn x Hx)) as [_ [_ [_ E4]]]. cbv beta. apply negb_true_iff. exact E4.
Qed.

Lemma impl_SI_spec strict ml s : spec_SI s = true ->
  impl_SI strict ml s =
  if strict && too_long ml (canon_digits s) then Err (HL7 EMaxLengthReached) else Ok (canon_digits s).
Proof.
  intros H. unfold impl_SI. rewrite (int_parse_spec s H). destruct s; [discriminate|reflexivity].
Qed.

Lemma canon_plain s : plain_SI s = true -> canon_digits s = s.
Proof.
  unfold plain_SI, spec_SI, no_lead0, canon_digits, lstrip0. intros H. apply andb_prop in H. destruct H as [_ H].
  destruct s as [|c [|d s]]; try discriminate.
  - cbn. destruct (is_c c_0 c) eqn:E; [apply beqb_eq in E; now subst|reflexivity].
  - apply negb_true_iff in H. cbn [lstrip_by]. now rewrite H.
Qed.

Lemma digits_val_0 s : digits_val (c_0 :: s) = digits_val s.
Proof. reflexivity. Qed.

Lemma canon_same_number s : all_dig s = true -> digits_val (canon_digits s) = digits_val s.
Proof.
  unfold canon_digits, lstrip0. induction s as [|c s IH]; intros H; [reflexivity|].
  cbn in H. apply andb_prop in H. destruct H as [Hc Hs]. cbn [lstrip_by].
  destruct (is_c c_0 c) eqn:E; [|reflexivity]. apply beqb_eq in E. subst c. rewrite digits_val_0. now apply IH.
Qed.

(* ------------------------------------------------------------------ *)
(* maximum length (BaseDataType.__init__, on the formatted value)       *)

Lemma impl_NM_parsed strict ml s d : s <> [] -> decimal_parse s = Some d ->
  impl_NM strict ml s =
  if strict && too_long ml (decimal_str d) then Err (HL7 EMaxLengthReached) else Ok (decimal_str d).
Proof. intros Hs Hd. unfold impl_NM. rewrite Hd. destruct s; [congruence|reflexivity]. Qed.

Lemma impl_SI_parsed strict ml s o : s <> [] -> int_parse s = Some o ->
  impl_SI strict ml s = if strict && too_long ml o then Err (HL7 EMaxLengthReached) else Ok o.
Proof. intros Hs Hd. unfold impl_SI. rewrite Hd. destruct s; [congruence|reflexivity]. Qed.

Lemma impl_NM_accepted_short ml s t : s <> [] -> impl_NM true ml s = Ok t -> too_long ml t = false.
Proof.
  intros Hs. unfold impl_NM. destruct s as [|c s]; [congruence|]. cbn [nilb].
  - destruct (decimal_parse (c :: s)) as [d|]; [|discriminate]. cbn [andb]. destruct (too_long ml (decimal_str d)) eqn:E; [discriminate|].
    intros H. injection H as <-. exact E.
Qed.
Lemma impl_SI_accepted_short ml s t : s <> [] -> impl_SI true ml s = Ok t -> too_long ml t = false.
Proof.
  intros Hs. unfold impl_SI. destruct s as [|c s]; [congruence|]. cbn [nilb].
  - destruct (int_parse (c :: s)) as [s0|]; [|discriminate]. cbn [andb]. destruct (too_long ml s0) eqn:E; [discriminate|].
    intros H. injection H as <-. exact E.
Qed.

(* ------------------------------------------------------------------ *)
(* the levels                                                            *)
Lemma impl_NM_levels ml s :
  match impl_NM false ml s with
  | Ok t => impl_NM true ml s = Ok t \/ impl_NM true ml s = Err (HL7 EMaxLengthReached)
  | Err x => x = PyValueError /\ impl_NM true ml s = Err PyValueError
  end.
Proof.
  unfold impl_NM. cbn [andb]. destruct (nilb s); [destruct (too_long ml none_text); auto|].
  destruct (decimal_parse s); [|auto]. destruct (too_long ml (decimal_str d)); auto.
Qed.
Lemma impl_SI_levels ml s :
  match impl_SI false ml s with
  | Ok t => impl_SI true ml s = Ok t \/ impl_SI true ml s = Err (HL7 EMaxLengthReached)
  | Err x => x = PyValueError /\ impl_SI true ml s = Err PyValueError
  end.
Proof.
  unfold impl_SI. cbn [andb]. destruct (nilb s); [destruct (too_long ml none_text); auto|].
  destruct (int_parse s) as [s0|]; [|auto]. destruct (too_long ml s0); auto.
Qed.

(* ------------------------------------------------------------------ *)
(* datatype_factory                                                      *)

(* the only exceptions of a datatype: ValueError, and under STRICT MaxLengthReached for a value
   that TOLERANT builds *)
Definition kind_safe (k : dtkind) : Prop :=
  forall strict ml s x, impl_kind k strict ml s = Err x ->
    (x = PyValueError /\ impl_kind k true ml s = Err PyValueError) \/
    (strict = true /\ x = HL7 EMaxLengthReached /\ exists t, impl_kind k false ml s = Ok t).

Lemma kind_safe_DT : kind_safe KDT.
Proof. intros strict ml s x H. cbn in *. pose proof (DT_only_valueerror _ _ H). subst. left. split; [reflexivity|exact H]. Qed.
Lemma kind_safe_TM : kind_safe KTM.
Proof. intros strict ml s x H. cbn in *. pose proof (TM_only_valueerror _ _ H). subst. left. split; [reflexivity|exact H]. Qed.
Lemma kind_safe_DTM : kind_safe KDTM.
Proof. intros strict ml s x H. cbn in *. pose proof (DTM_only_valueerror _ _ H). subst. left. split; [reflexivity|exact H]. Qed.
Lemma kind_safe_NM : kind_safe KNM.
Proof.
  intros strict ml s x H. cbn in *. pose proof (impl_NM_levels ml s) as L. destruct strict.
  - destruct (impl_NM false ml s) as [t|y] eqn:E.
    + destruct L as [L|L]; rewrite L in H; [discriminate|]. injection H as <-. right. eauto.
    + destruct L as [-> L]. rewrite L in H. injection H as <-. auto.
  - rewrite H in L. destruct L as [-> L]. auto.
Qed.
Lemma kind_safe_SI : kind_safe KSI.
Proof.
  intros strict ml s x H. cbn in *. pose proof (impl_SI_levels ml s) as L. destruct strict.
  - destruct (impl_SI false ml s) as [t|y] eqn:E.
    + destruct L as [L|L]; rewrite L in H; [discriminate|]. injection H as <-. right. eauto.
    + destruct L as [-> L]. rewrite L in H. injection H as <-. auto.
  - rewrite H in L. destruct L as [-> L]. auto.
Qed.

(* every version has an ST class of a known escape family (decided on the generated table) *)
Definition st_family (rows : list (str * dtkind * option Z)) : option esc_params :=
  match row_lookup "ST"%bs rows with
  | Some (KTextual f, _) => nth_error esc_families f
  | _ => None
  end.
Definition table_has_st : bool :=
  forallb (fun vr : str * list (str * dtkind * option Z) =>
             match st_family (snd vr) with Some _ => true | None => false end) base_datatype_table.

Lemma slookup_In {B} (k : str) (l : list (str * B)) v : slookup k l = Some v -> exists k', In (k', v) l.
Proof.
  unfold slookup. induction l as [|[k' v'] l IH]; [discriminate|]. cbn.
  destruct (leqb beqb k k').
  - intros H. injection H as <-. exists k'. now left.
  - intros H. destruct (IH H) as [k2 Hk]. exists k2. now right.
Qed.

Lemma st_fallback_family rows e s p : st_family rows = Some p -> st_fallback rows e s = Ok (escape p e s).
Proof.
  unfold st_family, st_fallback. destruct (row_lookup _ rows) as [[k ml]|]; [|discriminate].
  destruct k; try discriminate. intros ->. reflexivity.
Qed.

(* TOLERANT never rejects; what STRICT rejects with ValueError is kept as ST text *)
Theorem factory_tolerant v rows name k ml e s :
  table_has_st = true -> kind_safe k ->
  slookup v base_datatype_table = Some rows -> row_lookup name rows = Some (k, ml) ->
  (exists t, impl_kind k false ml s = Ok t /\ factory v TOLERANT name e s = Ok (false, t)) \/
  (exists p, st_family rows = Some p /\
             factory v STRICT name e s = Err PyValueError /\
             factory v TOLERANT name e s = Ok (true, escape p e s)).
Proof.
  intros Hst Hk Hv Hn. unfold factory. rewrite Hv, Hn. cbn [is_strict].
  destruct (impl_kind k false ml s) as [t|x] eqn:E.
  - left. eauto.
  - right. destruct (Hk false ml s x E) as [[-> Hs]|[Hc _]]; [|discriminate].
    destruct (slookup_In _ _ _ Hv) as [v' Hin]. unfold table_has_st in Hst. rewrite forallb_forall in Hst.
    specialize (Hst _ Hin). cbn [snd] in Hst. destruct (st_family rows) as [p|] eqn:F; [|discriminate].
    exists p. rewrite Hs, (st_fallback_family rows e s p F). auto.
Qed.

(* a value STRICT accepts is built in the same way under TOLERANT *)
Theorem factory_strict_ok v name e s t fb :
  factory v STRICT name e s = Ok (fb, t) -> fb = false /\ factory v TOLERANT name e s = Ok (false, t).
Proof.
  unfold factory. destruct (slookup v base_datatype_table) as [rows|]; [|discriminate].
  destruct (row_lookup name rows) as [[k ml]|]; [|discriminate]. cbn [is_strict].
  destruct (impl_kind k true ml s) as [t'|x] eqn:E.
  - intros H. injection H as <- <-. split; auto.
    assert (impl_kind k false ml s = Ok t') as ->; [|reflexivity].
    destruct k; cbn in *; auto.
    + pose proof (impl_NM_levels ml s) as L. destruct (impl_NM false ml s) as [u|y].
      * destruct L as [L|L]; congruence.
      * destruct L as [_ L]. congruence.
    + pose proof (impl_SI_levels ml s) as L. destruct (impl_SI false ml s) as [u|y].
      * destruct L as [L|L]; congruence.
      * destruct L as [_ L]. congruence.
  - destruct x; discriminate.
Qed.

(* ------------------------------------------------------------------ *)
(* NM                                                                   *)

(* the characters of the HL7 numeric grammar *)
Definition nm_clean (c : byte) : bool := is_digit c || is_c c_dot c || is_c c_plus c || is_c c_minus c.

Lemma clean_plain : forall c, implb (nm_clean c)
  (negb (is_space c) && negb (is_c c_us c) && negb (is_e c) && beqb (blower c) c &&
   negb (beqb "i"%byte c) && negb (beqb "n"%byte c) && negb (beqb "s"%byte c) &&
   negb (beqb c "i"%byte) && negb (beqb c "n"%byte) && negb (beqb c "s"%byte)) = true.
Proof. brute1. Qed.

Lemma clean_facts c : nm_clean c = true ->
  is_space c = false /\ is_c c_us c = false /\ is_e c = false /\ blower c = c /\
  beqb "i"%byte c = false /\ beqb "n"%byte c = false /\ beqb "s"%byte c = false /\
  beqb c "i"%byte = false /\ beqb c "n"%byte = false /\ beqb c "s"%byte = false.
Proof.
  intros H. pose proof (implb_true _ _ (clean_plain c) H) as F.
  repeat (apply andb_prop in F; destruct F as [F ?]).
  repeat match goal with H : negb _ = true |- _ => apply negb_true_iff in H end.
  repeat split; auto. now apply beqb_eq.
Qed.

Lemma split_on_none (p : byte -> bool) t : forallb (fun c => negb (p c)) t = true -> split_on p t = (t, None).
Proof.
  induction t as [|c t IH]; [reflexivity|]. cbn. intros H. apply andb_prop in H. destruct H as [Hc Ht].
  apply negb_true_iff in Hc. now rewrite Hc, (IH Ht).
Qed.

Lemma lower_id t : forallb (fun c => beqb (blower c) c) t = true -> lower t = t.
Proof.
  unfold lower. induction t as [|c t IH]; [reflexivity|]. cbn. intros H. apply andb_prop in H. destruct H as [Hc Ht].
  apply beqb_eq in Hc. now rewrite Hc, (IH Ht).
Qed.

Definition parsed (s : str) : bool := match decimal_parse s with Some _ => true | None => false end.
Definition nm_sign_drop (s : str) : str :=
  match s with c :: r => if is_c c_plus c || is_c c_minus c then r else s | [] => s end.

Lemma take_sign_drop s : snd (take_sign s) = nm_sign_drop s.
Proof.
  destruct s as [|c r]; [reflexivity|]. cbn. destruct (is_c c_minus c) eqn:M, (is_c c_plus c) eqn:P; try reflexivity.
Qed.

Lemma clean_all t : forallb nm_clean t = true -> forall c, In c t -> nm_clean c = true.
Proof. intros H. now rewrite forallb_forall in H. Qed.

(* on text made of digits, point and signs only, Decimal() accepts exactly the HL7 numbers *)
Theorem nm_clean_equiv s : forallb nm_clean s = true -> parsed s = spec_NM s.
Proof.
  intros Hc. pose proof (clean_all s Hc) as Hall. unfold parsed, decimal_parse.
  unfold strip. rewrite strip_by_id.
  2:{ apply forallb_forall. intros c Hi. destruct (clean_facts c (Hall c Hi)) as [E _]. cbv beta.
      apply negb_true_iff. exact E. }
  rewrite filter_id.
  2:{ apply forallb_forall. intros c Hi. destruct (clean_facts c (Hall c Hi)) as [_ [E _]]. cbv beta.
      apply negb_true_iff. exact E. }
  destruct (take_sign s) as [neg t] eqn:Es.
  assert (Ht : t = nm_sign_drop s) by (rewrite <- take_sign_drop, Es; reflexivity).
  assert (Htc : forall c, In c t -> nm_clean c = true).
  { intros c Hi. apply Hall. rewrite Ht in Hi. destruct s as [|x r]; [exact Hi|]. cbn in Hi.
    destruct (is_c c_plus x || is_c c_minus x); [now right|exact Hi]. }
  rewrite lower_id.
  2:{ apply forallb_forall. intros c Hi. destruct (clean_facts c (Htc c Hi)) as [_ [_ [_ [E _]]]]. rewrite E. apply beqb_refl. }
  assert (streqb t (unbs "inf") = false /\ streqb t (unbs "infinity") = false /\
          bstarts (unbs "nan") t = false /\ bstarts (unbs "snan") t = false) as [E1 [E2 [E3 E4]]].
  { destruct t as [|c r]; [repeat split; reflexivity|].
    destruct (clean_facts c (Htc c (or_introl eq_refl))) as [_ [_ [_ [_ [F1 [F2 [F3 [F4 [F5 F6]]]]]]]]].
    unfold streqb, bstarts. cbn [unbs leqb starts_with]. now rewrite F4, F2, F3. }
  rewrite E1, E2, E3, E4. cbn [orb andb].
  rewrite split_on_none.
  2:{ apply forallb_forall. intros c Hi. destruct (clean_facts c (Htc c Hi)) as [_ [_ [E _]]]. cbv beta.
      apply negb_true_iff. exact E. }
  cbn [exponent_of]. unfold spec_NM. fold (nm_sign_drop s). rewrite <- Ht.
  destruct (split_on (is_c c_dot) t) as [ip [fp|]].
  - destruct (all_dig ip && all_dig fp && negb (nilb ip && nilb fp)); reflexivity.
  - cbn [all_dig forallb nilb]. rewrite !andb_true_r.
    destruct (all_dig ip), (nilb ip); reflexivity.
Qed.

Lemma split_on_spec (p : byte -> bool) t : forall a b, split_on p t = (a, b) ->
  match b with
  | Some r => exists c, p c = true /\ t = a ++ c :: r
  | None => t = a
  end /\ forallb (fun c => negb (p c)) a = true.
Proof.
  induction t as [|c t IH]; intros a b H.
  - cbn in H. injection H as <- <-. auto.
  - cbn in H. destruct (p c) eqn:Pc.
    + injection H as <- <-. split; [exists c; auto|reflexivity].
    + destruct (split_on p t) as [a' b'] eqn:E. injection H as <- <-. destruct (IH _ _ eq_refl) as [H1 H2]. split.
      * destruct b' as [r|]; [destruct H1 as [x [Hx ->]]; exists x; auto|now subst].
      * cbn. now rewrite Pc, H2.
Qed.

Lemma all_dig_clean t : all_dig t = true -> forallb nm_clean t = true.
Proof. apply forallb_impl. intros c H. unfold nm_clean. now rewrite H. Qed.

Lemma spec_NM_clean s : spec_NM s = true -> forallb nm_clean s = true.
Proof.
  unfold spec_NM. fold (nm_sign_drop s). intros H.
  assert (Ht : forallb nm_clean (nm_sign_drop s) = true).
  { destruct (split_on (is_c c_dot) (nm_sign_drop s)) as [ip fo] eqn:E.
    destruct (split_on_spec _ _ _ _ E) as [Hs _]. destruct fo as [fp|].
    - destruct Hs as [c [Hc ->]]. apply andb_prop in H. destruct H as [H _]. apply andb_prop in H. destruct H as [H1 H2].
      rewrite forallb_app. cbn [forallb]. rewrite (all_dig_clean _ H1), (all_dig_clean _ H2).
      unfold nm_clean at 1. rewrite Hc. cbn. now rewrite orb_true_r.
    - rewrite Hs. apply andb_prop in H. destruct H as [_ H]. now apply all_dig_clean. }
  destruct s as [|c r]; [reflexivity|]. cbn [nm_sign_drop] in Ht.
  destruct (is_c c_plus c || is_c c_minus c) eqn:Sg; [|exact Ht].
  cbn [forallb]. rewrite Ht, andb_true_r. unfold nm_clean. apply orb_prop in Sg. destruct Sg as [->| ->]; cbn;
    now rewrite ?orb_true_r.
Qed.

Theorem nm_complete s : spec_NM s = true -> parsed s = true.
Proof. intros H. now rewrite (nm_clean_equiv s (spec_NM_clean s H)). Qed.

Theorem nm_sound s : parsed s = true -> spec_NM s = true \/ existsb (fun c => negb (nm_clean c)) s = true.
Proof.
  intros H. destruct (forallb nm_clean s) eqn:E.
  - left. now rewrite <- (nm_clean_equiv s E).
  - right. clear H. induction s as [|c s IH]; [discriminate|]. cbn in *. destruct (nm_clean c); cbn in *; auto.
Qed.

(* ---- str(Decimal(s)) for a plain decimal ---- *)

Lemma decimal_parse_clean s : forallb nm_clean s = true ->
  decimal_parse s =
  match split_on (is_c c_dot) (snd (take_sign s)) with
  | (ip, fo) =>
      let fp := match fo with Some x => x | None => [] end in
      if all_dig ip && all_dig fp && negb (nilb ip && nilb fp)
      then Some (DFin (fst (take_sign s)) (canon_digits (ip ++ fp)) (0 - Z.of_nat (length fp))%Z) else None
  end.
Proof.
  intros Hc. pose proof (clean_all s Hc) as Hall. unfold decimal_parse.
  unfold strip. rewrite strip_by_id.
  2:{ apply forallb_forall. intros c Hi. destruct (clean_facts c (Hall c Hi)) as [E _]. cbv beta.
      apply negb_true_iff. exact E. }
  rewrite filter_id.
  2:{ apply forallb_forall. intros c Hi. destruct (clean_facts c (Hall c Hi)) as [_ [E _]]. cbv beta.
      apply negb_true_iff. exact E. }
  destruct (take_sign s) as [neg t] eqn:Es. cbn [fst snd].
  assert (Ht : t = nm_sign_drop s) by (rewrite <- take_sign_drop, Es; reflexivity).
  assert (Htc : forall c, In c t -> nm_clean c = true).
  { intros c Hi. apply Hall. rewrite Ht in Hi. destruct s as [|x r]; [exact Hi|]. cbn in Hi.
    destruct (is_c c_plus x || is_c c_minus x); [now right|exact Hi]. }
  rewrite lower_id.
  2:{ apply forallb_forall. intros c Hi. destruct (clean_facts c (Htc c Hi)) as [_ [_ [_ [E _]]]]. rewrite E. apply beqb_refl. }
  assert (streqb t (unbs "inf") = false /\ streqb t (unbs "infinity") = false /\
          bstarts (unbs "nan") t = false /\ bstarts (unbs "snan") t = false) as [E1 [E2 [E3 E4]]].
  { destruct t as [|c r]; [repeat split; reflexivity|].
    destruct (clean_facts c (Htc c (or_introl eq_refl))) as [_ [_ [_ [_ [F1 [F2 [F3 [F4 [F5 F6]]]]]]]]].
    unfold streqb, bstarts. cbn [unbs leqb starts_with]. now rewrite F4, F2, F3. }
  rewrite E1, E2, E3, E4. cbn [orb andb].
  rewrite split_on_none.
  2:{ apply forallb_forall. intros c Hi. destruct (clean_facts c (Htc c Hi)) as [_ [_ [E _]]]. cbv beta.
      apply negb_true_iff. exact E. }
  cbn [exponent_of]. destruct (split_on (is_c c_dot) t) as [ip fo]. reflexivity.
Qed.

Lemma lstrip0_len s : length (lstrip0 s) <= length s.
Proof. unfold lstrip0. induction s as [|c s IH]; [cbn; lia|]. cbn. destruct (is_c c_0 c); cbn; lia. Qed.

Lemma lstrip0_split s : s = repeat c_0 (length s - length (lstrip0 s)) ++ lstrip0 s.
Proof.
  induction s as [|c s IH]; [reflexivity|]. unfold lstrip0 in *. cbn [lstrip_by].
  destruct (is_c c_0 c) eqn:E.
  - apply beqb_eq in E. subst c. pose proof (lstrip0_len s) as L. unfold lstrip0 in L.
    replace (length (c_0 :: s) - length (lstrip_by (is_c c_0) s)) with (S (length s - length (lstrip_by (is_c c_0) s)))
      by (cbn [length]; lia).
    cbn [repeat app]. f_equal. exact IH.
  - rewrite Nat.sub_diag. reflexivity.
Qed.

Lemma repeat_snoc {A} (x : A) n : repeat x n ++ [x] = repeat x (S n).
Proof. induction n as [|n IH]; [reflexivity|]. cbn. f_equal. exact IH. Qed.

Lemma no_lead0_cases ip : all_dig ip = true -> no_lead0 ip = true ->
  ip = [c_0] \/ exists c r, ip = c :: r /\ is_c c_0 c = false.
Proof.
  intros Hd Hn. destruct ip as [|c [|d r]]; [discriminate| |].
  - destruct (is_c c_0 c) eqn:E; [left; apply beqb_eq in E; now subst|right; eauto].
  - right. cbn in Hn. apply negb_true_iff in Hn. eauto.
Qed.

Definition opt_frac (fo : option str) : str := match fo with Some fp => c_dot :: fp | None => [] end.

(* the text of a plain, not too small decimal comes back unchanged *)
Lemma decimal_str_plain neg ip fo :
  all_dig ip = true -> no_lead0 ip = true ->
  match fo with Some fp => all_dig fp = true /\ fp <> [] | None => True end ->
  (match fo with
   | Some fp => streqb ip [c_0] &&
                (if nilb (lstrip0 fp) then 7 <=? length fp else 6 <=? length fp - length (lstrip0 fp))
   | None => false end) = false ->
  let fp := match fo with Some x => x | None => [] end in
  decimal_str (DFin neg (canon_digits (ip ++ fp)) (0 - Z.of_nat (length fp))%Z) =
  (if neg then [c_minus] else []) ++ ip ++ opt_frac fo.
Proof.
  intros Hd Hn Hf Hsm fp. unfold decimal_str. f_equal.
  assert (Hip : ip <> []) by (destruct ip; [discriminate|discriminate]).
  destruct fo as [f|]; subst fp.
  - destruct Hf as [Hfd Hfn]. cbn [opt_frac].
    assert (Lf : 1 <= length f) by (destruct f; [congruence|cbn; lia]).
    destruct (no_lead0_cases ip Hd Hn) as [->|[c [r [-> Hc]]]].
    + (* 0.fff *)
      rewrite streqb_refl in Hsm. cbn [andb] in Hsm.
      change (canon_digits ([c_0] ++ f)) with (canon_digits f).
      unfold canon_digits. pose proof (lstrip0_split f) as Sp. pose proof (lstrip0_len f) as Ll.
      destruct (lstrip0 f) as [|g0 g] eqn:G.
      * (* all zeros *)
        cbn [nilb] in Hsm. apply Nat.leb_gt in Hsm. cbn [length] in *. rewrite app_nil_r, Nat.sub_0_r in Sp.
        change (Z.of_nat 1) with 1%Z.
        destruct (Z.leb_spec (0 - Z.of_nat (length f)) 0); [|lia].
        destruct (Z.ltb_spec (-6) (0 - Z.of_nat (length f) + 1)); [|lia]. cbn [andb].
        destruct (Z.leb_spec (0 - Z.of_nat (length f) + 1) 0); [|lia].
        rewrite Z.eqb_refl, app_nil_r.
        replace (Z.to_nat (- (0 - Z.of_nat (length f) + 1))) with (length f - 1) by lia.
        unfold zeros. cbn [app]. f_equal. rewrite repeat_snoc. replace (S (length f - 1)) with (length f) by lia.
        now rewrite <- Sp.
      * cbn [nilb] in Hsm. apply Nat.leb_gt in Hsm. set (gg := g0 :: g) in *.
        assert (Lg : 1 <= length gg) by (cbn; lia).
        destruct (Z.leb_spec (0 - Z.of_nat (length f)) 0); [|lia].
        destruct (Z.ltb_spec (-6) (0 - Z.of_nat (length f) + Z.of_nat (length gg))); [|lia]. cbn [andb].
        destruct (Z.leb_spec (0 - Z.of_nat (length f) + Z.of_nat (length gg)) 0); [|lia].
        rewrite Z.eqb_refl, app_nil_r.
        replace (Z.to_nat (- (0 - Z.of_nat (length f) + Z.of_nat (length gg)))) with (length f - length gg) by lia.
        unfold zeros. cbn [app]. f_equal. now rewrite <- Sp.
    + (* d....fff with a non-zero first digit *)
      clear Hsm.
      assert (canon_digits ((c :: r) ++ f) = (c :: r) ++ f) as ->.
      { unfold canon_digits, lstrip0. cbn [app lstrip_by]. now rewrite Hc. }
      set (ip := c :: r) in *. rewrite app_length, Nat2Z.inj_add.
      assert (Li : 1 <= length ip) by (cbn; lia).
      destruct (Z.leb_spec (0 - Z.of_nat (length f)) 0); [|lia].
      replace (0 - Z.of_nat (length f) + (Z.of_nat (length ip) + Z.of_nat (length f)))%Z with (Z.of_nat (length ip)) by lia.
      destruct (Z.ltb_spec (-6) (Z.of_nat (length ip))); [|lia]. cbn [andb].
      destruct (Z.leb_spec (Z.of_nat (length ip)) 0); [lia|].
      destruct (Z.leb_spec (Z.of_nat (length ip) + Z.of_nat (length f)) (Z.of_nat (length ip))); [lia|].
      rewrite Z.eqb_refl, app_nil_r, Nat2Z.id. unfold take, drop.
      rewrite firstn_app, Nat.sub_diag, firstn_all, skipn_app, Nat.sub_diag, skipn_all. cbn [firstn skipn app].
      now rewrite app_nil_r.
  - (* an integer *)
    cbn [opt_frac length]. rewrite !app_nil_r.
    assert (canon_digits ip = ip) as ->.
    { apply canon_plain. unfold plain_SI, spec_SI. rewrite Hd, Hn. destruct ip; [congruence|reflexivity]. }
    assert (Li : 1 <= length ip) by (destruct ip; [congruence|cbn; lia]).
    change (0 - Z.of_nat 0)%Z with 0%Z. rewrite Z.add_0_l.
    destruct (Z.leb_spec 0 0); [|lia]. destruct (Z.ltb_spec (-6) (Z.of_nat (length ip))); [|lia]. cbn [andb].
    destruct (Z.leb_spec (Z.of_nat (length ip)) 0); [lia|].
    rewrite Z.leb_refl, Z.eqb_refl, Z.sub_diag. cbn [Z.to_nat zeros repeat]. now rewrite !app_nil_r.
Qed.

Theorem roundtrip_NM_plain strict ml s e :
  plain_NM s = true -> nm_small s = false -> impl_NM strict ml s = Ok e -> e = s.
Proof.
  unfold plain_NM, nm_small. intros Hp Hsm Hi.
  set (t := match s with c :: r => if is_c c_minus c then r else s | [] => s end) in *.
  destruct (split_on (is_c c_dot) t) as [ip fo] eqn:Esp.
  destruct (split_on_spec _ _ _ _ Esp) as [Ht _].
  assert (Hparts : negb (nilb ip) = true /\ all_dig ip = true /\ no_lead0 ip = true /\
                   match fo with Some fp => all_dig fp = true /\ fp <> [] | None => True end).
  { destruct fo as [fp|]; boolprop; repeat split; auto.
    - destruct (nilb ip); [discriminate|reflexivity].
    - destruct fp; [discriminate|discriminate].
    - destruct (nilb ip); [discriminate|reflexivity]. }
  destruct Hparts as [Hne [Hd [Hn Hf]]].
  assert (Htt : t = ip ++ opt_frac fo).
  { destruct fo as [fp|]; [|now rewrite Ht, app_nil_r]. destruct Ht as [c [Hc ->]]. apply beqb_eq in Hc. now subst. }
  assert (Hic : ip <> []) by (destruct ip; [discriminate|discriminate]).
  (* the sign *)
  assert (Hsg : exists neg, take_sign s = (neg, t) /\ s = (if neg then [c_minus] else []) ++ t).
  { destruct s as [|c r]; [exists false; subst t; auto|]. subst t. destruct (is_c c_minus c) eqn:M.
    - exists true. cbn. rewrite M. apply beqb_eq in M. subst c. auto.
    - exists false. cbn. rewrite M. split; [|reflexivity].
      assert (Hc : is_digit c = true).
      { destruct ip as [|i0 ip']; [congruence|]. cbn in Htt. injection Htt as -> _. cbn in Hd. apply andb_prop in Hd. tauto. }
      destruct (digit_facts c Hc) as [_ [_ [-> _]]]. reflexivity. }
  destruct Hsg as [neg [Hts Hs]].
  assert (Hcl : forallb nm_clean s = true).
  { rewrite Hs, Htt, !forallb_app, (all_dig_clean _ Hd). cbn [andb].
    assert (forallb nm_clean (opt_frac fo) = true) as ->.
    { destruct fo as [fp|]; [|reflexivity]. destruct Hf as [Hfd _]. cbn [opt_frac forallb].
      rewrite (all_dig_clean _ Hfd). reflexivity. }
    destruct neg; reflexivity. }
  unfold impl_NM in Hi. destruct (nilb s) eqn:Ens.
  { destruct s; [|discriminate]. destruct neg; cbn in Hs; [discriminate|]. rewrite <- Hs in Htt. symmetry in Htt.
    apply app_eq_nil in Htt. destruct Htt as [E _]. congruence. }
  rewrite (decimal_parse_clean s Hcl), Hts in Hi. cbn [fst snd] in Hi. rewrite Esp in Hi. cbv zeta in Hi.
  rewrite Hd in Hi.
  assert (all_dig (match fo with Some x => x | None => [] end) = true) as Hfd.
  { destruct fo as [fp|]; [tauto|reflexivity]. }
  rewrite Hfd in Hi. assert (nilb ip = false) as Hnil by (destruct ip; [congruence|reflexivity]).
  rewrite Hnil in Hi. cbn [andb negb] in Hi.
  rewrite (decimal_str_plain neg ip fo Hd Hn Hf Hsm) in Hi.
  destruct (strict && too_long ml _); [discriminate|]. apply Ok_inj in Hi. rewrite <- Hi, Hs, Htt. reflexivity.
Qed.
