(* Facts about Model/Datatypes.v, part 3: SI and NM. *)
From Coq Require Import List Bool Arith NArith ZArith Lia Init.Byte Strings.Byte.
From HL7 Require Import Lib.Str Model.Ec Model.Result Model.Escape Model.Datatypes Gen.Params
  Proofs.DatatypesFacts.
Import ListNotations.

(* ------------------------------------------------------------------ *)
(* one-byte facts                                                       *)
Definition si_deco (c : byte) : bool := is_space_int c || is_c c_plus c || is_c c_minus c || is_c c_us c.
Definition nm_deco (c : byte) : bool :=
  is_space c || is_c c_us c || negb (is_digit c || is_c c_dot c || is_c c_plus c || is_c c_minus c).

Lemma digit_plain : forall c, implb (is_digit c)
  (negb (is_space_int c) && negb (is_space c) && negb (is_c c_plus c) && negb (is_c c_minus c) &&
   negb (is_c c_us c) && negb (is_c c_dot c) && negb (is_e c) && beqb (blower c) c) = true.
Proof. brute1. Qed.

Lemma digit_facts c : is_digit c = true ->
  is_space_int c = false /\ is_space c = false /\ is_c c_plus c = false /\ is_c c_minus c = false /\
  is_c c_us c = false /\ is_c c_dot c = false /\ is_e c = false /\ blower c = c.
Proof.
  intros H. pose proof (implb_true _ _ (digit_plain c) H) as F.
  repeat (apply andb_prop in F; destruct F as [F ?]).
  repeat match goal with H : negb _ = true |- _ => apply negb_true_iff in H end.
  repeat split; auto. now apply beqb_eq.
Qed.

(* ------------------------------------------------------------------ *)
(* stripping                                                            *)
Lemma lstrip_by_id {A} (p : A -> bool) s : match s with c :: _ => p c = false | [] => True end -> lstrip_by p s = s.
Proof. destruct s as [|c s]; intros H; [reflexivity|]. cbn. now rewrite H. Qed.

Lemma strip_by_id (p : byte -> bool) s : forallb (fun c => negb (p c)) s = true -> strip_by p s = s.
Proof.
  intros H. unfold strip_by, rstrip_by.
  assert (L : lstrip_by p s = s).
  { apply lstrip_by_id. destruct s as [|c s]; auto. cbn in H. apply andb_prop in H. destruct H as [H _].
    now apply negb_true_iff in H. }
  rewrite L. rewrite lstrip_by_id; [apply rev_involutive|].
  destruct (rev s) as [|c r] eqn:E; auto.
  rewrite forallb_forall in H. assert (In c s) as Hc by (apply in_rev; rewrite E; now left).
  specialize (H c Hc). now apply negb_true_iff in H.
Qed.

Lemma forallb_impl {A} (p q : A -> bool) s : (forall c, p c = true -> q c = true) -> forallb p s = true -> forallb q s = true.
Proof. intros Hpq H. rewrite forallb_forall in *. auto. Qed.

Lemma filter_id {A} (p : A -> bool) s : forallb p s = true -> filter p s = s.
Proof.
  induction s as [|c s IH]; [reflexivity|]. cbn. intros H. apply andb_prop in H. destruct H as [Hc Hs].
  now rewrite Hc, IH.
Qed.

(* ------------------------------------------------------------------ *)
(* SI                                                                   *)

Lemma int_body_digits s : all_dig s = true -> int_body_ok false s = true.
Proof.
  induction s as [|c s IH]; [reflexivity|]. cbn. intros H. apply andb_prop in H. destruct H as [Hc Hs].
  rewrite Hc. now apply IH.
Qed.

Lemma int_body_no_us s : forall pu, int_body_ok pu s = true -> forallb (fun c => negb (is_c c_us c)) s = true ->
  all_dig s = true.
Proof.
  induction s as [|c s IH]; intros pu H Hn; [reflexivity|]. cbn in *. apply andb_prop in Hn. destruct Hn as [Hc Hn].
  destruct (is_digit c); [cbn; eapply IH; eauto|]. apply negb_true_iff in Hc. rewrite Hc in H. discriminate.
Qed.

Lemma take_sign_plain s : match s with c :: _ => is_c c_minus c = false /\ is_c c_plus c = false | [] => True end ->
  take_sign s = (false, s).
Proof. destruct s as [|c s]; [reflexivity|]. intros [H1 H2]. cbn. now rewrite H1, H2. Qed.

(* completeness: every digit string is accepted, as the number it denotes *)
Lemma int_parse_spec s : spec_SI s = true -> int_parse s = Some (canon_digits s).
Proof.
  unfold spec_SI. intros H. apply andb_prop in H. destruct H as [Hn Hd].
  assert (Hall : forall c, In c s -> is_digit c = true) by (unfold all_dig in Hd; rewrite forallb_forall in Hd; auto).
  unfold int_parse.
  rewrite strip_by_id.
  2:{ apply forallb_forall. intros c Hc. destruct (digit_facts c (Hall c Hc)) as [E _]. cbv beta. apply negb_true_iff. exact E. }
  rewrite take_sign_plain.
  2:{ destruct s as [|c s]; auto. destruct (digit_facts c (Hall c (or_introl eq_refl))) as [_ [_ [E1 [E2 _]]]]. auto. }
  assert (int_lex s = true) as ->.
  { unfold int_lex. destruct s as [|c s]; [discriminate|]. rewrite (Hall c (or_introl eq_refl)). cbn [andb].
    now apply int_body_digits. }
  cbn [andb]. rewrite (filter_id is_digit s Hd). reflexivity.
Qed.

Lemma si_deco_false c : si_deco c = false ->
  is_space_int c = false /\ is_c c_plus c = false /\ is_c c_minus c = false /\ is_c c_us c = false.
Proof.
  unfold si_deco. intros H. apply orb_false_elim in H. destruct H as [H H4].
  apply orb_false_elim in H. destruct H as [H H3]. apply orb_false_elim in H. destruct H as [H1 H2]. auto.
Qed.

(* soundness: whatever else is accepted contains a blank, a sign or an underscore *)
Lemma int_parse_sound s o : int_parse s = Some o -> spec_SI s = true \/ existsb si_deco s = true.
Proof.
  intros H. destruct (existsb si_deco s) eqn:E; [now right|left].
  assert (Hn : forall c, In c s -> si_deco c = false).
  { intros c Hc. destruct (si_deco c) eqn:D; auto. assert (existsb si_deco s = true) by (apply existsb_exists; eauto). congruence. }
  unfold int_parse in H. rewrite strip_by_id in H.
  2:{ apply forallb_forall. intros c Hc. destruct (si_deco_false c (Hn c Hc)) as [E0 _]. cbv beta.
      apply negb_true_iff. exact E0. }
  rewrite take_sign_plain in H.
  2:{ destruct s as [|c s]; auto. destruct (si_deco_false c (Hn c (or_introl eq_refl))) as [_ [E1 [E2 _]]]. auto. }
  destruct (int_lex s) eqn:L; [|discriminate]. unfold int_lex in L. destruct s as [|c s]; [discriminate|].
  apply andb_prop in L. destruct L as [Lc Lb]. unfold spec_SI. cbn [nilb negb andb].
  eapply int_body_no_us; eauto. apply forallb_forall. intros x Hx. destruct (si_deco_false x (Hn x Hx)) as [_ [_ [_ E4]]]. cbv beta. apply negb_true_iff. exact E4.
Qed.

Lemma impl_SI_spec strict ml s : spec_SI s = true ->
  impl_SI strict ml s =
  if strict && too_long ml (canon_digits s) then Err (HL7 EMaxLengthReached) else Ok (canon_digits s).
Proof.
  intros H. unfold impl_SI. rewrite (int_parse_spec s H). destruct s; [discriminate|reflexivity].
Qed.

Lemma canon_plain s : plain_SI s = true -> canon_digits s = s.
Proof.
  unfold plain_SI, spec_SI, no_lead0, canon_digits, lstrip0. intros H. apply andb_prop in H. destruct H as [_ H].
  destruct s as [|c [|d s]]; try discriminate.
  - cbn. destruct (is_c c_0 c) eqn:E; [apply beqb_eq in E; now subst|reflexivity].
  - apply negb_true_iff in H. cbn [lstrip_by]. now rewrite H.
Qed.

Lemma digits_val_0 s : digits_val (c_0 :: s) = digits_val s.
Proof. reflexivity. Qed.

Lemma canon_same_number s : all_dig s = true -> digits_val (canon_digits s) = digits_val s.
Proof.
  unfold canon_digits, lstrip0. induction s as [|c s IH]; intros H; [reflexivity|].
  cbn in H. apply andb_prop in H. destruct H as [Hc Hs]. cbn [lstrip_by].
  destruct (is_c c_0 c) eqn:E; [|reflexivity]. apply beqb_eq in E. subst c. rewrite digits_val_0. now apply IH.
Qed.
