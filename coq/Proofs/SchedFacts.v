(* Facts about Model/Sched.v: non-interference of threads that do not write maps another thread
   can reach, by simulation of the concurrent run against the solo run of one thread. *)
From Coq Require Import List Bool Arith Lia Init.Byte.
From HL7 Require Import Lib.Str Model.Sched.
Import ListNotations.

(* ---------- lists ---------- *)
Lemma nth_error_set_nth_eq {A} i (x y : A) l :
  nth_error l i = Some y -> nth_error (set_nth i x l) i = Some x.
Proof.
  revert i; induction l as [|z l IH]; intros [|i] H; simpl in *; try discriminate; auto.
Qed.

Lemma nth_error_set_nth_neq {A} i j (x : A) l :
  i <> j -> nth_error (set_nth i x l) j = nth_error l j.
Proof.
  revert i j; induction l as [|z l IH]; intros [|i] [|j] H; simpl; auto; try congruence.
Qed.

Lemma nth_map_trace (T : threads) t :
  nth t (List.map trace T) [] = match nth_error T t with Some ts => trace ts | None => [] end.
Proof.
  revert t; induction T as [|x T IH]; intros [|t]; simpl; auto.
Qed.

Lemma nth_map_tfp (T : threads) u ts :
  nth_error T u = Some ts -> nth u (List.map tfp T) [] = tfp ts.
Proof.
  revert u; induction T as [|x T IH]; intros [|u] H; simpl in *; try discriminate; auto. congruence.
Qed.

Lemma In_indexed_gen {A} (l : list A) d : forall s i, i < length l ->
  In (s + i, nth i l d) (combine (seq s (length l)) l).
Proof.
  induction l as [|x l IH]; intros s i Hi; simpl in *; [lia|].
  destruct i as [|i].
  - left. f_equal. lia.
  - right. replace (s + S i) with (S s + i) by lia. apply IH. lia.
Qed.

Lemma In_indexed {A} (l : list A) d i : i < length l -> In (i, nth i l d) (indexed l).
Proof. intros H. exact (In_indexed_gen l d 0 i H). Qed.

(* ---------- strings / pairs ---------- *)
Lemma same_refl x : same x x = true.
Proof. unfold same. now rewrite !streqb_refl. Qed.

Lemma same_false l m l0 m0 : (l, m) <> (l0, m0) -> streqb l l0 && streqb m m0 = false.
Proof.
  intros H. destruct (streqb_spec l l0) as [->|]; simpl; auto.
  destruct (streqb_spec m m0) as [->|]; simpl; auto. congruence.
Qed.

Lemma pmem_In x l : In x l -> pmem x l = true.
Proof. intros H. apply existsb_exists. exists x. split; auto using same_refl. Qed.

(* ---------- the premise in Prop form ---------- *)
Definition nsw_prop (F : list (list access)) : Prop :=
  forall u t l m b, u <> t -> In (true, (l, m)) (nth u F []) -> ~ In (b, (l, m)) (nth t F []).

Lemma no_shared_writes_fp_spec F : no_shared_writes_fp F = true -> nsw_prop F.
Proof.
  intros H u t l m b Hut Hw Hr.
  destruct (Nat.lt_ge_cases u (length F)) as [Hu|Hu];
    [|rewrite (nth_overflow F [] Hu) in Hw; contradiction].
  destruct (Nat.lt_ge_cases t (length F)) as [Ht|Ht];
    [|rewrite (nth_overflow F [] Ht) in Hr; contradiction].
  unfold no_shared_writes_fp in H. rewrite forallb_forall in H.
  specialize (H _ (In_indexed F [] u Hu)). rewrite forallb_forall in H.
  specialize (H _ (In_indexed F [] t Ht)). simpl in H.
  apply orb_true_iff in H. destruct H as [H|H].
  - apply Nat.eqb_eq in H. contradiction.
  - unfold disjoint_wr in H. rewrite forallb_forall in H.
    assert (Hin : In (l, m) (writes_of (nth u F []))).
    { unfold writes_of. apply in_map_iff. exists (true, (l, m)). split; auto.
      apply filter_In. split; auto. }
    specialize (H _ Hin). apply negb_true_iff in H.
    assert (Hp : pmem (l, m) (reach_of (nth t F [])) = true).
    { apply pmem_In. unfold reach_of. apply in_map_iff. exists (b, (l, m)). split; auto. }
    congruence.
Qed.

(* threads that write no shared map at all satisfy the premise *)
Lemma disjoint_wr_nil fw fr : writes_of fw = [] -> disjoint_wr fw fr = true.
Proof. unfold disjoint_wr. intros ->. reflexivity. Qed.

Lemma no_writes_no_shared_writes (T : threads) :
  (forall ts, In ts T -> writes_of (tfp ts) = []) -> no_shared_writes T = true.
Proof.
  intros H. unfold no_shared_writes, no_shared_writes_fp.
  apply forallb_forall. intros [u fu] Hu. apply forallb_forall. intros [t ft] Ht. simpl.
  apply orb_true_iff. right. apply disjoint_wr_nil.
  unfold indexed in Hu. apply in_combine_r in Hu. apply in_map_iff in Hu.
  destruct Hu as [ts [<- Hts]]. auto.
Qed.

(* ---------- footprints shrink along a run ---------- *)
Lemma tfp_step img S ts : incl (tfp (snd (step img S ts))) (tfp ts).
Proof.
  unfold step, tfp. destruct (prog ts) as [|a rest] eqn:E; simpl.
  - rewrite E. apply incl_refl.
  - apply incl_appr, incl_refl.
Qed.

Lemma touch_in_tfp ts a rest : prog ts = a :: rest -> incl (touch (tenv ts) a) (tfp ts).
Proof. intros E. unfold tfp. rewrite E. simpl. apply incl_appl, incl_refl. Qed.

(* ---------- monotonicity of `scoped` in the set of loaded libraries ---------- *)
Lemma scoped_mono img p : forall (ld ld' : str -> bool) e nx,
  (forall x, ld x = true -> ld' x = true) ->
  scoped img ld e nx p = true -> scoped img ld' e nx p = true.
Proof.
  induction p as [|a r IH]; intros ld ld' e nx Hsub H; simpl in *; auto.
  apply andb_true_iff in H. destruct H as [H1 H2]. apply andb_true_iff. split.
  - rewrite forallb_forall in *. intros x Hx. auto.
  - eapply IH; [|exact H2]. intros x. destruct a; simpl; auto.
    destruct (img l); auto. intros Hx. apply orb_true_iff in Hx. apply orb_true_iff.
    destruct Hx; auto.
Qed.

Lemma loaded_cons S l x : smem x (l :: libs S) = streqb x l || loaded S x.
Proof. reflexivity. Qed.

Lemma ld_after_loaded img S e a x :
  ld_after img (loaded S) a x = true -> loaded (store_after img S e a) x = true.
Proof.
  destruct a; simpl; auto.
  - destruct (resolve e m) as [[l0 m0|i]|]; simpl; auto.
  - destruct (img l) as [im|]; auto. intros H.
    destruct (loaded S l) eqn:EL.
    + apply orb_true_iff in H. destruct H as [H|H]; auto.
      apply streqb_eq in H. subst x. exact EL.
    + unfold loaded at 1. simpl. exact H.
Qed.

Lemma loaded_store_after_mono img S e a x :
  loaded S x = true -> loaded (store_after img S e a) x = true.
Proof.
  intros H. destruct a; simpl; auto.
  - destruct (resolve e m) as [[l0 m0|i]|]; simpl; auto.
  - destruct (img l) as [im|]; auto. destruct (loaded S l); auto.
    unfold loaded. simpl. fold (loaded S x). rewrite H. apply orb_true_r.
Qed.

(* ---------- what a step reads ---------- *)
Lemma read_agree S S' ts n :
  (forall l m, resolve (tenv ts) n = Some (RShared l m) -> sh S l m = sh S' l m) ->
  read S ts n = read S' ts n.
Proof.
  intros H. unfold read. destruct (resolve (tenv ts) n) as [[l m|i]|]; simpl; auto.
Qed.

Lemma step_thread_agree img S S' ts a rest :
  prog ts = a :: rest ->
  (forall b l m, In (b, (l, m)) (touch (tenv ts) a) -> sh S l m = sh S' l m) ->
  snd (step img S ts) = snd (step img S' ts).
Proof.
  intros E H. unfold step. rewrite E. simpl.
  assert (R : forall n, (forall l m, resolve (tenv ts) n = Some (RShared l m) ->
                                  In (false, (l, m)) (touch (tenv ts) a)) ->
                        read S ts n = read S' ts n).
  { intros n Hn. apply read_agree. intros l m Hr. eapply H. eauto. }
  f_equal.
  - destruct a; simpl; auto.
    + rewrite (R m); auto. intros l0 m0 Hr. simpl. rewrite Hr. left; auto.
  - f_equal. destruct a; simpl; auto.
    + rewrite (R m); auto. intros l0 m0 Hr. simpl. rewrite Hr. left; auto.
    + rewrite (R m); auto. intros l0 m0 Hr. simpl. rewrite Hr. left; auto.
Qed.

(* ====================================================================================== *)
Section NI.
Variable img : image.
Variable F : list (list access).      (* the footprints of the threads at the start *)
Hypothesis NSW : nsw_prop F.
Variable t : thread_id.               (* the thread whose solo run is compared *)

Definition within (T : threads) : Prop :=
  forall u ts, nth_error T u = Some ts -> incl (tfp ts) (nth u F []).

Definition reach_t (l m : str) : Prop := exists b, In (b, (l, m)) (nth t F []).

(* S: store of the concurrent run, S': store of the solo run.  On a map thread t can reach the two
   agree as soon as the solo run has loaded the library; if only the concurrent run has loaded it
   (another thread imported it) the map still has the contents the import gave it. *)
Definition agree (S S' : store) (l m : str) : Prop :=
  (loaded S' l = true -> sh S l m = sh S' l m) /\
  (loaded S' l = false -> loaded S l = true ->
   exists im, img l = Some im /\ sh S l m = slookup m im).

Record inv (c c' : config) : Prop := mkInv {
  inv_ts : nth_error (snd c) t = nth_error (snd c') t;
  inv_within : within (snd c);
  inv_agree : forall l m, reach_t l m -> agree (fst c) (fst c') l m;
  inv_loaded : forall l, loaded (fst c') l = true -> loaded (fst c) l = true;
  inv_scoped : forall ts, nth_error (snd c') t = Some ts ->
               scoped img (loaded (fst c')) (tenv ts) (next ts) (prog ts) = true
}.

Lemma within_step S T u tsu :
  within T -> nth_error T u = Some tsu -> within (set_nth u (snd (step img S tsu)) T).
Proof.
  intros W Hu w ts Hw. destruct (Nat.eq_dec u w) as [<-|N].
  - rewrite (nth_error_set_nth_eq _ _ _ _ Hu) in Hw. injection Hw as <-.
    eapply incl_tran; [apply tfp_step|]. eapply W; eauto.
  - rewrite nth_error_set_nth_neq in Hw by auto. eapply W; eauto.
Qed.

(* a step of another thread does not disturb what t can reach *)
Lemma store_after_other S S' e a u l m :
  u <> t -> incl (touch e a) (nth u F []) -> reach_t l m ->
  (forall x, loaded S' x = true -> loaded S x = true) ->
  agree S S' l m -> agree (store_after img S e a) S' l m.
Proof.
  intros Hut Hin [b Hr] HL [A1 A2]. destruct a; simpl; try (split; assumption).
  - (* Write *)
    destruct (resolve e m0) as [[l0 m1|i]|] eqn:ER; try (split; assumption).
    assert (Hw : In (true, (l0, m1)) (nth u F [])).
    { apply Hin. simpl. rewrite ER. left; auto. }
    assert (Hne : (l, m) <> (l0, m1)).
    { intros Heq. injection Heq as -> ->. exact (NSW u t l0 m1 b Hut Hw Hr). }
    unfold agree, loaded; simpl. unfold sh_set. rewrite (same_false _ _ _ _ Hne). split; assumption.
  - (* ImportLib *)
    destruct (img l0) as [im|] eqn:EI; try (split; assumption).
    destruct (loaded S l0) eqn:EL; try (split; assumption).
    unfold agree, loaded; simpl. unfold sh_load.
    destruct (streqb_spec l l0) as [->|Hne]; simpl.
    + split.
      * intros H1. apply HL in H1. congruence.
      * intros _ _. exists im. auto.
    + split; assumption.
Qed.

Lemma other_step c c' u : u <> t -> inv c c' -> inv (sched_step img c u) c'.
Proof.
  intros Hut I. destruct c as [S T]. unfold sched_step. simpl.
  destruct (nth_error T u) as [tsu|] eqn:Eu; [|exact I].
  destruct I as [I1 I2 I3 I4 I5]. simpl in *. constructor; simpl.
  - rewrite nth_error_set_nth_neq by auto. exact I1.
  - apply within_step; auto.
  - intros l m Hr. unfold step. destruct (prog tsu) as [|a rest] eqn:EP; simpl; auto.
    eapply store_after_other; eauto.
    eapply incl_tran; [eapply touch_in_tfp; eauto|]. eapply I2; eauto.
  - intros l Hl. unfold step. destruct (prog tsu) as [|a rest] eqn:EP; simpl; auto.
    apply loaded_store_after_mono; auto.
  - exact I5.
Qed.

(* a step of t itself: same action, same observations, and the two stores still agree *)
Lemma store_after_own S S' e a l m :
  (forall x, loaded S' x = true -> loaded S x = true) ->
  (forall b l0 m0, In (b, (l0, m0)) (touch e a) ->
                   loaded S' l0 = true /\ sh S l0 m0 = sh S' l0 m0) ->
  agree S S' l m -> agree (store_after img S e a) (store_after img S' e a) l m.
Proof.
  intros HL HT [A1 A2]. destruct a; simpl; try (split; assumption).
  - (* Write *)
    destruct (resolve e m0) as [[l0 m1|i]|] eqn:ER; try (split; assumption).
    destruct (HT true l0 m1) as [HL0 HE]. { simpl. rewrite ER. left; auto. }
    unfold agree, loaded; simpl. unfold sh_set. rewrite HE.
    destruct (streqb_spec l l0) as [->|Hne]; simpl; [|split; assumption].
    destruct (streqb_spec m m1) as [->|Hne]; simpl; [|split; assumption].
    split; auto. intros H. unfold loaded in HL0. congruence.
  - (* ImportLib *)
    destruct (img l0) as [im|] eqn:EI; try (split; assumption).
    destruct (loaded S' l0) eqn:EL'.
    + rewrite (HL _ EL'). split; assumption.
    + destruct (loaded S l0) eqn:EL.
      * (* another thread has imported l0 already *)
        unfold agree, loaded; simpl. unfold sh_load.
        destruct (streqb_spec l l0) as [->|Hne]; simpl; [|split; assumption].
        split; [|discriminate]. intros _.
        destruct (A2 EL' EL) as [im' [Him' Hs]]. congruence.
      * unfold agree, loaded; simpl. unfold sh_load.
        destruct (streqb_spec l l0) as [->|Hne]; simpl; [|split; assumption].
        split; auto. discriminate.
Qed.

Lemma loaded_own S S' e a :
  (forall x, loaded S' x = true -> loaded S x = true) ->
  forall x, loaded (store_after img S' e a) x = true -> loaded (store_after img S e a) x = true.
Proof.
  intros HL x. destruct a; simpl; auto.
  - destruct (resolve e m) as [[l0 m1|i]|]; simpl; auto. exact (HL x).
  - destruct (img l) as [im|]; auto.
    destruct (loaded S' l) eqn:EL'.
    + rewrite (HL _ EL'). auto.
    + unfold loaded at 1. simpl. intros H. apply orb_true_iff in H.
      destruct (loaded S l) eqn:EL.
      * destruct H as [H|H]; auto. apply streqb_eq in H. subst x. exact EL.
      * unfold loaded. simpl. apply orb_true_iff. destruct H; auto. right. apply HL. exact H.
Qed.

Lemma own_step c c' : inv c c' -> inv (sched_step img c t) (sched_step img c' t).
Proof.
  intros I. destruct c as [S T], c' as [S' T']. destruct I as [I1 I2 I3 I4 I5]. simpl in *.
  unfold sched_step. simpl. rewrite <- I1.
  destruct (nth_error T t) as [ts|] eqn:Et; [|constructor; simpl; auto; congruence].
  symmetry in I1.
  destruct (prog ts) as [|a rest] eqn:EP.
  { (* nothing left to run *)
    unfold step. rewrite EP. simpl. constructor; simpl.
    - rewrite (nth_error_set_nth_eq _ _ _ _ Et), (nth_error_set_nth_eq _ _ _ _ I1). auto.
    - intros u x Hu. destruct (Nat.eq_dec t u) as [<-|N].
      + rewrite (nth_error_set_nth_eq _ _ _ _ Et) in Hu. injection Hu as <-. eapply I2; eauto.
      + rewrite nth_error_set_nth_neq in Hu by auto. eapply I2; eauto.
    - exact I3.
    - exact I4.
    - intros x Hx. rewrite (nth_error_set_nth_eq _ _ _ _ I1) in Hx. injection Hx as <-. auto. }
  pose proof (I5 _ I1) as SC. rewrite EP in SC. simpl in SC.
  apply andb_true_iff in SC. destruct SC as [SC1 SC2]. rewrite forallb_forall in SC1.
  assert (HT : forall b l0 m0, In (b, (l0, m0)) (touch (tenv ts) a) ->
                               loaded S' l0 = true /\ sh S l0 m0 = sh S' l0 m0).
  { intros b l0 m0 Hin. pose proof (SC1 _ Hin) as Hl. simpl in Hl. split; auto.
    assert (Hr : reach_t l0 m0).
    { exists b. eapply I2; eauto. eapply touch_in_tfp; eauto. }
    destruct (I3 _ _ Hr) as [A1 _]. auto. }
  assert (EQ : snd (step img S ts) = snd (step img S' ts)).
  { eapply step_thread_agree; eauto. intros b l0 m0 Hin. apply (HT b l0 m0 Hin). }
  constructor; simpl.
  - rewrite (nth_error_set_nth_eq _ _ _ _ Et), (nth_error_set_nth_eq _ _ _ _ I1). congruence.
  - apply within_step; auto.
  - intros l m Hr. unfold step. rewrite EP. simpl. apply store_after_own; auto.
  - unfold step. rewrite EP. simpl. apply loaded_own; auto.
  - intros x Hx. rewrite (nth_error_set_nth_eq _ _ _ _ I1) in Hx. injection Hx as <-.
    unfold step. rewrite EP. simpl.
    eapply scoped_mono; [|exact SC2]. intros x. apply ld_after_loaded.
Qed.

Lemma inv_run sched : forall c c', inv c c' -> inv (run img c sched) (run img c' (solo t sched)).
Proof.
  induction sched as [|u s IH]; intros c c' I; simpl; auto.
  destruct (Nat.eqb_spec t u) as [<-|N]; simpl.
  - apply IH. apply own_step. exact I.
  - apply IH. apply other_step; auto.
Qed.

End NI.

(* ---------- the simulation started from the initial configuration ---------- *)
Lemma inv_init img S T t :
  imports_before_use img S T = true -> inv img (List.map tfp T) t (S, T) (S, T).
Proof.
  intros H. constructor; simpl; auto.
  - intros u ts Hu. rewrite (nth_map_tfp _ _ _ Hu). apply incl_refl.
  - intros l m _. split; auto. congruence.
  - intros ts Hts. unfold imports_before_use in H. rewrite forallb_forall in H.
    apply H. eapply nth_error_In; eauto.
Qed.

Lemma noninterference img S T sched t :
  no_shared_writes T = true -> imports_before_use img S T = true ->
  result_of t (run_schedule img S sched T) = result_of t (run_schedule img S (solo t sched) T).
Proof.
  intros H1 H2. apply no_shared_writes_fp_spec in H1.
  pose proof (inv_run img _ H1 t sched _ _ (inv_init img S T t H2)) as I.
  unfold result_of, run_schedule. simpl. rewrite !nth_map_trace.
  rewrite (inv_ts _ _ _ _ _ I). reflexivity.
Qed.

(* ---------- complete schedules: the solo run to completion ---------- *)
Lemma solo_repeat t sched : solo t sched = repeat t (count t sched).
Proof.
  unfold count, solo. induction sched as [|u s IH]; simpl; auto.
  destruct (Nat.eqb_spec t u) as [<-|N]; simpl; auto. now f_equal.
Qed.

Lemma step_prog_length img S ts : length (prog (snd (step img S ts))) = pred (length (prog ts)).
Proof. unfold step. destruct (prog ts) eqn:E; simpl; auto. now rewrite E. Qed.

Lemma step_done img S ts : prog ts = [] -> step img S ts = (S, ts).
Proof. unfold step. now intros ->. Qed.

Lemma set_nth_same {A} i (x : A) l : nth_error l i = Some x -> set_nth i x l = l.
Proof.
  revert i; induction l as [|y l IH]; intros [|i] H; simpl in *; try discriminate; auto.
  - congruence.
  - f_equal; auto.
Qed.

Lemma run_cons img c u s : run img c (u :: s) = run img (sched_step img c u) s.
Proof. reflexivity. Qed.

Lemma sched_step_some img S T u ts :
  nth_error T u = Some ts ->
  sched_step img (S, T) u = (fst (step img S ts), set_nth u (snd (step img S ts)) T).
Proof. intros H. unfold sched_step. simpl. now rewrite H. Qed.

Lemma sched_step_none img S T u : nth_error T u = None -> sched_step img (S, T) u = (S, T).
Proof. intros H. unfold sched_step. simpl. now rewrite H. Qed.

Lemma run_repeat_done img t n : forall S T ts,
  nth_error T t = Some ts -> prog ts = [] -> run img (S, T) (repeat t n) = (S, T).
Proof.
  induction n as [|n IH]; intros S T ts Ht Hp; simpl repeat; auto.
  rewrite run_cons, (sched_step_some _ _ _ _ _ Ht), (step_done _ _ _ Hp). simpl.
  rewrite (set_nth_same _ _ _ Ht). eauto.
Qed.

Lemma run_repeat_extra img t k : forall n S T ts,
  nth_error T t = Some ts -> length (prog ts) <= n ->
  run img (S, T) (repeat t (n + k)) = run img (S, T) (repeat t n).
Proof.
  intros n; induction n as [|n IH]; intros S T ts Ht Hl.
  - simpl. eapply run_repeat_done; eauto. destruct (prog ts); simpl in *; auto; lia.
  - simpl repeat. rewrite !run_cons, (sched_step_some _ _ _ _ _ Ht).
    eapply IH.
    + eapply nth_error_set_nth_eq; eauto.
    + rewrite step_prog_length. lia.
Qed.

Lemma run_none img t n S T : nth_error T t = None -> run img (S, T) (repeat t n) = (S, T).
Proof.
  intros H. induction n as [|n IH]; simpl repeat; auto.
  now rewrite run_cons, (sched_step_none _ _ _ _ H).
Qed.

Lemma nth_error_init_threads ps t :
  nth_error (init_threads ps) t = option_map init_thread (nth_error ps t).
Proof. unfold init_threads. apply nth_error_map. Qed.

Lemma complete_spec ps sched t :
  complete ps sched = true -> t < length ps -> length (nth t ps []) <= count t sched.
Proof.
  unfold complete. rewrite forallb_forall. intros H Ht.
  apply Nat.leb_le. apply H. apply in_seq. lia.
Qed.

Lemma solo_complete_result img S ps sched t :
  complete ps sched = true ->
  result_of t (run_schedule img S (solo t sched) (init_threads ps)) =
  result_of t (run_schedule img S (solo_complete t ps) (init_threads ps)).
Proof.
  intros H. rewrite solo_repeat. unfold solo_complete, result_of, run_schedule. simpl.
  destruct (nth_error ps t) as [p|] eqn:Ep.
  - assert (Ht : t < length ps) by (apply nth_error_Some; congruence).
    pose proof (complete_spec _ _ _ H Ht) as Hc.
    rewrite (nth_error_nth _ _ [] Ep) in *.
    replace (count t sched) with (length p + (count t sched - length p)) by lia.
    erewrite run_repeat_extra; eauto.
    + rewrite nth_error_init_threads, Ep. reflexivity.
    + simpl. lia.
  - rewrite !run_none; auto; rewrite nth_error_init_threads, Ep; reflexivity.
Qed.

(* ---------- the action lists of the code as it is ---------- *)
Open Scope bs_scope.

Ltac split_keys keys :=
  repeat match goal with |- context [smem ?k keys] => destruct (smem k keys) end.

Lemma prog_of_no_writes c : writes_of (fp [] 0 (prog_of c)) = [].
Proof.
  destruct c as [v lib keys d fb|v lib|v l d| |h h']; simpl prog_of.
  - unfold datatype_factory_prog, load_library_prog, factory_body.
    destruct lib as [l|]; [|reflexivity].
    set (ov := smem d (List.map fst overrides)). unfold overrides. cbn [flat_map fst snd app].
    split_keys keys; destruct ov; destruct fb; reflexivity.
  - destruct lib; reflexivity.
  - reflexivity.
  - reflexivity.
  - reflexivity.
Qed.

Lemma prog_of_scoped img ld c :
  ld ("hl7apy" : str) = true -> (forall l, In l (libs_of c) -> img l <> None) ->
  scoped img ld [] 0 (prog_of c) = true.
Proof.
  intros H0 HI. simpl in H0.
  destruct c as [v lib keys d fb|v lib|v l d| |h h']; simpl prog_of.
  - unfold datatype_factory_prog, load_library_prog, factory_body.
    destruct lib as [l|]; [|simpl; now rewrite H0].
    destruct (img l) as [im|] eqn:EI; [|exfalso; apply (HI l); simpl; auto].
    set (ov := smem d (List.map fst overrides)). unfold overrides. cbn [flat_map fst snd app].
    split_keys keys; destruct ov; destruct fb; simpl; rewrite ?H0, ?EI, ?streqb_refl; reflexivity.
  - destruct lib as [l|]; simpl; rewrite ?H0; auto.
  - destruct (img l) as [im|] eqn:EI; [|exfalso; apply (HI l); simpl; auto].
    simpl. rewrite ?H0, ?EI. simpl. rewrite ?streqb_refl. reflexivity.
  - reflexivity.
  - reflexivity.
Qed.

Lemma calls_ok img S calls :
  loaded S ("hl7apy" : str) = true ->
  (forall c l, In c calls -> In l (libs_of c) -> img l <> None) ->
  no_shared_writes (init_threads (List.map prog_of calls)) = true /\
  imports_before_use img S (init_threads (List.map prog_of calls)) = true.
Proof.
  intros H0 HI. split.
  - apply no_writes_no_shared_writes. intros ts Hts. unfold init_threads in Hts.
    rewrite map_map in Hts. apply in_map_iff in Hts. destruct Hts as [c [<- Hc]].
    apply prog_of_no_writes.
  - unfold imports_before_use, init_threads. rewrite map_map. apply forallb_forall.
    intros ts Hts. apply in_map_iff in Hts. destruct Hts as [c [<- Hc]]. simpl.
    apply prog_of_scoped; eauto.
Qed.
