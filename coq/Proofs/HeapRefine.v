(* C09: the successful child mutations of Model/Heap.v are the list edits of Model/HeapSpec.v. *)
From Coq Require Import List Bool Arith Lia ZArith NArith Init.Byte.
From HL7 Require Import Lib.Str Model.Ec Model.Result Model.Ref Model.Tree Model.Parser Model.Encode Model.Heap Model.HeapSpec.
From HL7 Require Import Proofs.HeapFacts Proofs.HeapInv.
Import ListNotations.

(* ---------- the by-name view is the list grouped by name ---------- *)

Lemma reps_abs s p k : reps (abs s p) k = filter (name_is s k) (n_list (getn s p)).
Proof.
  unfold reps, abs. induction (n_list (getn s p)) as [|c l IH]; cbn; auto.
  unfold name_is at 1. destruct (opt_eqb k (n_name (getn s c))); cbn; now rewrite IH.
Qed.

Theorem reps_index s p k : Inv s -> reps (abs s p) k = iget k (n_idx (getn s p)).
Proof. intros I. rewrite reps_abs. symmetry. apply (I_index s I). Qed.

(* ---------- what a successful step did to lists and names ---------- *)

(* lists of all nodes except p, and all names, are the same; p's list is l' *)
Definition edit (s s' : store) (p : nat) (l' : list nat) : Prop :=
  n_list (getn s' p) = l' /\ (forall q, q <> p -> n_list (getn s' q) = n_list (getn s q)) /\
  (forall q, n_name (getn s' q) = n_name (getn s q)).
Definition same_lists (s s' : store) : Prop :=
  (forall q, n_list (getn s' q) = n_list (getn s q)) /\ (forall q, n_name (getn s' q) = n_name (getn s q)).

Lemma same_lists_refl s : same_lists s s.
Proof. split; auto. Qed.
Lemma same_lists_edit s s' p : same_lists s s' -> edit s s' p (n_list (getn s p)).
Proof. intros [A B]. repeat split; auto. Qed.
Lemma edit_then_same s s1 s2 p l : edit s s1 p l -> same_lists s1 s2 -> edit s s2 p l.
Proof.
  intros (A & B & C) [D E]. repeat split.
  - now rewrite D.
  - intros q Hq. now rewrite D, B.
  - intros q. now rewrite E, C.
Qed.
Lemma same_then_edit s s1 s2 p l : same_lists s s1 -> edit s1 s2 p l -> edit s s2 p l.
Proof.
  intros [D E] (A & B & C). repeat split; auto.
  - intros q Hq. now rewrite B, D.
  - intros q. now rewrite C, E.
Qed.

Lemma same_lists_setn s x N : n_list N = n_list (getn s x) -> n_name N = n_name (getn s x) -> same_lists s (setn s x N).
Proof.
  intros A B. split; intros q; rewrite getn_setn; destruct (Nat.eqb_spec q x) as [->|]; auto.
Qed.

Lemma abs_edit s s' p l : edit s s' p l -> abs s' p = map (fun c => (n_name (getn s c), c)) l.
Proof. intros (A & _ & C). unfold abs. rewrite A. apply map_ext. intros c. now rewrite C. Qed.
Lemma abs_edit_other s s' p l q : edit s s' p l -> q <> p -> abs s' q = abs s q.
Proof. intros (_ & B & C) Hq. unfold abs. rewrite (B q Hq). apply map_ext. intros c. now rewrite C. Qed.

Section Refine.
Variable t : tables.

(* ---------- add ---------- *)

Lemma append_attached_ok p c s s' :
  append_attached p c s = (s', Ok tt) ->
  edit s s' p (if oid_eqb (n_parent (getn s c)) p then n_list (getn s p) ++ [c] else n_list (getn s p)).
Proof.
  unfold append_attached. cbn [mbind node_of lift].
  destruct (acceptance_checks _ _) as [[]|y]; [|discriminate].
  destruct (oid_eqb (n_parent (getn s c)) p).
  - unfold do_append, modify. intros [= <-]. repeat split.
    + now rewrite getn_setn_same.
    + intros q Hq. now rewrite getn_setn_other.
    + intros q. rewrite getn_setn. destruct (Nat.eqb_spec q p) as [->|]; auto.
  - destruct (oid_eqb _ _).
    + unfold do_tappend, modify. intros [= <-]. apply same_lists_edit. now apply same_lists_setn.
    + intros [= <-]. apply same_lists_edit, same_lists_refl.
Qed.

Lemma seg_counter_ok p c s s' : seg_counter p c s = (s', Ok tt) -> same_lists s s'.
Proof.
  unfold seg_counter. cbn [mbind node_of].
  destruct (n_cls (getn s p)); try (intros [= <-]; apply same_lists_refl).
  destruct (n_name (getn s c)); try (intros [= <-]; apply same_lists_refl).
  destruct (_ && _ && _); try (intros [= <-]; apply same_lists_refl).
  destruct (py_int_ok _); [|discriminate].
  destruct (N.ltb _ _); [|intros [= <-]; apply same_lists_refl].
  unfold set_last, modify. intros [= <-]. now apply same_lists_setn.
Qed.

Lemma add_inner_ok p c s s' :
  add_inner t p c s = (s', Ok tt) ->
  edit s s' p (if oid_eqb (n_parent (getn s c)) p then n_list (getn s p) ++ [c] else n_list (getn s p)).
Proof.
  unfold add_inner. cbn [mbind node_of lift].
  destruct (class_checks t _ _) as [[]|y]; [|discriminate].
  destruct (is_valid_child t _ _) as [[]|y]; cbn [negb mbind node_of lift]; try discriminate.
  rewrite mbind_run. destruct (append_attached p c s) as [s1 [[]|y]] eqn:E1; [|discriminate].
  intros H. eapply edit_then_same; [eapply append_attached_ok; eauto|eapply seg_counter_ok; eauto].
Qed.

(* the child will be LISTED by a successful add unless it is merely a traversal child of p *)
Definition listing_add (s : store) (p c : nat) : bool :=
  oid_eqb (n_parent (getn s c)) p || negb (oid_eqb (n_tparent (getn s c)) p).

Lemma append_ok p c s s' :
  append t p c s = (s', Ok tt) ->
  edit s s' p (if listing_add s p c then n_list (getn s p) ++ [c] else n_list (getn s p)).
Proof.
  unfold append, listing_add. cbn [mbind node_of lift].
  destruct (is_valid_child t _ _) as [[]|y]; cbn [negb mbind node_of lift]; try discriminate.
  unfold pointing. destruct (oid_eqb (n_parent (getn s c)) p) eqn:Ep; cbn [orb negb].
  - intros H. apply append_attached_ok in H. now rewrite Ep in H.
  - destruct (oid_eqb (n_tparent (getn s c)) p) eqn:Et; cbn [negb].
    + intros H. apply append_attached_ok in H. now rewrite Ep in H.
    + rewrite mbind_run. unfold point_to at 1, modify at 1. intros H. apply add_inner_ok in H.
      set (s1 := setn s c _) in *.
      assert (S1 : same_lists s s1) by (apply same_lists_setn; reflexivity).
      assert (Hp : oid_eqb (n_parent (getn s1 c)) p = true).
      { unfold s1. rewrite getn_setn_same. cbn. apply Nat.eqb_refl. }
      rewrite Hp in H. pose proof S1 as [L _]. rewrite (L p) in H.
      exact (same_then_edit s s1 s' p _ S1 H).
Qed.

Theorem add_ok p c s s' :
  add t p c s = (s', Ok tt) ->
  edit s s' p (if listing_add s p c then n_list (getn s p) ++ [c] else n_list (getn s p)).
Proof.
  unfold add. cbn [mbind node_of lift].
  destruct (class_checks t _ _) as [[]|y]; [|discriminate].
  rewrite mbind_run. destruct (append t p c s) as [s1 [[]|y]] eqn:E1; [|discriminate].
  intros H. eapply edit_then_same; [eapply append_ok; eauto|eapply seg_counter_ok; eauto].
Qed.

(* ---------- remove ---------- *)

Theorem remove_child_ok p c s s' :
  remove_child p c s = (s', Ok tt) ->
  edit s s' p (if oid_eqb (n_tparent (getn s c)) p then n_list (getn s p) else remove1 c (n_list (getn s p))).
Proof.
  unfold remove_child. cbn [mbind node_of]. destruct (oid_eqb _ _).
  - unfold do_rm_tidx, modify. intros [= <-]. apply same_lists_edit. now apply same_lists_setn.
  - rewrite mbind_run. unfold do_rm_idx at 1, modify at 1. cbn [mbind node_of].
    set (s1 := setn s p _).
    assert (S1 : same_lists s s1) by (apply same_lists_setn; reflexivity). clearbody s1.
    destruct (memb c (n_list (getn s1 p))); [|discriminate].
    unfold do_rm_list, modify. intros H.
    assert (E : s' = setn s1 p (with_children (getn s1 p) (remove1 c (n_list (getn s1 p))) (n_idx (getn s1 p)) (n_tidx (getn s1 p))))
      by congruence.
    subst s'. clear H.
    eapply same_then_edit; [exact S1|]. repeat split.
    + rewrite getn_setn_same. destruct S1 as [L _]. rewrite <- (L p). reflexivity.
    + intros q Hq. now rewrite getn_setn_other.
    + intros q. rewrite getn_setn. destruct (Nat.eqb_spec q p) as [->|]; auto.
Qed.

(* ---------- replace ---------- *)

Lemma insert_ok p i c bi s s' :
  insert t p i c bi s = (s', Ok tt) -> edit s s' p (insert_at i c (n_list (getn s p))).
Proof.
  unfold insert. cbn [mbind node_of]. rewrite mbind_run.
  assert (S1 : exists s1, (if negb (pointing (getn s c) p) then point_to c p else ret tt) s = (s1, Ok tt) /\ same_lists s s1).
  { destruct (pointing _ _); cbn [negb].
    - eexists. split; [reflexivity|apply same_lists_refl].
    - eexists. split; [reflexivity|]. apply same_lists_setn; reflexivity. }
  destruct S1 as (s1 & -> & S1). cbn [mbind node_of lift].
  destruct (is_valid_child t _ _) as [[]|y]; cbn [negb mbind node_of lift]; try discriminate.
  destruct (acceptance_checks _ _) as [[]|y]; [|discriminate].
  unfold do_insert, modify. intros [= <-]. eapply same_then_edit; [exact S1|].
  destruct S1 as [L _]. rewrite <- (L p). repeat split.
  - now rewrite getn_setn_same.
  - intros q Hq. now rewrite getn_setn_other.
  - intros q. rewrite getn_setn. destruct (Nat.eqb_spec q p) as [->|]; auto.
Qed.

(* replacing `old` at its place = mapping old to new over the list *)
Lemma insert_remove_map (l : list nat) old new li :
  NoDup l -> index_of old l = Some li ->
  insert_at li new (remove1 old l) = map (fun d => if Nat.eqb d old then new else d) l.
Proof.
  revert li. induction l as [|a l IH]; cbn; [discriminate|]. intros li D.
  inversion D; subst. destruct (Nat.eqb_spec old a) as [->|N].
  - intros [= <-]. cbn. rewrite Nat.eqb_refl. f_equal.
    rewrite <- (map_id l) at 1. apply map_ext_in. intros d Hd.
    destruct (Nat.eqb_spec d a) as [->|]; [contradiction|reflexivity].
  - destruct (index_of old l) as [j|] eqn:Ej; cbn; [|discriminate]. intros [= <-]. cbn.
    destruct (Nat.eqb_spec a old); [congruence|]. f_equal. now apply IH.
Qed.

Theorem replace_child_ok p old new s s' :
  replace_child t p old new s = (s', Ok tt) -> oid_eqb (n_tparent (getn s old)) p = false ->
  NoDup (n_list (getn s p)) ->
  In old (n_list (getn s p)) /\
  edit s s' p (map (fun d => if Nat.eqb d old then new else d) (n_list (getn s p))).
Proof.
  unfold replace_child. cbn [mbind node_of]. intros H Et D. rewrite Et in H. cbn [mbind node_of] in H.
  destruct (index_of old (n_list (getn s p))) as [li|] eqn:Eli; [|discriminate].
  destruct (ihas _ _); cbn [negb] in H; [|discriminate].
  destruct (index_of old (iget _ _)) as [bi|]; [|discriminate].
  rewrite mbind_run in H. destruct (remove_child p old s) as [s1 [[]|y]] eqn:E1; [|discriminate].
  apply remove_child_ok in E1. rewrite Et in E1. apply insert_ok in H.
  split; [eapply index_of_Some_In; eauto|].
  destruct E1 as (A & B & C). rewrite A in H. rewrite insert_remove_map in H by auto.
  destruct H as (A' & B' & C'). repeat split; auto.
  - intros q Hq. now rewrite B', B.
  - intros q. now rewrite C', C.
Qed.

End Refine.

(* ---------- the abstract edits ---------- *)

Lemma abs_append s s' p c :
  edit s s' p (n_list (getn s p) ++ [c]) -> abs s' p = spec_append (abs s p) (n_name (getn s c)) c.
Proof. intros H. rewrite (abs_edit _ _ _ _ H). unfold spec_append, abs. now rewrite map_app. Qed.

Lemma abs_remove s s' p c :
  edit s s' p (remove1 c (n_list (getn s p))) -> abs s' p = spec_remove (abs s p) c.
Proof.
  intros H. rewrite (abs_edit _ _ _ _ H). clear H. unfold abs. induction (n_list (getn s p)) as [|a l IH]; cbn; auto.
  destruct (Nat.eqb c a); cbn; [reflexivity|now rewrite IH].
Qed.

Lemma abs_replace s s' p old new :
  edit s s' p (map (fun d => if Nat.eqb d old then new else d) (n_list (getn s p))) ->
  abs s' p = spec_replace (abs s p) old (n_name (getn s new)) new.
Proof.
  intros H. rewrite (abs_edit _ _ _ _ H). unfold spec_replace, abs. rewrite !map_map. apply map_ext.
  intros d. cbn. destruct (Nat.eqb d old); reflexivity.
Qed.

(* replacing never changes the order of the other children: they are the same list before and after *)
Lemma others_replace a old k new :
  ~ In new (map snd a) -> others (spec_replace a old k new) new = others a old.
Proof.
  unfold others, spec_replace. induction a as [|[k0 c0] a IH]; cbn; auto. intros N.
  destruct (Nat.eqb_spec c0 old) as [->|Ne]; cbn.
  - rewrite Nat.eqb_refl. cbn. apply IH. tauto.
  - destruct (Nat.eqb_spec c0 new) as [->|Nn]; [tauto|]. cbn. f_equal. apply IH. tauto.
Qed.
(* ... and the replacement sits where the replaced child sat *)
Lemma position_replace a old k new :
  map (fun x => Nat.eqb (snd x) new) (spec_replace a old k new) =
  map (fun x => Nat.eqb (snd x) old || Nat.eqb (snd x) new) a.
Proof.
  unfold spec_replace. rewrite map_map. apply map_ext. intros [k0 c0]. cbn.
  destruct (Nat.eqb_spec c0 old); cbn; [now rewrite Nat.eqb_refl|reflexivity].
Qed.

(* ---------- histories of list edits: the refinement lifted to fold_left ---------- *)

Inductive mop := MAdd (p c : nat) | MRemove (p c : nat) | MReplace (p old new : nat).

Definition mstep (t : tables) (o : mop) : M unit :=
  match o with
  | MAdd p c => add t p c
  | MRemove p c => remove_child p c
  | MReplace p old new => replace_child t p old new
  end.

(* the abstract state: the children list of every element; names never change *)
Definition astate := nat -> absl.
Definition aupd (a : astate) (p : nat) (l : absl) : astate := fun q => if Nat.eqb q p then l else a q.
Definition spec_mstep (nm : nat -> option str) (a : astate) (o : mop) : astate :=
  match o with
  | MAdd p c => aupd a p (spec_append (a p) (nm c) c)
  | MRemove p c => aupd a p (spec_remove (a p) c)
  | MReplace p old new => aupd a p (spec_replace (a p) old (nm new) new)
  end.

(* the side conditions under which the three methods are list edits *)
Definition mside (s : store) (o : mop) : Prop :=
  match o with
  | MAdd p c => listing_add s p c = true
  | MRemove p c => oid_eqb (n_tparent (getn s c)) p = false
  | MReplace p old new => oid_eqb (n_tparent (getn s old)) p = false /\ NoDup (n_list (getn s p))
  end.

Inductive good_run (t : tables) : store -> list mop -> store -> Prop :=
  | good_nil s : good_run t s [] s
  | good_cons s o s1 k s' :
      mstep t o s = (s1, Ok tt) -> mside s o -> good_run t s1 k s' -> good_run t s (o :: k) s'.

Lemma mstep_refines t s o s1 :
  mstep t o s = (s1, Ok tt) -> mside s o ->
  (forall q, abs s1 q = spec_mstep (fun c => n_name (getn s c)) (abs s) o q) /\
  (forall c, n_name (getn s1 c) = n_name (getn s c)).
Proof.
  destruct o as [p c|p c|p old new]; cbn [mstep mside spec_mstep]; intros H Hs.
  - pose proof (add_ok t p c s s1 H) as E. rewrite Hs in E. split; [|apply E].
    intros q. unfold aupd. destruct (Nat.eqb_spec q p) as [->|N]; [now apply abs_append|eapply abs_edit_other; eauto].
  - pose proof (remove_child_ok p c s s1 H) as E. rewrite Hs in E. split; [|apply E].
    intros q. unfold aupd. destruct (Nat.eqb_spec q p) as [->|N]; [now apply abs_remove|eapply abs_edit_other; eauto].
  - destruct Hs as [Et D]. destruct (replace_child_ok t p old new s s1 H Et D) as [_ E]. split; [|apply E].
    intros q. unfold aupd. destruct (Nat.eqb_spec q p) as [->|N]; [now apply abs_replace|eapply abs_edit_other; eauto].
Qed.

Lemma spec_mstep_ext nm a a' o : (forall q, a q = a' q) -> forall q, spec_mstep nm a o q = spec_mstep nm a' o q.
Proof.
  intros H q. destruct o; cbn [spec_mstep]; unfold aupd; destruct (Nat.eqb q p); auto; now rewrite H.
Qed.
Lemma fold_spec_ext nm ops : forall a a', (forall q, a q = a' q) ->
  forall q, fold_left (spec_mstep nm) ops a q = fold_left (spec_mstep nm) ops a' q.
Proof.
  induction ops as [|o k IH]; intros a a' H q; cbn [fold_left]; auto.
  apply IH. now apply spec_mstep_ext.
Qed.

Theorem refines_fold t s ops s' :
  good_run t s ops s' ->
  forall q, abs s' q = fold_left (spec_mstep (fun c => n_name (getn s c))) ops (abs s) q.
Proof.
  induction 1 as [s|s o s1 k s' H Hs _ IH]; intros q; cbn [fold_left]; auto.
  destruct (mstep_refines t s o s1 H Hs) as [A N]. rewrite IH.
  assert (En : forall a o' q', spec_mstep (fun c => n_name (getn s1 c)) a o' q' = spec_mstep (fun c => n_name (getn s c)) a o' q').
  { intros a o' q'. destruct o'; cbn [spec_mstep]; now rewrite ?N. }
  assert (Ef : forall ops' a q', fold_left (spec_mstep (fun c => n_name (getn s1 c))) ops' a q'
                               = fold_left (spec_mstep (fun c => n_name (getn s c))) ops' a q').
  { induction ops' as [|o' k' IHk]; intros a q'; cbn [fold_left]; auto.
    rewrite IHk. apply fold_spec_ext. intros q2. apply En. }
  rewrite Ef. apply fold_spec_ext. exact A.
Qed.
