(* Facts about Model/Datatypes.v, part 4: the NUMBER an accepted NM / SI value denotes.

   Python's str(Decimal) is lossless: Decimal(str(d)) has the same sign, the same coefficient digits
   and the same exponent as d (scientific notation included), and the same holds for the special values
   (sign, kind, payload).  This file proves it for the model: for every decimal `d` that decimal_parse can
   return, decimal_parse (decimal_str d) = Some d.  "Denotes the same number" (dec_same_number) is the weaker,
   purely numerical reading: sign * coefficient * 10^exponent agree (so -0 = 0 = 0E+3 and 1.0 = 1 as
   numbers, although Decimal keeps them apart); it follows from the exact statement.

   SI goes through int(): the text that comes back is the canonical decimal numeral (Z_to_str) of the
   integer the input denotes (int_value), and re-reading it gives the same integer and the same text.

   Additive: nothing in Model/ is changed.  No side condition on the exponent is needed: the model's
   exponent is an unbounded Z (the model domain "exponents of at most 18 digits" restricts where the model
   is claimed to agree with CPython, not where these theorems hold). *)
From Coq Require Import List Bool Arith NArith ZArith Lia Init.Byte Strings.Byte.
From HL7 Require Import Lib.Str Model.Ec Model.Result Model.Escape Model.Datatypes Gen.Params
  Proofs.DatatypesFacts Proofs.DatatypesDate Proofs.DatatypesNum Proofs.RoundTripStr.
Import ListNotations.
Open Scope bs_scope.

(* ------------------------------------------------------------------ *)
(* 1. definitions: the value of a decimal record, of an int() text     *)

Definition finite_dec (d : dec) : bool := match d with DFin _ _ _ => true | DSpecial _ => false end.

(* signed coefficient: the number is dec_signed * 10 ^ exponent *)
Definition dec_signed (neg : bool) (coeff : str) : Z :=
  ((if neg then -1 else 1) * Z.of_N (digits_val coeff))%Z.

(* (signed coefficient, exponent) of a finite decimal *)
Definition dec_value (d : dec) : option (Z * Z) :=
  match d with DFin neg c x => Some (dec_signed neg c, x) | DSpecial _ => None end.

(* c * 10^x = c' * 10^x' over the rationals, stated over Z by scaling both sides to the smaller exponent.
   Zero: every zero (either sign, any exponent) is the same NUMBER, as in Python (Decimal('-0') ==
   Decimal('0E+3')); the exact theorem below additionally keeps sign and exponent of zeros.
   Special values are not numbers: two of them are "the same" when they print the same (sign, NaN / sNaN /
   Infinity, payload digits). *)
Definition same_scaled (c x c' x' : Z) : Prop :=
  (c * 10 ^ (x - Z.min x x') = c' * 10 ^ (x' - Z.min x x'))%Z.

Definition dec_same_number (d d' : dec) : Prop :=
  match d, d' with
  | DFin n c x, DFin n' c' x' => same_scaled (dec_signed n c) x (dec_signed n' c') x'
  | DSpecial t, DSpecial t' => t = t'
  | _, _ => False
  end.

Definition same_scaledb (c x c' x' : Z) : bool :=
  (c * 10 ^ (x - Z.min x x') =? c' * 10 ^ (x' - Z.min x x'))%Z.
Definition dec_same_numberb (d d' : dec) : bool :=
  match d, d' with
  | DFin n c x, DFin n' c' x' => same_scaledb (dec_signed n c) x (dec_signed n' c') x'
  | DSpecial t, DSpecial t' => streqb t t'
  | _, _ => false
  end.

(* what decimal_parse returns: a non-empty digit string without leading zeros ("0" for zero) *)
Definition canon_coeff (c : str) : Prop := c <> [] /\ all_dig c = true /\ canon_digits c = c.
Definition dec_wf (d : dec) : Prop :=
  match d with
  | DFin _ c _ => canon_coeff c
  | DSpecial t =>
      exists (neg : bool) (ds : str), all_dig ds = true /\
        let sg : str := if neg then [c_minus] else [] in
        (t = sg ++ "Infinity" \/ t = sg ++ "NaN" ++ lstrip0 ds \/ t = sg ++ "sNaN" ++ lstrip0 ds)
  end.

(* int(text) as an integer (int_parse keeps the canonical numeral instead) *)
Definition int_value (text : str) : option Z :=
  let s := strip_by is_space_int text in
  let (neg, body) := take_sign s in
  if int_lex body then Some ((if neg then -1 else 1) * Z.of_N (digits_val (filter is_digit body)))%Z
  else None.

(* str(z) for z : Z *)
Definition Z_to_str (z : Z) : str := (if Z.ltb z 0 then [c_minus] else []) ++ N_to_str (Z.abs_N z).

(* ------------------------------------------------------------------ *)
(* 2. dec_same_number is reflexive, symmetric, decided by dec_same_numberb *)

Lemma dec_same_number_refl d : dec_same_number d d.
Proof. destruct d; cbn [dec_same_number]; reflexivity. Qed.

Lemma dec_same_number_sym d d' : dec_same_number d d' -> dec_same_number d' d.
Proof.
  destruct d as [n c x|t], d' as [n' c' x'|t']; cbn [dec_same_number]; auto.
  unfold same_scaled. rewrite (Z.min_comm x' x). auto.
Qed.

Lemma dec_same_numberb_spec d d' : dec_same_numberb d d' = true <-> dec_same_number d d'.
Proof.
  destruct d as [n c x|t], d' as [n' c' x'|t']; cbn [dec_same_number dec_same_numberb];
    try (split; [discriminate|tauto]).
  - unfold same_scaledb, same_scaled. apply Z.eqb_eq.
  - split; [apply streqb_eq|intros ->; apply streqb_refl].
Qed.

(* scaling to any exponent at or below both gives the same comparison *)
Lemma same_scaled_any c x c' x' m : (m <= x)%Z -> (m <= x')%Z ->
  same_scaled c x c' x' <-> (c * 10 ^ (x - m) = c' * 10 ^ (x' - m))%Z.
Proof.
  intros H1 H2. unfold same_scaled. set (k := Z.min x x').
  assert (Hk : (m <= k)%Z) by (subst k; lia).
  assert (Hx : (k <= x)%Z) by (subst k; lia). assert (Hx' : (k <= x')%Z) by (subst k; lia).
  replace (x - m)%Z with ((x - k) + (k - m))%Z by lia.
  replace (x' - m)%Z with ((x' - k) + (k - m))%Z by lia.
  rewrite !Z.pow_add_r by lia.
  assert (P : (0 < 10 ^ (k - m))%Z) by (apply Z.pow_pos_nonneg; lia).
  split; intros H.
  - rewrite !Z.mul_assoc, H. reflexivity.
  - rewrite !Z.mul_assoc in H. apply Z.mul_cancel_r in H; [exact H|lia].
Qed.

Lemma dec_same_number_trans d1 d2 d3 :
  dec_same_number d1 d2 -> dec_same_number d2 d3 -> dec_same_number d1 d3.
Proof.
  destruct d1 as [n1 c1 x1|t1], d2 as [n2 c2 x2|t2], d3 as [n3 c3 x3|t3]; cbn [dec_same_number];
    try tauto; try congruence.
  set (m := Z.min x1 (Z.min x2 x3)).
  intros H12 H23.
  apply (same_scaled_any _ _ _ _ m) in H12; [|subst m; lia|subst m; lia].
  apply (same_scaled_any _ _ _ _ m) in H23; [|subst m; lia|subst m; lia].
  apply (same_scaled_any _ _ _ _ m); [subst m; lia|subst m; lia|]. congruence.
Qed.

(* ------------------------------------------------------------------ *)
(* 3. canonical coefficients                                            *)

Lemma lstrip_by_idem {A} (p : A -> bool) s : lstrip_by p (lstrip_by p s) = lstrip_by p s.
Proof.
  induction s as [|c s IH]; [reflexivity|]. cbn [lstrip_by]. destruct (p c) eqn:E; [exact IH|].
  cbn [lstrip_by]. now rewrite E.
Qed.

Lemma lstrip0_idem s : lstrip0 (lstrip0 s) = lstrip0 s.
Proof. apply lstrip_by_idem. Qed.

Lemma lstrip0_all_dig s : all_dig s = true -> all_dig (lstrip0 s) = true.
Proof.
  unfold lstrip0, all_dig. induction s as [|c s IH]; [reflexivity|]. intros H. cbn [lstrip_by].
  destruct (is_c c_0 c); [|exact H]. cbn [forallb] in H. apply andb_prop in H. now apply IH.
Qed.

Lemma canon_digits_idem s : canon_digits (canon_digits s) = canon_digits s.
Proof.
  unfold canon_digits. destruct (lstrip0 s) as [|c r] eqn:E; [reflexivity|].
  rewrite <- E, lstrip0_idem, E. reflexivity.
Qed.

Lemma canon_digits_wf s : all_dig s = true -> canon_coeff (canon_digits s).
Proof.
  intros H. split; [|split].
  - unfold canon_digits. destruct (lstrip0 s); discriminate.
  - unfold canon_digits. pose proof (lstrip0_all_dig s H) as L. destruct (lstrip0 s); [reflexivity|exact L].
  - apply canon_digits_idem.
Qed.

Lemma lstrip0_zeros k s : lstrip0 (zeros k ++ s) = lstrip0 s.
Proof. induction k as [|k IH]; [reflexivity|]. exact IH. Qed.

Lemma canon_digits_zeros k s : canon_digits (zeros k ++ s) = canon_digits s.
Proof. unfold canon_digits. now rewrite lstrip0_zeros. Qed.

Lemma zeros_all_dig k : all_dig (zeros k) = true.
Proof. induction k as [|k IH]; [reflexivity|]. exact IH. Qed.

Lemma zeros_length k : length (zeros k) = k.
Proof. apply repeat_length. Qed.

(* a canonical coefficient is "0" or starts with a non-zero digit *)
Lemma canon_coeff_cases c : canon_coeff c -> c = [c_0] \/ (lstrip0 c = c /\ c <> []).
Proof.
  intros [Hn [Hd Hc]]. unfold canon_digits in Hc. destruct (lstrip0 c) as [|x r] eqn:E; [now left|].
  right. split; [exact Hc|exact Hn].
Qed.

(* ------------------------------------------------------------------ *)
(* 4. Decimal(text) on text of the shape str(Decimal) produces         *)

Definition out_char (c : byte) : bool :=
  is_digit c || is_c c_dot c || is_c c_plus c || is_c c_minus c || beqb c "E"%byte.

Lemma out_char_plain : forall c, implb (out_char c) (negb (is_space c) && negb (is_c c_us c)) = true.
Proof. brute1. Qed.

Lemma out_char_facts c : out_char c = true -> is_space c = false /\ is_c c_us c = false.
Proof.
  intros H. pose proof (implb_true _ _ (out_char_plain c) H) as F. apply andb_prop in F.
  destruct F as [F1 F2]. apply negb_true_iff in F1. apply negb_true_iff in F2. auto.
Qed.

Lemma all_dig_out t : all_dig t = true -> forallb out_char t = true.
Proof. apply forallb_impl. intros c H. unfold out_char. now rewrite H. Qed.

Lemma split_on_at (p : byte -> bool) a c r :
  forallb (fun x => negb (p x)) a = true -> p c = true -> split_on p (a ++ c :: r) = (a, Some r).
Proof.
  induction a as [|x a IH]; intros Ha Hc.
  - cbn [app split_on]. now rewrite Hc.
  - cbn [forallb] in Ha. apply andb_prop in Ha. destruct Ha as [Hx Ha]. apply negb_true_iff in Hx.
    cbn [app split_on]. now rewrite Hx, (IH Ha Hc).
Qed.

Lemma all_dig_not (p : byte -> bool) t :
  (forall c, is_digit c = true -> p c = false) -> all_dig t = true -> forallb (fun c => negb (p c)) t = true.
Proof. intros Hp. apply forallb_impl. intros c H. now rewrite (Hp c H). Qed.

Lemma digit_not_e c : is_digit c = true -> is_e c = false.
Proof. intros H. now destruct (digit_facts c H) as [_ [_ [_ [_ [_ [_ [E _]]]]]]]. Qed.
Lemma digit_not_dot c : is_digit c = true -> is_c c_dot c = false.
Proof. intros H. now destruct (digit_facts c H) as [_ [_ [_ [_ [_ [E _]]]]]]. Qed.

Definition opt_exp (zo : option Z) : str :=
  match zo with Some z => "E"%byte :: Z_signed_str z | None => [] end.
Definition exp_of (zo : option Z) : Z := match zo with Some z => z | None => 0%Z end.

Lemma Z_signed_str_out z : forallb out_char (Z_signed_str z) = true.
Proof.
  unfold Z_signed_str. rewrite forallb_app. destruct (N_to_str_spec (Z.abs_N z)) as [_ [D _]].
  rewrite (all_dig_out _ D), andb_true_r. destruct (Z.ltb z 0); reflexivity.
Qed.

Lemma exponent_of_signed z : exponent_of (Some (Z_signed_str z)) = Some z.
Proof.
  unfold Z_signed_str, exponent_of. destruct (N_to_str_spec (Z.abs_N z)) as [Hn [Hd Hv]].
  destruct (Z.ltb_spec z 0) as [L|L].
  - change (take_sign ([c_minus] ++ N_to_str (Z.abs_N z))) with (true, N_to_str (Z.abs_N z)).
    cbv iota beta. unfold all_dig. rewrite Hd, Hv.
    destruct (N_to_str (Z.abs_N z)); [congruence|]. cbn [nilb negb andb]. f_equal. lia.
  - change (take_sign ([c_plus] ++ N_to_str (Z.abs_N z))) with (false, N_to_str (Z.abs_N z)).
    cbv iota beta. unfold all_dig. rewrite Hd, Hv.
    destruct (N_to_str (Z.abs_N z)); [congruence|]. cbn [nilb negb andb]. f_equal. lia.
Qed.

Lemma exponent_of_opt zo :
  exponent_of (match zo with Some z => Some (Z_signed_str z) | None => None end) = Some (exp_of zo).
Proof. destruct zo as [z|]; [apply exponent_of_signed|reflexivity]. Qed.

(* [-] digits [. digits] [E sign digits]  with at least one digit before the point *)
Lemma decimal_parse_sci (neg : bool) (ip : str) (fo : option str) (zo : option Z) :
  ip <> [] -> all_dig ip = true ->
  all_dig (match fo with Some x => x | None => [] end) = true ->
  let fp := match fo with Some x => x | None => [] end in
  decimal_parse ((if neg then [c_minus] else []) ++ ip ++ opt_frac fo ++ opt_exp zo) =
  Some (DFin neg (canon_digits (ip ++ fp)) (exp_of zo - Z.of_nat (length fp))%Z).
Proof.
  intros Hne Hd Hfd fp.
  set (body := ip ++ opt_frac fo ++ opt_exp zo).
  set (text := (if neg then [c_minus] else []) ++ body).
  assert (Hfo : forallb out_char (opt_frac fo) = true).
  { destruct fo as [f|]; [|reflexivity]. cbn [opt_frac forallb]. now rewrite (all_dig_out _ Hfd). }
  assert (Hzo : forallb out_char (opt_exp zo) = true).
  { destruct zo as [z|]; [|reflexivity]. cbn [opt_exp forallb]. now rewrite Z_signed_str_out. }
  assert (Hbody : forallb out_char body = true).
  { subst body. now rewrite !forallb_app, (all_dig_out _ Hd), Hfo, Hzo. }
  assert (Htext : forallb out_char text = true).
  { subst text. rewrite forallb_app, Hbody. destruct neg; reflexivity. }
  assert (Hall : forall c, In c text -> out_char c = true) by (now rewrite forallb_forall in Htext).
  unfold decimal_parse. unfold strip. rewrite strip_by_id.
  2:{ apply forallb_forall. intros c Hi. destruct (out_char_facts c (Hall c Hi)) as [E _]. cbv beta.
      apply negb_true_iff. exact E. }
  rewrite filter_id.
  2:{ apply forallb_forall. intros c Hi. destruct (out_char_facts c (Hall c Hi)) as [_ E]. cbv beta.
      apply negb_true_iff. exact E. }
  destruct ip as [|i0 ip']; [congruence|].
  assert (Hi0 : is_digit i0 = true) by (cbn in Hd; apply andb_prop in Hd; tauto).
  assert (Hts : take_sign text = (neg, body)).
  { subst text. destruct neg; [reflexivity|]. cbn [app]. subst body. apply take_sign_plain. cbn [app].
    destruct (digit_facts i0 Hi0) as [_ [_ [E1 [E2 _]]]]. auto. }
  rewrite Hts.
  (* not a special value: the text after the sign starts with a digit *)
  assert (Hlow : lower body = i0 :: lower (ip' ++ opt_frac fo ++ opt_exp zo)).
  { subst body. cbn [app lower map]. destruct (digit_facts i0 Hi0) as [_ [_ [_ [_ [_ [_ [_ E]]]]]]]. now rewrite E. }
  rewrite Hlow.
  assert (streqb (i0 :: lower (ip' ++ opt_frac fo ++ opt_exp zo)) (unbs "inf") = false /\
          streqb (i0 :: lower (ip' ++ opt_frac fo ++ opt_exp zo)) (unbs "infinity") = false /\
          bstarts (unbs "nan") (i0 :: lower (ip' ++ opt_frac fo ++ opt_exp zo)) = false /\
          bstarts (unbs "snan") (i0 :: lower (ip' ++ opt_frac fo ++ opt_exp zo)) = false) as [E1 [E2 [E3 E4]]].
  { assert (Hcl : nm_clean i0 = true) by (unfold nm_clean; now rewrite Hi0).
    destruct (clean_facts i0 Hcl) as [_ [_ [_ [_ [F1 [F2 [F3 [F4 [F5 F6]]]]]]]]].
    unfold streqb, bstarts. cbn [unbs leqb starts_with]. now rewrite F4, F2, F3. }
  rewrite E1, E2, E3, E4. cbn [orb andb].
  (* mantissa / exponent *)
  set (mant := (i0 :: ip') ++ opt_frac fo).
  assert (Hmant : forallb (fun c => negb (is_e c)) mant = true).
  { subst mant. rewrite forallb_app. rewrite (all_dig_not is_e _ digit_not_e Hd). cbn [andb].
    destruct fo as [f|]; [|reflexivity]. cbn [opt_frac forallb].
    rewrite (all_dig_not is_e _ digit_not_e Hfd). reflexivity. }
  assert (Hsp : split_on is_e body =
                (mant, match zo with Some z => Some (Z_signed_str z) | None => None end)).
  { subst body. rewrite app_assoc. fold mant. destruct zo as [z|]; cbn [opt_exp].
    - apply split_on_at; [exact Hmant|reflexivity].
    - rewrite app_nil_r. now apply split_on_none. }
  rewrite Hsp, exponent_of_opt.
  assert (Hsd : split_on (is_c c_dot) mant = (i0 :: ip', fo)).
  { subst mant. destruct fo as [f|]; cbn [opt_frac].
    - apply split_on_at; [|reflexivity]. exact (all_dig_not _ _ digit_not_dot Hd).
    - rewrite app_nil_r. apply split_on_none. exact (all_dig_not _ _ digit_not_dot Hd). }
  rewrite Hsd. fold fp. rewrite Hd. fold fp in Hfd. rewrite Hfd. cbn [nilb andb negb]. reflexivity.
Qed.

(* ------------------------------------------------------------------ *)
(* 5. Decimal(str(d)) = d for finite d: sign, coefficient digits and exponent all come back *)

Lemma all_dig_take_drop k c : all_dig c = true -> all_dig (take k c) = true /\ all_dig (drop k c) = true.
Proof.
  intros H. unfold take, drop, all_dig in *. rewrite <- (firstn_skipn k c), forallb_app in H.
  apply andb_prop in H. exact H.
Qed.

Theorem decimal_reparse_fin neg coeff exp :
  canon_coeff coeff ->
  decimal_parse (decimal_str (DFin neg coeff exp)) = Some (DFin neg coeff exp).
Proof.
  intros [Hne [Hd Hc]].
  assert (Ln : (1 <= Z.of_nat (length coeff))%Z) by (destruct coeff; [congruence|cbn [length]; lia]).
  unfold decimal_str. set (n := Z.of_nat (length coeff)) in *.
  destruct (Z.leb_spec exp 0) as [Hx|Hx]; [destruct (Z.ltb_spec (-6) (exp + n)) as [Hl|Hl]|]; cbn [andb].
  - (* plain notation, dotplace = exp + n *)
    rewrite Z.eqb_refl.
    destruct (Z.leb_spec (exp + n) 0) as [H0|H0]; [|destruct (Z.leb_spec n (exp + n)) as [H1|H1]].
    + (* 0.000ccc *)
      pose proof (decimal_parse_sci neg [c_0] (Some (zeros (Z.to_nat (- (exp + n))) ++ coeff)) None) as P.
      cbn [opt_frac opt_exp exp_of] in P. rewrite !app_nil_r in P. cbn zeta in P.
      rewrite app_nil_r.
      rewrite P; [|discriminate|reflexivity|].
      2:{ unfold all_dig. rewrite forallb_app. fold (all_dig coeff). rewrite Hd.
          fold (all_dig (zeros (Z.to_nat (- (exp + n))))). now rewrite zeros_all_dig. }
      f_equal. f_equal.
      * change ([c_0] ++ zeros (Z.to_nat (- (exp + n))) ++ coeff) with (zeros (S (Z.to_nat (- (exp + n)))) ++ coeff).
        now rewrite canon_digits_zeros.
      * rewrite app_length, zeros_length, Nat2Z.inj_add. fold n. lia.
    + (* an integer: exp = 0 *)
      assert (exp = 0%Z) by lia. subst exp.
      replace (Z.to_nat (0 + n - n)) with 0 by lia. cbn [zeros repeat]. rewrite !app_nil_r.
      pose proof (decimal_parse_sci neg coeff None None) as P.
      cbn [opt_frac opt_exp exp_of length] in P. rewrite !app_nil_r in P. cbn zeta in P.
      rewrite P; [|exact Hne|exact Hd|reflexivity]. now rewrite Hc.
    + (* ccc.ccc *)
      set (k := Z.to_nat (exp + n)).
      destruct (all_dig_take_drop k coeff Hd) as [Ht Hdr].
      pose proof (decimal_parse_sci neg (take k coeff) (Some (drop k coeff)) None) as P.
      cbn [opt_frac opt_exp exp_of] in P. rewrite !app_nil_r in P. cbn zeta in P.
      rewrite app_nil_r.
      rewrite P; [|intros E|exact Ht|exact Hdr].
      2:{ apply (f_equal (@length byte)) in E. unfold take in E. rewrite firstn_length in E. cbn [length] in E. lia. }
      unfold take, drop. rewrite firstn_skipn, Hc, skipn_length. f_equal. f_equal. lia.
  - (* scientific: adjusted exponent below -6 *)
    destruct (Z.leb_spec 1 0); [lia|]. destruct (Z.eqb_spec (exp + n) 1) as [E|E]; [lia|].
    destruct (Z.leb_spec n 1) as [H1|H1].
    + assert (n = 1%Z) by lia.
      replace (Z.to_nat (1 - n)) with 0 by lia. cbn [zeros repeat]. rewrite !app_nil_r.
      pose proof (decimal_parse_sci neg coeff None (Some (exp + n - 1)%Z)) as P.
      cbn [opt_frac opt_exp exp_of length] in P. cbn [app] in P. rewrite !app_nil_r in P. cbn zeta in P.
      cbn [unbs app].
      rewrite P; [|exact Hne|exact Hd|reflexivity]. rewrite Hc. f_equal. f_equal. lia.
    + destruct (all_dig_take_drop 1 coeff Hd) as [Ht Hdr].
      pose proof (decimal_parse_sci neg (take 1 coeff) (Some (drop 1 coeff)) (Some (exp + n - 1)%Z)) as P.
      cbn [opt_frac opt_exp exp_of] in P. cbn zeta in P.
      cbn [unbs app]. change (Z.to_nat 1) with 1.
      change (c_dot :: drop 1 coeff) with ([c_dot] ++ drop 1 coeff).
      cbn [app] in P |- *.
      rewrite P; [|intros E0|exact Ht|exact Hdr].
      2:{ destruct coeff; [congruence|discriminate]. }
      unfold take, drop. rewrite firstn_skipn, Hc, skipn_length. f_equal. f_equal. lia.
  - (* scientific: positive exponent *)
    destruct (Z.leb_spec 1 0); [lia|]. destruct (Z.eqb_spec (exp + n) 1) as [E|E]; [lia|].
    destruct (Z.leb_spec n 1) as [H1|H1].
    + assert (n = 1%Z) by lia.
      replace (Z.to_nat (1 - n)) with 0 by lia. cbn [zeros repeat]. rewrite !app_nil_r.
      pose proof (decimal_parse_sci neg coeff None (Some (exp + n - 1)%Z)) as P.
      cbn [opt_frac opt_exp exp_of length] in P. cbn [app] in P. rewrite !app_nil_r in P. cbn zeta in P.
      cbn [unbs app].
      rewrite P; [|exact Hne|exact Hd|reflexivity]. rewrite Hc. f_equal. f_equal. lia.
    + destruct (all_dig_take_drop 1 coeff Hd) as [Ht Hdr].
      pose proof (decimal_parse_sci neg (take 1 coeff) (Some (drop 1 coeff)) (Some (exp + n - 1)%Z)) as P.
      cbn [opt_frac opt_exp exp_of] in P. cbn zeta in P.
      cbn [unbs app]. change (Z.to_nat 1) with 1.
      cbn [app] in P |- *.
      rewrite P; [|intros E0|exact Ht|exact Hdr].
      2:{ destruct coeff; [congruence|discriminate]. }
      unfold take, drop. rewrite firstn_skipn, Hc, skipn_length. f_equal. f_equal. lia.
Qed.

(* ------------------------------------------------------------------ *)
(* 6. everything decimal_parse returns is well formed                   *)

Lemma decimal_parse_wf s d : decimal_parse s = Some d -> dec_wf d.
Proof.
  unfold decimal_parse.
  set (u := filter (fun b => negb (is_c c_us b)) (strip s)).
  destruct (take_sign u) as [neg t].
  destruct (streqb (lower t) "inf" || streqb (lower t) "infinity").
  { intros H. injection H as <-. exists neg, []. split; [reflexivity|]. left. reflexivity. }
  destruct (bstarts "nan" (lower t) && all_dig (drop 3 (lower t))) eqn:En.
  { intros H. injection H as <-. apply andb_prop in En. destruct En as [_ En].
    exists neg, (drop 3 (lower t)). split; [exact En|]. right. left. reflexivity. }
  destruct (bstarts "snan" (lower t) && all_dig (drop 4 (lower t))) eqn:Es.
  { intros H. injection H as <-. apply andb_prop in Es. destruct Es as [_ Es].
    exists neg, (drop 4 (lower t)). split; [exact Es|]. right. right. reflexivity. }
  destruct (split_on is_e t) as [mant eo]. destruct (exponent_of eo) as [e|]; [|discriminate].
  destruct (split_on (is_c c_dot) mant) as [ip fo].
  destruct (all_dig ip && all_dig (match fo with Some x => x | None => [] end) &&
            negb (nilb ip && nilb (match fo with Some x => x | None => [] end))) eqn:E; [|discriminate].
  intros H. injection H as <-. cbn [dec_wf]. apply canon_digits_wf.
  apply andb_prop in E. destruct E as [E _]. apply andb_prop in E. destruct E as [E1 E2].
  unfold all_dig in *. rewrite forallb_app. now rewrite E1, E2.
Qed.

(* ------------------------------------------------------------------ *)
(* 7. the special values print to text that reads back as the same special value *)

Lemma special_char_plain : forall c,
  implb (is_digit c) (negb (is_space c) && negb (is_c c_us c) && beqb (blower c) c) = true.
Proof. brute1. Qed.

Lemma digits_transparent ds : all_dig ds = true ->
  forallb (fun c => negb (is_space c)) ds = true /\
  forallb (fun b => negb (is_c c_us b)) ds = true /\ lower ds = ds.
Proof.
  intros H.
  assert (F : forall c, In c ds -> is_space c = false /\ is_c c_us c = false /\ blower c = c).
  { intros c Hi. unfold all_dig in H. rewrite forallb_forall in H.
    pose proof (implb_true _ _ (special_char_plain c) (H c Hi)) as F.
    apply andb_prop in F. destruct F as [F F3]. apply andb_prop in F. destruct F as [F1 F2].
    apply negb_true_iff in F1. apply negb_true_iff in F2. apply beqb_eq in F3. auto. }
  repeat split.
  - apply forallb_forall. intros c Hi. destruct (F c Hi) as [-> _]. reflexivity.
  - apply forallb_forall. intros c Hi. destruct (F c Hi) as [_ [-> _]]. reflexivity.
  - apply lower_id. apply forallb_forall. intros c Hi. destruct (F c Hi) as [_ [_ ->]]. apply beqb_refl.
Qed.

(* sign, a fixed alphabetic head that is not blank / underscore, digits *)
Lemma special_pipeline (neg : bool) (head ds : str) :
  forallb (fun c => negb (is_space c) && negb (is_c c_us c) && negb (is_c c_minus c) && negb (is_c c_plus c)) head = true ->
  head <> [] -> all_dig ds = true ->
  let text := (if neg then [c_minus] else []) ++ head ++ ds in
  filter (fun b => negb (is_c c_us b)) (strip text) = text /\
  take_sign text = (neg, head ++ ds) /\ lower (head ++ ds) = lower head ++ ds.
Proof.
  intros Hh Hne Hd text. destruct (digits_transparent ds Hd) as [D1 [D2 D3]].
  assert (H1 : forallb (fun c => negb (is_space c)) head = true).
  { revert Hh. apply forallb_impl. intros c H. repeat (apply andb_prop in H; destruct H as [H ?]). exact H. }
  assert (H2 : forallb (fun c => negb (is_c c_us c)) head = true).
  { revert Hh. apply forallb_impl. intros c H. repeat (apply andb_prop in H; destruct H as [H ?]). assumption. }
  split; [|split].
  - unfold strip. rewrite strip_by_id.
    + apply filter_id. subst text. rewrite !forallb_app, H2, D2. destruct neg; reflexivity.
    + subst text. rewrite !forallb_app, H1, D1. destruct neg; reflexivity.
  - subst text. destruct neg; [reflexivity|]. cbn [app]. apply take_sign_plain.
    destruct head as [|h r]; [congruence|]. cbn [app]. cbn [forallb] in Hh. apply andb_prop in Hh.
    destruct Hh as [Hh _]. repeat (apply andb_prop in Hh; destruct Hh as [Hh ?]).
    split; apply negb_true_iff; assumption.
  - unfold lower. rewrite map_app. fold (lower ds). now rewrite D3.
Qed.

Lemma decimal_reparse_inf (neg : bool) :
  decimal_parse ((if neg then [c_minus] else []) ++ "Infinity") =
  Some (DSpecial ((if neg then [c_minus] else []) ++ "Infinity")).
Proof. destruct neg; vm_compute; reflexivity. Qed.

Lemma decimal_reparse_nan (neg : bool) ds : all_dig ds = true ->
  decimal_parse ((if neg then [c_minus] else []) ++ "NaN" ++ lstrip0 ds) =
  Some (DSpecial ((if neg then [c_minus] else []) ++ "NaN" ++ lstrip0 ds)).
Proof.
  intros Hd. pose proof (lstrip0_all_dig ds Hd) as Hl.
  destruct (special_pipeline neg "NaN" (lstrip0 ds)) as [P1 [P2 P3]]; [reflexivity|discriminate|exact Hl|].
  unfold decimal_parse. rewrite P1, P2, P3.
  change (lower "NaN") with (unbs "nan").
  change (streqb ("nan" ++ lstrip0 ds) "inf") with false.
  change (streqb ("nan" ++ lstrip0 ds) "infinity") with false.
  change (bstarts "nan" ("nan" ++ lstrip0 ds)) with true.
  change (drop 3 ("nan" ++ lstrip0 ds)) with (lstrip0 ds).
  rewrite Hl, lstrip0_idem. reflexivity.
Qed.

Lemma decimal_reparse_snan (neg : bool) ds : all_dig ds = true ->
  decimal_parse ((if neg then [c_minus] else []) ++ "sNaN" ++ lstrip0 ds) =
  Some (DSpecial ((if neg then [c_minus] else []) ++ "sNaN" ++ lstrip0 ds)).
Proof.
  intros Hd. pose proof (lstrip0_all_dig ds Hd) as Hl.
  destruct (special_pipeline neg "sNaN" (lstrip0 ds)) as [P1 [P2 P3]]; [reflexivity|discriminate|exact Hl|].
  unfold decimal_parse. rewrite P1, P2, P3.
  change (lower "sNaN") with (unbs "snan").
  change (streqb ("snan" ++ lstrip0 ds) "inf") with false.
  change (streqb ("snan" ++ lstrip0 ds) "infinity") with false.
  change (bstarts "nan" ("snan" ++ lstrip0 ds)) with false.
  change (bstarts "snan" ("snan" ++ lstrip0 ds)) with true.
  change (drop 4 ("snan" ++ lstrip0 ds)) with (lstrip0 ds).
  rewrite Hl, lstrip0_idem. reflexivity.
Qed.

(* ------------------------------------------------------------------ *)
(* 8. Decimal(str(d)) = d for every d that Decimal(text) can return    *)

Theorem decimal_reparse d : dec_wf d -> decimal_parse (decimal_str d) = Some d.
Proof.
  destruct d as [neg c x|t]; cbn [dec_wf].
  - apply decimal_reparse_fin.
  - intros [neg [ds [Hd [->|[->| ->]]]]]; cbn [decimal_str].
    + apply decimal_reparse_inf.
    + now apply decimal_reparse_nan.
    + now apply decimal_reparse_snan.
Qed.

Theorem decimal_parse_str_parse s d : decimal_parse s = Some d -> decimal_parse (decimal_str d) = Some d.
Proof. intros H. apply decimal_reparse. exact (decimal_parse_wf s d H). Qed.

(* ---- NM ---- *)

Lemma impl_NM_inv strict ml s e : s <> [] -> impl_NM strict ml s = Ok e ->
  exists d, decimal_parse s = Some d /\ e = decimal_str d.
Proof.
  intros Hs H. unfold impl_NM in H. destruct s as [|c s]; [congruence|]. cbn [nilb] in H.
  destruct (decimal_parse (c :: s)) as [d|]; [|discriminate]. exists d. split; [reflexivity|].
  destruct (strict && too_long ml (decimal_str d)); [discriminate|]. apply Ok_inj in H. now subst.
Qed.

(* exact: the encoded text reads back as the very same decimal (sign, coefficient digits, exponent;
   for NaN / sNaN / Infinity: sign, kind and payload) *)
Theorem NM_reparse_exact strict ml s e : s <> [] -> impl_NM strict ml s = Ok e ->
  exists d, decimal_parse s = Some d /\ e = decimal_str d /\ decimal_parse e = Some d.
Proof.
  intros Hs H. destruct (impl_NM_inv strict ml s e Hs H) as [d [Hp ->]]. exists d.
  repeat split; auto. exact (decimal_parse_str_parse s d Hp).
Qed.

Theorem NM_same_number strict ml s e : s <> [] -> impl_NM strict ml s = Ok e ->
  exists d d', decimal_parse s = Some d /\ decimal_parse e = Some d' /\ dec_same_number d d'.
Proof.
  intros Hs H. destruct (NM_reparse_exact strict ml s e Hs H) as [d [H1 [_ H2]]].
  exists d, d. repeat split; auto. apply dec_same_number_refl.
Qed.

(* the finite case spelled out: same signed coefficient and same exponent *)
Theorem NM_same_value strict ml s e d : s <> [] -> impl_NM strict ml s = Ok e ->
  decimal_parse s = Some d -> finite_dec d = true ->
  exists c x, dec_value d = Some (c, x) /\
    exists d', decimal_parse e = Some d' /\ finite_dec d' = true /\ dec_value d' = Some (c, x).
Proof.
  intros Hs H Hp Hf. destruct (NM_reparse_exact strict ml s e Hs H) as [d0 [H1 [_ H2]]].
  rewrite Hp in H1. injection H1 as <-. destruct d as [neg c x|t]; [|discriminate].
  exists (dec_signed neg c), x. split; [reflexivity|]. exists (DFin neg c x). auto.
Qed.

(* the special values (finding F10: Decimal() takes NaN, sNaN, Infinity) are not numbers; they too are
   re-encoded to text that reads back as the same special value *)
Theorem NM_special_reparse strict ml s e t : s <> [] -> impl_NM strict ml s = Ok e ->
  decimal_parse s = Some (DSpecial t) -> e = t /\ decimal_parse e = Some (DSpecial t).
Proof.
  intros Hs H Hp. destruct (NM_reparse_exact strict ml s e Hs H) as [d0 [H1 [H2 H3]]].
  rewrite Hp in H1. injection H1 as <-. cbn [decimal_str] in H2. subst e. auto.
Qed.

(* ------------------------------------------------------------------ *)
(* 9. canonical numerals: str(n) is the inverse of reading a canonical digit string *)

Lemma digit_val_zero : forall c, implb (is_digit c && N.eqb (digit_val c) 0) (is_c c_0 c) = true.
Proof. brute1. Qed.

Definition lead_nz (c : str) : Prop := match c with h :: _ => is_c c_0 h = false | [] => True end.

Lemma lstrip0_fix_lead c : lstrip0 c = c -> lead_nz c.
Proof.
  destruct c as [|h r]; [exact (fun _ => I)|]. unfold lstrip0. cbn [lstrip_by lead_nz].
  destruct (is_c c_0 h); [|reflexivity]. intros H. pose proof (lstrip0_len r) as L. unfold lstrip0 in L.
  rewrite H in L. cbn [length] in L. lia.
Qed.

Lemma fold_digits_ge r : forall a, (a <= fold_left (fun acc b => acc * 10 + digit_val b) r a)%N.
Proof.
  induction r as [|x r IH]; intros a; cbn [fold_left]; [lia|].
  specialize (IH (a * 10 + digit_val x)%N). lia.
Qed.

Lemma digits_val_pos c : c <> [] -> lead_nz c -> all_dig c = true -> (0 < digits_val c)%N.
Proof.
  destruct c as [|h r]; [congruence|]. intros _ Hl Hd. cbn [lead_nz] in Hl.
  cbn [all_dig forallb] in Hd. apply andb_prop in Hd. destruct Hd as [Hh _].
  assert (Hv : digit_val h <> 0%N).
  { intros E. pose proof (digit_val_zero h) as F. rewrite Hh, E in F. cbn [N.eqb andb implb] in F. congruence. }
  unfold digits_val. cbn [fold_left]. pose proof (fold_digits_ge r (0 * 10 + digit_val h)%N). lia.
Qed.

Lemma N_to_str_aux_canon f : forall c, all_dig c = true -> lead_nz c -> c <> [] ->
  (digits_val c < 2 ^ N.of_nat f)%N -> N_to_str_aux f (digits_val c) [] = c.
Proof.
  induction f as [|f IH]; intros c Hd Hl Hne Hlt.
  - change (2 ^ N.of_nat 0)%N with 1%N in Hlt. pose proof (digits_val_pos c Hne Hl Hd). lia.
  - destruct (exists_last Hne) as [c' [x ->]].
    unfold all_dig in Hd. rewrite forallb_app in Hd. apply andb_prop in Hd. destruct Hd as [Hd' Hx].
    cbn [forallb] in Hx. rewrite andb_true_r in Hx.
    pose proof (implb_true _ _ (dv_le9 x) Hx) as L9. apply N.leb_le in L9.
    pose proof (beqb_eq _ _ (implb_true _ _ (digit_of_val x) Hx)) as Hdx.
    rewrite digits_val_snoc in *. set (v := digits_val c') in *. set (dx := digit_val x) in *.
    assert (Em : ((v * 10 + dx) mod 10 = dx)%N) by (symmetry; apply N.mod_unique with v; lia).
    assert (Eq : ((v * 10 + dx) / 10 = v)%N) by (symmetry; apply N.div_unique with dx; lia).
    cbn [N_to_str_aux]. rewrite Em, Eq, Hdx.
    assert (Hl' : lead_nz c') by (destruct c'; [exact I|exact Hl]).
    destruct (N.eqb_spec v 0) as [E|E].
    + destruct c' as [|h r]; [reflexivity|].
      assert (0 < v)%N by (apply digits_val_pos; [discriminate|exact Hl'|exact Hd']). lia.
    + rewrite N_to_str_aux_acc. unfold v at 1. rewrite IH; auto.
      * intros ->. apply E. reflexivity.
      * fold v. rewrite Nat2N.inj_succ, N.pow_succ_r' in Hlt. lia.
Qed.

Theorem N_to_str_canon c : canon_coeff c -> N_to_str (digits_val c) = c.
Proof.
  intros Hc. destruct (canon_coeff_cases c Hc) as [->|[Hl Hne]]; [reflexivity|].
  destruct Hc as [_ [Hd _]]. apply lstrip0_fix_lead in Hl.
  pose proof (digits_val_pos c Hne Hl Hd) as Hp.
  unfold N_to_str. apply N_to_str_aux_canon; auto.
  rewrite Nat2N.inj_succ, N2Nat.id. destruct (digits_val c) as [|p]; [lia|]. apply N.log2_spec. lia.
Qed.

(* ------------------------------------------------------------------ *)
(* 10. SI: str(int(text))                                               *)

Definition sgn (neg : bool) : Z := if neg then (-1)%Z else 1%Z.
Definition sg_str (neg : bool) : str := if neg then [c_minus] else [].

Lemma forallb_filter {A} (p : A -> bool) l : forallb p (filter p l) = true.
Proof.
  induction l as [|x l IH]; [reflexivity|]. cbn [filter]. destruct (p x) eqn:E; [|exact IH].
  cbn [forallb]. now rewrite E.
Qed.

Lemma int_parse_inv s o : int_parse s = Some o ->
  exists neg body, take_sign (strip_by is_space_int s) = (neg, body) /\ int_lex body = true /\
    let c := canon_digits (filter is_digit body) in
    o = sg_str (neg && negb (streqb c [c_0])) ++ c /\
    int_value s = Some (sgn neg * Z.of_N (digits_val c))%Z /\ canon_coeff c.
Proof.
  unfold int_parse, int_value. destruct (take_sign (strip_by is_space_int s)) as [neg body].
  destruct (int_lex body) eqn:L; [|discriminate]. intros H. injection H as <-.
  assert (W : canon_coeff (canon_digits (filter is_digit body))).
  { apply canon_digits_wf. apply forallb_filter. }
  exists neg, body. split; [reflexivity|]. split; [exact L|]. cbv zeta. split; [reflexivity|].
  split; [|exact W].
  rewrite canon_same_number; [reflexivity|apply forallb_filter].
Qed.

(* int() on a canonical numeral *)
Lemma int_canonical (neg : bool) c : canon_coeff c ->
  int_parse (sg_str neg ++ c) = Some (sg_str (neg && negb (streqb c [c_0])) ++ c) /\
  int_value (sg_str neg ++ c) = Some (sgn neg * Z.of_N (digits_val c))%Z.
Proof.
  intros [Hne [Hd Hc]].
  assert (Hall : forall x, In x c -> is_digit x = true) by (unfold all_dig in Hd; now rewrite forallb_forall in Hd).
  destruct c as [|h r]; [congruence|]. assert (Hh : is_digit h = true) by (apply Hall; now left).
  assert (Hst : strip_by is_space_int (sg_str neg ++ h :: r) = sg_str neg ++ h :: r).
  { apply strip_by_id. rewrite forallb_app. apply andb_true_intro. split; [destruct neg; reflexivity|].
    apply forallb_forall. intros x Hx. destruct (digit_facts x (Hall x Hx)) as [E _]. cbv beta. now rewrite E. }
  assert (Hts : take_sign (sg_str neg ++ h :: r) = (neg, h :: r)).
  { destruct neg; [reflexivity|]. cbn [sg_str app]. apply take_sign_plain.
    destruct (digit_facts h Hh) as [_ [_ [E1 [E2 _]]]]. auto. }
  assert (Hlex : int_lex (h :: r) = true).
  { unfold int_lex. rewrite Hh. cbn [andb]. now apply int_body_digits. }
  unfold int_parse, int_value. rewrite Hst, Hts, Hlex, (filter_id is_digit (h :: r) Hd), Hc. auto.
Qed.

Theorem SI_same_number strict ml s e : s <> [] -> impl_SI strict ml s = Ok e ->
  exists z, int_value s = Some z /\ e = Z_to_str z /\ int_value e = Some z /\ int_parse e = Some e.
Proof.
  intros Hs H. unfold impl_SI in H. destruct s as [|c0 s0]; [congruence|]. cbn [nilb] in H.
  destruct (int_parse (c0 :: s0)) as [o|] eqn:Ep; [|discriminate].
  assert (o = e) as ->.
  { destruct (strict && too_long ml o); [discriminate|]. now apply Ok_inj in H. }
  clear H. destruct (int_parse_inv _ _ Ep) as [neg [body [_ [_ H]]]]. cbv zeta in H.
  set (c := canon_digits (filter is_digit body)) in *. destruct H as [He [Hv Hc]].
  destruct (int_canonical (neg && negb (streqb c [c_0])) c Hc) as [P1 P2].
  exists (sgn neg * Z.of_N (digits_val c))%Z. split; [exact Hv|].
  destruct (streqb_spec c [c_0]) as [E0|E0].
  - (* zero: int('-0') = 0 *)
    rewrite andb_false_r in *. cbn [negb sg_str app] in *. subst e. rewrite E0 in *.
    change (digits_val [c_0]) with 0%N. rewrite Z.mul_0_r.
    split; [reflexivity|]. split; [exact P2|exact P1].
  - rewrite andb_true_r in *. cbn [negb] in *. rewrite andb_true_r in *. subst e.
    destruct (canon_coeff_cases c Hc) as [E|[Hl Hne]]; [congruence|]. apply lstrip0_fix_lead in Hl.
    destruct Hc as [Hc1 [Hd Hc3]]. pose proof (digits_val_pos c Hne Hl Hd) as Hp.
    repeat split; [|exact P2|exact P1].
    unfold Z_to_str. set (v := digits_val c) in *.
    assert (Ha : Z.abs_N (sgn neg * Z.of_N v) = v) by (destruct neg; unfold sgn; lia).
    rewrite Ha. subst v. rewrite N_to_str_canon by (repeat split; auto).
    f_equal. destruct neg; unfold sgn, sg_str.
    + destruct (Z.ltb_spec (-1 * Z.of_N (digits_val c)) 0); [reflexivity|lia].
    + destruct (Z.ltb_spec (1 * Z.of_N (digits_val c)) 0); [lia|reflexivity].
Qed.

(* ------------------------------------------------------------------ *)
(* 11. the value is the obvious reading of HL7 text                     *)

(* text over the HL7 numeric alphabet [+-]ip[.fp] denotes  +-(ip fp) * 10^-|fp| *)
Theorem NM_value_plain s d : forallb nm_clean s = true -> decimal_parse s = Some d ->
  match split_on (is_c c_dot) (snd (take_sign s)) with
  | (ip, fo) =>
      let fp := match fo with Some x => x | None => [] end in
      dec_value d = Some (dec_signed (fst (take_sign s)) (ip ++ fp), (- Z.of_nat (length fp))%Z)
  end.
Proof.
  intros Hc. rewrite (decimal_parse_clean s Hc).
  destruct (split_on (is_c c_dot) (snd (take_sign s))) as [ip fo]. cbv zeta.
  destruct (all_dig ip && all_dig (match fo with Some x => x | None => [] end) &&
            negb (nilb ip && nilb (match fo with Some x => x | None => [] end))) eqn:E; [|discriminate].
  intros H. injection H as <-. cbn [dec_value]. unfold dec_signed.
  apply andb_prop in E. destruct E as [E _]. apply andb_prop in E. destruct E as [E1 E2].
  rewrite canon_same_number; [f_equal|].
  unfold all_dig in *. rewrite forallb_app. now rewrite E1, E2.
Qed.

(* a digit string denotes the integer it spells *)
Theorem int_value_spec s : spec_SI s = true -> int_value s = Some (Z.of_N (digits_val s)).
Proof.
  intros H. pose proof (int_parse_spec s H) as P. destruct (int_parse_inv _ _ P) as [neg [body [Ht [Hl [_ [Hv _]]]]]].
  unfold spec_SI in H. apply andb_prop in H. destruct H as [Hn Hd].
  assert (Hall : forall c, In c s -> is_digit c = true) by (unfold all_dig in Hd; rewrite forallb_forall in Hd; auto).
  rewrite strip_by_id in Ht.
  2:{ apply forallb_forall. intros c Hc. destruct (digit_facts c (Hall c Hc)) as [E _]. cbv beta. apply negb_true_iff. exact E. }
  rewrite take_sign_plain in Ht.
  2:{ destruct s as [|c s]; auto. destruct (digit_facts c (Hall c (or_introl eq_refl))) as [_ [_ [E1 [E2 _]]]]. auto. }
  injection Ht as <- <-. rewrite Hv. rewrite (filter_id is_digit s Hd), canon_same_number by exact Hd.
  unfold sgn. f_equal. lia.
Qed.
